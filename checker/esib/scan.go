package esib

import (
	"go/token"
	"go/types"

	"golang.org/x/tools/go/ssa"

	"voicheck/load"
	"voicheck/report"
)

// Masked scan (DESIGN E-SIB): a constant-time table lookup of the digit x
//
//	starts from the identity,
//	for j = 1..len(table): selects entry j-1 under the mask CompareByte(|x|, j),
//	ends with a conditional negation under the sign mask of x.
//
// Abstraction used: every ConditionalAssign(&tbl[idx], c) on the result has
// c = ConstantTimeCompareByte(|x|, cmp); the multiset of (idx, cmp) pairs —
// enumerated through the counting loop or read off the unrolled calls — is
// exactly {(j-1, j) : 1 <= j <= len(table)}.  |x| is recognised as
// uint8((x + x>>7) ^ x>>7) and the sign mask as int(byte(x>>7 & 1)).

// ScanResult describes one constant-time Lookup.
type ScanResult struct {
	Lookup  string `json:"lookup"`
	Scan    string `json:"scan"`   // function that holds the scan
	Status  string `json:"status"` // decided | assembly | stub
	Entries int64  `json:"entries"`
	Form    string `json:"form,omitempty"` // loop | unrolled
}

// ---------------------------------------------------------------------------
// Values seen through small helpers.
//
// The recognisers below read integer expressions of the Lookup body.  A
// behaviour-preserving refactor may move a sub-expression into an unexported
// helper (`xabs, xmask := lookupAbs(x)`), so an expression is followed INTO
// the statically known callee: cv is an SSA value together with the frame
// (callee, actual arguments) it lives in.  peel strips integer conversions,
// replaces a parameter of an inlined helper by the actual argument, and a call
// (or one result of a call) of a straight-line helper of package curve by the
// operand of its return statement.  Locals need no treatment: SSA has none.
// ---------------------------------------------------------------------------

type frame struct {
	fn    *ssa.Function
	args  []cv
	depth int
}

type cv struct {
	v ssa.Value
	f *frame // nil: a value of the function under analysis
}

// exprHelper returns the return instruction of g if g is a helper an
// expression can be followed into: package curve, one basic block (branch-free,
// hence also loop-free), no free variables.
func exprHelper(g *ssa.Function) *ssa.Return {
	if g == nil || len(g.Blocks) != 1 || len(g.FreeVars) != 0 || g.Pkg == nil || load.Rel(g.Pkg.Pkg) != curveRel {
		return nil
	}
	b := g.Blocks[0]
	ret, _ := b.Instrs[len(b.Instrs)-1].(*ssa.Return)
	return ret
}

func peel(c cv) cv {
	for i := 0; i < 64; i++ {
		switch w := c.v.(type) {
		case *ssa.Convert:
			c.v = w.X
			continue
		case *ssa.ChangeType:
			c.v = w.X
			continue
		case *ssa.Parameter:
			if c.f == nil {
				return c
			}
			found := false
			for k, p := range c.f.fn.Params {
				if p == w && k < len(c.f.args) {
					c, found = c.f.args[k], true
					break
				}
			}
			if !found {
				return c
			}
			continue
		case *ssa.Extract:
			call, ok := w.Tuple.(*ssa.Call)
			if !ok {
				return c
			}
			if r, ok := enter(call, c.f, w.Index); ok {
				c = r
				continue
			}
			return c
		case *ssa.Call:
			if w.Call.Signature().Results().Len() != 1 {
				return c
			}
			if r, ok := enter(w, c.f, 0); ok {
				c = r
				continue
			}
			return c
		}
		return c
	}
	return c
}

// enter follows result #idx of call into its callee.
func enter(call *ssa.Call, f *frame, idx int) (cv, bool) {
	g := call.Call.StaticCallee()
	ret := exprHelper(g)
	depth := 0
	if f != nil {
		depth = f.depth
	}
	if ret == nil || idx >= len(ret.Results) || depth >= 3 {
		return cv{}, false
	}
	nf := &frame{fn: g, depth: depth + 1}
	for _, a := range call.Call.Args {
		nf.args = append(nf.args, cv{a, f})
	}
	return cv{ret.Results[idx], nf}, true
}

func (c cv) binop(op token.Token) (x, y cv, ok bool) {
	b, isB := c.v.(*ssa.BinOp)
	if !isB || b.Op != op {
		return cv{}, cv{}, false
	}
	return cv{b.X, c.f}, cv{b.Y, c.f}, true
}

func (c cv) isConst(k int64) bool {
	v, ok := constInt(c.v)
	return ok && v == k
}

// same reports whether c is the root value x (a parameter of the function
// under analysis) after peeling.
func same(c cv, x ssa.Value) bool {
	c = peel(c)
	return c.f == nil && c.v == x
}

// isShr7 recognises x >> 7 (arithmetic shift of the int8 digit: all ones iff x < 0).
func isShr7(c cv, x ssa.Value) bool {
	a, k, ok := peel(c).binop(token.SHR)
	return ok && k.isConst(7) && isSignedInt(a.v.Type()) && same(a, x)
}

// isSignedInt: a signed integer type of any width (the sign-extended digit
// shifted right by 7 is all ones iff the digit is negative).
func isSignedInt(t types.Type) bool {
	b, ok := t.Underlying().(*types.Basic)
	return ok && b.Info()&types.IsInteger != 0 && b.Info()&types.IsUnsigned == 0
}

func isSigned8(t types.Type) bool {
	b, ok := t.Underlying().(*types.Basic)
	return ok && b.Kind() == types.Int8
}

func isUnsigned8(t types.Type) bool {
	b, ok := t.Underlying().(*types.Basic)
	return ok && (b.Kind() == types.Uint8)
}

// isAbs recognises |x| as uint8((x + m) ^ m) or uint8((x ^ m) - m) with m = x >> 7,
// operands of the commutative operators in any order.
func isAbs(c cv, x ssa.Value) bool {
	c = peel(c)
	if a, b, ok := c.binop(token.XOR); ok {
		for _, pr := range [][2]cv{{a, b}, {b, a}} {
			if !isShr7(pr[1], x) {
				continue
			}
			if p, q, ok := peel(pr[0]).binop(token.ADD); ok {
				if (same(p, x) && isShr7(q, x)) || (same(q, x) && isShr7(p, x)) {
					return true
				}
			}
		}
	}
	if a, b, ok := c.binop(token.SUB); ok && isShr7(b, x) {
		if p, q, ok := peel(a).binop(token.XOR); ok {
			if (same(p, x) && isShr7(q, x)) || (same(q, x) && isShr7(p, x)) {
				return true
			}
		}
	}
	return false
}

// isSignMask recognises the 0/1 sign of x: (x >> 7) & 1, or uint8(x) >> 7
// (logical shift of the byte).
func isSignMask(c cv, x ssa.Value) bool {
	c = peel(c)
	if a, b, ok := c.binop(token.AND); ok {
		for _, pr := range [][2]cv{{a, b}, {b, a}} {
			if pr[1].isConst(1) && isShr7(pr[0], x) {
				return true
			}
		}
	}
	if a, k, ok := c.binop(token.SHR); ok && k.isConst(7) && isUnsigned8(a.v.Type()) {
		if cvt, isC := a.v.(*ssa.Convert); isC && isSigned8(cvt.X.Type()) && same(cv{cvt.X, a.f}, x) {
			return true
		}
	}
	return false
}

// affine expresses c as counter+off (iv != nil) or as the constant off; the
// counter is a counting-loop variable of the function under analysis.
func affine(c cv) (iv *induction, off int64, ok bool) {
	return affineDepth(c, 0)
}

func affineDepth(c cv, depth int) (iv *induction, off int64, ok bool) {
	c = peel(c)
	if k, isK := constInt(c.v); isK {
		return nil, k, true
	}
	if c.f == nil {
		if iv, d, isC := loopCounter(c.v); isC {
			return iv, d, true
		}
	}
	if depth > 4 {
		return nil, 0, false
	}
	if b, isB := c.v.(*ssa.BinOp); isB && (b.Op == token.ADD || b.Op == token.SUB) {
		if k, isK := constInt(b.Y); isK {
			if iv, d, ok := affineDepth(cv{b.X, c.f}, depth+1); ok {
				if b.Op == token.SUB {
					k = -k
				}
				return iv, d + k, true
			}
		}
		if k, isK := constInt(b.X); isK && b.Op == token.ADD {
			if iv, d, ok := affineDepth(cv{b.Y, c.f}, depth+1); ok {
				return iv, d + k, true
			}
		}
	}
	return nil, 0, false
}

// site is a call on the result location: the call, the helper frame it was
// found in (nil: the scan function itself) and the instruction of the scan
// function it belongs to (for ordering).
type site struct {
	call *ssa.Call
	f    *frame
	top  ssa.Instruction
}

func methodNamed(c *ssa.Function, name string) bool {
	return c != nil && c.Signature.Recv() != nil && c.Name() == name
}

func reaches(from, to *ssa.BasicBlock) bool {
	seen := map[*ssa.BasicBlock]bool{}
	var dfs func(b *ssa.BasicBlock) bool
	dfs = func(b *ssa.BasicBlock) bool {
		if b == to {
			return true
		}
		if seen[b] {
			return false
		}
		seen[b] = true
		for _, s := range b.Succs {
			if dfs(s) {
				return true
			}
		}
		return false
	}
	for _, s := range from.Succs {
		if dfs(s) {
			return true
		}
	}
	return false
}

func instrIndex(in ssa.Instruction) int {
	for i, x := range in.Block().Instrs {
		if x == in {
			return i
		}
	}
	return -1
}

// before reports whether a is executed before b on every path reaching b
// (dominance, or earlier in the same block).
func before(a, b ssa.Instruction) bool {
	if a.Block() == b.Block() {
		return instrIndex(a) < instrIndex(b)
	}
	return a.Block().Dominates(b.Block())
}

// checkScan decides the scan part in fn: tbl is the table pointer, recv the
// result location, isX recognises |x|.  It returns the diagnosis ("" = ok).
func checkScan(fn *ssa.Function, tbl, recv ssa.Value, isX func(cv) bool) (form string, n int64, pos token.Pos, diag string) {
	arr, ok := isArrayPtr(tbl.Type())
	if !ok {
		return "", 0, fn.Pos(), "the table is not a pointer to an array"
	}
	n = arr.Len()
	// the Identity / ConditionalAssign calls on the result, also those made
	// inside straight-line helpers of package curve (followed like expressions)
	var idents, assigns []site
	var collect func(blocks []*ssa.BasicBlock, f *frame, outer ssa.Instruction)
	collect = func(blocks []*ssa.BasicBlock, f *frame, outer ssa.Instruction) {
		for _, b := range blocks {
			for _, in := range b.Instrs {
				call, ok := in.(*ssa.Call)
				if !ok {
					continue
				}
				c := call.Call.StaticCallee()
				if c == nil || len(call.Call.Args) == 0 {
					continue
				}
				top := outer
				if top == nil {
					top = in
				}
				onResult := same(cv{call.Call.Args[0], f}, recv)
				switch {
				case methodNamed(c, "Identity") && onResult:
					idents = append(idents, site{call, f, top})
				case methodNamed(c, "ConditionalAssign") && onResult:
					assigns = append(assigns, site{call, f, top})
				default:
					depth := 0
					if f != nil {
						depth = f.depth
					}
					if len(c.Blocks) == 1 && len(c.FreeVars) == 0 && c.Pkg != nil && load.Rel(c.Pkg.Pkg) == curveRel && depth < 3 {
						passes := false
						for _, a := range call.Call.Args {
							if same(cv{a, f}, recv) {
								passes = true
							}
						}
						if passes {
							nf := &frame{fn: c, depth: depth + 1}
							for _, a := range call.Call.Args {
								nf.args = append(nf.args, cv{a, f})
							}
							collect(c.Blocks, nf, top)
						}
					}
				}
			}
		}
	}
	collect(fn.Blocks, nil, nil)
	if len(idents) == 0 {
		return "", n, fn.Pos(), "the result is not initialised with Identity()"
	}
	if len(assigns) == 0 {
		return "", n, fn.Pos(), "no ConditionalAssign on the result: not a masked scan"
	}
	ident := idents[0]
	for _, id := range idents[1:] {
		for _, ca := range assigns {
			if !before(id.top, ca.top) {
				return "", n, id.call.Pos(), "the result is reset with Identity() after a ConditionalAssign can have executed"
			}
		}
	}
	type pair struct{ idx, cmp int64 }
	seen := map[pair]int{}
	form = "unrolled"
	for _, ca := range assigns {
		pos = ca.top.Pos()
		if !before(ident.top, ca.top) {
			return form, n, pos, "a ConditionalAssign is not preceded by Identity() on every path"
		}
		if len(ca.call.Call.Args) != 3 {
			return form, n, pos, "unexpected ConditionalAssign signature"
		}
		entry := peel(cv{ca.call.Call.Args[1], ca.f})
		ia, ok := entry.v.(*ssa.IndexAddr)
		if !ok || !same(cv{ia.X, entry.f}, tbl) {
			return form, n, pos, "the entry assigned is not an element of the table"
		}
		mask := peel(cv{ca.call.Call.Args[2], ca.f})
		cmpCall, ok := mask.v.(*ssa.Call)
		var cc *ssa.Function
		if ok {
			cc = cmpCall.Call.StaticCallee()
		}
		if cc == nil || cc.Name() != "ConstantTimeCompareByte" || cc.Pkg == nil || load.Rel(cc.Pkg.Pkg) != subtleRel || len(cmpCall.Call.Args) != 2 {
			return form, n, pos, "the selection mask is not subtle.ConstantTimeCompareByte(|x|, j)"
		}
		a0, a1 := cv{cmpCall.Call.Args[0], mask.f}, cv{cmpCall.Call.Args[1], mask.f}
		var cmpC cv
		switch {
		case isX(a0):
			cmpC = a1
		case isX(a1):
			cmpC = a0
		default:
			return form, n, pos, "the selection mask does not compare |x| (= uint8((x + x>>7) ^ x>>7))"
		}
		ivI, offI, ok1 := affine(cv{ia.Index, entry.f})
		ivC, offC, ok2 := affine(cmpC)
		if !ok1 || !ok2 {
			return form, n, pos, "table index or compared value is not (loop counter + constant)"
		}
		switch {
		case ivI == nil && ivC == nil:
			seen[pair{offI, offC}]++
		case ivI != nil && ivC != nil && ivI.phi == ivC.phi:
			form = "loop"
			vals := ivI.values(1024)
			if vals == nil {
				return form, n, pos, "loop bounds not recognised"
			}
			for _, v := range vals {
				seen[pair{v + offI, v + offC}]++
			}
		default:
			return form, n, pos, "table index and compared value do not move together"
		}
	}
	for j := int64(1); j <= n; j++ {
		switch seen[pair{j - 1, j}] {
		case 1:
			delete(seen, pair{j - 1, j})
		case 0:
			return form, n, pos, sprintf("entry %d (selected for |x| = %d) is never visited: the scan does not cover the %d-entry table", j-1, j, n)
		default:
			return form, n, pos, sprintf("entry %d is visited more than once", j-1)
		}
	}
	for p := range seen {
		return form, n, pos, sprintf("extra scan step (index %d selected for |x| = %d): index and compared value must differ by exactly 1 within 1..%d", p.idx, p.cmp, n)
	}
	return form, n, pos, ""
}

// CheckMaskedScan decides the masked-scan rule for every constant-time
// Lookup method (parameter of type int8) of package curve in configuration
// p, following the delegation to lookupAffineNiels / lookupCached.  One
// instance per Lookup whose scan is Go code in this configuration; assembly
// and vector-only stubs are returned with their status (E-ASM covers the
// assembly twins).
func CheckMaskedScan(run *report.Run, p *load.Program, ruleID string) []ScanResult {
	ru := run.Rule(ruleID, "constant-time lookups start from the identity, visit every table entry exactly once with selector CompareByte(|x|, j) for entry j-1, and end with the conditional negation", 0)
	pk := p.Pkg(curveRel)
	spk := p.SSAPkg(curveRel)
	if pk == nil || spk == nil {
		run.Fatal("E-SIB scan: package %s not loaded with SSA", curveRel)
		return nil
	}
	errG, _ := spk.Members[stubErrName].(*ssa.Global)
	var res []ScanResult
	sc := pk.Types.Scope()
	for _, name := range sc.Names() {
		tn, ok := sc.Lookup(name).(*types.TypeName)
		if !ok {
			continue
		}
		named, ok := tn.Type().(*types.Named)
		if !ok {
			continue
		}
		for i := 0; i < named.NumMethods(); i++ {
			m := named.Method(i)
			sig := m.Type().(*types.Signature)
			if m.Name() != "Lookup" || sig.Params().Len() != 1 {
				continue
			}
			if b, ok := sig.Params().At(0).Type().Underlying().(*types.Basic); !ok || b.Kind() != types.Int8 {
				continue // unsigned digit: variable-time NAF table, direct indexing
			}
			fn := p.SSA.FuncValue(m)
			construct := objKey(m)
			r := ScanResult{Lookup: construct, Scan: construct}
			if fn == nil || len(fn.Blocks) == 0 || len(fn.Params) != 2 {
				ru.Failf(p.Pos(m.Pos()), construct, "constant-time Lookup has no analysable Go body")
				continue
			}
			tbl, x := ssa.Value(fn.Params[0]), ssa.Value(fn.Params[1])
			// the conditional negation on the sign mask
			var neg *ssa.Call
			for _, b := range fn.Blocks {
				for _, in := range b.Instrs {
					if call, ok := in.(*ssa.Call); ok && methodNamed(call.Call.StaticCallee(), "ConditionalNegate") {
						neg = call
					}
				}
			}
			if neg == nil || len(neg.Call.Args) != 2 || !isSignMask(cv{neg.Call.Args[1], nil}, x) {
				ru.Failf(p.Pos(m.Pos()), construct, "Lookup does not end with ConditionalNegate(int(byte(x>>7 & 1))) on the result")
				continue
			}
			recv := neg.Call.Args[0]
			// delegation of the scan: a call of a function of package curve that
			// receives the table and the result location (in any argument
			// position) and |x| or x itself
			scanFn, scanTbl, scanRecv := fn, tbl, recv
			isX := func(c cv) bool { return isAbs(c, x) }
			var deleg *ssa.Call
			ti, ri := -1, -1
			for _, b := range fn.Blocks {
				for _, in := range b.Instrs {
					call, ok := in.(*ssa.Call)
					if !ok {
						continue
					}
					c := call.Call.StaticCallee()
					if c == nil || c.Pkg == nil || load.Rel(c.Pkg.Pkg) != curveRel || methodNamed(c, "ConditionalNegate") || methodNamed(c, "ConditionalAssign") || methodNamed(c, "Identity") {
						continue
					}
					a, r := -1, -1
					for k, arg := range call.Call.Args {
						switch arg {
						case tbl:
							a = k
						case recv:
							r = k
						}
					}
					if a >= 0 && r >= 0 {
						deleg, ti, ri = call, a, r
					}
				}
			}
			if deleg != nil {
				g := deleg.Call.StaticCallee()
				r.Scan = funcKey(g)
				// which argument carries the digit: |x| (the usual form) or x
				absArg, rawArg := -1, -1
				for k, arg := range deleg.Call.Args {
					switch {
					case k == ti || k == ri:
					case isAbs(cv{arg, nil}, x):
						absArg = k
					case same(cv{arg, nil}, x):
						rawArg = k
					}
				}
				if absArg < 0 && rawArg < 0 {
					ru.Failf(p.Pos(deleg.Pos()), construct, "the scan helper %s is not called with |x| = uint8((x + x>>7) ^ x>>7)", funcKey(g))
					continue
				}
				if !before(deleg, neg) {
					ru.Failf(p.Pos(deleg.Pos()), construct, "ConditionalNegate does not follow the scan")
					continue
				}
				switch {
				case len(g.Blocks) == 0:
					// the Go wrapper (|x|, delegation, sign mask) is decided here,
					// the scan itself is assembly (E-ASM)
					if absArg < 0 {
						ru.Failf(p.Pos(deleg.Pos()), construct, "the assembly scan %s is not called with |x| = uint8((x + x>>7) ^ x>>7)", funcKey(g))
						continue
					}
					r.Status = "assembly"
					if a, ok := isArrayPtr(tbl.Type()); ok {
						r.Entries = a.Len()
					}
					ru.OK(construct + " (wrapper; scan in assembly)")
					res = append(res, r)
					continue
				case errG != nil && isStub(g, errG):
					r.Status = "stub"
					ru.OK(construct + " (wrapper; vector-only stub)")
					res = append(res, r)
					continue
				}
				if ti >= len(g.Params) || ri >= len(g.Params) {
					ru.Failf(p.Pos(deleg.Pos()), construct, "the scan helper %s cannot be analysed (arguments do not map to parameters)", funcKey(g))
					continue
				}
				scanFn, scanTbl, scanRecv = g, g.Params[ti], g.Params[ri]
				if absArg >= 0 {
					xa := ssa.Value(g.Params[absArg])
					isX = func(c cv) bool { return same(c, xa) }
				} else {
					xr := ssa.Value(g.Params[rawArg])
					isX = func(c cv) bool { return isAbs(c, xr) }
				}
			}
			form, n, pos, diag := checkScan(scanFn, scanTbl, scanRecv, isX)
			r.Form, r.Entries, r.Status = form, n, "decided"
			if diag == "" && deleg == nil {
				// the negation must come after the whole scan
				for _, b := range fn.Blocks {
					for _, in := range b.Instrs {
						if call, ok := in.(*ssa.Call); ok && methodNamed(call.Call.StaticCallee(), "ConditionalAssign") {
							if call.Block() == neg.Block() && instrIndex(call) > instrIndex(neg) || reaches(neg.Block(), call.Block()) {
								diag, pos = "a ConditionalAssign can execute after the ConditionalNegate", call.Pos()
							}
						}
					}
				}
			}
			if diag != "" {
				ru.Failf(p.Pos(pos), r.Scan, "masked scan of %s: %s", construct, diag)
			} else {
				ru.OK(construct)
			}
			res = append(res, r)
		}
	}
	return res
}
