package esib

import (
	"go/token"
	"go/types"

	"golang.org/x/tools/go/ssa"

	"voicheck/load"
	"voicheck/report"
)

// Masked scan (DESIGN E-SIB): a constant-time table lookup of the digit x
//
//	starts from the identity,
//	for j = 1..len(table): selects entry j-1 under the mask CompareByte(|x|, j),
//	ends with a conditional negation under the sign mask of x.
//
// Abstraction used: every ConditionalAssign(&tbl[idx], c) on the result has
// c = ConstantTimeCompareByte(|x|, cmp); the multiset of (idx, cmp) pairs —
// enumerated through the counting loop or read off the unrolled calls — is
// exactly {(j-1, j) : 1 <= j <= len(table)}.  |x| is recognised as
// uint8((x + x>>7) ^ x>>7) and the sign mask as int(byte(x>>7 & 1)).

// ScanResult describes one constant-time Lookup.
type ScanResult struct {
	Lookup  string `json:"lookup"`
	Scan    string `json:"scan"`   // function that holds the scan
	Status  string `json:"status"` // decided | assembly | stub
	Entries int64  `json:"entries"`
	Form    string `json:"form,omitempty"` // loop | unrolled
}

func isShr7(v, x ssa.Value) bool {
	b, ok := v.(*ssa.BinOp)
	if !ok || b.Op != token.SHR || b.X != x {
		return false
	}
	k, ok := constInt(b.Y)
	return ok && k == 7
}

// isAbs recognises uint8((x + m) ^ m) with m = x >> 7 (arithmetic shift of
// the int8 parameter).
func isAbs(v, x ssa.Value) bool {
	v = stripConv(v)
	xor, ok := v.(*ssa.BinOp)
	if !ok || xor.Op != token.XOR {
		return false
	}
	for _, pair := range [][2]ssa.Value{{xor.X, xor.Y}, {xor.Y, xor.X}} {
		add, ok := pair[0].(*ssa.BinOp)
		if !ok || add.Op != token.ADD || !isShr7(pair[1], x) {
			continue
		}
		if (add.X == x && isShr7(add.Y, x)) || (add.Y == x && isShr7(add.X, x)) {
			return true
		}
	}
	return false
}

// isSignMask recognises int(byte((x >> 7) & 1)).
func isSignMask(v, x ssa.Value) bool {
	v = stripConv(v)
	and, ok := v.(*ssa.BinOp)
	if !ok || and.Op != token.AND {
		return false
	}
	for _, pair := range [][2]ssa.Value{{and.X, and.Y}, {and.Y, and.X}} {
		if k, ok := constInt(pair[1]); ok && k == 1 && isShr7(pair[0], x) {
			return true
		}
	}
	return false
}

// affine expresses v as counter+off (ctr != nil) or as the constant off.
func affine(v ssa.Value) (iv *induction, off int64, ok bool) {
	v = stripConv(v)
	if k, isK := constInt(v); isK {
		return nil, k, true
	}
	if iv, d, isC := loopCounter(v); isC {
		return iv, d, true
	}
	if b, isB := v.(*ssa.BinOp); isB && (b.Op == token.ADD || b.Op == token.SUB) {
		if k, isK := constInt(b.Y); isK {
			if iv, d, isC := loopCounter(b.X); isC {
				if b.Op == token.SUB {
					k = -k
				}
				return iv, d + k, true
			}
		}
		if k, isK := constInt(b.X); isK && b.Op == token.ADD {
			if iv, d, isC := loopCounter(b.Y); isC {
				return iv, d + k, true
			}
		}
	}
	return nil, 0, false
}

func methodNamed(c *ssa.Function, name string) bool {
	return c != nil && c.Signature.Recv() != nil && c.Name() == name
}

func reaches(from, to *ssa.BasicBlock) bool {
	seen := map[*ssa.BasicBlock]bool{}
	var dfs func(b *ssa.BasicBlock) bool
	dfs = func(b *ssa.BasicBlock) bool {
		if b == to {
			return true
		}
		if seen[b] {
			return false
		}
		seen[b] = true
		for _, s := range b.Succs {
			if dfs(s) {
				return true
			}
		}
		return false
	}
	for _, s := range from.Succs {
		if dfs(s) {
			return true
		}
	}
	return false
}

func instrIndex(in ssa.Instruction) int {
	for i, x := range in.Block().Instrs {
		if x == in {
			return i
		}
	}
	return -1
}

// before reports whether a is executed before b on every path reaching b
// (dominance, or earlier in the same block).
func before(a, b ssa.Instruction) bool {
	if a.Block() == b.Block() {
		return instrIndex(a) < instrIndex(b)
	}
	return a.Block().Dominates(b.Block())
}

// checkScan decides the scan part in fn: tbl is the table pointer, recv the
// result location, isX recognises |x|.  It returns the diagnosis ("" = ok).
func checkScan(fn *ssa.Function, tbl, recv ssa.Value, isX func(ssa.Value) bool) (form string, n int64, pos token.Pos, diag string) {
	arr, ok := isArrayPtr(tbl.Type())
	if !ok {
		return "", 0, fn.Pos(), "the table is not a pointer to an array"
	}
	n = arr.Len()
	var ident *ssa.Call
	var assigns []*ssa.Call
	for _, b := range fn.Blocks {
		for _, in := range b.Instrs {
			call, ok := in.(*ssa.Call)
			if !ok {
				continue
			}
			c := call.Call.StaticCallee()
			if c == nil || len(call.Call.Args) == 0 || call.Call.Args[0] != recv {
				continue
			}
			switch {
			case methodNamed(c, "Identity") && ident == nil:
				ident = call
			case methodNamed(c, "ConditionalAssign"):
				assigns = append(assigns, call)
			}
		}
	}
	if ident == nil {
		return "", n, fn.Pos(), "the result is not initialised with Identity()"
	}
	if len(assigns) == 0 {
		return "", n, fn.Pos(), "no ConditionalAssign on the result: not a masked scan"
	}
	type pair struct{ idx, cmp int64 }
	seen := map[pair]int{}
	form = "unrolled"
	for _, ca := range assigns {
		pos = ca.Pos()
		if !before(ident, ca) {
			return form, n, pos, "a ConditionalAssign is not preceded by Identity() on every path"
		}
		if len(ca.Call.Args) != 3 {
			return form, n, pos, "unexpected ConditionalAssign signature"
		}
		ia, ok := ca.Call.Args[1].(*ssa.IndexAddr)
		if !ok || ia.X != tbl {
			return form, n, pos, "the entry assigned is not an element of the table"
		}
		cmpCall, ok := stripConv(ca.Call.Args[2]).(*ssa.Call)
		var cc *ssa.Function
		if ok {
			cc = cmpCall.Call.StaticCallee()
		}
		if cc == nil || cc.Name() != "ConstantTimeCompareByte" || cc.Pkg == nil || load.Rel(cc.Pkg.Pkg) != subtleRel || len(cmpCall.Call.Args) != 2 {
			return form, n, pos, "the selection mask is not subtle.ConstantTimeCompareByte(|x|, j)"
		}
		a0, a1 := cmpCall.Call.Args[0], cmpCall.Call.Args[1]
		var cmpV ssa.Value
		switch {
		case isX(a0):
			cmpV = a1
		case isX(a1):
			cmpV = a0
		default:
			return form, n, pos, "the selection mask does not compare |x| (= uint8((x + x>>7) ^ x>>7))"
		}
		ivI, offI, ok1 := affine(ia.Index)
		ivC, offC, ok2 := affine(cmpV)
		if !ok1 || !ok2 {
			return form, n, pos, "table index or compared value is not (loop counter + constant)"
		}
		switch {
		case ivI == nil && ivC == nil:
			seen[pair{offI, offC}]++
		case ivI != nil && ivC != nil && ivI.phi == ivC.phi:
			form = "loop"
			vals := ivI.values(1024)
			if vals == nil {
				return form, n, pos, "loop bounds not recognised"
			}
			for _, v := range vals {
				seen[pair{v + offI, v + offC}]++
			}
		default:
			return form, n, pos, "table index and compared value do not move together"
		}
	}
	for j := int64(1); j <= n; j++ {
		switch seen[pair{j - 1, j}] {
		case 1:
			delete(seen, pair{j - 1, j})
		case 0:
			return form, n, pos, sprintf("entry %d (selected for |x| = %d) is never visited: the scan does not cover the %d-entry table", j-1, j, n)
		default:
			return form, n, pos, sprintf("entry %d is visited more than once", j-1)
		}
	}
	for p := range seen {
		return form, n, pos, sprintf("extra scan step (index %d selected for |x| = %d): index and compared value must differ by exactly 1 within 1..%d", p.idx, p.cmp, n)
	}
	return form, n, pos, ""
}

// CheckMaskedScan decides the masked-scan rule for every constant-time
// Lookup method (parameter of type int8) of package curve in configuration
// p, following the delegation to lookupAffineNiels / lookupCached.  One
// instance per Lookup whose scan is Go code in this configuration; assembly
// and vector-only stubs are returned with their status (E-ASM covers the
// assembly twins).
func CheckMaskedScan(run *report.Run, p *load.Program, ruleID string) []ScanResult {
	ru := run.Rule(ruleID, "constant-time lookups start from the identity, visit every table entry exactly once with selector CompareByte(|x|, j) for entry j-1, and end with the conditional negation", 0)
	pk := p.Pkg(curveRel)
	spk := p.SSAPkg(curveRel)
	if pk == nil || spk == nil {
		run.Fatal("E-SIB scan: package %s not loaded with SSA", curveRel)
		return nil
	}
	errG, _ := spk.Members[stubErrName].(*ssa.Global)
	var res []ScanResult
	sc := pk.Types.Scope()
	for _, name := range sc.Names() {
		tn, ok := sc.Lookup(name).(*types.TypeName)
		if !ok {
			continue
		}
		named, ok := tn.Type().(*types.Named)
		if !ok {
			continue
		}
		for i := 0; i < named.NumMethods(); i++ {
			m := named.Method(i)
			sig := m.Type().(*types.Signature)
			if m.Name() != "Lookup" || sig.Params().Len() != 1 {
				continue
			}
			if b, ok := sig.Params().At(0).Type().Underlying().(*types.Basic); !ok || b.Kind() != types.Int8 {
				continue // unsigned digit: variable-time NAF table, direct indexing
			}
			fn := p.SSA.FuncValue(m)
			construct := objKey(m)
			r := ScanResult{Lookup: construct, Scan: construct}
			if fn == nil || len(fn.Blocks) == 0 || len(fn.Params) != 2 {
				ru.Failf(p.Pos(m.Pos()), construct, "constant-time Lookup has no analysable Go body")
				continue
			}
			tbl, x := ssa.Value(fn.Params[0]), ssa.Value(fn.Params[1])
			// the conditional negation on the sign mask
			var neg *ssa.Call
			for _, b := range fn.Blocks {
				for _, in := range b.Instrs {
					if call, ok := in.(*ssa.Call); ok && methodNamed(call.Call.StaticCallee(), "ConditionalNegate") {
						neg = call
					}
				}
			}
			if neg == nil || len(neg.Call.Args) != 2 || !isSignMask(neg.Call.Args[1], x) {
				ru.Failf(p.Pos(m.Pos()), construct, "Lookup does not end with ConditionalNegate(int(byte(x>>7 & 1))) on the result")
				continue
			}
			recv := neg.Call.Args[0]
			// delegation lookupX(tbl, &t, |x|) ?
			scanFn, scanTbl, scanRecv := fn, tbl, recv
			isX := func(v ssa.Value) bool { return isAbs(v, x) }
			var deleg *ssa.Call
			for _, b := range fn.Blocks {
				for _, in := range b.Instrs {
					call, ok := in.(*ssa.Call)
					if !ok {
						continue
					}
					c := call.Call.StaticCallee()
					if c == nil || c.Signature.Recv() != nil || len(call.Call.Args) != 3 {
						continue
					}
					if call.Call.Args[0] == tbl && call.Call.Args[1] == recv {
						deleg = call
					}
				}
			}
			if deleg != nil {
				g := deleg.Call.StaticCallee()
				r.Scan = funcKey(g)
				if !isAbs(deleg.Call.Args[2], x) {
					ru.Failf(p.Pos(deleg.Pos()), construct, "the scan helper %s is not called with |x| = uint8((x + x>>7) ^ x>>7)", funcKey(g))
					continue
				}
				if !before(deleg, neg) {
					ru.Failf(p.Pos(deleg.Pos()), construct, "ConditionalNegate does not follow the scan")
					continue
				}
				switch {
				case len(g.Blocks) == 0:
					// the Go wrapper (|x|, delegation, sign mask) is decided here,
					// the scan itself is assembly (E-ASM)
					r.Status = "assembly"
					if a, ok := isArrayPtr(tbl.Type()); ok {
						r.Entries = a.Len()
					}
					ru.OK(construct + " (wrapper; scan in assembly)")
					res = append(res, r)
					continue
				case errG != nil && isStub(g, errG):
					r.Status = "stub"
					ru.OK(construct + " (wrapper; vector-only stub)")
					res = append(res, r)
					continue
				}
				scanFn, scanTbl, scanRecv = g, g.Params[0], g.Params[1]
				xa := ssa.Value(g.Params[2])
				isX = func(v ssa.Value) bool { return stripConv(v) == xa }
			}
			form, n, pos, diag := checkScan(scanFn, scanTbl, scanRecv, isX)
			r.Form, r.Entries, r.Status = form, n, "decided"
			if diag == "" && deleg == nil {
				// the negation must come after the whole scan
				for _, b := range fn.Blocks {
					for _, in := range b.Instrs {
						if call, ok := in.(*ssa.Call); ok && methodNamed(call.Call.StaticCallee(), "ConditionalAssign") {
							if call.Block() == neg.Block() && instrIndex(call) > instrIndex(neg) || reaches(neg.Block(), call.Block()) {
								diag, pos = "a ConditionalAssign can execute after the ConditionalNegate", call.Pos()
							}
						}
					}
				}
			}
			if diag != "" {
				ru.Failf(p.Pos(pos), r.Scan, "masked scan of %s: %s", construct, diag)
			} else {
				ru.OK(construct)
			}
			res = append(res, r)
		}
	}
	return res
}
