package esib

import (
	"go/token"
	"go/types"
	"sort"
	"strings"

	"golang.org/x/tools/go/ssa"

	"voicheck/load"
	"voicheck/report"
)

// Limb uniformity (DESIGN E-SIB): a limb-wise operation computes output limb
// i from input limbs i by ONE expression template for every i.  Templates
// are built from SSA: constants are abstracted to `k` (the 2^25.5 radix has
// parity-dependent constants), array indices are printed relative to the
// index being written, everything else (operators, conversions, callees,
// parameters, which array a limb is read from) is kept.
//
// Three spellings of a limb-wise operation are recognised:
//
//	unrolled  n stores `X[c] = e_c`, c = 0..n-1 constant (also the elements of a
//	          composite literal `[n]T{e_0, ...}`)
//	calls     n calls `f(.., &X[c], &Y[c])`, c = 0..n-1 (ConditionalSwap)
//	loop      one store `X[i] = e(i)` in a counting loop i = 0..n-1
//
// The set of limb-wise functions is frozen below (one line of reason each) AND
// re-discovered from the code on every run (a complete group whose majority
// template reads input limbs at offset 0 only); the two sets must coincide, so
// a new limb-wise function cannot escape the rule and a listed one cannot
// silently stop being recognised.

// limbwise lists the frozen limb-wise functions per back end.
var limbwise = map[string]map[string]string{
	"u64": {
		"internal/field.(*Element).Add":               "fe[i] = a[i] + b[i]",
		"internal/field.(*Element).Sub":               "(a[i] + 16p[i]) - b[i], the argument of reduce",
		"internal/field.(*Element).Neg":               "16p[i] - t[i], the argument of reduce",
		"internal/field.(*Element).ConditionalSelect": "select(choice, b[i], a[i])",
		"internal/field.(*Element).ConditionalSwap":   "swap(choice, &other[i], &fe[i])",
		"internal/field.(*Element).ConditionalAssign": "select(choice, other[i], fe[i])",
		"internal/field.(*Element).Square2":           "fe[i] *= 2 after the squaring",
		"internal/field.(*Element).SetBytesWide":      "lo[i] += 2*19*hi[i] (folding the upper 256 bits)",
	},
	"u32": {
		"internal/field.(*Element).Add":               "fe[i] = a[i] + b[i]",
		"internal/field.(*Element).Sub":               "(a[i] + 16p[i]) - b[i], the argument of reduce",
		"internal/field.(*Element).Neg":               "16p[i] - t[i], the argument of reduce",
		"internal/field.(*Element).ConditionalSelect": "select(choice, b[i], a[i])",
		"internal/field.(*Element).ConditionalSwap":   "swap(choice, &other[i], &fe[i])",
		"internal/field.(*Element).ConditionalAssign": "select(choice, other[i], fe[i])",
		"internal/field.(*Element).Square2":           "z[i] *= 2 after the squaring",
		"internal/field.(*Element).SetBytesWide":      "lo[i] + 2*19*hi[i], the argument of reduce",
		"internal/field.(*Element).reduce":            "final narrowing fe[i] = uint32(z[i])",
		"internal/field.(*Element).ToBytes":           "widening copy uint64(fe[i]), the argument of reduce",
	},
	// Go parts of the AVX2 back end (amd64 only): limb i of the 4-way vector
	// is packed from / split into limb i of the four field elements.
	"vec": {
		"curve.(*fieldElement2625x4).Split": "fe_k[i] = lane(2k)[i] + lane(2k+1)[i] << 26",
		"curve.newFieldElement2625x4":       "lane[i] = fe_k[i] & mask / >> 26",
		"curve.(*cachedPoint).SetExtended":  "blend of the negated D lanes, limb by limb",
	},
}

// UniformGroup is one limb-wise group found in a function.
type UniformGroup struct {
	Func     string `json:"func"`
	Base     string `json:"base"`
	N        int64  `json:"n"`
	Form     string `json:"form"`
	Template string `json:"template"`
	Uniform  bool   `json:"uniform"`
	pos      token.Pos
	deviant  string
}

// tctx builds templates relative to the limb index being written.
type tctx struct {
	fn     *ssa.Function
	c      int64     // constant index written (unrolled / calls form)
	iv     ssa.Value // loop counter value (loop form); nil otherwise
	ivK    int64     // loop form: the index written is iv + ivK
	limbN  int64     // unrolled form: length of the limb array; a constant index into an array of another length is a fixed lane
	offs   []int64   // every relative index printed
	opaque bool      // an index could not be related to the written index
	budget int
	allocs map[*ssa.Alloc]int
}

// ctrPlus decomposes an index into (loop counter value) + k.
func ctrPlus(v ssa.Value) (ctr ssa.Value, k int64, ok bool) {
	v = stripConv(v)
	if _, _, isC := loopCounter(v); isC {
		return v, 0, true
	}
	if b, isB := v.(*ssa.BinOp); isB && (b.Op == token.ADD || b.Op == token.SUB) {
		if c, isK := constInt(b.Y); isK {
			if _, _, isC := loopCounter(b.X); isC {
				if b.Op == token.SUB {
					c = -c
				}
				return stripConv(b.X), c, true
			}
		}
		if c, isK := constInt(b.X); isK && b.Op == token.ADD {
			if _, _, isC := loopCounter(b.Y); isC {
				return stripConv(b.Y), c, true
			}
		}
	}
	return nil, 0, false
}

func (t *tctx) index(v ssa.Value) string { return t.indexIn(v, 0) }

// indexIn prints index v of an array of length arrLen (0: unknown).
func (t *tctx) indexIn(v ssa.Value, arrLen int64) string {
	v = stripConv(v)
	if t.iv == nil && t.limbN != 0 && arrLen != 0 && arrLen != t.limbN {
		if k, ok := constInt(v); ok {
			return sprintf("@%d", k) // a fixed lane / fixed element of another array
		}
	}
	if t.iv != nil {
		if ctr, k, ok := ctrPlus(v); ok && ctr == t.iv {
			t.offs = append(t.offs, k-t.ivK)
			return sprintf("%+d", k-t.ivK)
		}
		if k, ok := constInt(v); ok {
			return sprintf("@%d", k) // a fixed lane / fixed element
		}
		t.opaque = true
		return "?"
	}
	if k, ok := constInt(v); ok {
		t.offs = append(t.offs, k-t.c)
		return sprintf("%+d", k-t.c)
	}
	t.opaque = true
	return "?"
}

// isLimbArray: a pointer to an array of machine integers.
func isLimbArray(t types.Type) bool {
	a, ok := isArrayPtr(t)
	if !ok {
		return false
	}
	b, ok := a.Elem().Underlying().(*types.Basic)
	return ok && b.Info()&types.IsInteger != 0
}

func isArrayPtr(t types.Type) (*types.Array, bool) {
	p, ok := t.Underlying().(*types.Pointer)
	if !ok {
		return nil, false
	}
	a, ok := p.Elem().Underlying().(*types.Array)
	return a, ok
}

func (t *tctx) addr(v ssa.Value) string {
	if t.budget--; t.budget < 0 {
		t.opaque = true
		return "…"
	}
	switch v := v.(type) {
	case *ssa.Parameter:
		for i, p := range t.fn.Params {
			if p == v {
				return sprintf("P%d", i)
			}
		}
		return "P?"
	case *ssa.Alloc:
		if t.allocs == nil {
			t.allocs = map[*ssa.Alloc]int{}
			n := 0
			for _, b := range t.fn.Blocks {
				for _, in := range b.Instrs {
					if a, ok := in.(*ssa.Alloc); ok {
						t.allocs[a] = n
						n++
					}
				}
			}
		}
		return sprintf("A%d", t.allocs[v])
	case *ssa.FieldAddr:
		st, _ := v.X.Type().Underlying().(*types.Pointer).Elem().Underlying().(*types.Struct)
		name := sprintf("f%d", v.Field)
		if st != nil {
			name = st.Field(v.Field).Name()
		}
		return t.addr(v.X) + "." + name
	case *ssa.IndexAddr:
		if arr, ok := isArrayPtr(v.X.Type()); ok {
			return t.addr(v.X) + "[" + t.indexIn(v.Index, arr.Len()) + "]"
		}
		return t.val(v.X) + "[" + t.index(v.Index) + "]"
	case *ssa.UnOp:
		if v.Op == token.MUL {
			return "*(" + t.addr(v.X) + ")"
		}
	case *ssa.Call:
		return t.val(v)
	case *ssa.Global:
		return "G:" + v.Name()
	case *ssa.FreeVar:
		return "FV:" + v.Name()
	}
	return t.val(v)
}

func (t *tctx) val(v ssa.Value) string {
	if t.budget--; t.budget < 0 {
		t.opaque = true
		return "…"
	}
	switch v := v.(type) {
	case *ssa.Const:
		if v.Value == nil {
			return "nil"
		}
		return "k"
	case *ssa.Parameter:
		return t.addr(v)
	case *ssa.UnOp:
		if v.Op == token.MUL {
			return "ld(" + t.addr(v.X) + ")"
		}
		return v.Op.String() + "(" + t.val(v.X) + ")"
	case *ssa.BinOp:
		a, b := t.val(v.X), t.val(v.Y)
		switch v.Op {
		case token.ADD, token.MUL, token.AND, token.OR, token.XOR:
			if b < a {
				a, b = b, a // operand order of a commutative operator is irrelevant
			}
		}
		return v.Op.String() + "(" + a + "," + b + ")"
	case *ssa.Index:
		// an element of an array VALUE (`for i, v := range arr` reads a copy of
		// arr taken before the loop): the same limb as a load through &arr[i]
		if ld, ok := v.X.(*ssa.UnOp); ok && ld.Op == token.MUL {
			var n int64
			if arr, ok := v.X.Type().Underlying().(*types.Array); ok {
				n = arr.Len()
			}
			return "ld(" + t.addr(ld.X) + "[" + t.indexIn(v.Index, n) + "])"
		}
		return "idx(" + t.val(v.X) + ")[" + t.index(v.Index) + "]"
	case *ssa.Convert:
		return "cv:" + v.Type().String() + "(" + t.val(v.X) + ")"
	case *ssa.ChangeType:
		return t.val(v.X)
	case *ssa.Extract:
		return sprintf("ex%d(%s)", v.Index, t.val(v.Tuple))
	case *ssa.Call:
		name := "?"
		if c := v.Call.StaticCallee(); c != nil {
			name = funcKey(c)
		} else if b, ok := v.Call.Value.(*ssa.Builtin); ok {
			name = "builtin." + b.Name()
		}
		var args []string
		for _, a := range v.Call.Args {
			args = append(args, t.arg(a))
		}
		return "call:" + name + "(" + strings.Join(args, ",") + ")"
	case *ssa.Phi:
		if t.iv != nil && ssa.Value(v) == t.iv {
			return "i"
		}
		if iv, ok := inductionOf(v); ok && t.iv != nil && iv.next == t.iv {
			return "i-1"
		}
		t.opaque = true
		return "phi?"
	case *ssa.FieldAddr, *ssa.IndexAddr, *ssa.Alloc, *ssa.Global:
		return "&" + t.addr(v)
	case *ssa.Slice:
		return "slice(" + t.arg(v.X) + ")"
	}
	t.opaque = true
	return "?" + v.Name()
}

func (t *tctx) arg(a ssa.Value) string {
	switch a.(type) {
	case *ssa.FieldAddr, *ssa.IndexAddr, *ssa.Alloc:
		return "&" + t.addr(a)
	}
	return t.val(a)
}

// limbWrite is one write (or one loop of writes) into a limb array: the limbs
// it writes and the template it writes them with.
type limbWrite struct {
	set    []int64
	tmpl   string
	offs   []int64
	opaque bool
	loop   bool
	pos    token.Pos
}

// limbGroup collects every write into one array of a function, whatever the
// spelling: unrolled stores, calls taking &X[c], counting loops, or a mixture
// (first limb peeled, loop unrolled by two).
type limbGroup struct {
	fn     *ssa.Function
	base   string
	form   string
	n      int64
	writes []*limbWrite
	pos    token.Pos
}

// limbGroups collects the candidate groups of fn.
func limbGroups(fn *ssa.Function) []*limbGroup {
	groups := map[string]*limbGroup{}
	var order []string
	get := func(key, form string, n int64, pos token.Pos) *limbGroup {
		g := groups[key]
		if g == nil {
			g = &limbGroup{fn: fn, base: key, form: form, n: n, pos: pos}
			groups[key] = g
			order = append(order, key)
		}
		if g.form != form {
			g.form = "mixed"
		}
		return g
	}
	loopSet := func(ctr ssa.Value, k int64) []int64 {
		iv, delta, ok := loopCounter(ctr)
		if !ok {
			return nil
		}
		vals := iv.values(64)
		out := make([]int64, len(vals))
		for i, v := range vals {
			out[i] = v + delta + k
		}
		return out
	}
	for _, b := range fn.Blocks {
		for _, in := range b.Instrs {
			switch in := in.(type) {
			case *ssa.Store:
				// loop form: some index of the address chain is (loop counter + k)
				if lvl, ctr, k, arr := loopIndexOf(in.Addr); lvl != nil {
					t := &tctx{fn: fn, iv: ctr, ivK: k, budget: 4000}
					_ = lvl
					key := strings.Replace(t.addr(in.Addr), "[+0]", "[*]", 1)
					t.offs = nil
					tm := t.val(in.Val)
					g := get(key, "loop", arr.Len(), in.Pos())
					g.writes = append(g.writes, &limbWrite{set: loopSet(ctr, k), tmpl: tm, offs: t.offs, opaque: t.opaque, loop: true, pos: in.Pos()})
					continue
				}
				// unrolled form: a constant index; with nested arrays (lanes of a
				// vector) either level may be the limb
				addr := in.Addr
				for level := 0; level < 2; level++ {
					ia, ok := addr.(*ssa.IndexAddr)
					if !ok {
						break
					}
					arr, ok := isArrayPtr(ia.X.Type())
					if !ok {
						break
					}
					c, ok := constInt(ia.Index)
					if !ok {
						break
					}
					t := &tctx{fn: fn, c: c, limbN: arr.Len(), budget: 4000}
					full := t.addr(in.Addr)
					if strings.Count(full, "[+0]") == 1 {
						key := strings.Replace(full, "[+0]", "[*]", 1)
						t.offs = nil
						tm := t.val(in.Val)
						g := get(key, "unrolled", arr.Len(), in.Pos())
						g.writes = append(g.writes, &limbWrite{set: []int64{c}, tmpl: tm, offs: t.offs, opaque: t.opaque, pos: in.Pos()})
					}
					addr = ia.X
				}
			case *ssa.Call:
				callee := in.Call.StaticCallee()
				if callee == nil {
					continue
				}
				// f(.., &X[c], ..) or, in a counting loop, f(.., &X[i], ..)
				var first *ssa.IndexAddr
				var ctr ssa.Value
				var k int64
				for _, a := range in.Call.Args {
					if ia, ok := a.(*ssa.IndexAddr); ok {
						if _, ok := isArrayPtr(ia.X.Type()); ok {
							if _, ok := constInt(ia.Index); ok {
								first = ia
								break
							}
							if c, kk, ok := ctrPlus(ia.Index); ok && isLimbArray(ia.X.Type()) {
								first, ctr, k = ia, c, kk
								break
							}
						}
					}
				}
				if first == nil {
					continue
				}
				arr, _ := isArrayPtr(first.X.Type())
				if ctr != nil {
					t := &tctx{fn: fn, iv: ctr, ivK: k, budget: 4000}
					tm := t.val(in)
					g := get("calls:"+funcKey(callee), "loop", arr.Len(), in.Pos())
					g.writes = append(g.writes, &limbWrite{set: loopSet(ctr, k), tmpl: tm, offs: t.offs, opaque: t.opaque, loop: true, pos: in.Pos()})
					continue
				}
				c, _ := constInt(first.Index)
				t := &tctx{fn: fn, c: c, budget: 4000}
				tm := t.val(in)
				g := get("calls:"+funcKey(callee), "calls", arr.Len(), in.Pos())
				g.writes = append(g.writes, &limbWrite{set: []int64{c}, tmpl: tm, offs: t.offs, opaque: t.opaque, pos: in.Pos()})
			}
		}
	}
	var out []*limbGroup
	for _, k := range order {
		out = append(out, groups[k])
	}
	return out
}

// loopIndexOf finds, in the address chain of a store, an array index of the
// form (loop counter + k) and returns that level, the counter, k and the array
// it indexes.
func loopIndexOf(addr ssa.Value) (*ssa.IndexAddr, ssa.Value, int64, *types.Array) {
	for {
		switch a := addr.(type) {
		case *ssa.IndexAddr:
			if arr, ok := isArrayPtr(a.X.Type()); ok {
				if ctr, k, ok := ctrPlus(a.Index); ok {
					return a, ctr, k, arr
				}
			}
			addr = a.X
			continue
		case *ssa.FieldAddr:
			addr = a.X
			continue
		}
		return nil, nil, 0, nil
	}
}

func allZero(offs []int64) bool {
	for _, o := range offs {
		if o != 0 {
			return false
		}
	}
	return len(offs) > 0
}

// evaluate classifies a group: limbwise = it looks like an intended
// limb-wise operation (the writes with one template cover more than half of
// the limbs and that template reads limbs at offset 0 only, or a counting loop
// indexes limb arrays with its counter); uniform = EVERY limb is written with
// that template.  Additional writes to single limbs (a carry folded into limb
// 0 before or after the per-limb statement) do not make an operation
// non-uniform; a limb that never receives the common template does.
func (g *limbGroup) evaluate() (limbwise, uniform bool, tmpl, deviant string, pos token.Pos) {
	if len(g.writes) == 0 {
		return false, false, "", "", g.pos
	}
	type class struct {
		tmpl    string
		covered map[int64]bool
		first   *limbWrite
		loop    bool
	}
	classes := map[string]*class{}
	for _, w := range g.writes {
		if w.loop && len(w.offs) == 0 && !w.opaque {
			continue // a loop whose stored value does not read limb arrays (initialisation)
		}
		c := classes[w.tmpl]
		if c == nil {
			c = &class{tmpl: w.tmpl, covered: map[int64]bool{}, first: w}
			classes[w.tmpl] = c
		}
		c.loop = c.loop || w.loop
		for _, i := range w.set {
			c.covered[i] = true
		}
		if w.loop && w.set == nil {
			c.covered[-1] = true // loop bounds not recognised
		}
	}
	var best *class
	for _, k := range sortedKeys(classes) {
		c := classes[k]
		if best == nil || len(c.covered) > len(best.covered) {
			best = c
		}
	}
	if best == nil {
		return false, false, "", "", g.pos
	}
	// every counting loop over limb arrays must read the limb it writes
	for _, k := range sortedKeys(classes) {
		if c := classes[k]; c.loop && c != best {
			switch {
			case c.first.opaque:
				return true, false, c.tmpl, "an index depends on the loop counter in an unrecognised way", c.first.pos
			case !allZero(c.first.offs):
				return true, false, c.tmpl, "a limb is read at a non-zero offset from the limb written", c.first.pos
			}
		}
	}
	maj := best.first
	if !best.loop {
		// unrolled code is limb-wise only if a clear majority of limbs share the template
		if int64(2*len(best.covered)) <= g.n || maj.opaque || !allZero(maj.offs) {
			return false, false, best.tmpl, "", g.pos
		}
	}
	switch {
	case best.loop && maj.opaque:
		return true, false, best.tmpl, "an index depends on the loop counter in an unrecognised way", maj.pos
	case best.loop && !allZero(maj.offs):
		return true, false, best.tmpl, "a limb is read at a non-zero offset from the limb written", maj.pos
	}
	var visited []int64
	for i := range best.covered {
		visited = append(visited, i)
	}
	sort.Slice(visited, func(a, b int) bool { return visited[a] < visited[b] })
	for _, i := range visited {
		if i < 0 || i >= g.n {
			return true, false, best.tmpl, sprintf("the writes visit %v, not the limbs 0..%d", visited, g.n-1), maj.pos
		}
	}
	for i := int64(0); i < g.n; i++ {
		if best.covered[i] {
			continue
		}
		// what limb i gets instead
		for _, w := range g.writes {
			for _, j := range w.set {
				if j == i {
					return true, false, best.tmpl, sprintf("limb %d is computed by %s, the other limbs by %s", i, w.tmpl, best.tmpl), w.pos
				}
			}
		}
		return true, false, best.tmpl, sprintf("the writes visit %v, not every limb 0..%d", visited, g.n-1), maj.pos
	}
	return true, true, best.tmpl, "", maj.pos
}

// backendOf returns "u64" or "u32" from the limb count of field.Element.
func backendOf(p *load.Program) string {
	pk := p.Pkg(fieldRel)
	if pk == nil {
		return ""
	}
	tn, _ := pk.Types.Scope().Lookup("Element").(*types.TypeName)
	if tn == nil {
		return ""
	}
	st, _ := tn.Type().Underlying().(*types.Struct)
	if st == nil {
		return ""
	}
	for i := 0; i < st.NumFields(); i++ {
		if a, ok := st.Field(i).Type().Underlying().(*types.Array); ok {
			switch a.Len() {
			case 5:
				return "u64"
			case 10:
				return "u32"
			}
		}
	}
	return ""
}

// CheckUniform decides limb uniformity of the limb-wise operations of
// internal/field (and, where it is built, of the Go parts of the AVX2 back
// end in package curve) in configuration p.  One instance per limb-wise
// group; the frozen list and the discovered set must coincide.
func CheckUniform(run *report.Run, p *load.Program, ruleID string) []UniformGroup {
	ru := run.Rule(ruleID, "limb-wise operations compute limb i from limbs i by one template for all i (constants may differ per limb)", 0)
	be := backendOf(p)
	if be == "" {
		run.Fatal("E-SIB uniform: cannot determine the limb count of %s.Element in configuration %s", fieldRel, p.Cfg.ID)
		return nil
	}
	expected := map[string]string{}
	for k, v := range limbwise[be] {
		expected[k] = v
	}
	if p.Obj(curveRel, "fieldElement2625x4") != nil {
		for k, v := range limbwise["vec"] {
			expected[k] = v
		}
	}
	var out []UniformGroup
	found := map[string]bool{}
	// static calls between the functions looked at (a listed operation may keep
	// its limb code in an unexported helper, or be defined by another listed
	// operation: ConditionalAssign(o, c) = ConditionalSelect(fe, o, c))
	calls := map[string]map[string]bool{}
	var fns []*ssa.Function
	for _, fn := range p.ModuleFuncs() {
		if fn.Pkg == nil || len(fn.Blocks) == 0 {
			continue
		}
		rel := load.Rel(fn.Pkg.Pkg)
		if rel != fieldRel && rel != curveRel {
			continue
		}
		fns = append(fns, fn)
		name := funcKey(topLevel(fn))
		for _, b := range fn.Blocks {
			for _, in := range b.Instrs {
				if c := staticCallee(in); c != nil && c.Pkg == fn.Pkg {
					if calls[name] == nil {
						calls[name] = map[string]bool{}
					}
					calls[name][funcKey(topLevel(c))] = true
				}
			}
		}
	}
	for _, fn := range fns {
		rel := load.Rel(fn.Pkg.Pkg)
		name := funcKey(topLevel(fn))
		for _, g := range limbGroups(fn) {
			lw, uni, tmpl, dev, pos := g.evaluate()
			if !lw {
				continue
			}
			if _, listed := expected[name]; rel == curveRel && g.form != "loop" && !listed {
				// package curve: only the vector pack/split code is limb code
				continue
			}
			found[name] = true
			ug := UniformGroup{Func: name, Base: g.base, N: g.n, Form: g.form, Template: tmpl, Uniform: uni, pos: pos, deviant: dev}
			out = append(out, ug)
			construct := name + " " + g.base
			if !uni {
				if _, listed := expected[name]; !listed {
					dev += sprintf(" (in %s, which is not in the frozen list of limb-wise operations of back end %s)", shortKey(name), be)
				}
				ru.Failf(p.Pos(pos), construct, "limb-wise operation is not uniform: %s", dev)
				continue
			}
			// a uniform group is fine wherever it is found (a helper of a listed
			// operation, a per-limb copy loop): uniformity is the condition
			ru.OK(construct)
		}
	}
	// a listed operation is recognised when it contains a limb-wise group, or
	// statically calls (at most two levels deep) a function of its package that does
	recognised := func(name string) bool {
		if found[name] {
			return true
		}
		for c1 := range calls[name] {
			if found[c1] {
				return true
			}
			for c2 := range calls[c1] {
				if found[c2] {
					return true
				}
			}
		}
		return false
	}
	for _, name := range sortedKeys(expected) {
		if !recognised(name) {
			ru.Failf("-", name, "frozen limb-wise operation (%s) is no longer recognised as limb-wise in back end %s (function missing, or no complete group of per-limb writes)", expected[name], be)
		}
	}
	sort.SliceStable(out, func(i, j int) bool { return out[i].Func < out[j].Func })
	return out
}
