package esib

import (
	"go/token"
	"go/types"
	"sort"
	"strings"

	"golang.org/x/tools/go/ssa"

	"voicheck/load"
	"voicheck/report"
)

// Limb uniformity (DESIGN E-SIB): a limb-wise operation computes output limb
// i from input limbs i by ONE expression template for every i.  Templates
// are built from SSA: constants are abstracted to `k` (the 2^25.5 radix has
// parity-dependent constants), array indices are printed relative to the
// index being written, everything else (operators, conversions, callees,
// parameters, which array a limb is read from) is kept.
//
// Three spellings of a limb-wise operation are recognised:
//
//	unrolled  n stores `X[c] = e_c`, c = 0..n-1 constant (also the elements of a
//	          composite literal `[n]T{e_0, ...}`)
//	calls     n calls `f(.., &X[c], &Y[c])`, c = 0..n-1 (ConditionalSwap)
//	loop      one store `X[i] = e(i)` in a counting loop i = 0..n-1
//
// The set of limb-wise functions is frozen below (one line of reason each) AND
// re-discovered from the code on every run (a complete group whose majority
// template reads input limbs at offset 0 only); the two sets must coincide, so
// a new limb-wise function cannot escape the rule and a listed one cannot
// silently stop being recognised.

// limbwise lists the frozen limb-wise functions per back end.
var limbwise = map[string]map[string]string{
	"u64": {
		"internal/field.(*Element).Add":               "fe[i] = a[i] + b[i]",
		"internal/field.(*Element).Sub":               "(a[i] + 16p[i]) - b[i], the argument of reduce",
		"internal/field.(*Element).Neg":               "16p[i] - t[i], the argument of reduce",
		"internal/field.(*Element).ConditionalSelect": "select(choice, b[i], a[i])",
		"internal/field.(*Element).ConditionalSwap":   "swap(choice, &other[i], &fe[i])",
		"internal/field.(*Element).ConditionalAssign": "select(choice, other[i], fe[i])",
		"internal/field.(*Element).Square2":           "fe[i] *= 2 after the squaring",
		"internal/field.(*Element).SetBytesWide":      "lo[i] += 2*19*hi[i] (folding the upper 256 bits)",
	},
	"u32": {
		"internal/field.(*Element).Add":               "fe[i] = a[i] + b[i]",
		"internal/field.(*Element).Sub":               "(a[i] + 16p[i]) - b[i], the argument of reduce",
		"internal/field.(*Element).Neg":               "16p[i] - t[i], the argument of reduce",
		"internal/field.(*Element).ConditionalSelect": "select(choice, b[i], a[i])",
		"internal/field.(*Element).ConditionalSwap":   "swap(choice, &other[i], &fe[i])",
		"internal/field.(*Element).ConditionalAssign": "select(choice, other[i], fe[i])",
		"internal/field.(*Element).Square2":           "z[i] *= 2 after the squaring",
		"internal/field.(*Element).SetBytesWide":      "lo[i] + 2*19*hi[i], the argument of reduce",
		"internal/field.(*Element).reduce":            "final narrowing fe[i] = uint32(z[i])",
		"internal/field.(*Element).ToBytes":           "widening copy uint64(fe[i]), the argument of reduce",
	},
	// Go parts of the AVX2 back end (amd64 only): limb i of the 4-way vector
	// is packed from / split into limb i of the four field elements.
	"vec": {
		"curve.(*fieldElement2625x4).Split": "fe_k[i] = lane(2k)[i] + lane(2k+1)[i] << 26",
		"curve.newFieldElement2625x4":       "lane[i] = fe_k[i] & mask / >> 26",
		"curve.(*cachedPoint).SetExtended":  "blend of the negated D lanes, limb by limb",
	},
}

// UniformGroup is one limb-wise group found in a function.
type UniformGroup struct {
	Func     string `json:"func"`
	Base     string `json:"base"`
	N        int64  `json:"n"`
	Form     string `json:"form"`
	Template string `json:"template"`
	Uniform  bool   `json:"uniform"`
	pos      token.Pos
	deviant  string
}

// tctx builds templates relative to the limb index being written.
type tctx struct {
	fn     *ssa.Function
	c      int64     // constant index written (unrolled / calls form)
	iv     ssa.Value // loop counter value (loop form); nil otherwise
	offs   []int64   // every relative index printed
	opaque bool      // an index could not be related to the written index
	budget int
	allocs map[*ssa.Alloc]int
}

func (t *tctx) index(v ssa.Value) string {
	v = stripConv(v)
	if t.iv != nil {
		if v == t.iv {
			t.offs = append(t.offs, 0)
			return "+0"
		}
		if b, ok := v.(*ssa.BinOp); ok && (b.Op == token.ADD || b.Op == token.SUB) {
			if stripConv(b.X) == t.iv {
				if k, ok := constInt(b.Y); ok {
					if b.Op == token.SUB {
						k = -k
					}
					t.offs = append(t.offs, k)
					return sprintf("%+d", k)
				}
			}
		}
		if k, ok := constInt(v); ok {
			return sprintf("@%d", k) // a fixed lane / fixed element
		}
		t.opaque = true
		return "?"
	}
	if k, ok := constInt(v); ok {
		t.offs = append(t.offs, k-t.c)
		return sprintf("%+d", k-t.c)
	}
	t.opaque = true
	return "?"
}

func isArrayPtr(t types.Type) (*types.Array, bool) {
	p, ok := t.Underlying().(*types.Pointer)
	if !ok {
		return nil, false
	}
	a, ok := p.Elem().Underlying().(*types.Array)
	return a, ok
}

func (t *tctx) addr(v ssa.Value) string {
	if t.budget--; t.budget < 0 {
		t.opaque = true
		return "…"
	}
	switch v := v.(type) {
	case *ssa.Parameter:
		for i, p := range t.fn.Params {
			if p == v {
				return sprintf("P%d", i)
			}
		}
		return "P?"
	case *ssa.Alloc:
		if t.allocs == nil {
			t.allocs = map[*ssa.Alloc]int{}
			n := 0
			for _, b := range t.fn.Blocks {
				for _, in := range b.Instrs {
					if a, ok := in.(*ssa.Alloc); ok {
						t.allocs[a] = n
						n++
					}
				}
			}
		}
		return sprintf("A%d", t.allocs[v])
	case *ssa.FieldAddr:
		st, _ := v.X.Type().Underlying().(*types.Pointer).Elem().Underlying().(*types.Struct)
		name := sprintf("f%d", v.Field)
		if st != nil {
			name = st.Field(v.Field).Name()
		}
		return t.addr(v.X) + "." + name
	case *ssa.IndexAddr:
		if _, ok := isArrayPtr(v.X.Type()); ok {
			return t.addr(v.X) + "[" + t.index(v.Index) + "]"
		}
		return t.val(v.X) + "[" + t.index(v.Index) + "]"
	case *ssa.UnOp:
		if v.Op == token.MUL {
			return "*(" + t.addr(v.X) + ")"
		}
	case *ssa.Call:
		return t.val(v)
	case *ssa.Global:
		return "G:" + v.Name()
	case *ssa.FreeVar:
		return "FV:" + v.Name()
	}
	return t.val(v)
}

func (t *tctx) val(v ssa.Value) string {
	if t.budget--; t.budget < 0 {
		t.opaque = true
		return "…"
	}
	switch v := v.(type) {
	case *ssa.Const:
		if v.Value == nil {
			return "nil"
		}
		return "k"
	case *ssa.Parameter:
		return t.addr(v)
	case *ssa.UnOp:
		if v.Op == token.MUL {
			return "ld(" + t.addr(v.X) + ")"
		}
		return v.Op.String() + "(" + t.val(v.X) + ")"
	case *ssa.BinOp:
		return v.Op.String() + "(" + t.val(v.X) + "," + t.val(v.Y) + ")"
	case *ssa.Convert:
		return "cv:" + v.Type().String() + "(" + t.val(v.X) + ")"
	case *ssa.ChangeType:
		return t.val(v.X)
	case *ssa.Extract:
		return sprintf("ex%d(%s)", v.Index, t.val(v.Tuple))
	case *ssa.Call:
		name := "?"
		if c := v.Call.StaticCallee(); c != nil {
			name = funcKey(c)
		} else if b, ok := v.Call.Value.(*ssa.Builtin); ok {
			name = "builtin." + b.Name()
		}
		var args []string
		for _, a := range v.Call.Args {
			args = append(args, t.arg(a))
		}
		return "call:" + name + "(" + strings.Join(args, ",") + ")"
	case *ssa.Phi:
		if t.iv != nil && ssa.Value(v) == t.iv {
			return "i"
		}
		if iv, ok := inductionOf(v); ok && t.iv != nil && iv.next == t.iv {
			return "i-1"
		}
		t.opaque = true
		return "phi?"
	case *ssa.FieldAddr, *ssa.IndexAddr, *ssa.Alloc, *ssa.Global:
		return "&" + t.addr(v)
	case *ssa.Slice:
		return "slice(" + t.arg(v.X) + ")"
	}
	t.opaque = true
	return "?" + v.Name()
}

func (t *tctx) arg(a ssa.Value) string {
	switch a.(type) {
	case *ssa.FieldAddr, *ssa.IndexAddr, *ssa.Alloc:
		return "&" + t.addr(a)
	}
	return t.val(a)
}

type limbWrite struct {
	idx    int64
	tmpl   string
	offs   []int64
	opaque bool
	pos    token.Pos
}

type limbGroup struct {
	fn     *ssa.Function
	base   string
	form   string
	n      int64
	writes map[int64]*limbWrite // unrolled / calls: last write per index
	loop   *limbWrite
	iv     *induction
	delta  int64 // counter value minus phi value (range form)
	pos    token.Pos
}

// limbGroups collects the candidate groups of fn.
func limbGroups(fn *ssa.Function) []*limbGroup {
	groups := map[string]*limbGroup{}
	var order []string
	get := func(key, form string, n int64, pos token.Pos) *limbGroup {
		g := groups[key]
		if g == nil {
			g = &limbGroup{fn: fn, base: key, form: form, n: n, writes: map[int64]*limbWrite{}, pos: pos}
			groups[key] = g
			order = append(order, key)
		}
		return g
	}
	for _, b := range fn.Blocks {
		for _, in := range b.Instrs {
			switch in := in.(type) {
			case *ssa.Store:
				// loop form: some index of the address chain is a loop counter
				if ctr, arr := loopIndexOf(in.Addr); ctr != nil {
					iv, delta, ok := loopCounter(ctr)
					if !ok {
						continue
					}
					t := &tctx{fn: fn, iv: ctr, budget: 4000}
					key := t.addr(in.Addr)
					t.offs = nil
					tm := t.val(in.Val)
					g := get("loop:"+key+"@"+ctr.Name(), "loop", arr.Len(), in.Pos())
					g.iv, g.delta = iv, delta
					g.loop = &limbWrite{tmpl: tm, offs: t.offs, opaque: t.opaque, pos: in.Pos()}
					continue
				}
				ia, ok := in.Addr.(*ssa.IndexAddr)
				if !ok {
					continue
				}
				arr, ok := isArrayPtr(ia.X.Type())
				if !ok {
					continue
				}
				if c, ok := constInt(ia.Index); ok {
					t := &tctx{fn: fn, c: c, budget: 4000}
					key := t.addr(ia.X)
					t.offs = nil
					tm := t.val(in.Val)
					g := get("unrolled:"+key, "unrolled", arr.Len(), in.Pos())
					g.writes[c] = &limbWrite{idx: c, tmpl: tm, offs: t.offs, opaque: t.opaque, pos: in.Pos()}
				}
			case *ssa.Call:
				callee := in.Call.StaticCallee()
				if callee == nil {
					continue
				}
				var first *ssa.IndexAddr
				for _, a := range in.Call.Args {
					if ia, ok := a.(*ssa.IndexAddr); ok {
						if _, ok := isArrayPtr(ia.X.Type()); ok {
							if _, ok := constInt(ia.Index); ok {
								first = ia
								break
							}
						}
					}
				}
				if first == nil {
					continue
				}
				arr, _ := isArrayPtr(first.X.Type())
				c, _ := constInt(first.Index)
				t := &tctx{fn: fn, c: c, budget: 4000}
				tm := t.val(in)
				g := get("calls:"+funcKey(callee), "calls", arr.Len(), in.Pos())
				g.writes[c] = &limbWrite{idx: c, tmpl: tm, offs: t.offs, opaque: t.opaque, pos: in.Pos()}
			}
		}
	}
	var out []*limbGroup
	for _, k := range order {
		out = append(out, groups[k])
	}
	return out
}

// loopIndexOf finds, in the address chain of a store, an array index that is
// a loop counter and returns it with the array it indexes.
func loopIndexOf(addr ssa.Value) (ssa.Value, *types.Array) {
	for {
		switch a := addr.(type) {
		case *ssa.IndexAddr:
			if arr, ok := isArrayPtr(a.X.Type()); ok {
				if _, _, ok := loopCounter(a.Index); ok {
					return stripConv(a.Index), arr
				}
			}
			addr = a.X
			continue
		case *ssa.FieldAddr:
			addr = a.X
			continue
		}
		return nil, nil
	}
}

func allZero(offs []int64) bool {
	for _, o := range offs {
		if o != 0 {
			return false
		}
	}
	return len(offs) > 0
}

// evaluate classifies a group: limbwise = it looks like an intended
// limb-wise operation (complete, majority template reads limbs at offset 0
// only); uniform = every limb uses that one template.
func (g *limbGroup) evaluate() (limbwise, uniform bool, tmpl, deviant string, pos token.Pos) {
	if g.form == "loop" {
		w := g.loop
		if w == nil || g.iv == nil {
			return false, false, "", "", g.pos
		}
		if len(w.offs) == 0 {
			return false, false, w.tmpl, "", w.pos
		}
		// a loop that indexes limb arrays with its counter is a limb-wise loop
		vals := g.iv.values(64)
		for i := range vals {
			vals[i] += g.delta
		}
		switch {
		case w.opaque:
			return true, false, w.tmpl, "an index depends on the loop counter in an unrecognised way", w.pos
		case !allZero(w.offs):
			return true, false, w.tmpl, "a limb is read at a non-zero offset from the limb written", w.pos
		case !isRange(vals, 0, g.n-1):
			return true, false, w.tmpl, sprintf("the loop visits %v, not every limb 0..%d exactly once", vals, g.n-1), w.pos
		}
		return true, true, w.tmpl, "", w.pos
	}
	if int64(len(g.writes)) != g.n {
		return false, false, "", "", g.pos
	}
	count := map[string]int{}
	for i := int64(0); i < g.n; i++ {
		w := g.writes[i]
		if w == nil {
			return false, false, "", "", g.pos
		}
		count[w.tmpl]++
	}
	best, bestN := "", 0
	for _, k := range sortedKeys(count) {
		if count[k] > bestN {
			best, bestN = k, count[k]
		}
	}
	if int64(2*bestN) <= g.n {
		return false, false, "", "", g.pos
	}
	var maj *limbWrite
	for i := int64(0); i < g.n; i++ {
		if g.writes[i].tmpl == best {
			maj = g.writes[i]
			break
		}
	}
	if maj.opaque || !allZero(maj.offs) {
		return false, false, best, "", g.pos
	}
	for i := int64(0); i < g.n; i++ {
		if w := g.writes[i]; w.tmpl != best {
			return true, false, best, sprintf("limb %d is computed by %s, the other limbs by %s", i, w.tmpl, best), w.pos
		}
	}
	return true, true, best, "", maj.pos
}

// backendOf returns "u64" or "u32" from the limb count of field.Element.
func backendOf(p *load.Program) string {
	pk := p.Pkg(fieldRel)
	if pk == nil {
		return ""
	}
	tn, _ := pk.Types.Scope().Lookup("Element").(*types.TypeName)
	if tn == nil {
		return ""
	}
	st, _ := tn.Type().Underlying().(*types.Struct)
	if st == nil {
		return ""
	}
	for i := 0; i < st.NumFields(); i++ {
		if a, ok := st.Field(i).Type().Underlying().(*types.Array); ok {
			switch a.Len() {
			case 5:
				return "u64"
			case 10:
				return "u32"
			}
		}
	}
	return ""
}

// CheckUniform decides limb uniformity of the limb-wise operations of
// internal/field (and, where it is built, of the Go parts of the AVX2 back
// end in package curve) in configuration p.  One instance per limb-wise
// group; the frozen list and the discovered set must coincide.
func CheckUniform(run *report.Run, p *load.Program, ruleID string) []UniformGroup {
	ru := run.Rule(ruleID, "limb-wise operations compute limb i from limbs i by one template for all i (constants may differ per limb)", 0)
	be := backendOf(p)
	if be == "" {
		run.Fatal("E-SIB uniform: cannot determine the limb count of %s.Element in configuration %s", fieldRel, p.Cfg.ID)
		return nil
	}
	expected := map[string]string{}
	for k, v := range limbwise[be] {
		expected[k] = v
	}
	if p.Obj(curveRel, "fieldElement2625x4") != nil {
		for k, v := range limbwise["vec"] {
			expected[k] = v
		}
	}
	var out []UniformGroup
	found := map[string]bool{}
	for _, fn := range p.ModuleFuncs() {
		if fn.Pkg == nil || len(fn.Blocks) == 0 {
			continue
		}
		rel := load.Rel(fn.Pkg.Pkg)
		if rel != fieldRel && rel != curveRel {
			continue
		}
		name := funcKey(topLevel(fn))
		for _, g := range limbGroups(fn) {
			lw, uni, tmpl, dev, pos := g.evaluate()
			if !lw {
				continue
			}
			if rel == curveRel && g.form != "loop" {
				// package curve: only the vector pack/split loops are limb code
				continue
			}
			found[name] = true
			ug := UniformGroup{Func: name, Base: g.base, N: g.n, Form: g.form, Template: tmpl, Uniform: uni, pos: pos, deviant: dev}
			out = append(out, ug)
			construct := name + " " + g.base
			if _, listed := expected[name]; !listed {
				ru.Failf(p.Pos(pos), construct, "limb-wise code found in a function that is not in the frozen list of limb-wise operations of back end %s; add it with a reason", be)
				continue
			}
			if !uni {
				ru.Failf(p.Pos(pos), construct, "limb-wise operation is not uniform: %s", dev)
				continue
			}
			ru.OK(construct)
		}
	}
	for _, name := range sortedKeys(expected) {
		if !found[name] {
			ru.Failf("-", name, "frozen limb-wise operation (%s) is no longer recognised as limb-wise in back end %s (function missing, or no complete group of per-limb writes)", expected[name], be)
		}
	}
	sort.SliceStable(out, func(i, j int) bool { return out[i].Func < out[j].Func })
	return out
}
