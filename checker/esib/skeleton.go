package esib

import (
	"go/ast"
	"go/constant"
	"go/token"
	"go/types"
	"strings"

	"golang.org/x/tools/go/packages"

	"voicheck/load"
)

// ---------------------------------------------------------------------------
// Skeleton extraction (DESIGN E-SIB "Skeleton").
//
// The body of a routine of package curve is walked as typed syntax with a
// small abstract environment.  Nothing numeric is evaluated; the walk only
// keeps track of WHAT a local denotes:
//
//	a recoding of a scalar role            (ToRadix16 / NonAdjacentForm(w) / ToRadix2w(w))
//	one digit of it, maybe negated/offset  (nafs[j][i], -naf_i, digit-1)
//	a lookup table and where it came from  (constructor of a point role, parameter, field, global)
//	a looked-up entry                      (T.Lookup(d))
//	a point accumulator                    (local, parameter, slice element)
//	a bookkeeping integer                  (lin: loop variables, len(), constants, w)
//
// and emits a tree of events: group operations (identity, k doublings, add,
// sub, negate, conversion, copy), recodings, table constructions, loops with
// symbolic bounds, digit/flag guards, start-index scans and delegations.
// Locals are identified by their *types.Var objects, never by spelling; the
// declared callees are classified by receiver type and method name.
// ---------------------------------------------------------------------------

// tableClass abstracts a lookup-table type: CT<n> = constant-time table with
// n consecutive multiples (Lookup takes a signed digit), ODD<n> = table of n
// odd multiples indexed directly (Lookup takes an unsigned digit).
type tableClass struct {
	Kind string
	N    int64
	Type string
}

func (c tableClass) String() string { return sprintf("%s%d", c.Kind, c.N) }

type recoding struct {
	id   int
	kind string // R16 | NAF | R2W
	w    *lin   // nil for R16
	src  string // scalar role
	pos  token.Pos
}

type tableRef struct {
	id   int
	cls  tableClass
	src  string // role of the point / parameter / global the table holds multiples of
	how  string // new | param | global | field
	ctor string
	pos  token.Pos
}

type svKind int

const (
	svUnknown svKind = iota
	svInt
	svDigits
	svDigit
	svTable
	svEntry
	svPoint
	svVec
	svClosure
	svBool
	svRole // scalars, structs and anything only known by its role
)

type sval struct {
	k    svKind
	n    *lin
	rec  *recoding
	term *lin // digits / table: index into a per-term vector (nil: single)
	pos  *lin
	neg  bool
	off  int64
	tbl  *tableRef
	arg  *sval
	pl   *place
	elem *sval
	role string
	lit  *ast.FuncLit
	not  bool
	cnd  *cond // svBool: the condition normal form of a comparison / logical expression
}

// place is a point-valued storage location.
type place struct {
	root types.Object
	elem bool
	idx  *lin  // element index (bookkeeping integer) ...
	didx *sval // ... or a digit expression (Pippenger bucket)
}

// cond is a guard in condition normal form (see skelcond.go).
type cond struct {
	kind string // dig | flag | int | and | or | unknown
	dig  *sval
	rel  string // dig: >0 <0 !=0 ==0 >=0 <=0; int: >0 ==0 !=0
	flag string
	not  bool // flag literals only
	n    *lin
	sub  []*cond // and | or
	desc string
}

type node struct {
	kind string // I D add sub neg conv copy recode table tstore loop each if scan call ret panic
	pos  token.Pos

	dst, a, b *place
	entry     *sval
	final     *place
	k         *lin
	// accumulator identities at the time of the event (flow-sensitive: a
	// conversion makes its destination the same accumulator as its source, an
	// operation continues the accumulator of its first operand)
	dstAcc, aAcc, bAcc types.Object

	rec *recoding
	tbl *tableRef

	v        string // loop variable atom id
	from, to *lin
	step     int64
	excl     bool // `to` is an exclusive bound (|step| != 1)
	over     string
	body     []*node

	cond *cond
	els  []*node

	srcs    []string
	srcDigs []*sval // scan: one digit of each recoding tested

	callee string
	args   []string
	desc   string
}

type problem struct {
	pos token.Pos
	msg string
}

// knowledge holds the anchors resolved once per program.
type knowledge struct {
	p          *load.Program
	pk         *packages.Package
	pointTypes map[*types.TypeName]bool
	tables     map[*types.TypeName]tableClass // lookup-table types
	combs      map[*types.TypeName]tableClass // arrays of lookup tables (fixed-base tables): element class
	scalarT    *types.TypeName
	globals    map[types.Object]string // frozen roles of package-level tables
	missing    []string
	// keep lists the callees that stay delegation events (`call f(roles)`):
	// dispatchers, members of (vector, generic) pairs, routines with their own
	// skeleton, table constructors.  Every other small unexported helper of
	// package curve is inlined into the skeleton of its caller, so extracting a
	// few statements into a helper does not change the normal form.
	keep map[*types.Func]bool
}

// pointTypeNames is the frozen list of point representations of package
// curve (resolved by name; a missing one fails the check).
var pointTypeNames = []string{"EdwardsPoint", "projectivePoint", "completedPoint", "affineNielsPoint", "projectiveNielsPoint", "extendedPoint", "cachedPoint"}

// globalTableRoles freezes which point the package-level odd-multiple tables
// hold multiples of (their contents are E-CONST's business; the vector ones
// are additionally traced to their constructor calls in init, see
// checkEntryPoints).
var globalTableRoles = map[string]string{
	"constAFFINE_ODD_MULTIPLES_OF_BASEPOINT": "B",
	"constAFFINE_ODD_MULTIPLES_OF_B_SHL_128": "B<<128",
	"constVECTOR_ODD_MULTIPLES_OF_BASEPOINT": "B",
	"constVECTOR_ODD_MULTIPLES_OF_B_SHL_128": "B<<128",
}

func newKnowledge(p *load.Program) *knowledge {
	kn := &knowledge{p: p, pk: p.Pkg(curveRel), pointTypes: map[*types.TypeName]bool{}, tables: map[*types.TypeName]tableClass{},
		combs: map[*types.TypeName]tableClass{}, globals: map[types.Object]string{}}
	if kn.pk == nil {
		kn.missing = append(kn.missing, "package "+curveRel)
		return kn
	}
	sc := kn.pk.Types.Scope()
	for _, n := range pointTypeNames {
		tn, _ := sc.Lookup(n).(*types.TypeName)
		if tn == nil {
			kn.missing = append(kn.missing, curveRel+"."+n)
			continue
		}
		kn.pointTypes[tn] = true
	}
	if sp := p.Pkg(scalarRel); sp != nil {
		kn.scalarT, _ = sp.Types.Scope().Lookup("Scalar").(*types.TypeName)
	}
	if kn.scalarT == nil {
		kn.missing = append(kn.missing, scalarRel+".Scalar")
	}
	// lookup-table types: named arrays of a point type with a Lookup method
	for _, n := range sc.Names() {
		tn, ok := sc.Lookup(n).(*types.TypeName)
		if !ok || tn.IsAlias() {
			continue
		}
		named, ok := tn.Type().(*types.Named)
		if !ok {
			continue
		}
		arr, ok := named.Underlying().(*types.Array)
		if !ok {
			continue
		}
		en := namedOf(arr.Elem())
		if en == nil || !kn.pointTypes[en.Obj()] {
			continue
		}
		for i := 0; i < named.NumMethods(); i++ {
			m := named.Method(i)
			if m.Name() != "Lookup" {
				continue
			}
			sig := m.Type().(*types.Signature)
			if sig.Params().Len() != 1 {
				continue
			}
			if b, ok := sig.Params().At(0).Type().Underlying().(*types.Basic); ok {
				switch b.Kind() {
				case types.Int8:
					kn.tables[tn] = tableClass{"CT", arr.Len(), tn.Name()}
				case types.Uint8:
					kn.tables[tn] = tableClass{"ODD", arr.Len(), tn.Name()}
				}
			}
		}
	}
	for _, n := range sc.Names() {
		tn, ok := sc.Lookup(n).(*types.TypeName)
		if !ok || tn.IsAlias() {
			continue
		}
		if arr, ok := tn.Type().Underlying().(*types.Array); ok {
			if en := namedOf(arr.Elem()); en != nil {
				if cls, ok := kn.tables[en.Obj()]; ok {
					kn.combs[tn] = cls
				}
			}
		}
	}
	for name, role := range globalTableRoles {
		if o := sc.Lookup(name); o != nil {
			kn.globals[o] = role
		}
	}
	return kn
}

func (kn *knowledge) isPointType(t types.Type) bool {
	n := namedOf(t)
	return n != nil && kn.pointTypes[n.Obj()]
}

func (kn *knowledge) tableClassOf(t types.Type) (tableClass, bool) {
	n := namedOf(t)
	if n == nil {
		return tableClass{}, false
	}
	c, ok := kn.tables[n.Obj()]
	return c, ok
}

func (kn *knowledge) combClassOf(t types.Type) (tableClass, bool) {
	n := namedOf(t)
	if n == nil {
		return tableClass{}, false
	}
	c, ok := kn.combs[n.Obj()]
	return c, ok
}

func (kn *knowledge) isScalar(t types.Type) bool {
	n := namedOf(t)
	return n != nil && n.Obj() == kn.scalarT
}

// opClass classifies a declared callee.
//
//	I, D1, Dk, add, sub, neg, conv  group operations on point types
//	lookup, recode, ctor            table lookup, digit recoding, table constructor
//	pointother                      another method of a point type (flagged)
//	call                            a function or method of package curve that is not one of the above
//	ignore                          everything else (scalar arithmetic, other packages, builtins)
func (kn *knowledge) opClass(f *types.Func) string {
	if f == nil || f.Pkg() == nil {
		return "ignore"
	}
	rn := recvNamed(f)
	name := f.Name()
	if rn != nil && rn.Obj() == kn.scalarT {
		switch name {
		case "ToRadix16", "NonAdjacentForm", "ToRadix2w":
			return "recode"
		}
		return "ignore"
	}
	if load.Rel(f.Pkg()) != curveRel {
		return "ignore"
	}
	if rn != nil {
		if kn.pointTypes[rn.Obj()] {
			lower := strings.ToLower(name)
			switch {
			case name == "Identity":
				return "I"
			case lower == "double":
				return "D1"
			case lower == "mulbypow2":
				return "Dk"
			case lower == "mulbycofactor":
				return "call"
			case strings.HasPrefix(name, "Add"):
				return "add"
			case strings.HasPrefix(name, "Sub"):
				return "sub"
			case name == "Neg":
				return "neg"
			case strings.HasPrefix(lower, "set") && f.Type().(*types.Signature).Params().Len() == 1 && kn.isPointType(f.Type().(*types.Signature).Params().At(0).Type()):
				return "conv"
			case name == "Sum", name == "Mul", name == "MulBasepoint", strings.Contains(name, "ScalarMul"), strings.Contains(name, "scalarMul"):
				return "call"
			}
			return "pointother"
		}
		if _, ok := kn.tables[rn.Obj()]; ok && name == "Lookup" {
			return "lookup"
		}
		return "call"
	}
	sig := f.Type().(*types.Signature)
	// table constructor: builds a lookup table from one point (the unpackers of
	// literal tables take packed bytes and belong to E-CONST)
	if sig.Results().Len() == 1 && sig.Params().Len() == 1 && kn.isPointType(sig.Params().At(0).Type()) {
		if _, ok := kn.tableClassOf(sig.Results().At(0).Type()); ok {
			if _, isPtr := sig.Results().At(0).Type().(*types.Pointer); !isPtr {
				return "ctor"
			}
		}
	}
	return "call"
}

// ---------------------------------------------------------------------------

type extractor struct {
	kn   *knowledge
	info *types.Info
	fn   *types.Func
	decl *ast.FuncDecl
	sym  *symtab

	env      map[types.Object]*sval
	acc      map[types.Object]types.Object // location root -> accumulator it currently holds
	origin   map[types.Object]*place       // location root -> place it was converted from
	makes    map[types.Object]*lin         // slice local -> number of elements it was made with
	recs     []*recoding
	tbls     []*tableRef
	problems []problem
	sink     *[]*node
	params   map[types.Object]int
	locOrd   map[string]int
	locRole  map[types.Object]string
	fills    map[types.Object]string
	depth    int                  // nesting depth of conditionals and loops
	declAt   map[types.Object]int // depth at which an int local was declared
	merged   map[types.Object]*atom
	inline   int
	retVal   *sval
	retSet   bool
	retVals  []*sval                       // all results of the last return of an inlined body
	multiRet []*sval                       // results of the last inlined call (for a, b := helper())
	stack    []*types.Func                 // helpers being inlined (no recursion)
	named    []types.Object                // named results of the helper being inlined
	alias    map[types.Object]types.Object // parameter of an inlined helper -> the caller's variable passed for it
	nscan    int
}

// Skeleton is the extracted skeleton of one function.
type Skeleton struct {
	Func     string
	fn       *types.Func
	decl     *ast.FuncDecl
	x        *extractor
	raw      []*node
	norm     []*node
	NF       string // printed normal form
	Problems []string
}

func (kn *knowledge) extract(fn *types.Func) *Skeleton {
	decl := kn.p.FuncDecl(fn)
	sk := &Skeleton{Func: objKey(fn), fn: fn, decl: decl}
	if decl == nil || decl.Body == nil {
		sk.Problems = append(sk.Problems, "no Go body")
		return sk
	}
	x := &extractor{kn: kn, info: kn.p.InfoOf(fn.Pkg()), fn: fn, decl: decl, sym: newSymtab(),
		env: map[types.Object]*sval{}, acc: map[types.Object]types.Object{}, origin: map[types.Object]*place{},
		makes: map[types.Object]*lin{}, params: map[types.Object]int{},
		locOrd: map[string]int{}, locRole: map[types.Object]string{}, fills: map[types.Object]string{},
		declAt: map[types.Object]int{}, merged: map[types.Object]*atom{}}
	sk.x = x
	i := 0
	if decl.Recv != nil {
		for _, f := range decl.Recv.List {
			for _, n := range f.Names {
				x.params[x.info.Defs[n]] = i
			}
			i++
		}
	}
	for _, f := range decl.Type.Params.List {
		for _, n := range f.Names {
			x.params[x.info.Defs[n]] = i
			i++
		}
		if len(f.Names) == 0 {
			i++
		}
	}
	var out []*node
	x.sink = &out
	func() {
		defer func() {
			if e := recover(); e != nil {
				x.problem(decl.Pos(), sprintf("skeleton extraction panicked: %v", e))
			}
		}()
		x.stmts(decl.Body.List)
	}()
	sk.raw = out
	for _, pr := range x.problems {
		sk.Problems = append(sk.Problems, kn.p.Pos(pr.pos)+": "+pr.msg)
	}
	return sk
}

func (x *extractor) problem(pos token.Pos, msg string) {
	for _, p := range x.problems {
		if p.msg == msg {
			return
		}
	}
	x.problems = append(x.problems, problem{pos, msg})
}

func (x *extractor) emit(n *node) { *x.sink = append(*x.sink, n) }

// collect runs f with a fresh sink and returns what it emitted.
func (x *extractor) collect(f func()) []*node {
	var out []*node
	old := x.sink
	x.sink = &out
	f()
	x.sink = old
	return out
}

// --- accumulators -----------------------------------------------------------------

// accOf returns the accumulator a location currently holds.
func (x *extractor) accOf(p *place) types.Object {
	if p == nil || p.root == nil {
		return nil
	}
	if a, ok := x.acc[p.root]; ok {
		return a
	}
	return p.root
}

// resolve follows conversions back to the place a temporary was filled from
// (cp.SetExtended(&buckets[i]) used as an addend denotes buckets[i]).
func (x *extractor) resolve(p *place) *place {
	for i := 0; p != nil && !p.elem && i < 8; i++ {
		o, ok := x.origin[p.root]
		if !ok || o == nil {
			break
		}
		p = o
	}
	return p
}

// --- roles ---------------------------------------------------------------------

// roleOf names a parameter "p<i>" and a local "<Type>#<k>" (k = ordinal among
// the locals of that type in order of first use).
// root is the variable an identifier denotes as the root of a storage
// location: a (slice / array / struct) parameter of an inlined helper stands
// for the caller's variable that was passed for it.
func (x *extractor) root(id *ast.Ident) types.Object {
	return x.unalias(objOf(x.info, id))
}

func (x *extractor) unalias(o types.Object) types.Object {
	for i := 0; i < 8 && o != nil; i++ {
		a, ok := x.alias[o]
		if !ok {
			break
		}
		o = a
	}
	return o
}

func (x *extractor) roleOf(o types.Object) string {
	o = x.unalias(o)
	if o == nil {
		return "?"
	}
	if i, ok := x.params[o]; ok {
		return sprintf("p%d", i)
	}
	if r, ok := x.locRole[o]; ok {
		return r
	}
	if !isLocalObj(o) {
		if r, ok := x.kn.globals[o]; ok {
			return "G:" + r
		}
		return "G:" + o.Name()
	}
	tn := typeName(o.Type())
	if tn == "" {
		tn = o.Type().String()
	}
	r := sprintf("%s#%d", tn, x.locOrd[tn])
	x.locOrd[tn]++
	x.locRole[o] = r
	return r
}

// initial gives the abstract value of an object on first use.
func (x *extractor) initial(o types.Object) *sval {
	t := o.Type()
	if cls, ok := x.kn.tableClassOf(t); ok {
		how := "param"
		if !isLocalObj(o) {
			how = "global"
		} else if _, isParam := x.params[o]; !isParam {
			how = "local"
		}
		return &sval{k: svTable, tbl: x.newTable(cls, x.roleOf(o), how, "", o.Pos())}
	}
	if cls, ok := x.kn.combClassOf(t); ok {
		return &sval{k: svVec, role: x.roleOf(o), elem: &sval{k: svTable, tbl: x.newTable(cls, x.roleOf(o)+"[]", "param", "", o.Pos())}}
	}
	if x.kn.isPointType(t) {
		return &sval{k: svPoint, pl: &place{root: o}}
	}
	if _, isArr := t.Underlying().(*types.Array); isArr && x.isPointSlice(t) {
		return &sval{k: svPoint, pl: &place{root: o}}
	}
	switch u := t.Underlying().(type) {
	case *types.Basic:
		switch {
		case u.Info()&types.IsBoolean != 0:
			return &sval{k: svBool, role: x.roleOf(o)}
		case u.Info()&types.IsInteger != 0:
			if _, isParam := x.params[o]; isParam {
				a := x.sym.fresh("var", x.roleOf(o))
				x.sym.atoms[a.id].label = x.roleOf(o)
				x.merged[o] = a
				return &sval{k: svInt, n: x.sym.atomLin(a)}
			}
		}
	case *types.Slice:
		return &sval{k: svVec, role: x.roleOf(o)}
	}
	return &sval{k: svRole, role: x.roleOf(o)}
}

func (x *extractor) newTable(cls tableClass, src, how, ctor string, pos token.Pos) *tableRef {
	t := &tableRef{id: len(x.tbls), cls: cls, src: src, how: how, ctor: ctor, pos: pos}
	x.tbls = append(x.tbls, t)
	return t
}

func (x *extractor) lookupObj(o types.Object) *sval {
	if v, ok := x.env[o]; ok {
		return v
	}
	v := x.initial(o)
	x.env[o] = v
	return v
}

// describe renders the role of a value for call arguments and returns.
func (x *extractor) describe(v *sval) string {
	if v == nil {
		return "?"
	}
	switch v.k {
	case svInt:
		return "int"
	case svTable:
		return "table " + v.tbl.cls.String() + "(" + v.tbl.src + ")"
	case svPoint:
		return "point"
	case svVec:
		if v.elem != nil {
			return "[]" + x.describe(v.elem)
		}
		return "[]" + v.role
	case svBool:
		if v.not {
			return "!" + v.role
		}
		return v.role
	case svRole:
		return v.role
	case svDigits:
		return "digits"
	case svEntry:
		return "entry"
	}
	return "?"
}

// --- expressions ---------------------------------------------------------------

func (x *extractor) constOf(e ast.Expr) (int64, bool) {
	tv, ok := x.info.Types[e]
	if !ok || tv.Value == nil || tv.Value.Kind() != constant.Int {
		return 0, false
	}
	return constant.Int64Val(tv.Value)
}

func (x *extractor) callee(call *ast.CallExpr) *types.Func {
	var id *ast.Ident
	switch f := unparen(call.Fun).(type) {
	case *ast.Ident:
		id = f
	case *ast.SelectorExpr:
		id = f.Sel
	}
	if id == nil {
		return nil
	}
	f, _ := x.info.Uses[id].(*types.Func)
	return f
}

func (x *extractor) ev(e ast.Expr) *sval {
	if e == nil {
		return &sval{}
	}
	e = unparen(e)
	if c, ok := x.constOf(e); ok {
		return &sval{k: svInt, n: konst(c)}
	}
	if tv, ok := x.info.Types[e]; ok && tv.Value != nil && tv.Value.Kind() == constant.Bool {
		return &sval{k: svBool, role: tv.Value.String()}
	}
	switch e := e.(type) {
	case *ast.Ident:
		o := objOf(x.info, e)
		if o == nil {
			return &sval{}
		}
		if _, isVar := o.(*types.Var); !isVar {
			return &sval{k: svRole, role: o.Name()}
		}
		return x.lookupObj(o)
	case *ast.UnaryExpr:
		v := x.ev(e.X)
		switch e.Op {
		case token.AND:
			return v
		case token.SUB:
			switch v.k {
			case svDigit:
				n := *v
				n.neg, n.off = !v.neg, -v.off
				return &n
			case svInt:
				return &sval{k: svInt, n: v.n.scale(-1)}
			}
		case token.NOT:
			if v.k == svBool {
				n := *v
				if v.cnd != nil {
					n.cnd = x.negate(v.cnd)
				} else {
					n.not = !v.not
				}
				return &n
			}
		case token.ADD:
			return v
		}
		return &sval{}
	case *ast.StarExpr:
		return x.ev(e.X)
	case *ast.BinaryExpr:
		switch e.Op {
		case token.LAND, token.LOR, token.LSS, token.GTR, token.LEQ, token.GEQ, token.EQL, token.NEQ:
			// a boolean value: carry its condition normal form (a local that
			// names a comparison is the same guard as the comparison itself)
			c := x.evCond(e)
			if c.kind == "flag" {
				return &sval{k: svBool, role: c.flag, not: c.not}
			}
			return &sval{k: svBool, role: "cond", cnd: c}
		}
		a, b := x.ev(e.X), x.ev(e.Y)
		if a.k == svDigit && b.k == svInt {
			if c, ok := b.n.isConst(); ok {
				n := *a
				switch e.Op {
				case token.ADD:
					n.off += c
					return &n
				case token.SUB:
					n.off -= c
					return &n
				}
			}
		}
		if a.k == svInt && b.k == svInt {
			switch e.Op {
			case token.ADD:
				return &sval{k: svInt, n: a.n.add(b.n)}
			case token.SUB:
				return &sval{k: svInt, n: a.n.sub(b.n)}
			case token.MUL:
				if c, ok := a.n.isConst(); ok {
					return &sval{k: svInt, n: b.n.scale(c)}
				}
				if c, ok := b.n.isConst(); ok {
					return &sval{k: svInt, n: a.n.scale(c)}
				}
				return &sval{k: svInt, n: x.sym.op("*", a.n, b.n)}
			case token.QUO, token.REM, token.SHL, token.SHR, token.AND:
				return &sval{k: svInt, n: x.sym.op(e.Op.String(), a.n, b.n)}
			}
		}
		return &sval{}
	case *ast.IndexExpr:
		base := x.ev(e.X)
		idx := x.ev(e.Index)
		return x.index(base, e.X, idx, e.Pos())
	case *ast.SelectorExpr:
		// field selection (method values do not occur)
		if sel := x.info.Selections[e]; sel != nil && sel.Kind() == types.FieldVal {
			base := x.ev(e.X)
			role := base.role
			if base.k == svPoint && base.pl != nil {
				role = x.roleOf(base.pl.root)
			}
			if role == "" {
				role = "?"
			}
			ft := sel.Obj().Type()
			if cls, ok := x.kn.tableClassOf(ft); ok {
				return &sval{k: svTable, tbl: x.newTable(cls, role, "field", sel.Obj().Name(), e.Pos())}
			}
			if x.kn.isPointType(ft) {
				// a point embedded in a struct value: a place rooted at the base object
				if id, ok := unparen(e.X).(*ast.Ident); ok {
					if o := x.root(id); o != nil {
						return &sval{k: svPoint, pl: &place{root: o}}
					}
				}
			}
			return &sval{k: svRole, role: role + "." + sel.Obj().Name()}
		}
		if o := x.info.Uses[e.Sel]; o != nil {
			if _, isVar := o.(*types.Var); isVar {
				return x.lookupObj(o) // package-qualified variable
			}
			return &sval{k: svRole, role: o.Name()}
		}
		return &sval{}
	case *ast.CompositeLit:
		return x.evComposite(e)
	case *ast.FuncLit:
		return &sval{k: svClosure, lit: e}
	case *ast.CallExpr:
		return x.evCall(e)
	case *ast.SliceExpr:
		base := x.ev(e.X)
		// x[:], x[0:], x[:len(x)] denote x; any other bounds denote a different
		// (shorter, re-based) sequence, which must not be mistaken for x
		whole := true
		desc := ""
		if e.Low != nil {
			lo := x.ev(e.Low)
			if c, ok := lo.n.isConst(); lo.k != svInt || !ok || c != 0 {
				whole = false
			}
			desc += x.describeBound(lo)
		}
		desc += ":"
		if e.High != nil {
			hi := x.ev(e.High)
			if hi.k != svInt || base.k != svVec || !hi.n.equal(x.lenOf(e.X, base)) {
				whole = false
			}
			desc += x.describeBound(hi)
		}
		if e.Max != nil {
			x.ev(e.Max)
		}
		if whole || base.k != svVec {
			return base
		}
		n := *base
		n.role = base.role + "[" + desc + "]"
		n.n = nil
		return &n
	}
	return &sval{}
}

func (x *extractor) describeBound(v *sval) string {
	if v.k == svInt {
		if c, ok := v.n.isConst(); ok {
			return sprintf("%d", c)
		}
		return newNamer(x.sym).lin(v.n)
	}
	return "?"
}

func (x *extractor) isPointSlice(t types.Type) bool {
	switch u := t.Underlying().(type) {
	case *types.Slice:
		return x.kn.isPointType(u.Elem())
	case *types.Array:
		return x.kn.isPointType(u.Elem())
	}
	return false
}

func (x *extractor) evComposite(e *ast.CompositeLit) *sval {
	t := x.info.Types[e].Type
	if t == nil {
		return &sval{}
	}
	switch u := t.Underlying().(type) {
	case *types.Slice:
		// [][]T{a, b}: concatenation of roles
		var roles []string
		for _, el := range e.Elts {
			v := x.ev(el)
			r := v.role
			if v.k != svVec || r == "" {
				r = "?"
			}
			roles = append(roles, r)
		}
		_ = u
		return &sval{k: svVec, role: strings.Join(roles, "++")}
	case *types.Array:
		if x.kn.isPointType(u.Elem()) {
			// [n]T{P, P, ...}: an array of points all initialised from the same place
			var src *place
			same := int64(len(e.Elts)) == u.Len()
			for _, el := range e.Elts {
				v := x.ev(el)
				if v.k != svPoint || v.pl == nil || v.pl.elem || (src != nil && src.root != v.pl.root) {
					same = false
					break
				}
				src = v.pl
			}
			if same && src != nil {
				return &sval{k: svPoint, pl: src, role: "arrayinit"}
			}
			return &sval{}
		}
	}
	// struct literals etc.: evaluate the element values for their events
	for _, el := range e.Elts {
		if kv, ok := el.(*ast.KeyValueExpr); ok {
			x.ev(kv.Value)
		} else {
			x.ev(el)
		}
	}
	return &sval{}
}

func (x *extractor) evCall(call *ast.CallExpr) *sval {
	// conversions
	if tv, ok := x.info.Types[call.Fun]; ok && tv.IsType() && len(call.Args) == 1 {
		v := x.ev(call.Args[0])
		if cls, ok := x.kn.tableClassOf(tv.Type); ok && v.k == svPoint && v.pl != nil {
			// T(points): the local array becomes the table
			x.emit(&node{kind: "ret-table", pos: call.Pos(), a: v.pl, desc: cls.String()})
			return &sval{k: svTable, tbl: x.newTable(cls, x.roleOf(v.pl.root), "local", "", call.Pos())}
		}
		return v // integer conversions are erased
	}
	// builtins and closures
	if id, ok := unparen(call.Fun).(*ast.Ident); ok {
		switch o := x.info.Uses[id].(type) {
		case *types.Builtin:
			return x.evBuiltin(o.Name(), call)
		case *types.Var:
			if v := x.lookupObj(o); v.k == svClosure {
				return x.inlineClosure(v.lit, call)
			}
		}
	}
	f := x.callee(call)
	if f == nil {
		for _, a := range call.Args {
			x.ev(a)
		}
		return &sval{}
	}
	cls := x.kn.opClass(f)
	var recvE ast.Expr
	if sel, ok := unparen(call.Fun).(*ast.SelectorExpr); ok && recvNamed(f) != nil {
		recvE = sel.X
	}
	if cls == "call" || cls == "pointother" {
		if decl := x.inlinable(f); decl != nil {
			return x.inlineFunc(f, decl, recvE, call)
		}
	}
	switch cls {
	case "recode":
		src := x.ev(recvE)
		r := &recoding{id: len(x.recs), src: x.describe(src), pos: call.Pos()}
		switch f.Name() {
		case "ToRadix16":
			r.kind = "R16"
		case "NonAdjacentForm":
			r.kind = "NAF"
		case "ToRadix2w":
			r.kind = "R2W"
		}
		if len(call.Args) == 1 {
			w := x.ev(call.Args[0])
			if w.k != svInt {
				x.problem(call.Pos(), "recoding width is not a bookkeeping integer")
				w = &sval{k: svInt, n: konst(-1)}
			}
			r.w = w.n
		}
		x.recs = append(x.recs, r)
		x.emit(&node{kind: "recode", pos: call.Pos(), rec: r})
		return &sval{k: svDigits, rec: r}
	case "ctor":
		var src string
		var ap *place
		if len(call.Args) == 1 {
			v := x.ev(call.Args[0])
			src = x.describe(v)
			if v.k == svPoint && v.pl != nil {
				src = x.pointRole(v.pl)
				ap = v.pl
			}
		}
		tc, _ := x.kn.tableClassOf(f.Type().(*types.Signature).Results().At(0).Type())
		t := x.newTable(tc, src, "new", objKey(f), call.Pos())
		x.emit(&node{kind: "table", pos: call.Pos(), tbl: t, a: ap})
		return &sval{k: svTable, tbl: t}
	case "lookup":
		tv := x.ev(recvE)
		if tv.k != svTable {
			x.problem(call.Pos(), "the table of a Lookup cannot be resolved")
			return &sval{}
		}
		arg := x.ev(call.Args[0])
		if arg.k != svDigit && arg.k != svInt {
			x.problem(call.Pos(), "the argument of a Lookup is neither a recoded digit nor a constant")
			return &sval{}
		}
		return &sval{k: svEntry, tbl: tv.tbl, term: tv.term, arg: arg}
	case "I", "D1", "Dk", "add", "sub", "neg", "conv":
		return x.pointOp(cls, f, recvE, call)
	case "pointother":
		for _, a := range call.Args {
			x.ev(a)
		}
		rv := x.ev(recvE)
		x.emit(&node{kind: "other", pos: call.Pos(), callee: objKey(f), dst: rv.pl, dstAcc: x.accOf(rv.pl)})
		return rv
	case "call":
		var args []string
		if recvE != nil {
			args = append(args, x.describeArg(x.ev(recvE)))
		}
		for _, a := range call.Args {
			args = append(args, x.describeArg(x.ev(a)))
		}
		x.emit(&node{kind: "call", pos: call.Pos(), callee: objKey(f), args: args})
		sig := f.Type().(*types.Signature)
		if sig.Results().Len() >= 1 {
			rt := sig.Results().At(0).Type()
			if x.kn.isPointType(rt) && recvE != nil {
				return x.ev(recvE)
			}
			if b, ok := rt.Underlying().(*types.Basic); ok && b.Info()&types.IsBoolean != 0 {
				return &sval{k: svBool, role: shortKey(objKey(f)) + "(" + strings.Join(args, ",") + ")"}
			}
			if b, ok := rt.Underlying().(*types.Basic); ok && b.Info()&types.IsInteger != 0 {
				var ls []*lin
				for _, a := range call.Args {
					if v := x.ev(a); v.k == svInt {
						ls = append(ls, v.n)
					}
				}
				return &sval{k: svInt, n: x.sym.op(shortKey(objKey(f)), ls...)}
			}
		}
		return &sval{k: svRole, role: "result"}
	}
	// ignore: evaluate for side conditions, describe the result by role
	var args []string
	var ints []*lin
	allInt := true
	if recvE != nil {
		args = append(args, x.describeArg(x.ev(recvE)))
	}
	for _, a := range call.Args {
		v := x.ev(a)
		args = append(args, x.describeArg(v))
		if v.k == svInt {
			ints = append(ints, v.n)
		} else {
			allInt = false
		}
	}
	sig := f.Type().(*types.Signature)
	if sig.Results().Len() >= 1 {
		rt := sig.Results().At(0).Type()
		if b, ok := rt.Underlying().(*types.Basic); ok {
			switch {
			case b.Info()&types.IsBoolean != 0:
				return &sval{k: svBool, role: shortKey(objKey(f)) + "(" + strings.Join(args, ",") + ")"}
			case b.Info()&types.IsInteger != 0 && allInt:
				return &sval{k: svInt, n: x.sym.op(shortKey(objKey(f)), ints...)}
			}
		}
		if recvE != nil && x.kn.isScalar(rt) {
			return x.ev(recvE)
		}
	}
	return &sval{k: svRole, role: shortKey(objKey(f)) + "(" + strings.Join(args, ",") + ")"}
}

func (x *extractor) describeArg(v *sval) string {
	if v != nil && v.k == svPoint && v.pl != nil {
		return x.pointRole(v.pl)
	}
	return x.describe(v)
}

// pointRole names a point place by its role: parameters "p<i>", range
// variables "each(p<i>)", locals "<Type>#k".
func (x *extractor) pointRole(pl *place) string {
	r := x.roleOf(pl.root)
	if pl.elem {
		r = "each(" + r + ")"
	}
	return r
}

func (x *extractor) evBuiltin(name string, call *ast.CallExpr) *sval {
	switch name {
	case "len":
		if n, ok := x.constLen(call.Args[0]); ok {
			return &sval{k: svInt, n: konst(n)}
		}
		v := x.ev(call.Args[0])
		if v.k == svVec {
			return &sval{k: svInt, n: x.lenOf(call.Args[0], v)}
		}
		return &sval{}
	case "make":
		out := &sval{k: svVec}
		if len(call.Args) == 2 {
			if n := x.ev(call.Args[1]); n.k == svInt {
				out.n = n.n // number of elements
			}
		} else {
			for _, a := range call.Args[1:] {
				x.ev(a)
			}
		}
		return out
	case "append":
		s := x.ev(call.Args[0])
		if len(call.Args) == 2 {
			e := x.ev(call.Args[1])
			out := &sval{k: svVec, role: s.role}
			switch e.k {
			case svDigits, svTable:
				if s.elem != nil && (s.elem.k != e.k) {
					x.problem(call.Pos(), "a slice collects values of different kinds")
				}
				out.elem = e
				// the slice has one element per element of the role it was built from
				if r := roleInside(x.describeElemSrc(e)); r != "" {
					out.role = r
				}
			default:
				out.role = s.role
				if e.k == svPoint && e.pl != nil {
					if r := roleInside(x.roleOf(e.pl.root)); r != "" {
						out.role = r
					}
				} else if e.k == svRole {
					if r := roleInside(e.role); r != "" {
						out.role = r
					}
				}
			}
			return out
		}
		return s
	case "panic":
		x.emit(&node{kind: "panic", pos: call.Pos()})
		return &sval{}
	case "copy":
		return &sval{}
	}
	for _, a := range call.Args {
		x.ev(a)
	}
	return &sval{}
}

func (x *extractor) describeElemSrc(e *sval) string {
	switch e.k {
	case svDigits:
		return e.rec.src
	case svTable:
		return e.tbl.src
	}
	return ""
}

// roleInside extracts R from "each(R)" / "each(R).field".
func roleInside(s string) string {
	if i := strings.Index(s, "each("); i >= 0 {
		depth := 0
		for j := i + 5; j < len(s); j++ {
			switch s[j] {
			case '(':
				depth++
			case ')':
				if depth == 0 {
					return s[i+5 : j]
				}
				depth--
			}
		}
	}
	return ""
}

func (x *extractor) inlineClosure(lit *ast.FuncLit, call *ast.CallExpr) *sval {
	if x.inline > 4 {
		x.problem(call.Pos(), "closure nesting too deep")
		return &sval{}
	}
	i := 0
	for _, f := range lit.Type.Params.List {
		for _, n := range f.Names {
			if i < len(call.Args) {
				x.env[x.info.Defs[n]] = x.ev(call.Args[i])
			}
			i++
		}
	}
	x.inline++
	oldRet, oldSet, oldVals, oldNamed := x.retVal, x.retSet, x.retVals, x.named
	x.retVal, x.retSet, x.retVals, x.named = nil, false, nil, nil
	x.stmts(lit.Body.List)
	rv := x.retVal
	x.multiRet = x.retVals
	x.retVal, x.retSet, x.retVals, x.named = oldRet, oldSet, oldVals, oldNamed
	x.inline--
	if rv == nil {
		return &sval{}
	}
	return rv
}

// inlinable returns the declaration of f if a call of f is to be inlined into
// the skeleton of the caller: a small unexported function or method of the
// same package with a Go body, not recursive, whose only return statement (if
// any) is its last statement, and that is not a delegation target (kn.keep).
func (x *extractor) inlinable(f *types.Func) *ast.FuncDecl {
	if f == nil || f.Exported() || x.kn.keep[f] || x.inline >= 3 || f.Pkg() != x.fn.Pkg() {
		return nil
	}
	for _, g := range x.stack {
		if g == f {
			return nil
		}
	}
	if sig := f.Type().(*types.Signature); sig.Variadic() {
		return nil
	}
	decl := x.kn.p.FuncDecl(f)
	if decl == nil || decl.Body == nil {
		return nil
	}
	ok, count := true, 0
	var last ast.Stmt
	if n := len(decl.Body.List); n > 0 {
		last = decl.Body.List[n-1]
	}
	ast.Inspect(decl.Body, func(n ast.Node) bool {
		switch n := n.(type) {
		case *ast.FuncLit:
			return false
		case *ast.DeferStmt, *ast.GoStmt, *ast.SelectStmt, *ast.LabeledStmt:
			ok = false
		case *ast.BranchStmt:
			if n.Tok == token.GOTO || n.Label != nil {
				ok = false
			}
		case *ast.ReturnStmt:
			if ast.Stmt(n) != last {
				ok = false // an early return: the rest of the body is conditional
			}
		case *ast.SelectorExpr:
			// a helper that touches the coordinates of a point works below the
			// level of group operations: its effect is invisible to the skeleton,
			// so it must stay an (opaque, compared) call
			if sel := x.info.Selections[n]; sel != nil && sel.Kind() == types.FieldVal && x.kn.isPointType(sel.Recv()) {
				ok = false
			}
		case *ast.StarExpr:
			if tv, has := x.info.Types[n]; has && tv.Type != nil && x.kn.isPointType(tv.Type) {
				if _, isPtr := tv.Type.(*types.Pointer); !isPtr {
					ok = false // *p = ... / ... = *p on a point: a raw copy
				}
			}
		}
		if _, isStmt := n.(ast.Stmt); isStmt {
			count++
		}
		return ok
	})
	if !ok || count > 60 {
		return nil
	}
	return decl
}

// inlineFunc walks the body of a helper in place of its call: parameters are
// bound to the abstract values of the arguments, the events of the body go to
// the caller's skeleton, the results are the values of its final return.
func (x *extractor) inlineFunc(f *types.Func, decl *ast.FuncDecl, recvE ast.Expr, call *ast.CallExpr) *sval {
	var vals []*sval
	for _, a := range call.Args {
		vals = append(vals, x.ev(a))
	}
	if decl.Recv != nil && len(decl.Recv.List) == 1 {
		var rv *sval
		if recvE != nil {
			rv = x.ev(recvE)
		}
		for _, n := range decl.Recv.List[0].Names {
			if o := x.info.Defs[n]; o != nil && rv != nil {
				x.env[o] = rv
				x.declAt[o] = x.depth
			}
		}
	}
	if x.alias == nil {
		x.alias = map[types.Object]types.Object{}
	}
	argRoot := func(e ast.Expr) types.Object {
		e = unparen(e)
		if u, ok := e.(*ast.UnaryExpr); ok && u.Op == token.AND {
			e = unparen(u.X)
		}
		if id, ok := e.(*ast.Ident); ok {
			if v, isVar := objOf(x.info, id).(*types.Var); isVar {
				return x.unalias(v)
			}
		}
		return nil
	}
	i := 0
	for _, fl := range decl.Type.Params.List {
		for _, n := range fl.Names {
			if o := x.info.Defs[n]; o != nil && i < len(vals) {
				x.env[o] = vals[i]
				x.declAt[o] = x.depth
				delete(x.alias, o)
				if r := argRoot(call.Args[i]); r != nil && r != o {
					x.alias[o] = r
				}
			}
			i++
		}
		if len(fl.Names) == 0 {
			i++
		}
	}
	var named []types.Object
	if decl.Type.Results != nil {
		for _, fl := range decl.Type.Results.List {
			for _, n := range fl.Names {
				if o := x.info.Defs[n]; o != nil {
					named = append(named, o)
					x.declAt[o] = x.depth
					if b, ok := o.Type().Underlying().(*types.Basic); ok && b.Info()&types.IsInteger != 0 {
						x.env[o] = &sval{k: svInt, n: konst(0)}
					}
				}
			}
		}
	}
	x.inline++
	x.stack = append(x.stack, f)
	oldRet, oldSet, oldVals, oldNamed := x.retVal, x.retSet, x.retVals, x.named
	x.retVal, x.retSet, x.retVals, x.named = nil, false, nil, named
	x.stmts(decl.Body.List)
	rv, rvs := x.retVal, x.retVals
	if rv == nil && len(named) > 0 {
		for _, o := range named {
			rvs = append(rvs, x.lookupObj(o))
		}
		rv = rvs[0]
	}
	x.retVal, x.retSet, x.retVals, x.named = oldRet, oldSet, oldVals, oldNamed
	x.stack = x.stack[:len(x.stack)-1]
	x.inline--
	x.multiRet = rvs
	if rv == nil {
		return &sval{}
	}
	return rv
}

// pointOp handles a classified method call on a point type.
func (x *extractor) pointOp(cls string, f *types.Func, recvE ast.Expr, call *ast.CallExpr) *sval {
	rv := x.ev(recvE)
	if rv.k != svPoint || rv.pl == nil {
		x.problem(call.Pos(), "receiver of "+f.Name()+" is not a point location")
		return &sval{}
	}
	dst := rv.pl
	n := &node{pos: call.Pos(), dst: dst, callee: f.Name()}
	argPlace := func(i int) (*place, *sval) {
		if i >= len(call.Args) {
			return nil, nil
		}
		v := x.ev(call.Args[i])
		switch v.k {
		case svPoint:
			return v.pl, nil
		case svEntry:
			return nil, v
		}
		return nil, nil
	}
	switch cls {
	case "I":
		n.kind = "I"
		delete(x.origin, dst.root)
		if !dst.elem {
			delete(x.acc, dst.root)
		}
		n.dstAcc = x.accOf(dst)
	case "D1", "Dk":
		n.kind = "D"
		n.k = konst(1)
		a, _ := argPlace(0)
		if a == nil {
			x.problem(call.Pos(), "operand of a doubling is not a point location")
		}
		n.a = a
		if cls == "Dk" {
			k := x.ev(call.Args[1])
			if k.k != svInt {
				x.problem(call.Pos(), "doubling count is not a bookkeeping integer")
				k = &sval{k: svInt, n: konst(0)}
			}
			n.k = k.n
		}
		n.aAcc = x.accOf(a)
		n.dstAcc = n.aAcc
		x.acc[dst.root] = n.aAcc
		delete(x.origin, dst.root)
	case "add", "sub":
		n.kind = cls
		if len(call.Args) != 2 {
			x.problem(call.Pos(), "unexpected arity of "+f.Name())
			return rv
		}
		a, ea := argPlace(0)
		b, eb := argPlace(1)
		if a == nil && ea == nil {
			x.problem(call.Pos(), "first operand of "+f.Name()+" is not a point location")
		}
		if b == nil && eb == nil {
			x.problem(call.Pos(), "addend of "+f.Name()+" is neither a looked-up entry nor a point location")
		}
		b = x.resolve(b)
		n.a, n.b, n.entry = a, b, eb
		n.aAcc, n.bAcc = x.accOf(a), x.accOf(b)
		n.dstAcc = n.aAcc
		if n.aAcc != nil {
			x.acc[dst.root] = n.aAcc
		}
		delete(x.origin, dst.root)
	case "neg":
		n.kind = cls
		a, _ := argPlace(0)
		if a == nil {
			x.problem(call.Pos(), "operand of "+f.Name()+" is not a point location")
		}
		n.a, n.aAcc = a, x.accOf(a)
		delete(x.acc, dst.root)
		delete(x.origin, dst.root)
		n.dstAcc = x.accOf(dst)
	case "conv":
		n.kind = cls
		a, e := argPlace(0)
		if a == nil && e == nil {
			x.problem(call.Pos(), "operand of "+f.Name()+" is not a point location")
		}
		if e != nil {
			// conversion of a looked-up entry: the location receives that entry
			n.kind, n.entry = "load", e
			delete(x.acc, dst.root)
			delete(x.origin, dst.root)
			n.dstAcc = x.accOf(dst)
			break
		}
		n.a = a
		if a != nil {
			// representation change: same group element, same accumulator
			n.aAcc = x.accOf(a)
			n.dstAcc = n.aAcc
			x.acc[dst.root] = n.aAcc
			if !dst.elem {
				x.origin[dst.root] = x.resolve(a)
			}
			if dst.elem {
				// remember which role a buffer of points is filled from
				if r := x.roleOf(x.resolve(a).root); strings.HasPrefix(r, "each(") {
					x.fills[dst.root] = r
				}
			}
		}
	}
	x.emit(n)
	return rv
}

// --- conditions ------------------------------------------------------------------

func flipRel(op token.Token) token.Token {
	switch op {
	case token.LSS:
		return token.GTR
	case token.GTR:
		return token.LSS
	case token.LEQ:
		return token.GEQ
	case token.GEQ:
		return token.LEQ
	}
	return op
}

// --- statements ------------------------------------------------------------------

func (x *extractor) stmts(list []ast.Stmt) {
	for i := 0; i < len(list); i++ {
		x.stmt(list[i])
	}
}

func (x *extractor) assign(lhs ast.Expr, v *sval, define bool, pos token.Pos) {
	lhs = unparen(lhs)
	switch l := lhs.(type) {
	case *ast.Ident:
		if l.Name == "_" {
			return
		}
		o := objOf(x.info, l)
		if o == nil {
			return
		}
		if define {
			x.declAt[o] = x.depth
		}
		// point-valued assignment: a copy between accumulators
		if x.kn.isPointType(o.Type()) {
			if _, isPtr := o.Type().(*types.Pointer); !isPtr {
				dst := &place{root: o}
				switch v.k {
				case svPoint:
					if v.pl != nil {
						delete(x.acc, o)
						delete(x.origin, o)
						x.emit(&node{kind: "copy", pos: pos, dst: dst, a: v.pl, dstAcc: o, aAcc: x.accOf(v.pl)})
					}
				case svEntry:
					x.env[o] = v
					return
				}
				x.env[o] = &sval{k: svPoint, pl: dst}
				return
			}
		}
		if x.isPointSlice(o.Type()) && v.k == svPoint && v.role == "arrayinit" {
			// points := [n]T{P, ...}
			x.emit(&node{kind: "conv", pos: pos, dst: &place{root: o, elem: true}, a: v.pl, desc: "init-all", aAcc: x.accOf(v.pl)})
			x.acc[o] = x.accOf(v.pl)
			x.env[o] = &sval{k: svPoint, pl: &place{root: o}}
			return
		}
		if v.k == svInt {
			if d, ok := x.declAt[o]; ok && x.depth > d && !define {
				// assigned on some paths only: the variable becomes a symbol
				a := x.merged[o]
				if a == nil {
					a = x.sym.fresh("var", "")
					x.merged[o] = a
					if old, ok := x.env[o]; ok && old.k == svInt {
						if c, isC := old.n.isConst(); isC && d < x.depth {
							_ = c // the initial value is overwritten on every path that matters (switch with default)
						}
					}
				}
				if c, ok := v.n.isConst(); ok {
					a.domain = append(a.domain, c)
				} else {
					a.domain = nil
					a.label = "nonconst"
				}
				x.env[o] = &sval{k: svInt, n: x.sym.atomLin(a)}
				return
			}
		}
		if v.k == svVec && v.n != nil {
			x.makes[o] = v.n
		} else {
			delete(x.makes, o) // appended to / replaced: the length is no longer the made count
		}
		if v.k == svUnknown {
			// keep what the type tells
			x.env[o] = x.initial(o)
			if define && x.env[o].k == svRole {
				return
			}
			if b, ok := o.Type().Underlying().(*types.Basic); ok && b.Info()&types.IsInteger != 0 {
				x.env[o] = &sval{} // an integer we do not track
			}
			return
		}
		x.env[o] = v
	case *ast.IndexExpr:
		base := x.ev(l.X)
		idx := x.ev(l.Index)
		// table[i] = newXTable(&p): store into an array of tables
		if v.k == svTable {
			n := &node{kind: "tstore", pos: pos, tbl: v.tbl}
			if idx.k == svInt {
				n.k = idx.n
			}
			if id, ok := unparen(l.X).(*ast.Ident); ok {
				n.desc = x.roleOf(x.root(id))
			}
			x.emit(n)
			return
		}
		// Ai[i] = P: element of a local array of points
		if base.k == svPoint && v.k == svPoint && base.pl != nil && v.pl != nil {
			dst := &place{root: base.pl.root, elem: true}
			if idx.k == svInt {
				dst.idx = idx.n
			}
			x.emit(&node{kind: "conv", pos: pos, dst: dst, a: v.pl, desc: "elem", aAcc: x.accOf(v.pl)})
			x.acc[dst.root] = x.accOf(v.pl)
			return
		}
		if base.k == svVec && base.elem == nil && v.k == svPoint {
			if id, ok := unparen(l.X).(*ast.Ident); ok {
				if o := x.root(id); o != nil && x.isPointSlice(o.Type()) {
					dst := &place{root: o, elem: true}
					if idx.k == svInt {
						dst.idx = idx.n
					}
					x.emit(&node{kind: "copy", pos: pos, dst: dst, a: v.pl, dstAcc: x.accOf(dst), aAcc: x.accOf(v.pl)})
				}
			}
		}
	case *ast.SelectorExpr, *ast.StarExpr:
		// stores into struct fields / through pointers: not part of a skeleton
	}
}

func (x *extractor) stmt(s ast.Stmt) {
	switch s := s.(type) {
	case nil, *ast.EmptyStmt:
	case *ast.ExprStmt:
		x.ev(s.X)
	case *ast.DeclStmt:
		gd, ok := s.Decl.(*ast.GenDecl)
		if !ok || gd.Tok != token.VAR {
			return
		}
		for _, sp := range gd.Specs {
			vs, ok := sp.(*ast.ValueSpec)
			if !ok {
				continue
			}
			for i, n := range vs.Names {
				o := x.info.Defs[n]
				if o == nil {
					continue
				}
				x.declAt[o] = x.depth
				if i < len(vs.Values) {
					x.assign(n, x.ev(vs.Values[i]), true, n.Pos())
					continue
				}
				if b, ok := o.Type().Underlying().(*types.Basic); ok && b.Info()&types.IsInteger != 0 {
					x.env[o] = &sval{k: svInt, n: konst(0)}
				} else {
					x.env[o] = x.initial(o)
				}
			}
		}
	case *ast.AssignStmt:
		switch {
		case s.Tok == token.DEFINE || s.Tok == token.ASSIGN:
			if len(s.Lhs) == len(s.Rhs) {
				vals := make([]*sval, len(s.Rhs))
				for i, r := range s.Rhs {
					vals[i] = x.ev(r)
				}
				for i, l := range s.Lhs {
					x.assign(l, vals[i], s.Tok == token.DEFINE, s.Pos())
				}
			} else {
				var rets []*sval
				for _, r := range s.Rhs {
					x.multiRet = nil
					x.ev(r)
					rets = x.multiRet
				}
				for i, l := range s.Lhs {
					v := &sval{}
					if len(s.Rhs) == 1 && len(rets) == len(s.Lhs) && rets[i] != nil {
						v = rets[i] // a, b := helper(...) with an inlined helper
					}
					x.assign(l, v, s.Tok == token.DEFINE, s.Pos())
				}
			}
		default: // op-assignment on an integer
			if len(s.Lhs) == 1 && len(s.Rhs) == 1 {
				if id, ok := unparen(s.Lhs[0]).(*ast.Ident); ok {
					cur, r := x.ev(id), x.ev(s.Rhs[0])
					var v *sval = &sval{}
					if cur.k == svInt && r.k == svInt {
						switch s.Tok {
						case token.ADD_ASSIGN:
							v = &sval{k: svInt, n: cur.n.add(r.n)}
						case token.SUB_ASSIGN:
							v = &sval{k: svInt, n: cur.n.sub(r.n)}
						}
					}
					if x.depth > x.declAt[objOf(x.info, id)] {
						// updated inside a loop or branch: no longer a known quantity
						x.env[objOf(x.info, id)] = &sval{}
						return
					}
					x.assign(id, v, false, s.Pos())
				}
			}
		}
	case *ast.IncDecStmt:
		if id, ok := unparen(s.X).(*ast.Ident); ok {
			if o := objOf(x.info, id); o != nil {
				x.env[o] = &sval{}
			}
		}
	case *ast.BlockStmt:
		x.stmts(s.List)
	case *ast.ReturnStmt:
		if len(s.Results) == 0 && x.inline > 0 && len(x.named) > 0 {
			// bare return of named results
			x.retVals = nil
			for _, o := range x.named {
				x.retVals = append(x.retVals, x.lookupObj(o))
			}
			x.retVal, x.retSet = x.retVals[0], true
			return
		}
		if len(s.Results) >= 1 {
			v := x.ev(s.Results[0])
			if x.inline > 0 {
				x.retVals = []*sval{v}
				for _, r := range s.Results[1:] {
					x.retVals = append(x.retVals, x.ev(r))
				}
				x.retVal, x.retSet = v, true
				return
			}
			x.emit(&node{kind: "ret", pos: s.Pos(), desc: x.describeRet(v), a: v.pl})
		} else if x.inline == 0 {
			x.emit(&node{kind: "ret", pos: s.Pos()})
		}
	case *ast.IfStmt:
		x.ifStmt(s)
	case *ast.SwitchStmt:
		x.switchStmt(s)
	case *ast.ForStmt:
		x.forStmt(s)
	case *ast.RangeStmt:
		x.rangeStmt(s)
	case *ast.BranchStmt:
		x.emit(&node{kind: "branch", pos: s.Pos(), desc: s.Tok.String()})
	default:
		x.emit(&node{kind: "unsupported", pos: s.Pos(), desc: sprintf("%T", s)})
	}
}

func (x *extractor) describeRet(v *sval) string {
	if v == nil {
		return ""
	}
	if v.k == svPoint {
		return "point"
	}
	return x.describe(v)
}

func (x *extractor) ifStmt(s *ast.IfStmt) {
	if s.Init != nil {
		x.stmt(s.Init)
	}
	c := x.evCond(s.Cond)
	x.depth++
	then := x.collect(func() { x.stmts(s.Body.List) })
	var els []*node
	if s.Else != nil {
		els = x.collect(func() { x.stmt(s.Else) })
	}
	x.depth--
	x.emit(&node{kind: "if", pos: s.Pos(), cond: c, body: then, els: els})
}

func (x *extractor) switchStmt(s *ast.SwitchStmt) {
	if s.Init != nil {
		x.stmt(s.Init)
	}
	// rewrite as an if / else-if chain
	var tag *sval
	if s.Tag != nil {
		tag = x.ev(s.Tag)
	}
	type arm struct {
		c    *cond
		body []*node
		pos  token.Pos
	}
	var arms []arm
	var def *arm
	x.depth++
	for _, cs := range s.Body.List {
		cc, ok := cs.(*ast.CaseClause)
		if !ok {
			continue
		}
		var c *cond
		switch {
		case cc.List == nil:
		case len(cc.List) == 1 && s.Tag == nil:
			c = x.evCond(cc.List[0])
		case len(cc.List) == 1 && tag != nil && tag.k == svBool:
			v := x.ev(cc.List[0])
			c = &cond{kind: "flag", flag: tag.role, not: tag.not != (v.role == "false")}
		default:
			c = &cond{kind: "unknown"}
		}
		body := x.collect(func() { x.stmts(cc.Body) })
		a := arm{c, body, cc.Pos()}
		if cc.List == nil {
			def = &a
		} else {
			arms = append(arms, a)
		}
	}
	x.depth--
	var chain []*node
	if def != nil {
		chain = def.body
	}
	for i := len(arms) - 1; i >= 0; i-- {
		chain = []*node{{kind: "if", pos: arms[i].pos, cond: arms[i].c, body: arms[i].body, els: chain}}
	}
	for _, n := range chain {
		x.emit(n)
	}
}

// lenAtom returns the (shared) symbol len(role).
func (x *extractor) lenAtom(role string) *lin {
	if role == "" {
		role = "?"
	}
	for _, id := range sortedKeys(x.sym.atoms) {
		if a := x.sym.atoms[id]; a.kind == "len" && a.label == role {
			return x.sym.atomLin(a)
		}
	}
	return x.sym.atomLin(x.sym.fresh("len", role))
}

// lenOf is the length of the slice e (abstract value v): the element count it
// was made with, or the symbol len(role).
func (x *extractor) lenOf(e ast.Expr, v *sval) *lin {
	if id, ok := unparen(e).(*ast.Ident); ok {
		if n, ok := x.makes[x.root(id)]; ok && n != nil {
			return n
		}
	}
	return x.lenAtom(v.role)
}

// index gives the abstract value of base[idx]; baseE is the indexed expression.
// `for i, v := range s` binds v to index(s, i), so that the range form and the
// counted form `for i := 0; i < len(s); i++ { v := s[i] }` denote the same
// values.
func (x *extractor) index(base *sval, baseE ast.Expr, idx *sval, pos token.Pos) *sval {
	switch base.k {
	case svDigits:
		if idx.k != svInt {
			x.problem(pos, "digit position is not a bookkeeping integer")
			return &sval{}
		}
		return &sval{k: svDigit, rec: base.rec, term: base.term, pos: idx.n}
	case svVec:
		if base.elem == nil {
			// a slice of points (parameter or make): element place
			if id, ok := unparen(baseE).(*ast.Ident); ok {
				if o := x.root(id); o != nil && x.isPointSlice(o.Type()) {
					pl := &place{root: o, elem: true}
					switch idx.k {
					case svInt:
						pl.idx = idx.n
					case svDigit:
						pl.didx = idx
					default:
						x.problem(pos, "element index of a point slice is neither a bookkeeping integer nor a digit expression")
					}
					return &sval{k: svPoint, pl: pl}
				}
			}
			if t := x.info.Types[baseE].Type; t != nil {
				if sl, ok := t.Underlying().(*types.Slice); ok {
					if _, inner := sl.Elem().Underlying().(*types.Slice); inner {
						// an element of a slice of slices: a slice of the same role
						return &sval{k: svVec, role: base.role}
					}
				}
			}
			return &sval{k: svRole, role: "each(" + base.role + ")"}
		}
		el := *base.elem
		if idx.k == svInt {
			switch el.k {
			case svDigits, svTable:
				el.term = idx.n
			}
		}
		return &el
	case svPoint:
		// indexing an array of points held in a local (table constructors)
		if base.pl != nil && !base.pl.elem {
			pl := &place{root: base.pl.root, elem: true}
			if idx.k == svInt {
				pl.idx = idx.n
			}
			return &sval{k: svPoint, pl: pl}
		}
	}
	return &sval{}
}

// constLen returns the number of elements of e when the type system fixes
// it: an array, a pointer to an array, or a slice expression with constant
// bounds of one.
func (x *extractor) constLen(e ast.Expr) (int64, bool) {
	e = unparen(e)
	arrLen := func(e ast.Expr) (int64, bool) {
		t := x.info.Types[e].Type
		if t == nil {
			return 0, false
		}
		if p, ok := t.Underlying().(*types.Pointer); ok {
			t = p.Elem()
		}
		if arr, ok := t.Underlying().(*types.Array); ok {
			return arr.Len(), true
		}
		return 0, false
	}
	if n, ok := arrLen(e); ok {
		return n, true
	}
	if se, ok := e.(*ast.SliceExpr); ok && !se.Slice3 {
		n, ok := arrLen(se.X)
		if !ok {
			return 0, false
		}
		lo, hi := int64(0), n
		if se.Low != nil {
			c, isC := x.constOf(se.Low)
			if !isC {
				return 0, false
			}
			lo = c
		}
		if se.High != nil {
			c, isC := x.constOf(se.High)
			if !isC {
				return 0, false
			}
			hi = c
		}
		if lo != 0 {
			return 0, false // indices of the range no longer coincide with those of the array
		}
		return hi - lo, true
	}
	return 0, false
}

// rangeStmt: `for k, v := range X` is the counted loop k = 0..len(X)-1 with v
// = X[k] (the same node a three-clause loop over len(X) produces).
func (x *extractor) rangeStmt(s *ast.RangeStmt) {
	over := x.ev(s.X)
	at := x.sym.fresh("loop", "")
	atL := x.sym.atomLin(at)
	var to *lin
	role := over.role
	if n, ok := x.constLen(s.X); ok {
		// range over an array, or a constant slice of one (for i := range Ai[:7])
		to = konst(n - 1)
	} else if over.k == svVec {
		if role == "" {
			role = "?"
		}
		to = x.lenOf(s.X, over).addConst(-1)
	} else {
		role = "?"
		to = x.lenAtom(role).addConst(-1)
	}
	if id, ok := s.Key.(*ast.Ident); ok && id.Name != "_" {
		if o := objOf(x.info, id); o != nil {
			x.env[o] = &sval{k: svInt, n: atL}
			x.declAt[o] = x.depth
		}
	}
	if id, ok := s.Value.(*ast.Ident); ok && id.Name != "_" {
		if o := objOf(x.info, id); o != nil {
			v := x.index(over, s.X, &sval{k: svInt, n: atL}, s.Pos())
			if over.k == svVec {
				x.locRole[o] = "each(" + role + ")"
				if v.k == svUnknown {
					v = &sval{k: svRole, role: "each(" + role + ")"}
				}
				if v.k == svRole && x.kn.isPointType(o.Type()) {
					// points reached through something that is not a plain slice variable
					v = &sval{k: svPoint, pl: &place{root: o}}
				}
			}
			if v.k != svUnknown {
				x.env[o] = v
			}
		}
	}
	x.depth++
	body := x.collect(func() { x.stmts(s.Body.List) })
	x.depth--
	x.emit(&node{kind: "loop", pos: s.Pos(), v: at.id, from: konst(0), to: to, step: 1, over: role, body: body})
}

// stepOf recognises a counter update  v++ / v-- / v += c / v -= c / v = v ± c
// / v = c + v  and returns the variable and the signed step.
func (x *extractor) stepOf(st ast.Stmt) (types.Object, int64) {
	switch p := st.(type) {
	case *ast.IncDecStmt:
		if id, ok := unparen(p.X).(*ast.Ident); ok {
			if p.Tok == token.DEC {
				return objOf(x.info, id), -1
			}
			return objOf(x.info, id), 1
		}
	case *ast.AssignStmt:
		if len(p.Lhs) != 1 || len(p.Rhs) != 1 {
			return nil, 0
		}
		id, ok := unparen(p.Lhs[0]).(*ast.Ident)
		if !ok {
			return nil, 0
		}
		o := objOf(x.info, id)
		isVar := func(e ast.Expr) bool {
			i, ok := unparen(e).(*ast.Ident)
			return ok && objOf(x.info, i) == o
		}
		switch p.Tok {
		case token.ADD_ASSIGN, token.SUB_ASSIGN:
			if c, isC := x.constOf(p.Rhs[0]); isC {
				if p.Tok == token.SUB_ASSIGN {
					c = -c
				}
				return o, c
			}
		case token.ASSIGN:
			be, isB := unparen(p.Rhs[0]).(*ast.BinaryExpr)
			if !isB || (be.Op != token.ADD && be.Op != token.SUB) {
				return nil, 0
			}
			var ce ast.Expr
			switch {
			case isVar(be.X):
				ce = be.Y
			case isVar(be.Y) && be.Op == token.ADD:
				ce = be.X
			default:
				return nil, 0
			}
			if c, isC := x.constOf(ce); isC {
				if be.Op == token.SUB {
					c = -c
				}
				return o, c
			}
		}
	}
	return nil, 0
}

// hasContinue reports whether a `continue` of THIS loop occurs in the body
// (conservatively: any unlabelled continue outside nested loops, any labelled one).
func hasContinue(list []ast.Stmt) bool {
	found := false
	var walk func(n ast.Node) bool
	walk = func(n ast.Node) bool {
		switch n := n.(type) {
		case *ast.ForStmt, *ast.RangeStmt, *ast.FuncLit:
			// a labelled continue inside may still target the outer loop
			ast.Inspect(n, func(m ast.Node) bool {
				if br, ok := m.(*ast.BranchStmt); ok && br.Tok == token.CONTINUE && br.Label != nil {
					found = true
				}
				return !found
			})
			return false
		case *ast.BranchStmt:
			if n.Tok == token.CONTINUE {
				found = true
			}
		}
		return !found
	}
	for _, st := range list {
		ast.Inspect(st, walk)
	}
	return found
}

// counted is a loop brought to the form "v runs from `from` to `to` by step,
// body" — whatever its spelling:
//
//	for v := S; c(v); v±± { body }        three clauses
//	for ; c(v); v±± { body }              the counter keeps its current value
//	for c(v) { body; v±± }                while form (no continue in body)
//
// The condition is read in condition normal form with v bound to the loop
// symbol, so v < E, E > v, !(v >= E) and v <= E-1 give the same bounds.
type counted struct {
	o        types.Object
	at       *atom
	from, to *lin
	step     int64
	excl     bool
	body     []ast.Stmt
	outer    bool // the counter is declared outside the loop
}

func (x *extractor) countedLoop(s *ast.ForStmt) (c counted, ok bool) {
	if s.Cond == nil {
		return
	}
	c.body = s.Body.List
	post := s.Post
	if post == nil && s.Init == nil && len(c.body) > 0 && !hasContinue(c.body) {
		post = c.body[len(c.body)-1]
		c.body = c.body[:len(c.body)-1]
	}
	if post == nil {
		return
	}
	c.o, c.step = x.stepOf(post)
	if c.o == nil || c.step == 0 {
		return
	}
	var start *sval
	switch init := s.Init.(type) {
	case nil:
		start = x.lookupObj(c.o)
		c.outer = true
	case *ast.AssignStmt:
		if (init.Tok != token.DEFINE && init.Tok != token.ASSIGN) || len(init.Lhs) != 1 || len(init.Rhs) != 1 {
			return
		}
		id, isId := unparen(init.Lhs[0]).(*ast.Ident)
		if !isId || objOf(x.info, id) != c.o {
			return
		}
		start = x.ev(init.Rhs[0])
		c.outer = init.Tok == token.ASSIGN
	default:
		return
	}
	if start.k != svInt {
		return
	}
	// cond: ±v + rest > 0 with rest independent of v
	c.at = x.sym.fresh("loop", "")
	atL := x.sym.atomLin(c.at)
	save, had := x.env[c.o]
	x.env[c.o] = &sval{k: svInt, n: atL}
	cn := x.evCond(s.Cond)
	if had {
		x.env[c.o] = save
	} else {
		delete(x.env, c.o)
	}
	if cn.kind != "int" || cn.rel != ">0" {
		return
	}
	k := cn.n.t[c.at.id]
	rest := cn.n.addScaled(atL, -k)
	if rest.mentions(c.at.id, x.sym.atoms) {
		return
	}
	c.from = start.n
	switch {
	case c.step > 0 && k == -1: // v < rest
		if c.step == 1 {
			c.to = rest.addConst(-1)
		} else {
			c.to, c.excl = rest, true
		}
	case c.step < 0 && k == 1: // v > -rest
		if c.step == -1 {
			c.to = rest.scale(-1).addConst(1)
		} else {
			c.to, c.excl = rest.scale(-1), true
		}
	default:
		return
	}
	return c, true
}

func (x *extractor) forStmt(s *ast.ForStmt) {
	if s.Init == nil && s.Cond == nil && s.Post == nil {
		x.foreverStmt(s)
		return
	}
	c, ok := x.countedLoop(s)
	if !ok {
		// evaluate what we can, flag if the body matters
		if s.Init != nil {
			x.stmt(s.Init)
		}
		x.depth++
		body := x.collect(func() {
			x.stmts(s.Body.List)
			if s.Post != nil {
				x.stmt(s.Post)
			}
		})
		x.depth--
		x.emit(&node{kind: "badloop", pos: s.Pos(), body: body})
		return
	}
	if x.scanLoop(s, c) {
		return
	}
	x.env[c.o] = &sval{k: svInt, n: x.sym.atomLin(c.at)}
	x.declAt[c.o] = x.depth
	x.depth++
	body := x.collect(func() { x.stmts(c.body) })
	x.depth--
	x.emitLoop(&node{kind: "loop", pos: s.Pos(), v: c.at.id, from: c.from, to: c.to, step: c.step, excl: c.excl, body: body})
	if c.outer {
		x.env[c.o] = &sval{} // a counter declared outside the loop: its final value is not tracked
	}
}

// emitLoop emits a counted loop in canonical direction: when the iterations
// are independent of each other (every statement stores a loop-invariant
// value, or the identity, into element [v] of an array and nothing else) the
// visiting order is unobservable, and the loop is recorded counting up.
func (x *extractor) emitLoop(n *node) {
	if n.step == -1 && !n.excl && x.independentIterations(n) {
		n.from, n.to, n.step = n.to, n.from, 1
	}
	x.emit(n)
}

func (x *extractor) independentIterations(n *node) bool {
	if len(n.body) == 0 {
		return false
	}
	v := &lin{t: map[string]int64{n.v: 1}}
	written := map[types.Object]bool{}
	for _, b := range n.body {
		switch b.kind {
		case "I":
		case "conv", "copy":
			// source: a location that is not an element of an array
			if b.a == nil || b.a.elem {
				return false
			}
		default:
			return false
		}
		if b.dst == nil || !b.dst.elem || b.dst.idx == nil || !b.dst.idx.equal(v) || b.dst.didx != nil {
			return false
		}
		written[b.dst.root] = true
	}
	for _, b := range n.body {
		if b.a != nil && written[b.a.root] {
			return false
		}
	}
	return true
}

// foreverStmt handles `for { body; if v == E { break }; v-- }` (and v++): a
// loop over v from its current value to E inclusive.
func (x *extractor) foreverStmt(s *ast.ForStmt) {
	list := s.Body.List
	bad := func() {
		x.depth++
		body := x.collect(func() { x.stmts(list) })
		x.depth--
		x.emit(&node{kind: "badloop", pos: s.Pos(), body: body})
	}
	if len(list) < 2 {
		bad()
		return
	}
	o, step := x.stepOf(list[len(list)-1])
	test, ok2 := list[len(list)-2].(*ast.IfStmt)
	if o == nil || (step != 1 && step != -1) || !ok2 || test.Init != nil || test.Else != nil || len(test.Body.List) != 1 || hasContinue(list) {
		bad()
		return
	}
	br, ok := test.Body.List[0].(*ast.BranchStmt)
	if !ok || br.Tok != token.BREAK || br.Label != nil {
		bad()
		return
	}
	start := x.lookupObj(o)
	if start.k != svInt {
		bad()
		return
	}
	// the exit test in condition normal form: ±(v - E) == 0
	at := x.sym.fresh("loop", "")
	atL := x.sym.atomLin(at)
	x.env[o] = &sval{k: svInt, n: atL}
	c := x.evCond(test.Cond)
	x.env[o] = start
	if c.kind != "int" || c.rel != "==0" {
		bad()
		return
	}
	k := c.n.t[at.id]
	rest := c.n.addScaled(atL, -k)
	if (k != 1 && k != -1) || rest.mentions(at.id, x.sym.atoms) {
		bad()
		return
	}
	end := rest.scale(-k) // k*v + rest == 0  =>  v = -rest/k
	x.env[o] = &sval{k: svInt, n: atL}
	x.depth++
	body := x.collect(func() { x.stmts(list[:len(list)-2]) })
	x.depth--
	x.env[o] = &sval{}
	x.emitLoop(&node{kind: "loop", pos: s.Pos(), v: at.id, from: start.n, to: end, step: step, body: body})
}

// scanLoop recognises the start-index search: a loop counting DOWN over the
// positions from..to whose body only tests, in condition normal form, a
// disjunction of  digit@position != 0  and leaves the loop on the first hit,
//
//	for j := HI; j >= LO; j-- { [i = j;] if d1[.] != 0 || d2[.] != 0 ... { [i = j;] break } }
//	i := HI; for i > LO { if d1[i] != 0 || ... { break }; i-- }           (the counter is the result)
//
// It leaves in i the highest position at which one of the recodings has a
// non-zero digit, or the lowest position when there is none.  (In the second
// form the lowest position LO is never tested but is the value the counter
// ends with; since "the highest non-zero position, else LO" does not depend on
// whether LO itself is tested, both forms denote scan(HI..LO).)  It emits a
// `scan` event and binds i to the symbol top(...).
func (x *extractor) scanLoop(s *ast.ForStmt, c counted) bool {
	if c.step != -1 {
		return false
	}
	j := c.o
	from, to := c.from, c.to
	var target types.Object
	var test *ast.IfStmt
	assignBefore := false
	isJ := func(e ast.Expr) bool {
		i, ok := unparen(e).(*ast.Ident)
		return ok && objOf(x.info, i) == j
	}
	isAssignJ := func(st ast.Stmt) (types.Object, bool) {
		as, ok := st.(*ast.AssignStmt)
		if !ok || as.Tok != token.ASSIGN || len(as.Lhs) != 1 || len(as.Rhs) != 1 || !isJ(as.Rhs[0]) {
			return nil, false
		}
		id, ok := unparen(as.Lhs[0]).(*ast.Ident)
		if !ok {
			return nil, false
		}
		return objOf(x.info, id), true
	}
	for _, st := range c.body {
		if o, ok := isAssignJ(st); ok && test == nil && target == nil {
			target, assignBefore = o, true
			continue
		}
		if is, ok := st.(*ast.IfStmt); ok && test == nil && is.Init == nil && is.Else == nil {
			test = is
			continue
		}
		return false
	}
	if test == nil {
		return false
	}
	// body of the test: [i = j;] break
	hasBreak := false
	for _, st := range test.Body.List {
		if o, ok := isAssignJ(st); ok && !assignBefore && target == nil {
			target = o
			continue
		}
		if br, ok := st.(*ast.BranchStmt); ok && br.Tok == token.BREAK && br.Label == nil {
			hasBreak = true
			continue
		}
		return false
	}
	self := false
	if target == nil && c.outer && hasBreak {
		// the counter itself is the result: it ends one step below `to` when
		// nothing is found
		target, self = j, true
		to = to.addConst(-1)
	}
	if !hasBreak || target == nil {
		return false
	}
	// the condition: a disjunction of digit != 0 at position j (or i after i = j)
	at := x.sym.fresh("loop", "")
	saveJ, saveT := x.env[j], x.env[target]
	x.env[j] = &sval{k: svInt, n: x.sym.atomLin(at)}
	if assignBefore {
		x.env[target] = x.env[j]
	}
	var srcs []string
	var srcRecs []*sval
	okCond := true
	// in condition normal form: a disjunction of  digit@j != 0  literals
	// (`a != 0 || b != 0`, `!(a == 0 && b == 0)`, `b != 0 || a != 0`, ...)
	cn := x.evCond(test.Cond)
	lits := []*cond{cn}
	if cn.kind == "or" {
		lits = cn.sub
	}
	for _, l := range lits {
		if l.kind != "dig" || l.rel != "!=0" || l.dig.pos == nil || !l.dig.pos.equal(x.sym.atomLin(at)) {
			okCond = false
			break
		}
		srcs = append(srcs, x.digitSrcKey(l.dig))
		srcRecs = append(srcRecs, l.dig)
	}
	x.env[j] = saveJ
	if !okCond || len(srcs) == 0 {
		if !self {
			x.env[target] = saveT
		}
		return false
	}
	// without an unconditional assignment the default is the initial value of i
	if !assignBefore && !self {
		init := saveT
		if init == nil {
			init = x.lookupObj(target)
		}
		if init.k != svInt || !init.n.equal(to) {
			x.problem(s.Pos(), "start-index scan: the index variable does not default to the lowest position when every digit is zero")
		}
	}
	x.nscan++
	top := x.sym.fresh("top", strings.Join(srcs, ","))
	x.env[target] = &sval{k: svInt, n: x.sym.atomLin(top)}
	x.declAt[target] = x.depth
	x.emit(&node{kind: "scan", pos: s.Pos(), from: from, to: to, srcs: srcs, srcDigs: srcRecs, v: top.id})
	return true
}

// digitSrcKey names the recoding (and term) a digit comes from.
func (x *extractor) digitSrcKey(d *sval) string {
	k := sprintf("R%d", d.rec.id)
	if d.term != nil {
		k += "[]"
	}
	return k
}
