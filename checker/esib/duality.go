package esib

import (
	"go/token"
	"go/types"
	"sort"
	"strings"

	"golang.org/x/tools/go/ssa"

	"voicheck/load"
	"voicheck/report"
)

// Duality (DESIGN E-SIB): P − Q = P + (−Q) and negating a Niels-form operand
// swaps its (y+x, y−x) components and negates its t·2d component.  So the
// operation DAG of every Sub* mixed-addition formula must equal the DAG of
// its Add* twin under the substitution
//
//	leaves   b.y_plus_x <-> b.y_minus_x          (b = the Niels operand)
//	outputs  the final field Add <-> Sub on Z and T
//	callees  Add* -> Sub* where a formula delegates to another twin
//
// The DAG is obtained by value numbering over the straight-line SSA of the
// method: a call of a field.Element method writes its receiver location with
// the term op(operands); a call of any other method writes its receiver with
// an opaque term call:<callee>(operands); locations never written are leaves
// named by parameter index and field path.  Nothing is evaluated.

// dterm is a node of the operation DAG (printed as a tree).
type dterm struct {
	op   string
	args []*dterm
}

// commutative field operations: operand order is irrelevant.
var commutative = map[string]bool{"Add": true, "Mul": true}

func (t *dterm) String() string {
	if len(t.args) == 0 {
		return t.op
	}
	parts := make([]string, len(t.args))
	for i, a := range t.args {
		parts[i] = a.String()
	}
	if commutative[t.op] {
		sort.Strings(parts)
	}
	return t.op + "(" + strings.Join(parts, ",") + ")"
}

// dframe binds the parameters of a function being interpreted: at depth 0 a
// parameter is the leaf "p<i>"; in an inlined helper it is the location (or
// value term) of the actual argument.
type dframe struct {
	fn    *ssa.Function
	locs  map[*ssa.Parameter]string
	vals  map[*ssa.Parameter]*dterm
	depth int
	ret   ssa.Value // value returned (for aliasing a returned pointer)
}

// inlineHelper reports whether a call of callee is interpreted in place: an
// unexported function or method of package curve with a straight-line Go body.
// Exported and Add*/Sub* callees stay opaque (they are the delegation targets
// the duality substitution renames).
func inlineHelper(callee *ssa.Function) bool {
	if callee == nil || callee.Pkg == nil || load.Rel(callee.Pkg.Pkg) != curveRel || len(callee.Blocks) == 0 || len(callee.FreeVars) != 0 {
		return false
	}
	o, _ := callee.Object().(*types.Func)
	if o == nil || o.Exported() || strings.HasPrefix(o.Name(), "Add") || strings.HasPrefix(o.Name(), "Sub") {
		return false
	}
	if rn := recvNamed(o); rn != nil {
		// conversions and other methods of the point models are operations of
		// the formula, not helpers
		lower := strings.ToLower(o.Name())
		if strings.HasPrefix(lower, "set") || lower == "double" || lower == "identity" || lower == "neg" {
			return false
		}
	}
	return len(load.LiveBlocks(callee)) == 1
}

// dagOf interprets a straight-line method and returns the terms written to
// locations rooted at the receiver ("p0", "p0.X", ...).  err != "" when the
// body is outside the supported fragment.  Small unexported helpers are
// interpreted in place (so extracting part of a formula into a helper in one
// twin only does not change its DAG), array temporaries are locations like
// any other, and a plain copy (Element.Set, a struct assignment) forwards the
// term it copies.
func dagOf(fn *ssa.Function) (out map[string]*dterm, err string) {
	if fn == nil || len(fn.Blocks) == 0 {
		return nil, "no Go body"
	}
	if len(load.LiveBlocks(fn)) != 1 {
		return nil, "body is not straight-line"
	}
	mem := map[string]*dterm{}
	alias := map[ssa.Value]string{} // pointer-valued call results -> location
	allocN := 0
	allocs := map[*ssa.Alloc]string{}
	var path func(v ssa.Value, fr *dframe) (string, bool)
	path = func(v ssa.Value, fr *dframe) (string, bool) {
		switch v := v.(type) {
		case *ssa.Parameter:
			if s, ok := fr.locs[v]; ok {
				return s, true
			}
		case *ssa.Alloc:
			if s, ok := allocs[v]; ok {
				return s, true
			}
			allocs[v] = sprintf("a%d", allocN)
			allocN++
			return allocs[v], true
		case *ssa.FieldAddr:
			base, ok := path(v.X, fr)
			if !ok {
				return "", false
			}
			st, _ := v.X.Type().Underlying().(*types.Pointer).Elem().Underlying().(*types.Struct)
			if st == nil {
				return "", false
			}
			return base + "." + st.Field(v.Field).Name(), true
		case *ssa.IndexAddr:
			// an element of an array temporary, constant index
			base, ok := path(v.X, fr)
			k, isK := constInt(v.Index)
			if !ok || !isK {
				return "", false
			}
			return base + sprintf(".[%d]", k), true
		case *ssa.Global:
			return "G:" + v.Name(), true
		case *ssa.Call:
			if s, ok := alias[v]; ok {
				return s, true
			}
		}
		return "", false
	}
	var read func(p string) *dterm
	read = func(p string) *dterm {
		if t := mem[p]; t != nil {
			return t
		}
		// a component of a location written as a whole
		for i := len(p) - 1; i > 0; i-- {
			if p[i] == '.' {
				if t := mem[p[:i]]; t != nil {
					if strings.HasPrefix(t.op, "in:") && len(t.args) == 0 {
						return &dterm{op: t.op + p[i:]} // a component of an (unmodified) input
					}
					if strings.HasPrefix(t.op, "struct:") {
						// a copy of a whole whose components were written
						for _, f := range t.args {
							if f.op == "fld"+p[i:] {
								return f.args[0]
							}
						}
					}
					return &dterm{op: "sel" + p[i:], args: []*dterm{t}}
				}
			}
		}
		// a whole whose components were written
		var subs []string
		for k := range mem {
			if strings.HasPrefix(k, p+".") {
				subs = append(subs, k)
			}
		}
		if len(subs) > 0 {
			sort.Strings(subs)
			t := &dterm{op: "struct:" + p}
			for _, k := range subs {
				t.args = append(t.args, &dterm{op: "fld" + k[len(p):], args: []*dterm{mem[k]}})
			}
			return t
		}
		return &dterm{op: "in:" + p}
	}
	write := func(p string, t *dterm) {
		for k := range mem {
			if strings.HasPrefix(k, p+".") {
				delete(mem, k)
			}
		}
		mem[p] = t
	}
	var operand func(v ssa.Value, fr *dframe) (*dterm, bool)
	operand = func(v ssa.Value, fr *dframe) (*dterm, bool) {
		if _, isPtr := v.Type().Underlying().(*types.Pointer); isPtr {
			p, ok := path(v, fr)
			if !ok {
				return nil, false
			}
			return read(p), true
		}
		switch v := v.(type) {
		case *ssa.Const:
			if v.Value == nil {
				return &dterm{op: "k:nil"}, true
			}
			return &dterm{op: "k:" + v.Value.ExactString()}, true
		case *ssa.Parameter:
			if t, ok := fr.vals[v]; ok {
				return t, true
			}
		case *ssa.UnOp:
			// a load: the value of the location
			if v.Op == token.MUL {
				if p, ok := path(v.X, fr); ok {
					return read(p), true
				}
			}
		}
		return nil, false
	}
	var exec func(fr *dframe) string
	exec = func(fr *dframe) string {
		live := load.LiveBlocks(fr.fn)
		for _, b := range fr.fn.Blocks {
			if !live[b] {
				continue
			}
			for _, in := range b.Instrs {
				switch in := in.(type) {
				case *ssa.Alloc, *ssa.FieldAddr, *ssa.IndexAddr, *ssa.DebugRef:
					// addresses are resolved on use
				case *ssa.UnOp:
					if in.Op != token.MUL {
						return sprintf("unsupported instruction %T (%s)", in, in.Op)
					}
					// loads are resolved on use (struct copies)
				case *ssa.Return:
					if len(in.Results) == 1 {
						fr.ret = in.Results[0]
					}
				case *ssa.Store:
					// a copy *dst = *src
					dst, ok1 := path(in.Addr, fr)
					t, ok2 := operand(in.Val, fr)
					if !ok1 || !ok2 {
						return "unsupported store (not a copy between locations)"
					}
					write(dst, t)
				case *ssa.Call:
					callee := in.Call.StaticCallee()
					if callee == nil {
						return "dynamic call"
					}
					args := in.Call.Args
					if fr.depth < 3 && inlineHelper(callee) {
						nf := &dframe{fn: callee, locs: map[*ssa.Parameter]string{}, vals: map[*ssa.Parameter]*dterm{}, depth: fr.depth + 1}
						okBind := len(args) == len(callee.Params)
						for i, a := range args {
							if !okBind {
								break
							}
							if _, isPtr := a.Type().Underlying().(*types.Pointer); isPtr {
								p, ok := path(a, fr)
								if !ok {
									okBind = false
									break
								}
								nf.locs[callee.Params[i]] = p
								continue
							}
							t, ok := operand(a, fr)
							if !ok {
								okBind = false
								break
							}
							nf.vals[callee.Params[i]] = t
						}
						if okBind {
							if e := exec(nf); e != "" {
								return e + " (in helper " + funcKey(callee) + ")"
							}
							if nf.ret != nil {
								if _, isPtr := nf.ret.Type().Underlying().(*types.Pointer); isPtr {
									if p, ok := path(nf.ret, nf); ok {
										alias[in] = p
									}
								}
							}
							continue
						}
					}
					var ops []*dterm
					for i, a := range args {
						if i == 0 && callee.Signature.Recv() != nil {
							continue
						}
						t, ok := operand(a, fr)
						if !ok {
							return sprintf("unsupported operand %s of %s", a.Name(), funcKey(callee))
						}
						ops = append(ops, t)
					}
					if callee.Signature.Recv() != nil {
						dst, ok := path(args[0], fr)
						if !ok {
							return sprintf("receiver of %s is not a location", funcKey(callee))
						}
						op := "call:" + funcKey(callee)
						if isNamed(callee.Signature.Recv().Type(), fieldRel, "Element") {
							op = callee.Name()
							if op == "Set" && len(ops) == 1 {
								// a plain copy forwards the term
								write(dst, ops[0])
								if _, isPtr := in.Type().Underlying().(*types.Pointer); isPtr {
									alias[in] = dst
								}
								continue
							}
						}
						write(dst, &dterm{op: op, args: ops})
						if _, isPtr := in.Type().Underlying().(*types.Pointer); isPtr {
							alias[in] = dst // methods of these types return their receiver
						}
						continue
					}
					// plain function: every pointer argument is in/out
					for i, a := range args {
						if _, isPtr := a.Type().Underlying().(*types.Pointer); isPtr {
							dst, ok := path(a, fr)
							if !ok {
								return sprintf("argument of %s is not a location", funcKey(callee))
							}
							write(dst, &dterm{op: sprintf("call:%s#%d", funcKey(callee), i), args: ops})
						}
					}
				default:
					return sprintf("unsupported instruction %T", in)
				}
			}
		}
		return ""
	}
	top := &dframe{fn: fn, locs: map[*ssa.Parameter]string{}, vals: map[*ssa.Parameter]*dterm{}}
	for i, p := range fn.Params {
		if _, isPtr := p.Type().Underlying().(*types.Pointer); isPtr {
			top.locs[p] = sprintf("p%d", i)
		} else {
			top.vals[p] = &dterm{op: sprintf("in:p%d", i)}
		}
	}
	if e := exec(top); e != "" {
		return nil, e
	}
	out = map[string]*dterm{}
	for k, t := range mem {
		if k == "p0" || strings.HasPrefix(k, "p0.") {
			out[k] = t
		}
	}
	if len(out) == 0 {
		return nil, "the receiver is never written"
	}
	return out, ""
}

// nielsSwap finds the Niels operand of fn (a parameter whose struct has a
// y_plus_x / y_minus_x pair of fields, any capitalisation) and returns the
// two leaf names to exchange.
func nielsSwap(fn *ssa.Function) (a, b string, ok bool) {
	for i, p := range fn.Params {
		ptr, isPtr := p.Type().Underlying().(*types.Pointer)
		if !isPtr {
			continue
		}
		st, isSt := ptr.Elem().Underlying().(*types.Struct)
		if !isSt {
			continue
		}
		var plus, minus string
		// fields are identified by the names they had when the rule was written (renamed unexported
		// fields keep their identity, see load.AliasFieldNames), compared without case and underscores
		names := make([]string, st.NumFields())
		for j := range names {
			names[j] = st.Field(j).Name()
		}
		if nm, ok := ptr.Elem().(*types.Named); ok && RecordedFieldNames != nil && nm.Obj().Pkg() != nil {
			if rec := RecordedFieldNames(load.Rel(nm.Obj().Pkg()) + "." + nm.Obj().Name()); len(rec) == st.NumFields() {
				names = load.AliasFieldNames(rec, st)
			}
		}
		for j := 0; j < st.NumFields(); j++ {
			switch strings.ReplaceAll(strings.ToLower(names[j]), "_", "") {
			case "yplusx":
				plus = st.Field(j).Name()
			case "yminusx":
				minus = st.Field(j).Name()
			}
		}
		if plus != "" && minus != "" {
			return sprintf("in:p%d.%s", i, plus), sprintf("in:p%d.%s", i, minus), true
		}
	}
	return "", "", false
}

// RecordedFieldNames, when set, returns the recorded field names of a named module struct type.
var RecordedFieldNames func(typeKey string) []string

// DualPair is one Add*/Sub* twin.
type DualPair struct {
	Add     string            `json:"add"`
	Sub     string            `json:"sub"`
	Kind    string            `json:"kind"` // "formula" (field operations) or "delegation"
	Outputs map[string]string `json:"sub_dag,omitempty"`
	Decided bool              `json:"decided"`
}

// CheckDuality decides the Add/Sub duality of every Add*/Sub* method pair of
// package curve in configuration p.  One instance per pair.
func CheckDuality(run *report.Run, p *load.Program, ruleID string) []DualPair {
	ru := run.Rule(ruleID, "the operation DAG of every Sub* formula equals its Add* twin's under (y+x <-> y-x of the Niels operand, final Add <-> Sub on Z and T)", 0)
	pk := p.Pkg(curveRel)
	if pk == nil || p.SSA == nil {
		run.Fatal("E-SIB duality: package %s not loaded with SSA", curveRel)
		return nil
	}
	var res []DualPair
	sc := pk.Types.Scope()
	for _, name := range sc.Names() {
		tn, ok := sc.Lookup(name).(*types.TypeName)
		if !ok || tn.IsAlias() {
			continue
		}
		named, ok := tn.Type().(*types.Named)
		if !ok {
			continue
		}
		methods := map[string]*types.Func{}
		for i := 0; i < named.NumMethods(); i++ {
			methods[named.Method(i).Name()] = named.Method(i)
		}
		for _, mname := range sortedKeys(methods) {
			if !strings.HasPrefix(mname, "Sub") {
				continue
			}
			subM := methods[mname]
			addM := methods["Add"+strings.TrimPrefix(mname, "Sub")]
			if addM == nil {
				continue
			}
			construct := objKey(subM)
			dp := DualPair{Add: objKey(addM), Sub: objKey(subM)}
			if !types.Identical(addM.Type().(*types.Signature).Params(), subM.Type().(*types.Signature).Params()) {
				ru.Failf(p.Pos(subM.Pos()), construct, "Add/Sub twins have different parameter lists")
				res = append(res, dp)
				continue
			}
			addF, subF := p.SSA.FuncValue(addM), p.SSA.FuncValue(subM)
			// vector-only stubs and assembly-backed bodies are not decided here
			if gpkg := p.SSAPkg(curveRel); gpkg != nil {
				if errG, _ := gpkg.Members[stubErrName].(*ssa.Global); errG != nil && (isStub(addF, errG) || isStub(subF, errG)) {
					dp.Kind = "stub"
					res = append(res, dp)
					continue
				}
			}
			if callsBodyless(addF) || callsBodyless(subF) {
				dp.Kind = "assembly"
				res = append(res, dp)
				continue
			}
			addDag, e1 := dagOf(addF)
			subDag, e2 := dagOf(subF)
			if e1 != "" || e2 != "" {
				ru.Failf(p.Pos(subM.Pos()), construct, "cannot build the operation DAG of the twins (%s): undecided", strings.TrimPrefix(e1+"; "+e2, "; "))
				res = append(res, dp)
				continue
			}
			la, lb, hasNiels := nielsSwap(addF)
			var subst func(t *dterm) *dterm
			subst = func(t *dterm) *dterm {
				n := &dterm{op: t.op}
				if hasNiels && len(t.args) == 0 {
					switch t.op {
					case la:
						n.op = lb
					case lb:
						n.op = la
					}
				}
				if strings.HasPrefix(t.op, "call:") {
					// delegate to the twin of the callee
					key := strings.TrimPrefix(t.op, "call:")
					if i := strings.LastIndex(key, ".Add"); i >= 0 {
						n.op = "call:" + key[:i] + ".Sub" + key[i+4:]
					}
				}
				for _, a := range t.args {
					n.args = append(n.args, subst(a))
				}
				return n
			}
			ok := true
			dp.Kind = "delegation"
			dp.Outputs = map[string]string{}
			keys := map[string]bool{}
			for k := range addDag {
				keys[k] = true
			}
			for k := range subDag {
				keys[k] = true
			}
			var diag string
			for _, k := range sortedKeys(keys) {
				a, s := addDag[k], subDag[k]
				if a == nil || s == nil {
					ok = false
					diag = sprintf("output %s is written by only one of the twins", k)
					break
				}
				want := subst(a)
				if want.op == "Add" || want.op == "Sub" || want.op == "Mul" {
					dp.Kind = "formula"
				}
				if strings.HasSuffix(k, ".Z") || strings.HasSuffix(k, ".T") {
					switch want.op {
					case "Add":
						want.op = "Sub"
					case "Sub":
						want.op = "Add"
					}
				}
				dp.Outputs[k] = s.String()
				if want.String() != s.String() {
					ok = false
					diag = sprintf("output %s: %s computes %s, the dual of %s is %s", strings.TrimPrefix(k, "p0."), subM.Name(), s, addM.Name(), want)
					break
				}
			}
			if ok && dp.Kind == "formula" && !hasNiels {
				ok, diag = false, "field formula without a Niels operand: the duality substitution is not defined"
			}
			dp.Decided = true
			if ok {
				ru.OK(construct)
			} else {
				ru.Fail(p.Pos(subM.Pos()), construct, "Sub formula is not the sign-dual of its Add twin: "+diag, dp)
			}
			res = append(res, dp)
		}
	}
	return res
}

// callsBodyless reports whether fn calls a function without Go body
// (assembly) directly.
func callsBodyless(fn *ssa.Function) bool {
	if fn == nil {
		return false
	}
	for _, b := range fn.Blocks {
		for _, in := range b.Instrs {
			if c := staticCallee(in); c != nil && len(c.Blocks) == 0 && load.IsModule(pkgOf(c)) {
				return true
			}
		}
	}
	return false
}
