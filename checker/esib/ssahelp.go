package esib

import (
	"go/constant"
	"go/token"

	"golang.org/x/tools/go/ssa"
)

// induction describes a counting loop variable recognised in SSA:
//
//	phi = [outside: const lo, latch: phi ± const step]; header: if phi ⋈ const bound
//
// or, for the rotated loops go/ssa builds for `range`:
//
//	phi = [outside: const lo, latch: next]; next = phi ± step (in the header); if next ⋈ const bound
type induction struct {
	phi    *ssa.Phi
	next   ssa.Value // the value phi ± step fed back into phi
	lo     int64
	step   int64
	op     token.Token // comparison that continues the loop: (phi | next) op bound
	onNext bool        // the comparison tests next, not phi (range form)
	bound  int64
	body   *ssa.BasicBlock // successor taken while the loop continues
}

// loopCounter recognises v as the counter of a counting loop: either the phi
// itself or, in the range form, the incremented value computed in the loop
// header.  delta is v's value minus the phi's value.
func loopCounter(v ssa.Value) (iv *induction, delta int64, ok bool) {
	v = stripConv(v)
	if phi, isPhi := v.(*ssa.Phi); isPhi {
		iv, ok := inductionOf(phi)
		return iv, 0, ok
	}
	if bin, isBin := v.(*ssa.BinOp); isBin {
		for _, op := range []ssa.Value{bin.X, bin.Y} {
			if phi, isPhi := op.(*ssa.Phi); isPhi && bin.Block() == phi.Block() {
				if iv, ok := inductionOf(phi); ok && iv.next == ssa.Value(bin) {
					return iv, iv.step, true
				}
			}
		}
	}
	return nil, 0, false
}

func constInt(v ssa.Value) (int64, bool) {
	for {
		switch w := v.(type) {
		case *ssa.Convert:
			v = w.X
			continue
		case *ssa.ChangeType:
			v = w.X
			continue
		}
		break
	}
	c, ok := v.(*ssa.Const)
	if !ok || c.Value == nil || c.Value.Kind() != constant.Int {
		return 0, false
	}
	return constant.Int64Val(c.Value)
}

// stripConv removes integer conversions around v.
func stripConv(v ssa.Value) ssa.Value {
	for {
		switch w := v.(type) {
		case *ssa.Convert:
			v = w.X
			continue
		case *ssa.ChangeType:
			v = w.X
			continue
		}
		return v
	}
}

// inductionOf recognises phi as a counting loop variable.
func inductionOf(phi *ssa.Phi) (*induction, bool) {
	if len(phi.Edges) != 2 {
		return nil, false
	}
	iv := &induction{phi: phi}
	found := false
	for i := 0; i < 2; i++ {
		lo, ok := constInt(phi.Edges[i])
		if !ok {
			continue
		}
		bin, ok := phi.Edges[1-i].(*ssa.BinOp)
		if !ok || (bin.Op != token.ADD && bin.Op != token.SUB) {
			continue
		}
		var st int64
		switch {
		case bin.X == ssa.Value(phi):
			s, ok := constInt(bin.Y)
			if !ok {
				continue
			}
			st = s
		case bin.Y == ssa.Value(phi) && bin.Op == token.ADD:
			s, ok := constInt(bin.X)
			if !ok {
				continue
			}
			st = s
		default:
			continue
		}
		if bin.Op == token.SUB {
			st = -st
		}
		iv.lo, iv.step, iv.next, found = lo, st, bin, true
	}
	if !found || iv.step == 0 {
		return nil, false
	}
	b := phi.Block()
	if len(b.Instrs) == 0 {
		return nil, false
	}
	ifi, ok := b.Instrs[len(b.Instrs)-1].(*ssa.If)
	if !ok {
		return nil, false
	}
	cond, ok := ifi.Cond.(*ssa.BinOp)
	if !ok {
		return nil, false
	}
	op := cond.Op
	var bv ssa.Value
	isCtr := func(v ssa.Value) bool {
		v = stripConv(v)
		if v == ssa.Value(phi) {
			return true
		}
		if v == iv.next {
			iv.onNext = true
			return true
		}
		return false
	}
	switch {
	case isCtr(cond.X):
		bv = cond.Y
	case isCtr(cond.Y):
		bv = cond.X
		switch op { // mirror
		case token.LSS:
			op = token.GTR
		case token.GTR:
			op = token.LSS
		case token.LEQ:
			op = token.GEQ
		case token.GEQ:
			op = token.LEQ
		}
	default:
		return nil, false
	}
	bound, ok := constInt(bv)
	if !ok {
		return nil, false
	}
	switch op {
	case token.LSS, token.LEQ, token.GTR, token.GEQ, token.NEQ:
	default:
		return nil, false
	}
	iv.op, iv.bound, iv.body = op, bound, b.Succs[0]
	return iv, true
}

// values enumerates the values the phi takes in the loop body (nil if more
// than limit).
func (iv *induction) values(limit int) []int64 {
	var out []int64
	for x := iv.lo; ; x += iv.step {
		v := x
		if iv.onNext {
			v = x + iv.step
		}
		cont := false
		switch iv.op {
		case token.LSS:
			cont = v < iv.bound
		case token.LEQ:
			cont = v <= iv.bound
		case token.GTR:
			cont = v > iv.bound
		case token.GEQ:
			cont = v >= iv.bound
		case token.NEQ:
			cont = v != iv.bound
		}
		if !cont {
			return out
		}
		out = append(out, x)
		if len(out) > limit {
			return nil
		}
	}
}

// isRange reports whether vals is exactly lo, lo+1, ..., hi in some order
// without repetition.
func isRange(vals []int64, lo, hi int64) bool {
	if int64(len(vals)) != hi-lo+1 {
		return false
	}
	seen := map[int64]bool{}
	for _, v := range vals {
		if v < lo || v > hi || seen[v] {
			return false
		}
		seen[v] = true
	}
	return true
}
