package esib

import (
	"go/ast"
	"go/token"
	"go/types"
	"sort"

	"voicheck/load"
	"voicheck/report"
)

// Clones (DESIGN E-SIB): the four ABGLSV-Pornin prologues and the 512-/384-bit
// passes of lattice.FindShortVector must be equal modulo type renaming.
//
// Two syntax trees are compared in lock-step.  They are clones iff they have
// the same shape, constants have equal values, and identifiers correspond
// under ONE consistent bijection:
//
//   - locals and parameters map to locals and parameters (any names);
//   - a declared object may map to a *different* declared object only along a
//     renaming of named types tau (itself a consistent bijection): a method to
//     the method of the same name of the tau-image of its receiver, a function /
//     field / package variable to one whose type is the tau-image of its own
//     type and is not identical to it.  Two different methods of the SAME type
//     (Neg vs Set) therefore never correspond.
//
// Two relaxations, both recorded in the result:
//
//	provenance  one statement `L := f(P)` may correspond to `L' := P'.fld` when
//	            L has table type T, L' type *T and P, P' are the same parameter;
//	            later `&L` corresponds to `L'` (the plain prologue builds the
//	            table of A, the expanded prologue takes it from the expanded point);
//	hand-off    the first pass may contain extra `if <test> { break }` statements
//	            (the exit that hands over to the second pass).

type cloneCmp struct {
	ia, ib   *types.Info
	obj      map[types.Object]types.Object
	rev      map[types.Object]types.Object
	tau      map[*types.TypeName]*types.TypeName
	tauRev   map[*types.TypeName]*types.TypeName
	decl     map[string]string    // declared objects renamed (for the report)
	shift    map[types.Object]int // provenance: +1 a holds T where b holds *T, -1 the converse
	allowPro bool
	usedPro  int
	extras   int
	diffA    token.Pos
	diffB    token.Pos
	why      string
}

func newCloneCmp(ia, ib *types.Info) *cloneCmp {
	return &cloneCmp{ia: ia, ib: ib, obj: map[types.Object]types.Object{}, rev: map[types.Object]types.Object{},
		tau: map[*types.TypeName]*types.TypeName{}, tauRev: map[*types.TypeName]*types.TypeName{}, shift: map[types.Object]int{}, decl: map[string]string{}}
}

func (c *cloneCmp) snapshot() *cloneCmp {
	n := *c
	n.obj, n.rev, n.shift = map[types.Object]types.Object{}, map[types.Object]types.Object{}, map[types.Object]int{}
	n.tau, n.tauRev = map[*types.TypeName]*types.TypeName{}, map[*types.TypeName]*types.TypeName{}
	n.decl = map[string]string{}
	for k, v := range c.decl {
		n.decl[k] = v
	}
	for k, v := range c.obj {
		n.obj[k] = v
	}
	for k, v := range c.rev {
		n.rev[k] = v
	}
	for k, v := range c.shift {
		n.shift[k] = v
	}
	for k, v := range c.tau {
		n.tau[k] = v
	}
	for k, v := range c.tauRev {
		n.tauRev[k] = v
	}
	return &n
}

func (c *cloneCmp) fail(a, b ast.Node, why string) bool {
	if c.why == "" {
		c.why = why
		if a != nil {
			c.diffA = a.Pos()
		}
		if b != nil {
			c.diffB = b.Pos()
		}
	}
	return false
}

func isLocalObj(o types.Object) bool {
	if o == nil || o.Pkg() == nil {
		return false
	}
	if _, isField := o.(*types.Var); isField && o.(*types.Var).IsField() {
		return false
	}
	return o.Parent() != o.Pkg().Scope() && o.Parent() != nil
}

// bind records a <-> b in the object bijection.
func (c *cloneCmp) bind(a, b types.Object) bool {
	if x, ok := c.obj[a]; ok {
		return x == b
	}
	if _, ok := c.rev[b]; ok {
		return false
	}
	c.obj[a] = b
	c.rev[b] = a
	return true
}

// typeRel reports whether tb is the tau-image of ta (extending tau).
func (c *cloneCmp) typeRel(ta, tb types.Type) bool {
	ta, tb = types.Unalias(ta), types.Unalias(tb)
	switch a := ta.(type) {
	case *types.Named:
		b, ok := tb.(*types.Named)
		if !ok {
			return false
		}
		if a.Obj() == b.Obj() {
			// identity is part of every renaming, but a type that is renamed
			// cannot also stay fixed
			if !load.IsModule(a.Obj().Pkg()) {
				return true
			}
			if x, ok := c.tau[a.Obj()]; ok {
				return x == a.Obj()
			}
			if _, ok := c.tauRev[a.Obj()]; ok {
				return false
			}
			c.tau[a.Obj()] = a.Obj()
			c.tauRev[a.Obj()] = a.Obj()
			return true
		}
		if !load.IsModule(a.Obj().Pkg()) || !load.IsModule(b.Obj().Pkg()) {
			return false
		}
		if x, ok := c.tau[a.Obj()]; ok {
			return x == b.Obj()
		}
		if _, ok := c.tauRev[b.Obj()]; ok {
			return false
		}
		c.tau[a.Obj()] = b.Obj()
		c.tauRev[b.Obj()] = a.Obj()
		return true
	case *types.Pointer:
		b, ok := tb.(*types.Pointer)
		return ok && c.typeRel(a.Elem(), b.Elem())
	case *types.Slice:
		b, ok := tb.(*types.Slice)
		return ok && c.typeRel(a.Elem(), b.Elem())
	case *types.Array:
		b, ok := tb.(*types.Array)
		return ok && a.Len() == b.Len() && c.typeRel(a.Elem(), b.Elem())
	case *types.Signature:
		b, ok := tb.(*types.Signature)
		if !ok || a.Params().Len() != b.Params().Len() || a.Results().Len() != b.Results().Len() || a.Variadic() != b.Variadic() {
			return false
		}
		for i := 0; i < a.Params().Len(); i++ {
			if !c.typeRel(a.Params().At(i).Type(), b.Params().At(i).Type()) {
				return false
			}
		}
		for i := 0; i < a.Results().Len(); i++ {
			if !c.typeRel(a.Results().At(i).Type(), b.Results().At(i).Type()) {
				return false
			}
		}
		return true
	case *types.Tuple:
		b, ok := tb.(*types.Tuple)
		if !ok || a.Len() != b.Len() {
			return false
		}
		for i := 0; i < a.Len(); i++ {
			if !c.typeRel(a.At(i).Type(), b.At(i).Type()) {
				return false
			}
		}
		return true
	}
	return types.Identical(ta, tb)
}

func objOf(info *types.Info, id *ast.Ident) types.Object {
	if o := info.Uses[id]; o != nil {
		return o
	}
	return info.Defs[id]
}

func (c *cloneCmp) ident(a, b *ast.Ident) bool {
	oa, ob := objOf(c.ia, a), objOf(c.ib, b)
	if oa == nil || ob == nil {
		if oa == nil && ob == nil {
			return true // blank identifiers, struct keys without object
		}
		return c.fail(a, b, "identifier without counterpart")
	}
	if oa == ob {
		if isLocalObj(oa) {
			return c.bind(oa, ob) || c.fail(a, b, "local variables do not correspond one to one")
		}
		return true
	}
	la, lb := isLocalObj(oa), isLocalObj(ob)
	if la != lb {
		return c.fail(a, b, "a local corresponds to a declared object")
	}
	if la {
		if !c.bind(oa, ob) {
			return c.fail(a, b, "local variables do not correspond one to one")
		}
		if c.shift[oa] != 0 {
			return true
		}
		if !c.typeRel(oa.Type(), ob.Type()) {
			return c.fail(a, b, sprintf("corresponding locals have unrelated types %s and %s", oa.Type(), ob.Type()))
		}
		return true
	}
	// two different declared objects: allowed only along the type renaming
	switch x := oa.(type) {
	case *types.PkgName:
		y, ok := ob.(*types.PkgName)
		if ok && x.Imported() == y.Imported() {
			return true
		}
	case *types.TypeName:
		if _, ok := ob.(*types.TypeName); ok && c.typeRel(x.Type(), ob.Type()) {
			return true
		}
	case *types.Func:
		y, ok := ob.(*types.Func)
		if !ok {
			break
		}
		ra, rb := recvNamed(x), recvNamed(y)
		if (ra == nil) != (rb == nil) {
			break
		}
		if ra != nil {
			if x.Name() == y.Name() && ra.Obj() != rb.Obj() && c.typeRel(ra, rb) {
				return true
			}
			break
		}
		if !types.Identical(x.Type(), y.Type()) && c.typeRel(x.Type(), y.Type()) {
			c.decl[x.Name()] = y.Name()
			return true
		}
	case *types.Var:
		y, ok := ob.(*types.Var)
		if ok && x.IsField() == y.IsField() && !types.Identical(x.Type(), y.Type()) && c.typeRel(x.Type(), y.Type()) {
			c.decl[x.Name()] = y.Name()
			return true
		}
	}
	return c.fail(a, b, sprintf("%s corresponds to %s, which is not its image under a renaming of types", oa.Name(), ob.Name()))
}

func unparen(e ast.Expr) ast.Expr {
	for {
		p, ok := e.(*ast.ParenExpr)
		if !ok {
			return e
		}
		e = p.X
	}
}

func (c *cloneCmp) exprs(a, b []ast.Expr) bool {
	if len(a) != len(b) {
		var na, nb ast.Node
		if len(a) > 0 {
			na = a[0]
		}
		if len(b) > 0 {
			nb = b[0]
		}
		return c.fail(na, nb, "different number of operands")
	}
	for i := range a {
		if !c.expr(a[i], b[i]) {
			return false
		}
	}
	return true
}

func (c *cloneCmp) expr(a, b ast.Expr) bool {
	if a == nil || b == nil {
		if a == nil && b == nil {
			return true
		}
		return c.fail(a, b, "expression present on one side only")
	}
	a, b = unparen(a), unparen(b)
	// constants: equal values
	if va, vb := c.ia.Types[a].Value, c.ib.Types[b].Value; va != nil || vb != nil {
		if va != nil && vb != nil && va.ExactString() == vb.ExactString() {
			return true
		}
		return c.fail(a, b, "different constant values")
	}
	// provenance: &L  ~  L'
	if ua, ok := a.(*ast.UnaryExpr); ok && ua.Op == token.AND {
		if id, ok := unparen(ua.X).(*ast.Ident); ok {
			if idb, ok := b.(*ast.Ident); ok && c.shift[objOf(c.ia, id)] == +1 {
				return c.ident(id, idb)
			}
		}
	}
	if ub, ok := b.(*ast.UnaryExpr); ok && ub.Op == token.AND {
		if id, ok := unparen(ub.X).(*ast.Ident); ok {
			if ida, ok := a.(*ast.Ident); ok && c.shift[objOf(c.ia, ida)] == -1 {
				return c.ident(ida, id)
			}
		}
	}
	switch x := a.(type) {
	case *ast.Ident:
		y, ok := b.(*ast.Ident)
		if !ok {
			return c.fail(a, b, "different expression kinds")
		}
		return c.ident(x, y)
	case *ast.SelectorExpr:
		y, ok := b.(*ast.SelectorExpr)
		if !ok {
			return c.fail(a, b, "different expression kinds")
		}
		return c.expr(x.X, y.X) && c.ident(x.Sel, y.Sel)
	case *ast.CallExpr:
		y, ok := b.(*ast.CallExpr)
		if !ok {
			return c.fail(a, b, "different expression kinds")
		}
		return c.expr(x.Fun, y.Fun) && c.exprs(x.Args, y.Args)
	case *ast.UnaryExpr:
		y, ok := b.(*ast.UnaryExpr)
		if !ok || x.Op != y.Op {
			return c.fail(a, b, "different operators")
		}
		return c.expr(x.X, y.X)
	case *ast.BinaryExpr:
		y, ok := b.(*ast.BinaryExpr)
		if !ok || x.Op != y.Op {
			return c.fail(a, b, "different operators")
		}
		return c.expr(x.X, y.X) && c.expr(x.Y, y.Y)
	case *ast.StarExpr:
		y, ok := b.(*ast.StarExpr)
		if !ok {
			return c.fail(a, b, "different expression kinds")
		}
		return c.expr(x.X, y.X)
	case *ast.IndexExpr:
		y, ok := b.(*ast.IndexExpr)
		if !ok {
			return c.fail(a, b, "different expression kinds")
		}
		return c.expr(x.X, y.X) && c.expr(x.Index, y.Index)
	case *ast.SliceExpr:
		y, ok := b.(*ast.SliceExpr)
		if !ok || x.Slice3 != y.Slice3 {
			return c.fail(a, b, "different expression kinds")
		}
		return c.expr(x.X, y.X) && c.expr(x.Low, y.Low) && c.expr(x.High, y.High) && c.expr(x.Max, y.Max)
	case *ast.CompositeLit:
		y, ok := b.(*ast.CompositeLit)
		if !ok {
			return c.fail(a, b, "different expression kinds")
		}
		return c.expr(x.Type, y.Type) && c.exprs(x.Elts, y.Elts)
	case *ast.KeyValueExpr:
		y, ok := b.(*ast.KeyValueExpr)
		if !ok {
			return c.fail(a, b, "different expression kinds")
		}
		return c.expr(x.Key, y.Key) && c.expr(x.Value, y.Value)
	case *ast.ArrayType:
		y, ok := b.(*ast.ArrayType)
		if !ok {
			return c.fail(a, b, "different expression kinds")
		}
		return c.expr(x.Len, y.Len) && c.expr(x.Elt, y.Elt)
	case *ast.BasicLit:
		y, ok := b.(*ast.BasicLit)
		if !ok || x.Value != y.Value {
			return c.fail(a, b, "different literals")
		}
		return true
	}
	return c.fail(a, b, sprintf("unsupported expression %T", a))
}

func (c *cloneCmp) stmt(a, b ast.Stmt) bool {
	if a == nil || b == nil {
		if a == nil && b == nil {
			return true
		}
		return c.fail(a, b, "statement present on one side only")
	}
	switch x := a.(type) {
	case *ast.ExprStmt:
		y, ok := b.(*ast.ExprStmt)
		if !ok {
			return c.fail(a, b, "different statement kinds")
		}
		return c.expr(x.X, y.X)
	case *ast.AssignStmt:
		y, ok := b.(*ast.AssignStmt)
		if !ok || x.Tok != y.Tok {
			return c.fail(a, b, "different statement kinds")
		}
		return c.exprs(x.Rhs, y.Rhs) && c.exprs(x.Lhs, y.Lhs)
	case *ast.IncDecStmt:
		y, ok := b.(*ast.IncDecStmt)
		if !ok || x.Tok != y.Tok {
			return c.fail(a, b, "different statement kinds")
		}
		return c.expr(x.X, y.X)
	case *ast.ReturnStmt:
		y, ok := b.(*ast.ReturnStmt)
		if !ok {
			return c.fail(a, b, "different statement kinds")
		}
		return c.exprs(x.Results, y.Results)
	case *ast.BranchStmt:
		y, ok := b.(*ast.BranchStmt)
		if !ok || x.Tok != y.Tok || (x.Label == nil) != (y.Label == nil) {
			return c.fail(a, b, "different statement kinds")
		}
		return true
	case *ast.BlockStmt:
		y, ok := b.(*ast.BlockStmt)
		if !ok {
			return c.fail(a, b, "different statement kinds")
		}
		return c.stmts(x.List, y.List, false)
	case *ast.IfStmt:
		y, ok := b.(*ast.IfStmt)
		if !ok {
			return c.fail(a, b, "different statement kinds")
		}
		return c.stmt(x.Init, y.Init) && c.expr(x.Cond, y.Cond) && c.stmt(x.Body, y.Body) && c.stmtOrNil(x.Else, y.Else)
	case *ast.ForStmt:
		y, ok := b.(*ast.ForStmt)
		if !ok {
			return c.fail(a, b, "different statement kinds")
		}
		return c.stmtOrNil(x.Init, y.Init) && c.expr(x.Cond, y.Cond) && c.stmtOrNil(x.Post, y.Post) && c.stmt(x.Body, y.Body)
	case *ast.RangeStmt:
		y, ok := b.(*ast.RangeStmt)
		if !ok || x.Tok != y.Tok {
			return c.fail(a, b, "different statement kinds")
		}
		return c.expr(x.X, y.X) && c.expr(x.Key, y.Key) && c.expr(x.Value, y.Value) && c.stmt(x.Body, y.Body)
	case *ast.DeclStmt:
		y, ok := b.(*ast.DeclStmt)
		if !ok {
			return c.fail(a, b, "different statement kinds")
		}
		ga, _ := x.Decl.(*ast.GenDecl)
		gb, _ := y.Decl.(*ast.GenDecl)
		if ga == nil || gb == nil || ga.Tok != gb.Tok || len(ga.Specs) != len(gb.Specs) {
			return c.fail(a, b, "different declarations")
		}
		for i := range ga.Specs {
			sa, ok1 := ga.Specs[i].(*ast.ValueSpec)
			sb, ok2 := gb.Specs[i].(*ast.ValueSpec)
			if !ok1 || !ok2 || len(sa.Names) != len(sb.Names) {
				return c.fail(a, b, "different declarations")
			}
			if !c.expr(sa.Type, sb.Type) || !c.exprs(sa.Values, sb.Values) {
				return false
			}
			for j := range sa.Names {
				if !c.ident(sa.Names[j], sb.Names[j]) {
					return false
				}
			}
		}
		return true
	case *ast.EmptyStmt:
		_, ok := b.(*ast.EmptyStmt)
		return ok || c.fail(a, b, "different statement kinds")
	}
	return c.fail(a, b, sprintf("unsupported statement %T", a))
}

func (c *cloneCmp) stmtOrNil(a, b ast.Stmt) bool {
	if a == nil && b == nil {
		return true
	}
	return c.stmt(a, b)
}

// isExitTest recognises `if <call> { break }`.
func isExitTest(s ast.Stmt) bool {
	is, ok := s.(*ast.IfStmt)
	if !ok || is.Init != nil || is.Else != nil || len(is.Body.List) != 1 {
		return false
	}
	br, ok := is.Body.List[0].(*ast.BranchStmt)
	if !ok || br.Tok != token.BREAK || br.Label != nil {
		return false
	}
	_, isCall := unparen(is.Cond).(*ast.CallExpr)
	return isCall
}

// provenance recognises the pair `L := f(P)` / `L' := P'.fld` (either order).
func (c *cloneCmp) provenance(a, b ast.Stmt) bool {
	x, ok1 := a.(*ast.AssignStmt)
	y, ok2 := b.(*ast.AssignStmt)
	if !ok1 || !ok2 || x.Tok != token.DEFINE || y.Tok != token.DEFINE || len(x.Lhs) != 1 || len(y.Lhs) != 1 || len(x.Rhs) != 1 || len(y.Rhs) != 1 {
		return false
	}
	la, ok1 := x.Lhs[0].(*ast.Ident)
	lb, ok2 := y.Lhs[0].(*ast.Ident)
	if !ok1 || !ok2 {
		return false
	}
	oa, ob := c.ia.Defs[la], c.ib.Defs[lb]
	if oa == nil || ob == nil {
		return false
	}
	// which side holds the value, which the pointer?
	dir := 0
	if p, ok := ob.Type().(*types.Pointer); ok && c.snapshot().typeRel(oa.Type(), p.Elem()) {
		dir = +1
	} else if p, ok := oa.Type().(*types.Pointer); ok && c.snapshot().typeRel(p.Elem(), ob.Type()) {
		dir = -1
	}
	if dir == 0 || namedOf(oa.Type()) == nil {
		return false
	}
	// both right-hand sides depend on exactly one object: corresponding parameters
	only := func(info *types.Info, e ast.Expr) types.Object {
		var found types.Object
		n := 0
		ast.Inspect(e, func(nd ast.Node) bool {
			if id, ok := nd.(*ast.Ident); ok {
				if o := info.Uses[id]; o != nil && isLocalObj(o) {
					if found != o {
						n++
					}
					found = o
				}
			}
			return true
		})
		if n != 1 {
			return nil
		}
		return found
	}
	pa, pb := only(c.ia, x.Rhs[0]), only(c.ib, y.Rhs[0])
	if pa == nil || pb == nil {
		return false
	}
	if m, ok := c.obj[pa]; !ok || m != pb {
		return false
	}
	if !c.bind(oa, ob) {
		return false
	}
	c.shift[oa] = dir
	c.usedPro++
	return true
}

// stmts compares two statement lists; with handoff, the first list may hold
// extra exit tests.
func (c *cloneCmp) stmts(a, b []ast.Stmt, handoff bool) bool {
	i, j := 0, 0
	for i < len(a) && j < len(b) {
		try := c.snapshot()
		if try.stmt(a[i], b[j]) {
			*c = *try
			i, j = i+1, j+1
			continue
		}
		if handoff && isExitTest(a[i]) {
			c.extras++
			i++
			continue
		}
		if c.allowPro && c.usedPro == 0 {
			try2 := c.snapshot()
			if try2.provenance(a[i], b[j]) {
				*c = *try2
				i, j = i+1, j+1
				continue
			}
		}
		c.why, c.diffA, c.diffB = try.why, try.diffA, try.diffB
		return false
	}
	for i < len(a) && handoff && isExitTest(a[i]) {
		c.extras++
		i++
	}
	if i != len(a) || j != len(b) {
		var na, nb ast.Node
		if i < len(a) {
			na = a[i]
		}
		if j < len(b) {
			nb = b[j]
		}
		return c.fail(na, nb, "one clone has additional statements")
	}
	return true
}

// renaming prints the discovered renaming (types and declared objects).
func (c *cloneCmp) renaming() []string {
	var out []string
	for a, b := range c.tau {
		if a != b {
			out = append(out, "type "+a.Name()+" -> "+b.Name())
		}
	}
	for a, b := range c.decl {
		out = append(out, a+" -> "+b)
	}
	sort.Strings(out)
	return out
}

// CloneResult describes one clone comparison.
type CloneResult struct {
	Group      string   `json:"group"`
	A          string   `json:"a"`
	B          string   `json:"b"`
	Equal      bool     `json:"equal"`
	Renaming   []string `json:"renaming,omitempty"`
	Provenance int      `json:"provenance_relaxations"`
	HandOff    int      `json:"handoff_exits"`
	Diff       string   `json:"diff,omitempty"`
}

// referencesObj reports whether the body of fd uses obj.
func referencesObj(info *types.Info, fd *ast.FuncDecl, obj types.Object) bool {
	found := false
	ast.Inspect(fd, func(n ast.Node) bool {
		if id, ok := n.(*ast.Ident); ok && info.Uses[id] == obj {
			found = true
		}
		return !found
	})
	return found
}

// CheckClones decides the clone rules in configuration p: (a) all functions
// of package curve that call lattice.FindShortVector (the ABGLSV-Pornin
// prologues; four today) are pairwise clones; (b) the two condition-less
// `for` loops of lattice.FindShortVector (the 512- and 384-bit passes) are
// clones up to the hand-off exit of the first.  One instance per comparison.
func CheckClones(run *report.Run, p *load.Program, ruleID string) []CloneResult {
	ru := run.Rule(ruleID, "the ABGLSV-Pornin prologues and the two passes of FindShortVector are clones modulo type renaming", 0)
	var res []CloneResult
	cpk, lpk := p.Pkg(curveRel), p.Pkg(latticeRel)
	fsv, _ := p.Obj(latticeRel, "FindShortVector").(*types.Func)
	if cpk == nil || lpk == nil || fsv == nil {
		run.Fatal("E-SIB clones: anchor %s.FindShortVector not found", latticeRel)
		return nil
	}
	// (a) prologues
	var pro []*ast.FuncDecl
	for _, f := range cpk.Syntax {
		for _, d := range f.Decls {
			if fd, ok := d.(*ast.FuncDecl); ok && fd.Body != nil && referencesObj(cpk.TypesInfo, fd, fsv) {
				pro = append(pro, fd)
			}
		}
	}
	sort.Slice(pro, func(i, j int) bool { return pro[i].Name.Name < pro[j].Name.Name })
	if len(pro) < 2 {
		ru.Failf("-", "ABGLSV-Pornin prologues", "found %d callers of lattice.FindShortVector in package curve; expected the plain/expanded x generic/vector prologues", len(pro))
	}
	name := func(fd *ast.FuncDecl) string {
		if o, ok := cpk.TypesInfo.Defs[fd.Name].(*types.Func); ok {
			return objKey(o)
		}
		return fd.Name.Name
	}
	mismatch := map[int]int{}
	type cmpRes struct {
		i, j int
		c    *cloneCmp
		ok   bool
	}
	var all []cmpRes
	for i := 0; i < len(pro); i++ {
		for j := i + 1; j < len(pro); j++ {
			c := newCloneCmp(cpk.TypesInfo, cpk.TypesInfo)
			c.allowPro = true
			ok := c.params(pro[i], pro[j]) && c.stmts(pro[i].Body.List, pro[j].Body.List, false)
			all = append(all, cmpRes{i, j, c, ok})
			if !ok {
				mismatch[i]++
				mismatch[j]++
			}
		}
	}
	// the deviant (if any) is the function that disagrees with the most clones
	worst := -1
	for i, n := range mismatch {
		if worst < 0 || n > mismatch[worst] || (n == mismatch[worst] && i < worst) {
			worst = i
		}
	}
	for _, r := range all {
		cr := CloneResult{Group: "pornin-prologue", A: name(pro[r.i]), B: name(pro[r.j]), Equal: r.ok, Renaming: r.c.renaming(), Provenance: r.c.usedPro}
		construct := cr.A + " ~ " + cr.B
		if r.ok {
			ru.OK(construct)
		} else {
			dev := r.i
			pos := r.c.diffA
			if r.j == worst {
				dev, pos = r.j, r.c.diffB
			}
			if !pos.IsValid() {
				pos = pro[dev].Pos()
			}
			cr.Diff = sprintf("%s (at %s / %s)", r.c.why, p.Pos(r.c.diffA), p.Pos(r.c.diffB))
			ru.Fail(p.Pos(pos), name(pro[dev]), sprintf("prologue is not a clone of %s: %s", name(pro[r.i+r.j-dev]), r.c.why), cr)
		}
		res = append(res, cr)
	}
	// (b) the two passes of FindShortVector
	fd := p.FuncDecl(fsv)
	if fd == nil || fd.Body == nil {
		run.Fatal("E-SIB clones: no syntax for %s.FindShortVector", latticeRel)
		return res
	}
	var passes []*ast.ForStmt
	for _, s := range fd.Body.List {
		if fs, ok := s.(*ast.ForStmt); ok && fs.Cond == nil && fs.Init == nil && fs.Post == nil {
			passes = append(passes, fs)
		}
	}
	construct := objKey(fsv) + " pass 1 ~ pass 2"
	if len(passes) != 2 {
		ru.Failf(p.Pos(fd.Pos()), construct, "expected two condition-less loops (the 512- and 384-bit passes), found %d", len(passes))
		return res
	}
	c := newCloneCmp(lpk.TypesInfo, lpk.TypesInfo)
	ok := c.stmts(passes[0].Body.List, passes[1].Body.List, true)
	cr := CloneResult{Group: "lattice-pass", A: objKey(fsv) + "#pass1", B: objKey(fsv) + "#pass2", Equal: ok, Renaming: c.renaming(), HandOff: c.extras}
	switch {
	case !ok:
		cr.Diff = sprintf("%s (at %s / %s)", c.why, p.Pos(c.diffA), p.Pos(c.diffB))
		pos := c.diffB
		if !pos.IsValid() {
			pos = passes[1].Pos()
		}
		ru.Fail(p.Pos(pos), construct, "the two passes are not clones: "+c.why, cr)
	case c.extras > 1:
		ru.Fail(p.Pos(passes[0].Pos()), construct, sprintf("the first pass has %d extra exit tests; exactly one hand-off is expected", c.extras), cr)
	default:
		ru.OK(construct)
	}
	res = append(res, cr)
	return res
}

// params binds the parameters of two function declarations by position.
func (c *cloneCmp) params(a, b *ast.FuncDecl) bool {
	var pa, pb []*ast.Ident
	for _, f := range a.Type.Params.List {
		pa = append(pa, f.Names...)
	}
	for _, f := range b.Type.Params.List {
		pb = append(pb, f.Names...)
	}
	if len(pa) != len(pb) {
		return c.fail(a, b, "different number of parameters")
	}
	for i := range pa {
		oa, ob := c.ia.Defs[pa[i]], c.ib.Defs[pb[i]]
		if oa == nil || ob == nil || !c.bind(oa, ob) {
			return c.fail(pa[i], pb[i], "parameters do not correspond")
		}
	}
	return true
}
