package esib

import (
	"go/constant"
	"go/token"
	"go/types"
	"sort"

	"golang.org/x/tools/go/ssa"

	"voicheck/load"
	"voicheck/report"
)

// Pair is one (vector, generic) sibling pair discovered at a dispatch guard.
type Pair struct {
	Dispatcher string `json:"dispatcher"` // function holding the guard
	Pos        string `json:"pos"`
	Vector     string `json:"vector"`  // funcKey of the member of the vector-only set
	Generic    string `json:"generic"` // funcKey of the sibling called on the false edge
}

// DispatchResult is what CheckDispatch found in one configuration.
type DispatchResult struct {
	Config     string   `json:"config"`
	Stubs      []string `json:"stubs"`       // panicking stubs of the generic configuration (seed names)
	BuildOnly  []string `json:"build_only"`  // functions of package curve that exist only in this (vector) build
	VectorOnly []string `json:"vector_only"` // the closed vector-only set V
	Guards     int      `json:"guards"`      // guard tests whose true region calls into V
	Switches   int      `json:"switches"`    // guards that also have a generic sibling (dispatch switches)
	Edges      int      `json:"edges"`       // call edges from outside V into V
	Pairs      []Pair   `json:"pairs"`       // one per (switch, callee position)
}

// DistinctPairs returns the distinct (vector, generic) pairs, sorted.
func (d *DispatchResult) DistinctPairs() []Pair {
	seen := map[string]bool{}
	var out []Pair
	for _, p := range d.Pairs {
		k := p.Vector + "|" + p.Generic
		if !seen[k] {
			seen[k] = true
			out = append(out, p)
		}
	}
	sort.Slice(out, func(i, j int) bool { return out[i].Vector < out[j].Vector })
	return out
}

// isStub reports whether every live path of fn ends in panic(<load of the
// package-level error errG>) and nothing else happens: the shape of the
// vector-only stubs of the generic configurations.
func isStub(fn *ssa.Function, errG *ssa.Global) bool {
	if len(fn.Blocks) == 0 {
		return false
	}
	live := load.LiveBlocks(fn)
	sawPanic := false
	for _, b := range fn.Blocks {
		if !live[b] {
			continue
		}
		for _, in := range b.Instrs {
			switch in := in.(type) {
			case *ssa.Panic:
				if !isErrValue(in.X, errG, 0) {
					return false
				}
				sawPanic = true
			case ssa.CallInstruction:
				// only a call of an accessor of the error value (its result is
				// checked at the panic)
				if c := in.Common().StaticCallee(); c == nil || !isErrAccessor(c, errG, 0) {
					return false
				}
			case *ssa.Return, *ssa.Store:
				return false
			}
		}
	}
	return sawPanic
}

// isErrValue reports whether v is the value of the package-level error errG:
// a load of it, possibly converted to an interface, or the result of a
// function that does nothing but return it.
func isErrValue(v ssa.Value, errG *ssa.Global, depth int) bool {
	for {
		switch w := v.(type) {
		case *ssa.MakeInterface:
			v = w.X
			continue
		case *ssa.ChangeInterface:
			v = w.X
			continue
		}
		break
	}
	switch w := v.(type) {
	case *ssa.UnOp:
		return w.Op == token.MUL && w.X == ssa.Value(errG)
	case *ssa.Call:
		c := w.Call.StaticCallee()
		return c != nil && isErrAccessor(c, errG, depth)
	}
	return false
}

// isErrAccessor: a parameterless straight-line function of the same package
// whose only effect is to return the error value.
func isErrAccessor(fn *ssa.Function, errG *ssa.Global, depth int) bool {
	if depth > 2 || len(fn.Blocks) != 1 || len(fn.Params) != 0 || fn.Pkg != errG.Pkg {
		return false
	}
	var ret *ssa.Return
	for _, in := range fn.Blocks[0].Instrs {
		switch in := in.(type) {
		case *ssa.Return:
			ret = in
		case *ssa.Store, *ssa.Panic, *ssa.Go, *ssa.Defer:
			return false
		case ssa.CallInstruction:
			if c := in.Common().StaticCallee(); c == nil || !isErrAccessor(c, errG, depth+1) {
				return false
			}
		}
	}
	return ret != nil && len(ret.Results) == 1 && isErrValue(ret.Results[0], errG, depth+1)
}

// flagTest normalises an If condition to a test of the dispatch flag.  It
// returns the index of the successor taken when the flag is TRUE.  On amd64
// the flag is a package-level variable (the condition is a load of it, maybe
// compared with a bool constant or negated).  In the generic configurations
// the flag is the constant false: go/ssa leaves `false == true` (switch form)
// and `if false` (if form) unfolded, the named constant is no longer visible,
// and the flag-true successor is the one constant pruning removes — in these
// configurations the rule is "calls into V occur only in pruned code".
func flagTest(cond ssa.Value, flagG *ssa.Global) (trueSucc int, ok bool) {
	return flagTestAt(cond, flagG, nil)
}

// flagTestAt is flagTest for the condition of the If that ends block at (nil:
// unknown).  Besides the direct forms it accepts, as a behaviour-preserving
// spelling of the same test,
//
//   - a call of a straight-line, parameterless function of package curve that
//     returns a test of the flag (an accessor such as useVectorBackend()),
//   - on amd64, the very value that a dominating store in the same function
//     has just written to the flag (`ok := detect(); flag = ok; if ok { ... }`).
func flagTestAt(cond ssa.Value, flagG *ssa.Global, at *ssa.BasicBlock) (trueSucc int, ok bool) {
	pol, ok := flagPolarity(cond, flagG, at, 0)
	if !ok {
		return 0, false
	}
	if pol {
		return 0, true
	}
	return 1, true
}

// flagPolarity resolves v to "v == (flag == pol)".  In the generic
// configurations (flagG == nil) the flag is the constant false: a condition
// that folds to the constant c is reported as pol = !c, so that the flag-true
// successor is the one constant pruning removes.
func flagPolarity(v ssa.Value, flagG *ssa.Global, at *ssa.BasicBlock, depth int) (pol, ok bool) {
	if depth > 4 {
		return false, false
	}
	if flagG == nil {
		if c, isC := load.FoldConst(v); isC && c.Kind() == constant.Bool {
			return !constant.BoolVal(c), true
		}
	}
	switch c := v.(type) {
	case *ssa.UnOp:
		switch {
		case c.Op == token.NOT:
			p, ok := flagPolarity(c.X, flagG, at, depth+1)
			return !p, ok
		case c.Op == token.MUL && flagG != nil && c.X == ssa.Value(flagG):
			return true, true
		}
	case *ssa.BinOp:
		if c.Op != token.EQL && c.Op != token.NEQ {
			return false, false
		}
		x, y := c.X, c.Y
		if _, isC := x.(*ssa.Const); isC {
			x, y = y, x
		}
		k, isC := y.(*ssa.Const)
		if !isC || k.Value == nil || k.Value.Kind() != constant.Bool {
			return false, false
		}
		p, ok := flagPolarity(x, flagG, at, depth+1)
		if constant.BoolVal(k.Value) != (c.Op == token.EQL) {
			p = !p
		}
		return p, ok
	case *ssa.Call:
		g := c.Call.StaticCallee()
		if g == nil || len(g.Blocks) != 1 || len(g.Params) != 0 || len(g.FreeVars) != 0 || g.Pkg == nil || load.Rel(g.Pkg.Pkg) != curveRel {
			return false, false
		}
		var ret *ssa.Return
		for _, in := range g.Blocks[0].Instrs {
			switch in := in.(type) {
			case *ssa.Return:
				ret = in
			case *ssa.Store, ssa.CallInstruction, *ssa.Panic:
				return false, false
			}
		}
		if ret == nil || len(ret.Results) != 1 {
			return false, false
		}
		return flagPolarity(ret.Results[0], flagG, nil, depth+1)
	}
	// the value just stored into the flag by this function
	if flagG != nil && at != nil {
		var stores []*ssa.Store
		for _, b := range at.Parent().Blocks {
			for _, in := range b.Instrs {
				if st, isSt := in.(*ssa.Store); isSt && st.Addr == ssa.Value(flagG) {
					stores = append(stores, st)
				}
			}
		}
		if len(stores) == 1 && stores[0].Val == v && (stores[0].Block() == at || stores[0].Block().Dominates(at)) {
			return true, true
		}
	}
	return false, false
}

// CheckDispatch decides the dispatch rule of DESIGN E-SIB in configuration p.
// generic is a program of a generic configuration (it supplies the names of
// the panicking stubs); it may be p itself.
//
// Rule instances: one per seed resolved, one per call edge from outside the
// vector-only set V into V (must be dominated by the flag-true edge of a test
// of supportsVectorizedEdwards), one per function value of a member of V
// taken outside V (forbidden), one per dispatch switch (pairing well formed).
func CheckDispatch(run *report.Run, p *load.Program, generic *load.Program, ruleID string) *DispatchResult {
	ru := run.Rule(ruleID, "every call edge into the vector-only set is dominated by the true edge of supportsVectorizedEdwards; each switch pairs a vector routine with a generic sibling", 0)
	res := &DispatchResult{Config: p.Cfg.ID}
	if generic == nil {
		generic = p
	}
	// --- seeds: the stubs of the generic configuration ----------------------
	gpk := generic.SSAPkg(curveRel)
	ppk := p.SSAPkg(curveRel)
	if gpk == nil || ppk == nil {
		run.Fatal("E-SIB dispatch: package %s not loaded with SSA", curveRel)
		return res
	}
	errG, _ := gpk.Members[stubErrName].(*ssa.Global)
	if errG == nil {
		run.Fatal("E-SIB dispatch: anchor %s.%s not found in configuration %s (expected a generic configuration)", curveRel, stubErrName, generic.Cfg.ID)
		return res
	}
	genericFuncs := map[string]bool{}
	for _, fn := range generic.ModuleFuncs() {
		if fn.Pkg != gpk {
			continue
		}
		k := funcKey(fn)
		genericFuncs[k] = true
		if fn.Parent() == nil && isStub(fn, errG) {
			res.Stubs = append(res.Stubs, k)
		}
	}
	sort.Strings(res.Stubs)
	if len(res.Stubs) == 0 {
		run.Fatal("E-SIB dispatch: no panic(%s) stub found in configuration %s", stubErrName, generic.Cfg.ID)
		return res
	}
	byKey := map[string]*ssa.Function{}
	funcs := p.ModuleFuncs()
	for _, fn := range funcs {
		byKey[funcKey(fn)] = fn
	}
	V := map[*ssa.Function]bool{}
	for _, k := range res.Stubs {
		fn := byKey[k]
		if fn == nil {
			ru.Failf("-", k, "vector-only stub of configuration %s has no counterpart of the same name in configuration %s", generic.Cfg.ID, p.Cfg.ID)
			continue
		}
		ru.OK("seed " + k)
		V[fn] = true
	}
	// functions of package curve that exist only in this build (the AVX2
	// assembly and its Go wrappers): vector-only by construction.
	if p != generic {
		for _, fn := range funcs {
			if fn.Pkg != ppk || fn.Parent() != nil || fn.Synthetic != "" {
				continue
			}
			if k := funcKey(fn); !genericFuncs[k] {
				res.BuildOnly = append(res.BuildOnly, k)
				V[fn] = true
			}
		}
		sort.Strings(res.BuildOnly)
	}
	// --- the dispatch flag -----------------------------------------------------
	var flagG *ssa.Global
	switch m := ppk.Members[flagName].(type) {
	case *ssa.Global:
		flagG = m
	case *ssa.NamedConst:
		if m.Value == nil || m.Value.Value == nil || m.Value.Value.Kind() != constant.Bool || constant.BoolVal(m.Value.Value) {
			ru.Failf(p.Pos(m.Pos()), flagName, "the dispatch flag is a constant other than false in configuration %s", p.Cfg.ID)
		}
	default:
		run.Fatal("E-SIB dispatch: anchor %s.%s not found in configuration %s", curveRel, flagName, p.Cfg.ID)
		return res
	}
	// --- guards: the tests of the flag in every function ----------------------------
	guardCache := map[*ssa.Function][]*guard{}
	guardsFor := func(fn *ssa.Function) []*guard {
		if gs, ok := guardCache[fn]; ok {
			return gs
		}
		var guards []*guard
		for _, b := range fn.Blocks {
			if len(b.Instrs) == 0 {
				continue
			}
			ifi, ok := b.Instrs[len(b.Instrs)-1].(*ssa.If)
			if !ok {
				continue
			}
			ts, ok := flagTestAt(ifi.Cond, flagG, b)
			if !ok {
				continue
			}
			g := &guard{fn: fn, blk: b}
			if s := b.Succs[ts]; len(s.Preds) == 1 && s != b.Succs[1-ts] {
				g.t = s
			}
			if s := b.Succs[1-ts]; len(s.Preds) == 1 && s != b.Succs[ts] {
				g.f = s
			}
			guards = append(guards, g)
		}
		guardCache[fn] = guards
		return guards
	}
	// guardOf returns the innermost guard whose flag-true region contains the
	// instruction.  An anonymous function that is only ever called, and only
	// inside the flag-true region of its parent, inherits the parent's guard
	// (`if flag { return func() T { return vec() }() }`).
	var guardOf func(in ssa.Instruction, depth int) *guard
	guardOf = func(in ssa.Instruction, depth int) *guard {
		fn := in.Parent()
		var g *guard
		for _, c := range guardsFor(fn) {
			if c.t != nil && c.t.Dominates(in.Block()) {
				g = c
			}
		}
		if g != nil || fn.Parent() == nil || depth > 3 {
			return g
		}
		var common *guard
		sites := 0
		for _, b := range fn.Parent().Blocks {
			for _, pin := range b.Instrs {
				uses := false
				for _, op := range pin.Operands(nil) {
					if op != nil && *op == ssa.Value(fn) {
						uses = true
					}
				}
				if !uses {
					continue
				}
				sites++
				switch pin := pin.(type) {
				case *ssa.MakeClosure:
					if pin.Referrers() == nil {
						return nil
					}
					for _, ref := range *pin.Referrers() {
						ci, isCall := ref.(ssa.CallInstruction)
						if !isCall || ci.Common().Value != ssa.Value(pin) {
							return nil // the closure value escapes
						}
					}
				case ssa.CallInstruction:
					if pin.Common().Value != ssa.Value(fn) {
						return nil
					}
				default:
					return nil
				}
				pg := guardOf(pin, depth+1)
				if pg == nil || (common != nil && common != pg) {
					return nil
				}
				common = pg
			}
		}
		if sites == 0 {
			return nil
		}
		return common
	}

	// --- closure ----------------------------------------------------------------
	// A function joins V when every live returning path calls a member of V,
	// or when it calls a member of V and is itself only ever called from V or
	// from the flag-true region of a guard (a helper extracted from vector
	// code) — unless it belongs to the public API or is an initialiser (those
	// must work in every configuration, so an unguarded call of vector code in
	// them — or in a helper they call unguarded — is reported, not absorbed).
	// why[f] remembers the call that made f vector-only, for the diagnosis.
	type reason struct {
		callee *ssa.Function
		pos    token.Pos
	}
	why := map[*ssa.Function]reason{}
	inV := func(fn *ssa.Function) bool { return fn != nil && V[topLevel(fn)] }
	callSites := map[*ssa.Function][]ssa.Instruction{}
	addrTaken := map[*ssa.Function]bool{}
	for _, fn := range funcs {
		for _, b := range fn.Blocks {
			for _, in := range b.Instrs {
				ci, isCall := in.(ssa.CallInstruction)
				for _, op := range in.Operands(nil) {
					if op == nil || *op == nil {
						continue
					}
					f, isF := (*op).(*ssa.Function)
					if !isF {
						continue
					}
					if isCall && ci.Common().Value == ssa.Value(f) {
						callSites[f] = append(callSites[f], in)
						for _, a := range ci.Common().Args {
							if a == ssa.Value(f) {
								addrTaken[f] = true
							}
						}
					} else {
						addrTaken[f] = true
					}
				}
			}
		}
	}
	onlyReachedFromVector := func(fn *ssa.Function) bool {
		if addrTaken[fn] || len(callSites[fn]) == 0 {
			return false
		}
		for _, site := range callSites[fn] {
			if site.Parent() == fn || inV(site.Parent()) {
				continue
			}
			if guardOf(site, 0) == nil {
				return false
			}
		}
		return true
	}
	callsV := func(fn *ssa.Function) bool {
		for _, b := range fn.Blocks {
			for _, in := range b.Instrs {
				if c := staticCallee(in); c != nil && c != fn && inV(c) {
					return true
				}
			}
		}
		return false
	}
	for changed := true; changed; {
		changed = false
		for _, fn := range funcs {
			if fn.Parent() != nil || V[fn] || len(fn.Blocks) == 0 || fn.Synthetic != "" || isPublicAPI(fn) || fn.Name() == "init" {
				continue
			}
			if allPathsCall(fn, inV) || (callsV(fn) && onlyReachedFromVector(fn)) {
				V[fn] = true
				changed = true
				for _, b := range fn.Blocks {
					for _, in := range b.Instrs {
						if c := staticCallee(in); c != nil && inV(c) && c != fn {
							if _, have := why[fn]; !have {
								why[fn] = reason{c, in.Pos()}
							}
						}
					}
				}
			}
		}
	}
	for fn := range V {
		res.VectorOnly = append(res.VectorOnly, funcKey(fn))
	}
	sort.Strings(res.VectorOnly)

	// --- edges ------------------------------------------------------------------
	for _, fn := range funcs {
		if inV(fn) || len(fn.Blocks) == 0 {
			continue
		}
		guards := guardsFor(fn)
		for _, b := range fn.Blocks {
			for _, in := range b.Instrs {
				// function values of V members must not leak out of V
				if _, isCall := in.(ssa.CallInstruction); !isCall {
					for _, op := range in.Operands(nil) {
						if op == nil || *op == nil {
							continue
						}
						if f, isF := (*op).(*ssa.Function); isF && inV(f) && !isClosureOf(f, fn) {
							ru.Failf(p.Pos(in.Pos()), funcKey(fn), "function value of vector-only %s is taken outside the vector-only set", funcKey(f))
						}
					}
				}
				callee := staticCallee(in)
				if callee == nil {
					continue
				}
				if !inV(callee) {
					if load.IsModule(pkgOf(callee)) && callee.Parent() == nil {
						for _, c := range guards {
							// a sibling candidate on the flag-false side
							if c.f != nil && c.f.Dominates(b) {
								c.gen = append(c.gen, callee)
							}
							// an ordinary call on the flag-true side
							if c.t != nil && c.t.Dominates(b) {
								c.tcalls = append(c.tcalls, callee)
							}
						}
					}
					continue
				}
				g := guardOf(in, 0)
				res.Edges++
				construct := funcKey(fn) + " -> " + funcKey(callee)
				if g == nil {
					msg := sprintf("call into the vector-only set is not dominated by the true edge of a test of %s", flagName)
					if r, ok := why[topLevel(callee)]; ok {
						msg += sprintf("; %s counts as vector-only because every path through it calls %s (%s)", funcKey(callee), funcKey(r.callee), p.Pos(r.pos))
					}
					ru.Failf(p.Pos(in.Pos()), construct, "%s", msg)
					continue
				}
				// (in a generic configuration the flag-true region of a resolved
				// test is exactly the code constant pruning removes)
				ru.OK(construct)
				g.hasEdge = true
				g.vec = append(g.vec, callee)
				if !g.vecPos.IsValid() {
					g.vecPos = in.Pos()
				}
			}
		}
	}
	// --- switches: pair every vector routine with a sibling of the false side ----
	for _, fn := range funcs {
		for _, g := range guardCache[fn] {
			if !g.hasEdge {
				continue
			}
			res.Guards++
			// calls made on both sides (a common tail moved into the branches, a
			// shared helper) are not siblings
			var gen []*ssa.Function
			for _, c := range g.gen {
				shared := false
				for _, t := range g.tcalls {
					if t == c {
						shared = true
					}
				}
				if !shared {
					gen = append(gen, c)
				}
			}
			if len(gen) == 0 {
				// guard without sibling (package init builds the vector tables)
				continue
			}
			res.Switches++
			name := funcKey(fn)
			// A branch of the switch may have been extracted into a helper on one
			// side only: a routine without a sibling of its shape is replaced by
			// the routines it calls itself (vector side: its callees in V;
			// generic side: its module callees), at most twice.
			vec := append([]*ssa.Function{}, g.vec...)
			calleesOf := func(f *ssa.Function, vectorSide bool) []*ssa.Function {
				var out []*ssa.Function
				for _, b := range f.Blocks {
					for _, in := range b.Instrs {
						c := staticCallee(in)
						if c == nil || c == f || c.Parent() != nil || !load.IsModule(pkgOf(c)) {
							continue
						}
						if inV(c) == vectorSide {
							out = append(out, c)
						}
					}
				}
				return out
			}
			hasShape := func(f *ssa.Function, among []*ssa.Function) bool {
				for _, c := range among {
					if siblingShape(f, c) || siblingShape(c, f) {
						return true
					}
				}
				return false
			}
			for round := 0; round < 2; round++ {
				var nv, ng []*ssa.Function
				changed := false
				for _, v := range vec {
					if _, absorbed := why[v]; !hasShape(v, gen) && absorbed {
						if sub := calleesOf(v, true); len(sub) > 0 {
							nv = append(nv, sub...)
							changed = true
							continue
						}
					}
					nv = append(nv, v)
				}
				for _, c := range gen {
					if !hasShape(c, nv) && !isPublicAPI(c) && len(c.Blocks) > 0 {
						if sub := calleesOf(c, false); len(sub) > 0 && hasAnyShape(sub, nv) {
							ng = append(ng, sub...)
							changed = true
							continue
						}
					}
					ng = append(ng, c)
				}
				vec, gen = nv, ng
				if !changed {
					break
				}
			}
			used := make([]bool, len(gen))
			okAll := true
			var pairs []Pair
			for i, v := range vec {
				k := -1
				if len(gen) == len(vec) && siblingShape(v, gen[i]) {
					k = i
				} else {
					for j, c := range gen {
						if !used[j] && siblingShape(v, c) {
							k = j
							break
						}
					}
				}
				if k < 0 {
					ru.Failf(p.Pos(g.vecPos), name, "dispatch switch calls the vector-only routine %s on the true edge but no sibling of the same shape on the false edge (%d candidates); cannot pair them", funcKey(v), len(gen))
					okAll = false
					break
				}
				used[k] = true
				pairs = append(pairs, Pair{Dispatcher: name, Pos: p.Pos(g.vecPos), Vector: funcKey(v), Generic: funcKey(gen[k])})
			}
			if !okAll {
				continue
			}
			ru.OK("switch " + name)
			res.Pairs = append(res.Pairs, pairs...)
		}
	}
	sort.SliceStable(res.Pairs, func(i, j int) bool { return res.Pairs[i].Dispatcher < res.Pairs[j].Dispatcher })
	return res
}

// guard is one test of the dispatch flag.
type guard struct {
	fn      *ssa.Function
	blk     *ssa.BasicBlock
	t, f    *ssa.BasicBlock // flag-true / flag-false successor (nil when shared with other predecessors)
	vec     []*ssa.Function // members of V called in the flag-true region
	vecPos  token.Pos
	gen     []*ssa.Function // module functions called in the flag-false region
	tcalls  []*ssa.Function // module functions outside V called in the flag-true region
	hasEdge bool
}

// siblingShape reports whether g can be the generic sibling of the vector
// routine v: same arity, and every parameter / result has the identical type
// or both are (pointers to) named types of package curve (the two back ends
// use different point and table representations).
func siblingShape(v, g *ssa.Function) bool {
	sv, sg := v.Signature, g.Signature
	if (sv.Recv() == nil) != (sg.Recv() == nil) {
		return false
	}
	if sv.Recv() != nil && !shapeType(sv.Recv().Type(), sg.Recv().Type()) {
		return false
	}
	if sv.Params().Len() != sg.Params().Len() || sv.Results().Len() != sg.Results().Len() {
		return false
	}
	for i := 0; i < sv.Params().Len(); i++ {
		if !shapeType(sv.Params().At(i).Type(), sg.Params().At(i).Type()) {
			return false
		}
	}
	for i := 0; i < sv.Results().Len(); i++ {
		if !shapeType(sv.Results().At(i).Type(), sg.Results().At(i).Type()) {
			return false
		}
	}
	return true
}

func hasAnyShape(cands, among []*ssa.Function) bool {
	for _, c := range cands {
		for _, a := range among {
			if siblingShape(a, c) {
				return true
			}
		}
	}
	return false
}

func shapeType(a, b types.Type) bool {
	if types.Identical(a, b) {
		return true
	}
	_, pa := a.(*types.Pointer)
	_, pb := b.(*types.Pointer)
	if pa != pb {
		return false
	}
	if sa, ok := a.Underlying().(*types.Slice); ok {
		sb, ok := b.Underlying().(*types.Slice)
		return ok && shapeType(sa.Elem(), sb.Elem())
	}
	na, nb := namedOf(a), namedOf(b)
	return na != nil && nb != nil && na.Obj().Pkg() != nil && nb.Obj().Pkg() != nil &&
		load.Rel(na.Obj().Pkg()) == curveRel && load.Rel(nb.Obj().Pkg()) == curveRel
}

// isPublicAPI reports whether fn is an exported function or an exported
// method of an exported type.
func isPublicAPI(fn *ssa.Function) bool {
	o, ok := fn.Object().(*types.Func)
	if !ok || o == nil {
		return true // synthetic: never a candidate
	}
	if !o.Exported() {
		return false
	}
	if rn := recvNamed(o); rn != nil {
		return rn.Obj().Exported()
	}
	return true
}

func pkgOf(fn *ssa.Function) *types.Package {
	if fn == nil || fn.Pkg == nil {
		return nil
	}
	return fn.Pkg.Pkg
}

// isClosureOf reports whether f is an anonymous function nested in outer.
func isClosureOf(f, outer *ssa.Function) bool {
	for g := f.Parent(); g != nil; g = g.Parent() {
		if g == outer {
			return true
		}
	}
	return false
}

// allPathsCall reports whether every live path of fn from the entry to a
// return executes a call to a function satisfying member, and at least one
// such call exists.  The search is edge-sensitive in one respect: a branch on
// `phi ⋈ constant` is resolved when the phi's value on the incoming edge is a
// constant, so that the first test of a constant-bound loop (`for i := 0; i <
// 32; i++`) is known to enter the loop.
func allPathsCall(fn *ssa.Function, member func(*ssa.Function) bool) bool {
	hit := map[*ssa.BasicBlock]bool{}
	any := false
	live := load.LiveBlocks(fn)
	for b := range live {
		for _, in := range b.Instrs {
			if c := staticCallee(in); c != nil && c != fn && !isClosureOf(c, fn) && member(c) {
				hit[b] = true
				any = true
			}
		}
	}
	if !any {
		return false
	}
	type edge struct{ from, to *ssa.BasicBlock }
	seen := map[edge]bool{}
	var dfs func(from, b *ssa.BasicBlock) bool // true if a return is reachable without a hit
	dfs = func(from, b *ssa.BasicBlock) bool {
		if seen[edge{from, b}] || hit[b] {
			return false
		}
		seen[edge{from, b}] = true
		if len(b.Instrs) > 0 {
			if _, isRet := b.Instrs[len(b.Instrs)-1].(*ssa.Return); isRet {
				return true
			}
		}
		for _, s := range succsOnEdge(from, b) {
			if dfs(b, s) {
				return true
			}
		}
		return false
	}
	return !dfs(nil, fn.Blocks[0])
}

// succsOnEdge returns the successors of b that can be taken when b was
// entered from predecessor from (nil: function entry): constant pruning plus
// resolution of `phi ⋈ const` with the phi's constant value on that edge.
func succsOnEdge(from, b *ssa.BasicBlock) []*ssa.BasicBlock {
	succs := load.LiveSuccs(b)
	if len(succs) != 2 || from == nil || len(b.Instrs) == 0 {
		return succs
	}
	ifi, ok := b.Instrs[len(b.Instrs)-1].(*ssa.If)
	if !ok {
		return succs
	}
	bin, ok := ifi.Cond.(*ssa.BinOp)
	if !ok {
		return succs
	}
	pi := -1
	for i, p := range b.Preds {
		if p == from {
			pi = i
		}
	}
	if pi < 0 {
		return succs
	}
	val := func(v ssa.Value) (constant.Value, bool) {
		if phi, isPhi := v.(*ssa.Phi); isPhi && phi.Block() == b {
			v = phi.Edges[pi]
		}
		// look through integer conversions of constants
		if cv, isCv := v.(*ssa.Convert); isCv {
			v = cv.X
		}
		return load.FoldConst(v)
	}
	x, ok1 := val(bin.X)
	y, ok2 := val(bin.Y)
	if !ok1 || !ok2 || x.Kind() != constant.Int || y.Kind() != constant.Int {
		return succs
	}
	switch bin.Op {
	case token.LSS, token.LEQ, token.GTR, token.GEQ, token.EQL, token.NEQ:
		if constant.Compare(x, bin.Op, y) {
			return b.Succs[:1]
		}
		return b.Succs[1:2]
	}
	return succs
}
