package esib

import (
	"go/constant"
	"go/token"
	"go/types"
	"sort"

	"golang.org/x/tools/go/ssa"

	"voicheck/load"
	"voicheck/report"
)

// Pair is one (vector, generic) sibling pair discovered at a dispatch guard.
type Pair struct {
	Dispatcher string `json:"dispatcher"` // function holding the guard
	Pos        string `json:"pos"`
	Vector     string `json:"vector"`  // funcKey of the member of the vector-only set
	Generic    string `json:"generic"` // funcKey of the sibling called on the false edge
}

// DispatchResult is what CheckDispatch found in one configuration.
type DispatchResult struct {
	Config     string   `json:"config"`
	Stubs      []string `json:"stubs"`       // panicking stubs of the generic configuration (seed names)
	BuildOnly  []string `json:"build_only"`  // functions of package curve that exist only in this (vector) build
	VectorOnly []string `json:"vector_only"` // the closed vector-only set V
	Guards     int      `json:"guards"`      // guard tests whose true region calls into V
	Switches   int      `json:"switches"`    // guards that also have a generic sibling (dispatch switches)
	Edges      int      `json:"edges"`       // call edges from outside V into V
	Pairs      []Pair   `json:"pairs"`       // one per (switch, callee position)
}

// DistinctPairs returns the distinct (vector, generic) pairs, sorted.
func (d *DispatchResult) DistinctPairs() []Pair {
	seen := map[string]bool{}
	var out []Pair
	for _, p := range d.Pairs {
		k := p.Vector + "|" + p.Generic
		if !seen[k] {
			seen[k] = true
			out = append(out, p)
		}
	}
	sort.Slice(out, func(i, j int) bool { return out[i].Vector < out[j].Vector })
	return out
}

// isStub reports whether every live path of fn ends in panic(<load of the
// package-level error errG>) and nothing else happens: the shape of the
// vector-only stubs of the generic configurations.
func isStub(fn *ssa.Function, errG *ssa.Global) bool {
	if len(fn.Blocks) == 0 {
		return false
	}
	live := load.LiveBlocks(fn)
	sawPanic := false
	for _, b := range fn.Blocks {
		if !live[b] {
			continue
		}
		for _, in := range b.Instrs {
			switch in := in.(type) {
			case *ssa.Panic:
				v := in.X
				for {
					switch w := v.(type) {
					case *ssa.MakeInterface:
						v = w.X
						continue
					case *ssa.ChangeInterface:
						v = w.X
						continue
					}
					break
				}
				u, ok := v.(*ssa.UnOp)
				if !ok || u.Op != token.MUL || u.X != ssa.Value(errG) {
					return false
				}
				sawPanic = true
			case *ssa.Return, ssa.CallInstruction, *ssa.Store:
				return false
			}
		}
	}
	return sawPanic
}

// flagTest normalises an If condition to a test of the dispatch flag.  It
// returns the index of the successor taken when the flag is TRUE.  On amd64
// the flag is a package-level variable (the condition is a load of it, maybe
// compared with a bool constant or negated).  In the generic configurations
// the flag is the constant false: go/ssa leaves `false == true` (switch form)
// and `if false` (if form) unfolded, the named constant is no longer visible,
// and the flag-true successor is the one constant pruning removes — in these
// configurations the rule is "calls into V occur only in pruned code".
func flagTest(cond ssa.Value, flagG *ssa.Global) (trueSucc int, ok bool) {
	if flagG == nil {
		c, isC := load.FoldConst(cond)
		if !isC || c.Kind() != constant.Bool {
			return 0, false
		}
		if constant.BoolVal(c) {
			return 1, true // condition is constantly true: the dead side is the false successor
		}
		return 0, true
	}
	pol := true // condition true <=> flag == pol
	for {
		switch c := cond.(type) {
		case *ssa.UnOp:
			if c.Op == token.NOT {
				pol = !pol
				cond = c.X
				continue
			}
			if c.Op == token.MUL && c.X == ssa.Value(flagG) {
				if pol {
					return 0, true
				}
				return 1, true
			}
			return 0, false
		case *ssa.BinOp:
			if c.Op != token.EQL && c.Op != token.NEQ {
				return 0, false
			}
			x, y := c.X, c.Y
			if _, isC := x.(*ssa.Const); isC {
				x, y = y, x
			}
			k, isC := y.(*ssa.Const)
			if !isC || k.Value == nil || k.Value.Kind() != constant.Bool {
				return 0, false
			}
			if constant.BoolVal(k.Value) != (c.Op == token.EQL) {
				pol = !pol
			}
			cond = x
			continue
		}
		return 0, false
	}
}

// CheckDispatch decides the dispatch rule of DESIGN E-SIB in configuration p.
// generic is a program of a generic configuration (it supplies the names of
// the panicking stubs); it may be p itself.
//
// Rule instances: one per seed resolved, one per call edge from outside the
// vector-only set V into V (must be dominated by the flag-true edge of a test
// of supportsVectorizedEdwards), one per function value of a member of V
// taken outside V (forbidden), one per dispatch switch (pairing well formed).
func CheckDispatch(run *report.Run, p *load.Program, generic *load.Program, ruleID string) *DispatchResult {
	ru := run.Rule(ruleID, "every call edge into the vector-only set is dominated by the true edge of supportsVectorizedEdwards; each switch pairs a vector routine with a generic sibling", 0)
	res := &DispatchResult{Config: p.Cfg.ID}
	if generic == nil {
		generic = p
	}
	// --- seeds: the stubs of the generic configuration ----------------------
	gpk := generic.SSAPkg(curveRel)
	ppk := p.SSAPkg(curveRel)
	if gpk == nil || ppk == nil {
		run.Fatal("E-SIB dispatch: package %s not loaded with SSA", curveRel)
		return res
	}
	errG, _ := gpk.Members[stubErrName].(*ssa.Global)
	if errG == nil {
		run.Fatal("E-SIB dispatch: anchor %s.%s not found in configuration %s (expected a generic configuration)", curveRel, stubErrName, generic.Cfg.ID)
		return res
	}
	genericFuncs := map[string]bool{}
	for _, fn := range generic.ModuleFuncs() {
		if fn.Pkg != gpk {
			continue
		}
		k := funcKey(fn)
		genericFuncs[k] = true
		if fn.Parent() == nil && isStub(fn, errG) {
			res.Stubs = append(res.Stubs, k)
		}
	}
	sort.Strings(res.Stubs)
	if len(res.Stubs) == 0 {
		run.Fatal("E-SIB dispatch: no panic(%s) stub found in configuration %s", stubErrName, generic.Cfg.ID)
		return res
	}
	byKey := map[string]*ssa.Function{}
	funcs := p.ModuleFuncs()
	for _, fn := range funcs {
		byKey[funcKey(fn)] = fn
	}
	V := map[*ssa.Function]bool{}
	for _, k := range res.Stubs {
		fn := byKey[k]
		if fn == nil {
			ru.Failf("-", k, "vector-only stub of configuration %s has no counterpart of the same name in configuration %s", generic.Cfg.ID, p.Cfg.ID)
			continue
		}
		ru.OK("seed " + k)
		V[fn] = true
	}
	// functions of package curve that exist only in this build (the AVX2
	// assembly and its Go wrappers): vector-only by construction.
	if p != generic {
		for _, fn := range funcs {
			if fn.Pkg != ppk || fn.Parent() != nil || fn.Synthetic != "" {
				continue
			}
			if k := funcKey(fn); !genericFuncs[k] {
				res.BuildOnly = append(res.BuildOnly, k)
				V[fn] = true
			}
		}
		sort.Strings(res.BuildOnly)
	}
	// --- the dispatch flag -----------------------------------------------------
	var flagG *ssa.Global
	switch m := ppk.Members[flagName].(type) {
	case *ssa.Global:
		flagG = m
	case *ssa.NamedConst:
		if m.Value == nil || m.Value.Value == nil || m.Value.Value.Kind() != constant.Bool || constant.BoolVal(m.Value.Value) {
			ru.Failf(p.Pos(m.Pos()), flagName, "the dispatch flag is a constant other than false in configuration %s", p.Cfg.ID)
		}
	default:
		run.Fatal("E-SIB dispatch: anchor %s.%s not found in configuration %s", curveRel, flagName, p.Cfg.ID)
		return res
	}
	// --- closure ----------------------------------------------------------------
	// A function joins V when every live returning path calls a member of V,
	// unless it belongs to the public API or is an initialiser (those must
	// work in every configuration, so an unguarded call of vector code in them
	// — or in a helper they call unguarded — is reported, not absorbed).
	// why[f] remembers the call that made f vector-only, for the diagnosis.
	type reason struct {
		callee *ssa.Function
		pos    token.Pos
	}
	why := map[*ssa.Function]reason{}
	inV := func(fn *ssa.Function) bool { return fn != nil && V[topLevel(fn)] }
	for changed := true; changed; {
		changed = false
		for _, fn := range funcs {
			if fn.Parent() != nil || V[fn] || len(fn.Blocks) == 0 || fn.Synthetic != "" || isPublicAPI(fn) || fn.Name() == "init" {
				continue
			}
			if allPathsCall(fn, inV) {
				V[fn] = true
				changed = true
				for _, b := range fn.Blocks {
					for _, in := range b.Instrs {
						if c := staticCallee(in); c != nil && inV(c) && c != fn {
							if _, have := why[fn]; !have {
								why[fn] = reason{c, in.Pos()}
							}
						}
					}
				}
			}
		}
	}
	for fn := range V {
		res.VectorOnly = append(res.VectorOnly, funcKey(fn))
	}
	sort.Strings(res.VectorOnly)

	// --- edges and guards ----------------------------------------------------
	for _, fn := range funcs {
		if inV(fn) || len(fn.Blocks) == 0 {
			continue
		}
		live := load.LiveBlocks(fn)
		// guards of this function
		type guard struct {
			blk     *ssa.BasicBlock
			t, f    *ssa.BasicBlock // flag-true / flag-false successor (nil when shared with other predecessors)
			vec     []*ssa.Function
			vecPos  token.Pos
			gen     []*ssa.Function
			hasEdge bool
		}
		var guards []*guard
		for _, b := range fn.Blocks {
			if len(b.Instrs) == 0 {
				continue
			}
			ifi, ok := b.Instrs[len(b.Instrs)-1].(*ssa.If)
			if !ok {
				continue
			}
			ts, ok := flagTest(ifi.Cond, flagG)
			if !ok {
				continue
			}
			g := &guard{blk: b}
			if s := b.Succs[ts]; len(s.Preds) == 1 && s != b.Succs[1-ts] {
				g.t = s
			}
			if s := b.Succs[1-ts]; len(s.Preds) == 1 && s != b.Succs[ts] {
				g.f = s
			}
			guards = append(guards, g)
		}
		for _, b := range fn.Blocks {
			for _, in := range b.Instrs {
				// function values of V members must not leak out of V
				if _, isCall := in.(ssa.CallInstruction); !isCall {
					for _, op := range in.Operands(nil) {
						if op == nil || *op == nil {
							continue
						}
						if f, isF := (*op).(*ssa.Function); isF && inV(f) && !isClosureOf(f, fn) {
							ru.Failf(p.Pos(in.Pos()), funcKey(fn), "function value of vector-only %s is taken outside the vector-only set", funcKey(f))
						}
					}
				}
				callee := staticCallee(in)
				if callee == nil {
					continue
				}
				var g *guard
				for _, c := range guards {
					if c.t != nil && c.t.Dominates(b) {
						g = c
					}
				}
				if !inV(callee) {
					// a sibling candidate on the flag-false side
					if load.IsModule(pkgOf(callee)) && callee.Parent() == nil {
						for _, c := range guards {
							if c.f != nil && c.f.Dominates(b) {
								c.gen = append(c.gen, callee)
							}
						}
					}
					continue
				}
				res.Edges++
				construct := funcKey(fn) + " -> " + funcKey(callee)
				switch {
				case g == nil:
					msg := sprintf("call into the vector-only set is not dominated by the true edge of a test of %s", flagName)
					if r, ok := why[topLevel(callee)]; ok {
						msg += sprintf("; %s counts as vector-only because every path through it calls %s (%s)", funcKey(callee), funcKey(r.callee), p.Pos(r.pos))
					}
					ru.Failf(p.Pos(in.Pos()), construct, "%s", msg)
				case flagG == nil && live[b]:
					ru.Failf(p.Pos(in.Pos()), construct, "call into the vector-only set is live in configuration %s although %s is the constant false", p.Cfg.ID, flagName)
				default:
					ru.OK(construct)
					g.hasEdge = true
					g.vec = append(g.vec, callee)
					if !g.vecPos.IsValid() {
						g.vecPos = in.Pos()
					}
				}
			}
		}
		for _, g := range guards {
			if !g.hasEdge {
				continue
			}
			res.Guards++
			if len(g.gen) == 0 {
				// guard without sibling (package init builds the vector tables)
				continue
			}
			res.Switches++
			name := funcKey(fn)
			if len(g.gen) != len(g.vec) {
				ru.Failf(p.Pos(g.vecPos), name, "dispatch switch calls %d vector-only routines on the true edge but %d siblings on the false edge; cannot pair them", len(g.vec), len(g.gen))
				continue
			}
			ru.OK("switch " + name)
			for i := range g.vec {
				res.Pairs = append(res.Pairs, Pair{Dispatcher: name, Pos: p.Pos(g.vecPos), Vector: funcKey(g.vec[i]), Generic: funcKey(g.gen[i])})
			}
		}
	}
	sort.SliceStable(res.Pairs, func(i, j int) bool { return res.Pairs[i].Dispatcher < res.Pairs[j].Dispatcher })
	return res
}

// isPublicAPI reports whether fn is an exported function or an exported
// method of an exported type.
func isPublicAPI(fn *ssa.Function) bool {
	o, ok := fn.Object().(*types.Func)
	if !ok || o == nil {
		return true // synthetic: never a candidate
	}
	if !o.Exported() {
		return false
	}
	if rn := recvNamed(o); rn != nil {
		return rn.Obj().Exported()
	}
	return true
}

func pkgOf(fn *ssa.Function) *types.Package {
	if fn == nil || fn.Pkg == nil {
		return nil
	}
	return fn.Pkg.Pkg
}

// isClosureOf reports whether f is an anonymous function nested in outer.
func isClosureOf(f, outer *ssa.Function) bool {
	for g := f.Parent(); g != nil; g = g.Parent() {
		if g == outer {
			return true
		}
	}
	return false
}

// allPathsCall reports whether every live path of fn from the entry to a
// return executes a call to a function satisfying member, and at least one
// such call exists.  The search is edge-sensitive in one respect: a branch on
// `phi ⋈ constant` is resolved when the phi's value on the incoming edge is a
// constant, so that the first test of a constant-bound loop (`for i := 0; i <
// 32; i++`) is known to enter the loop.
func allPathsCall(fn *ssa.Function, member func(*ssa.Function) bool) bool {
	hit := map[*ssa.BasicBlock]bool{}
	any := false
	live := load.LiveBlocks(fn)
	for b := range live {
		for _, in := range b.Instrs {
			if c := staticCallee(in); c != nil && c != fn && !isClosureOf(c, fn) && member(c) {
				hit[b] = true
				any = true
			}
		}
	}
	if !any {
		return false
	}
	type edge struct{ from, to *ssa.BasicBlock }
	seen := map[edge]bool{}
	var dfs func(from, b *ssa.BasicBlock) bool // true if a return is reachable without a hit
	dfs = func(from, b *ssa.BasicBlock) bool {
		if seen[edge{from, b}] || hit[b] {
			return false
		}
		seen[edge{from, b}] = true
		if len(b.Instrs) > 0 {
			if _, isRet := b.Instrs[len(b.Instrs)-1].(*ssa.Return); isRet {
				return true
			}
		}
		for _, s := range succsOnEdge(from, b) {
			if dfs(b, s) {
				return true
			}
		}
		return false
	}
	return !dfs(nil, fn.Blocks[0])
}

// succsOnEdge returns the successors of b that can be taken when b was
// entered from predecessor from (nil: function entry): constant pruning plus
// resolution of `phi ⋈ const` with the phi's constant value on that edge.
func succsOnEdge(from, b *ssa.BasicBlock) []*ssa.BasicBlock {
	succs := load.LiveSuccs(b)
	if len(succs) != 2 || from == nil || len(b.Instrs) == 0 {
		return succs
	}
	ifi, ok := b.Instrs[len(b.Instrs)-1].(*ssa.If)
	if !ok {
		return succs
	}
	bin, ok := ifi.Cond.(*ssa.BinOp)
	if !ok {
		return succs
	}
	pi := -1
	for i, p := range b.Preds {
		if p == from {
			pi = i
		}
	}
	if pi < 0 {
		return succs
	}
	val := func(v ssa.Value) (constant.Value, bool) {
		if phi, isPhi := v.(*ssa.Phi); isPhi && phi.Block() == b {
			v = phi.Edges[pi]
		}
		// look through integer conversions of constants
		if cv, isCv := v.(*ssa.Convert); isCv {
			v = cv.X
		}
		return load.FoldConst(v)
	}
	x, ok1 := val(bin.X)
	y, ok2 := val(bin.Y)
	if !ok1 || !ok2 || x.Kind() != constant.Int || y.Kind() != constant.Int {
		return succs
	}
	switch bin.Op {
	case token.LSS, token.LEQ, token.GTR, token.GEQ, token.EQL, token.NEQ:
		if constant.Compare(x, bin.Op, y) {
			return b.Succs[:1]
		}
		return b.Succs[1:2]
	}
	return succs
}
