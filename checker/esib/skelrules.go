package esib

import (
	"go/ast"
	"go/token"
	"go/types"
	"sort"
	"strings"

	"voicheck/load"
	"voicheck/report"
)

// Rule-id suffixes of CheckSkeletons (the glue declares expected_min for each).
const (
	SufPair     = "-pair"     // (vector, generic) twins have equal skeleton normal forms
	SufHorner   = "-horner"   // Horner shape per algorithm: doublings per position, every position down to 0
	SufPolarity = "-polarity" // d>0 -> add(lookup(d)), d<0 -> sub(lookup(-d)), mirrored under the negation flag
	SufWidth    = "-width"    // recoding width <-> table size / bucket count
	SufCtor     = "-ctor"     // lookup-table constructors: first entry P, entry j = entry j-1 + P (2P), right count
	SufEntry    = "-entry"    // entry-point facts
)

// RoutineNF is the printed skeleton of one routine.
type RoutineNF struct {
	Func string `json:"func"`
	Kind string `json:"kind"`
	NF   string `json:"normal_form"`
}

// SkeletonResult is what CheckSkeletons found in one configuration.
type SkeletonResult struct {
	Config       string      `json:"config"`
	Routines     []RoutineNF `json:"routines"`
	Pairs        []Pair      `json:"pairs"` // dispatch pairs plus pairs derived from matching delegations
	Constructors []string    `json:"constructors"`
	DigitUses    int         `json:"digit_uses"`
}

type skelChecker struct {
	run   *report.Run
	p     *load.Program
	kn    *knowledge
	id    string
	cache map[*types.Func]*Skeleton
	canon map[string]string // vector funcKey -> generic funcKey
	res   *SkeletonResult
}

func (c *skelChecker) skel(fn *types.Func) *Skeleton {
	if sk, ok := c.cache[fn]; ok {
		return sk
	}
	sk := c.kn.extract(fn)
	sk.normalize()
	c.cache[fn] = sk
	return sk
}

func (c *skelChecker) canonFn(k string) string {
	if g, ok := c.canon[k]; ok {
		return g
	}
	return k
}

func (c *skelChecker) nf(sk *Skeleton) string { return sk.print(c.canonFn) }

// funcByKey resolves a funcKey of package curve back to its object.
func (c *skelChecker) funcByKey(key string) *types.Func {
	name := strings.TrimPrefix(key, curveRel+".")
	f, _ := c.p.Obj(curveRel, name).(*types.Func)
	return f
}

// routines lists the scalar-multiplication routines of package curve: the
// functions that perform group additions / doublings themselves and recode a
// scalar, directly or through an unexported helper (at most two levels deep;
// such a helper — one that only prepares digits or tables — is inlined into the
// routine's skeleton, the routine itself stays a delegation target).
func (c *skelChecker) routines() []*types.Func {
	info := c.kn.pk.TypesInfo
	decls := map[*types.Func]*ast.FuncDecl{}
	for _, f := range c.kn.pk.Syntax {
		for _, d := range f.Decls {
			if fd, ok := d.(*ast.FuncDecl); ok && fd.Body != nil {
				if fn, ok := info.Defs[fd.Name].(*types.Func); ok {
					decls[fn] = fd
				}
			}
		}
	}
	calleesOf := func(fd *ast.FuncDecl) []*types.Func {
		var out []*types.Func
		ast.Inspect(fd.Body, func(n ast.Node) bool {
			if call, ok := n.(*ast.CallExpr); ok {
				var id *ast.Ident
				switch f := unparen(call.Fun).(type) {
				case *ast.Ident:
					id = f
				case *ast.SelectorExpr:
					id = f.Sel
				}
				if id != nil {
					if fn, ok := info.Uses[id].(*types.Func); ok {
						out = append(out, fn)
					}
				}
			}
			return true
		})
		return out
	}
	hasClass := func(fd *ast.FuncDecl, classes ...string) bool {
		for _, fn := range calleesOf(fd) {
			cl := c.kn.opClass(fn)
			for _, want := range classes {
				if cl == want {
					return true
				}
			}
		}
		return false
	}
	var recodes func(fd *ast.FuncDecl, depth int) bool
	recodes = func(fd *ast.FuncDecl, depth int) bool {
		if hasClass(fd, "recode") {
			return true
		}
		if depth >= 2 {
			return false
		}
		for _, fn := range calleesOf(fd) {
			if hd := decls[fn]; hd != nil && hd != fd && !fn.Exported() && !hasClass(hd, "add", "sub", "D1", "Dk") && recodes(hd, depth+1) {
				return true
			}
		}
		return false
	}
	var out []*types.Func
	for fn, fd := range decls {
		direct := hasClass(fd, "recode")
		ops := hasClass(fd, "add", "sub", "D1", "Dk")
		// a function that recodes directly is a routine as before (also the
		// degenerate ones without group operations of their own)
		if (direct && (ops || fn.Exported())) || (ops && recodes(fd, 0)) {
			out = append(out, fn)
			continue
		}
		if direct && !ops {
			// recodes but performs no group operation itself: a digit-preparing
			// helper, unless nobody inlines it (then it keeps its own skeleton)
			called := false
			for _, other := range decls {
				if other == fd {
					continue
				}
				for _, g := range calleesOf(other) {
					if g == fn {
						called = true
					}
				}
			}
			if !called {
				out = append(out, fn)
			}
		}
	}
	sort.Slice(out, func(i, j int) bool { return objKey(out[i]) < objKey(out[j]) })
	return out
}

func collectCalls(list []*node, out *[]*node) {
	for _, n := range list {
		if n.kind == "call" {
			*out = append(*out, n)
		}
		collectCalls(n.body, out)
		collectCalls(n.els, out)
	}
}

// CheckSkeletons decides the skeleton rules of DESIGN E-SIB in configuration
// p.  pairs are the (vector, generic) pairs discovered by CheckDispatch (in
// the generic configurations the bodies of the *Vector routines still exist —
// they call the panicking stubs — so twins are compared in every
// configuration).
func CheckSkeletons(run *report.Run, p *load.Program, pairs []Pair, ruleID string) *SkeletonResult {
	c := &skelChecker{run: run, p: p, kn: newKnowledge(p), id: ruleID, cache: map[*types.Func]*Skeleton{}, canon: map[string]string{},
		res: &SkeletonResult{Config: p.Cfg.ID}}
	if len(c.kn.missing) > 0 {
		run.Fatal("E-SIB skeleton: anchors not found in configuration %s: %v", p.Cfg.ID, c.kn.missing)
		return c.res
	}
	rPair := run.Rule(ruleID+SufPair, "the two members of every (vector, generic) pair have equal skeleton normal forms", 0)
	rHorner := run.Rule(ruleID+SufHorner, "Horner shape: radix-16 loops double 4x over digits 63..0, NAF loops 1x over 255(top)..0, Pippenger w x per column down to 0, fixed-base comb odd/4x/even", 0)
	rPol := run.Rule(ruleID+SufPolarity, "d>0 adds lookup(d), d<0 subtracts lookup(-d); mirrored exactly under the negation flag; signed constant-time lookups are added unguarded", 0)
	rWidth := run.Rule(ruleID+SufWidth, "a NAF of width w only indexes tables with >= 2^(w-2) entries, radix-16 digits only 8-entry constant-time tables, Pippenger buckets = 2^(w-1) for the recoding's w", 0)
	rCtor := run.Rule(ruleID+SufCtor, "lookup-table constructors: first entry P, entry j = entry j-1 + P (2P for odd multiples), len-1 iterations; fixed-base tables: 32 sub-tables 2^8 apart", 0)
	rEntry := run.Rule(ruleID+SufEntry, "entry-point facts: MulByCofactor = 2^3, IsSmallOrder, Sum from Identity, length panics precede work, Straus/Pippenger by length only, Ristretto wrappers delegate role for role", 0)

	// ---- delegation targets: never inlined into their callers ------------------
	c.kn.keep = map[*types.Func]bool{}
	for _, q := range pairs {
		for _, k := range []string{q.Vector, q.Generic, q.Dispatcher} {
			if f := c.funcByKey(k); f != nil {
				c.kn.keep[f] = true
			}
		}
	}
	for _, f := range c.routines() {
		c.kn.keep[f] = true
	}
	flagObj := c.kn.pk.Types.Scope().Lookup(flagName)
	for _, file := range c.kn.pk.Syntax {
		for _, d := range file.Decls {
			fd, ok := d.(*ast.FuncDecl)
			if !ok || fd.Body == nil || flagObj == nil {
				continue
			}
			uses := false
			ast.Inspect(fd.Body, func(n ast.Node) bool {
				if id, ok := n.(*ast.Ident); ok && c.kn.pk.TypesInfo.Uses[id] == flagObj {
					uses = true
				}
				return !uses
			})
			if uses {
				if fn, ok := c.kn.pk.TypesInfo.Defs[fd.Name].(*types.Func); ok {
					c.kn.keep[fn] = true
				}
			}
		}
	}

	// ---- pairs (with derivation through matching delegations) ---------------
	type pr struct{ v, g string }
	var queue []pr
	seen := map[pr]bool{}
	for _, q := range pairs {
		k := pr{q.Vector, q.Generic}
		if !seen[k] {
			seen[k] = true
			queue = append(queue, k)
			c.canon[q.Vector] = q.Generic
			c.res.Pairs = append(c.res.Pairs, q)
		}
	}
	compared := map[*types.Func]bool{}
	for i := 0; i < len(queue); i++ {
		q := queue[i]
		fv, fg := c.funcByKey(q.v), c.funcByKey(q.g)
		construct := shortKey(q.g) + " ~ " + shortKey(q.v)
		if fv == nil || fg == nil {
			rPair.Failf("-", construct, "a member of the pair cannot be resolved in configuration %s", p.Cfg.ID)
			continue
		}
		sv, sg := c.skel(fv), c.skel(fg)
		compared[fv], compared[fg] = true, true
		// derive pairs from delegations at corresponding positions
		var cv, cg []*node
		collectCalls(sv.norm, &cv)
		collectCalls(sg.norm, &cg)
		if len(cv) == len(cg) {
			for j := range cv {
				if cv[j].callee != cg[j].callee && strings.Join(cv[j].args, ",") == strings.Join(cg[j].args, ",") && c.canonFn(cv[j].callee) != cg[j].callee {
					k := pr{cv[j].callee, cg[j].callee}
					if !seen[k] && c.funcByKey(k.v) != nil && c.funcByKey(k.g) != nil {
						seen[k] = true
						queue = append(queue, k)
						c.canon[k.v] = k.g
						c.res.Pairs = append(c.res.Pairs, Pair{Dispatcher: "derived from " + shortKey(q.g), Pos: p.Pos(cg[j].pos), Vector: k.v, Generic: k.g})
					}
				}
			}
		}
		if len(sv.Problems)+len(sg.Problems) > 0 {
			// reported once per function below
			rPair.Failf(p.Pos(fg.Pos()), construct, "the pair cannot be compared: a member could not be normalised (%s)", strings.Join(append(sv.Problems, sg.Problems...), "; "))
			continue
		}
		nv, ng := c.nf(sv), c.nf(sg)
		if nv == ng {
			rPair.OK(construct)
			continue
		}
		rPair.Fail(p.Pos(diffPos(sv, sg, fg)), construct, "skeletons of the twins differ: generic "+firstDiff(ng, nv), map[string]string{"generic": ng, "vector": nv})
	}

	// ---- per-routine rules --------------------------------------------------
	routines := c.routines()
	for _, fn := range routines {
		sk := c.skel(fn)
		name := objKey(fn)
		if len(sk.Problems) > 0 {
			rHorner.Failf(p.Pos(fn.Pos()), name, "unrecognised loop shape in %s: %s", shortKey(name), strings.Join(sk.Problems, "; "))
			continue
		}
		kind := routineKind(sk)
		c.res.Routines = append(c.res.Routines, RoutineNF{Func: name, Kind: kind, NF: c.nf(sk)})
		if diag, pos := c.horner(sk, kind); diag != "" {
			if !pos.IsValid() {
				pos = fn.Pos()
			}
			rHorner.Failf(p.Pos(pos), name, "%s skeleton of %s: %s", kind, shortKey(name), diag)
		} else {
			rHorner.OK(name)
		}
		c.polarityAndWidth(sk, rPol, rWidth)
	}
	// members of pairs that are not recoding routines must still normalise
	for fn := range compared {
		if sk := c.skel(fn); len(sk.Problems) > 0 && !containsFunc(routines, fn) {
			rHorner.Failf(p.Pos(fn.Pos()), objKey(fn), "unrecognised shape in %s: %s", shortKey(objKey(fn)), strings.Join(sk.Problems, "; "))
		}
	}
	c.constructors(rCtor)
	c.entryPoints(rEntry)
	sort.Slice(c.res.Routines, func(i, j int) bool { return c.res.Routines[i].Func < c.res.Routines[j].Func })
	return c.res
}

func containsFunc(list []*types.Func, f *types.Func) bool {
	for _, x := range list {
		if x == f {
			return true
		}
	}
	return false
}

// firstDiff shows where two normal forms diverge.
func firstDiff(a, b string) string {
	i := 0
	for i < len(a) && i < len(b) && a[i] == b[i] {
		i++
	}
	start := i - 30
	if start < 0 {
		start = 0
	}
	cut := func(s string) string {
		end := i + 50
		if end > len(s) {
			end = len(s)
		}
		if start > len(s) {
			return ""
		}
		return s[start:end]
	}
	return sprintf("has «…%s…» where vector has «…%s…»", cut(a), cut(b))
}

// diffPos returns a position for a pair mismatch: the first event of the
// generic twin whose printed form does not occur at the same index in the
// vector twin.
func diffPos(sv, sg *Skeleton, fg *types.Func) token.Pos {
	var lv, lg []*node
	flatten(sv.norm, &lv)
	flatten(sg.norm, &lg)
	pv, pg := sv.newPrinter(nil), sg.newPrinter(nil)
	for i := range lg {
		if i >= len(lv) {
			return lg[i].pos
		}
		a, b := *lg[i], *lv[i]
		a.body, a.els, b.body, b.els = nil, nil, nil, nil
		if pg.node(&a) != pv.node(&b) {
			return lg[i].pos
		}
	}
	return fg.Pos()
}

func flatten(list []*node, out *[]*node) {
	for _, n := range list {
		*out = append(*out, n)
		flatten(n.body, out)
		flatten(n.els, out)
	}
}

// routineKind classifies a routine by the recodings it uses.
func routineKind(sk *Skeleton) string {
	kinds := map[string]bool{}
	for _, r := range sk.x.recs {
		kinds[r.kind] = true
	}
	comb := false
	var uses []*node
	digitUses(sk.norm, &uses)
	for _, u := range uses {
		if u.entry != nil && strings.HasSuffix(u.entry.tbl.src, "[]") {
			comb = true
		}
	}
	switch {
	case len(kinds) != 1:
		return "mixed"
	case kinds["R16"] && comb:
		return "comb16"
	case kinds["R16"]:
		return "radix16"
	case kinds["NAF"]:
		return "naf"
	case kinds["R2W"]:
		return "pippenger"
	}
	return "mixed"
}

// digitUses collects add/sub events whose addend is a looked-up entry or
// whose destination is indexed by a digit (Pippenger buckets).
func digitUses(list []*node, out *[]*node) {
	for _, n := range list {
		if n.kind == "add" || n.kind == "sub" {
			if (n.entry != nil && n.entry.arg != nil && n.entry.arg.k == svDigit) || (n.result() != nil && n.result().didx != nil) {
				*out = append(*out, n)
			}
		}
		digitUses(n.body, out)
		digitUses(n.els, out)
	}
}

func usedDigit(n *node) *sval {
	if n.entry != nil && n.entry.arg != nil && n.entry.arg.k == svDigit {
		return n.entry.arg
	}
	if r := n.result(); r != nil && r.didx != nil {
		return r.didx
	}
	return nil
}

// ---- Horner ---------------------------------------------------------------------

func groupOpsIn(list []*node) bool { return hasGroupOps(list) }

func (c *skelChecker) horner(sk *Skeleton, kind string) (string, token.Pos) {
	x := sk.x
	top := sk.norm
	switch kind {
	case "mixed":
		return "the routine mixes recodings of different kinds; no Horner rule applies", token.NoPos
	case "comb16":
		return c.hornerComb(sk)
	case "pippenger":
		return c.hornerPippenger(sk)
	}
	// --- single-accumulator Horner loop -------------------------------------
	li := -1
	for i, n := range top {
		if n.kind == "loop" {
			if f := firstGroupOp(n.body); f != nil && f.kind == "D" {
				li = i
			}
		}
	}
	if li < 0 {
		return "no main loop that starts with a doubling of the accumulator", token.NoPos
	}
	L := top[li]
	d := firstGroupOp(L.body)
	acc := d.aAcc
	wantK := int64(4)
	wantTop := int64(63)
	if kind == "naf" {
		wantK, wantTop = 1, 255
	}
	if k, ok := d.k.isConst(); !ok || k != wantK {
		return sprintf("the main loop doubles the accumulator 2^%s per digit position, expected %d doublings", newNamer(x.sym).lin(d.k), wantK), d.pos
	}
	if L.step != -1 || L.excl {
		return "the main loop does not step down by one position", L.pos
	}
	if z, ok := L.to.isConst(); !ok || z != 0 {
		return sprintf("the main loop ends at position %s, not at position 0", newNamer(x.sym).lin(L.to)), L.pos
	}
	if groupOpsIn(top[li+1:]) {
		return "group operations after the main loop", top[li+1].pos
	}
	// the identity and the prefix (first iteration without its doubling)
	ii := -1
	for i := 0; i < li; i++ {
		if top[i].kind == "I" && top[i].dstAcc == acc {
			ii = i
		}
	}
	if ii < 0 {
		return "the accumulator is not initialised with the identity before the first digit use", L.pos
	}
	for i := 0; i < ii; i++ {
		if isGroupOp(top[i].kind) && top[i].dstAcc == acc {
			return "the accumulator is modified before it is set to the identity", top[i].pos
		}
	}
	prefix := top[ii+1 : li]
	first := L.from.addConst(1)
	bodyRest := dropFirstD(L.body)
	want := x.substNodes(bodyRest, L.v, first)
	if a, b := sk.newPrinter(c.canonFn).nodes(prefix), sk.newPrinter(c.canonFn).nodes(want); a != b {
		pos := L.pos
		if len(prefix) > 0 {
			pos = prefix[0].pos
		}
		return sprintf("the steps before the main loop «%s» are not the loop body at position %s «%s»", a, newNamer(x.sym).lin(first), b), pos
	}
	// the first position is the top digit
	if v, ok := first.isConst(); ok {
		if v != wantTop {
			return sprintf("the highest digit position visited is %d, expected %d", v, wantTop), L.pos
		}
	} else {
		id, off, single := first.single()
		at := x.sym.atoms[id]
		if !single || off != 0 || at == nil || at.kind != "top" || kind != "naf" {
			return sprintf("the highest digit position visited is %s, expected %d or the scanned top index", newNamer(x.sym).lin(first), wantTop), L.pos
		}
		// the scan must cover 255..0 and test every recoding used in the loop
		var scan *node
		for _, n := range top {
			if n.kind == "scan" && n.v == id {
				scan = n
			}
		}
		if scan == nil {
			return "the start index does not come from a recognised start-index scan", L.pos
		}
		f, ok1 := scan.from.isConst()
		t, ok2 := scan.to.isConst()
		if !ok1 || !ok2 || f != wantTop || t != 0 {
			return sprintf("the start-index scan covers %s..%s, expected %d..0", newNamer(x.sym).lin(scan.from), newNamer(x.sym).lin(scan.to), wantTop), scan.pos
		}
		var uses []*node
		digitUses(L.body, &uses)
		tested := map[string]bool{}
		for _, s := range scan.srcs {
			tested[s] = true
		}
		for _, u := range uses {
			if dg := usedDigit(u); dg != nil && !tested[x.digitSrcKey(dg)] {
				return sprintf("the start-index scan does not test recoding %s, which the main loop uses", x.digitSrcKey(dg)), scan.pos
			}
		}
	}
	// every digit use in the body reads position = loop variable; every term
	// loop runs over all terms; every recoding is used
	if diag, pos := c.positions(sk, L.body, L.v); diag != "" {
		return diag, pos
	}
	used := map[*recoding]bool{}
	var uses []*node
	digitUses(L.body, &uses)
	for _, u := range uses {
		if dg := usedDigit(u); dg != nil {
			used[dg.rec] = true
		}
	}
	for _, r := range x.recs {
		if !used[r] {
			return sprintf("recoding %s(%s) is computed but never used in the main loop", r.kind, r.src), r.pos
		}
	}
	return "", token.NoPos
}

func dropFirstD(list []*node) []*node {
	for i, n := range list {
		if n.kind == "D" {
			out := append([]*node{}, list[:i]...)
			return append(out, list[i+1:]...)
		}
	}
	return list
}

// positions checks, inside a per-position body whose position variable is pv:
// digit positions equal pv; term loops run 0..len(role)-1 and index digits,
// tables and point buffers with their own counter.
func (c *skelChecker) positions(sk *Skeleton, body []*node, pv string) (string, token.Pos) {
	x := sk.x
	pvLin := &lin{t: map[string]int64{pv: 1}}
	var walk func(list []*node, term string) (string, token.Pos)
	walk = func(list []*node, term string) (string, token.Pos) {
		for _, n := range list {
			switch n.kind {
			case "loop":
				if n.step != 1 || n.excl {
					return "a term loop inside the main loop does not count up by one", n.pos
				}
				if f, ok := n.from.isConst(); !ok || f != 0 {
					return "a term loop inside the main loop does not start at term 0", n.pos
				}
				// bound: len(role) - 1 (possibly a sum of lens)
				b := n.to.addConst(1)
				if b.c != 0 || len(b.t) == 0 {
					return sprintf("a term loop inside the main loop is bounded by %s, not by the number of terms", newNamer(x.sym).lin(b)), n.pos
				}
				for id, k := range b.t {
					if at := x.sym.atoms[id]; at == nil || at.kind != "len" || k != 1 {
						return sprintf("a term loop inside the main loop is bounded by %s, not by the number of terms", newNamer(x.sym).lin(b)), n.pos
					}
				}
				if d, p := walk(n.body, n.v); d != "" {
					return d, p
				}
				continue
			case "add", "sub":
				if dg := usedDigit(n); dg != nil {
					if !dg.pos.equal(pvLin) {
						return sprintf("a digit is read at position %s instead of the loop position", newNamer(x.sym).lin(dg.pos)), n.pos
					}
					if dg.term != nil {
						tl := &lin{t: map[string]int64{term: 1}}
						if term == "" || !dg.term.equal(tl) {
							return "a digit of a multi-term recoding is not indexed by the term loop counter", n.pos
						}
						if n.entry != nil && (n.entry.term == nil || !n.entry.term.equal(tl)) {
							return "the table of a multi-term lookup is not indexed by the term loop counter", n.pos
						}
						if n.entry == nil && n.b != nil && (n.b.idx == nil || !n.b.idx.equal(tl)) {
							return "the point of a multi-term bucket update is not indexed by the term loop counter", n.pos
						}
					}
				}
			case "if":
				if n.cond != nil {
					for _, gc := range digLiterals(n.cond) {
						if !gc.dig.pos.equal(pvLin) {
							return sprintf("a guard tests the digit at position %s instead of the loop position", newNamer(x.sym).lin(gc.dig.pos)), n.pos
						}
					}
				}
			}
			if d, p := walk(n.body, term); d != "" {
				return d, p
			}
			if d, p := walk(n.els, term); d != "" {
				return d, p
			}
		}
		return "", token.NoPos
	}
	return walk(body, "")
}

// hornerComb: the fixed-base comb  I; [U(i, tbl[i/2])]_{i=1,3..63}; D4; [U(i, tbl[i/2])]_{i=0,2..62}.
func (c *skelChecker) hornerComb(sk *Skeleton) (string, token.Pos) {
	x := sk.x
	var ops []*node
	for _, n := range sk.norm {
		if isGroupOp(n.kind) || n.kind == "loop" || n.kind == "each" || n.kind == "if" || n.kind == "call" {
			ops = append(ops, n)
		}
	}
	if len(ops) != 4 || ops[0].kind != "I" || ops[1].kind != "loop" || ops[2].kind != "D" || ops[3].kind != "loop" {
		return "expected identity; loop over odd digits; doublings; loop over even digits", sk.decl.Pos()
	}
	if k, ok := ops[2].k.isConst(); !ok || k != 4 {
		return sprintf("2^%s between the odd and the even digits, expected 4 doublings (one radix-16 digit)", newNamer(x.sym).lin(ops[2].k)), ops[2].pos
	}
	if ops[2].aAcc != ops[0].dstAcc {
		return "the doublings do not apply to the accumulator", ops[2].pos
	}
	for i, want := range []int64{1, 0} {
		L := ops[1+2*i]
		f, ok1 := L.from.isConst()
		t, ok2 := L.to.isConst()
		if !ok1 || !ok2 || f != want || L.step != 2 || !L.excl || t != 64 {
			return sprintf("digit loop %d visits %s..<%s step %d, expected %d..<64 step 2", i+1, newNamer(x.sym).lin(L.from), newNamer(x.sym).lin(L.to), L.step, want), L.pos
		}
		var uses []*node
		digitUses(L.body, &uses)
		if len(uses) != 1 || len(L.body) != 1 {
			return "a digit loop of the comb does more than one table addition per digit", L.pos
		}
		u := uses[0]
		v := &lin{t: map[string]int64{L.v: 1}}
		if u.dstAcc != ops[0].dstAcc || !u.entry.arg.pos.equal(v) {
			return "a digit loop of the comb does not add the digit at the loop position into the accumulator", u.pos
		}
		if u.entry.term == nil || !u.entry.term.equal(x.sym.op("/", v, konst(2))) {
			return "the sub-table of digit i is not table[i/2]", u.pos
		}
	}
	return "", token.NoPos
}

// pippengerTemplate is the expected normal form of one Pippenger column
// (printed with a fresh printer, the column variable bound to "col").
const pippengerTemplate = "for x0=0..BC-1 {A0[x0]=0}; " +
	"for x0=0..SIZE-1 {if d(R0[x0],col)>0 {A0[d(R0[x0],col)-1]+=A1[x0]<PTS>} else {if d(R0[x0],col)<0 {A0[-d(R0[x0],col)-1]-=A1[x0]<PTS>}}}; " +
	"A2:=A0[BC-1]; A3:=A0[BC-1]; for x0=BC-2..0 {A2+=A0[x0]; A3+=A2}"

func (c *skelChecker) hornerPippenger(sk *Skeleton) (string, token.Pos) {
	x := sk.x
	top := sk.norm
	if len(x.recs) < 1 || x.recs[0].w == nil {
		return "expected a radix-2^w recoding", sk.decl.Pos()
	}
	// the scalar groups may be recoded by one loop over a literal of the groups or by one
	// written-out loop per group; every recoding must use the same width
	for _, r := range x.recs[1:] {
		if r.kind != x.recs[0].kind || r.w == nil || !r.w.equal(x.recs[0].w) {
			return "the scalar groups are recoded with different widths", r.pos
		}
	}
	w := x.recs[0].w
	wid, _, single := w.single()
	wat := x.sym.atoms[wid]
	if !single || wat == nil || len(wat.domain) == 0 {
		return "the window width is not a variable with a finite set of constant values", x.recs[0].pos
	}
	li := -1
	for i, n := range top {
		if n.kind == "loop" {
			li = i
		}
	}
	if li < 0 {
		return "no column loop", sk.decl.Pos()
	}
	L := top[li]
	if L.step != -1 || L.excl {
		return "the column loop does not step down by one", L.pos
	}
	if z, ok := L.to.isConst(); !ok || z != 0 {
		return sprintf("the column loop ends at column %s, not at column 0", newNamer(x.sym).lin(L.to)), L.pos
	}
	if groupOpsIn(top[li+1:]) {
		return "group operations after the column loop", top[li+1].pos
	}
	// columns: digitsCount = ToRadix2wSizeHint(w); the first column is digitsCount-1
	dc := x.sym.op("ToRadix2wSizeHint", w)
	if !L.from.addConst(2).equal(dc) {
		return sprintf("the column loop starts at %s, expected ToRadix2wSizeHint(w)-2 after the separately computed top column", newNamer(x.sym).lin(L.from)), L.pos
	}
	// body: column(i); P := column result; S *= 2^w; S += P
	nb := len(L.body)
	if nb < 4 {
		return "the column loop body is too short", L.pos
	}
	cp, dbl, add := L.body[nb-3], L.body[nb-2], L.body[nb-1]
	if cp.kind != "copy" || dbl.kind != "D" || add.kind != "add" || add.entry != nil {
		return "the column loop does not end with  P := column; S *= 2^w; S += P", L.body[nb-1].pos
	}
	if !dbl.k.equal(w) {
		return sprintf("the running sum is doubled 2^%s per column, expected w doublings with the w of the recoding", newNamer(x.sym).lin(dbl.k)), dbl.pos
	}
	if add.aAcc != dbl.dstAcc || add.bAcc != cp.dstAcc {
		return "the column loop does not add the column result to the doubled running sum", add.pos
	}
	// prefix: column(top); S := column result
	var pre []*node
	for _, n := range top[:li] {
		if declOnly(n) {
			continue
		}
		pre = append(pre, n)
	}
	if len(pre) < 2 || pre[len(pre)-1].kind != "copy" || pre[len(pre)-1].dstAcc != dbl.aAcc {
		return "the running sum is not initialised with the top column", L.pos
	}
	if pre[len(pre)-1].aAcc != cp.aAcc {
		return "the top column and the loop columns return different accumulators", pre[len(pre)-1].pos
	}
	// the two column computations against the template
	bc := x.sym.op("/", x.sym.op("<<", konst(1), w), konst(2))
	var bcLin *lin
	for _, n := range L.body {
		if n.kind == "loop" && len(n.body) == 1 && n.body[0].kind == "I" {
			bcLin = n.to.addConst(1)
		}
	}
	if bcLin == nil {
		return "the buckets are not cleared at the start of each column", L.pos
	}
	// size = sum of len over the scalar roles of the recoding
	size := konst(0)
	var recRoles []string
	for _, r := range x.recs {
		recRoles = append(recRoles, strings.Split(strings.TrimSuffix(strings.TrimPrefix(r.src, "each("), ")"), "++")...)
	}
	for _, role := range recRoles {
		found := false
		for id, a := range x.sym.atoms {
			if a.kind == "len" && a.label == role {
				size = size.add(&lin{t: map[string]int64{id: 1}})
				found = true
			}
		}
		if !found {
			return sprintf("the term count does not include len(%s)", role), x.recs[0].pos
		}
	}
	pts := ""
	for _, r := range x.fills {
		pts = r
	}
	render := func(nodes []*node, colVar string, colVal *lin) string {
		pr := sk.newPrinter(c.canonFn)
		if colVar != "" {
			pr.nm.names[colVar] = "col"
		}
		s := pr.nodes(nodes)
		if colVal != nil {
			s = strings.ReplaceAll(s, ","+pr.nm.lin(colVal)+")", ",col)")
		}
		return s
	}
	nmr := newNamer(x.sym)
	tmpl := strings.NewReplacer("BC-1", nmr.lin(bcLin.addConst(-1)), "BC-2", nmr.lin(bcLin.addConst(-2)), "SIZE-1", nmr.lin(size.addConst(-1)), "PTS", pts).Replace(pippengerTemplate)
	if got := render(L.body[:nb-3], L.v, nil); got != tmpl {
		return "a column of the loop is not  clear buckets; scatter by digit; running sums  — " + firstDiff(got, tmpl), L.body[0].pos
	}
	if got := render(pre[:len(pre)-1], "", L.from.addConst(1)); got != tmpl {
		return "the top column is not computed like the other columns — " + firstDiff(got, tmpl), pre[0].pos
	}
	// bucket count: 2^(w-1) for every admissible w, and the buffer is made with it
	_ = bc
	for _, wv := range wat.domain {
		v, ok := x.sym.eval(bcLin, map[string]int64{wid: wv}, nil)
		if !ok || v != int64(1)<<uint(wv-1) {
			return sprintf("for w = %d the buckets cleared/summed number %d, expected 2^(w-1) = %d", wv, v, int64(1)<<uint(wv-1)), L.pos
		}
	}
	var bucketsObj types.Object
	for _, n := range L.body {
		if n.kind == "loop" && len(n.body) == 1 && n.body[0].kind == "I" {
			bucketsObj = n.body[0].dst.root
		}
	}
	if mk := x.makes[bucketsObj]; mk == nil || !mk.equal(bcLin) {
		return "the bucket buffer is not allocated with the bucket count used by the column computation", L.pos
	}
	return "", token.NoPos
}

// ---- polarity and width ---------------------------------------------------------

type guardCtx struct {
	dig  []*cond // digit sign guards in force (then-branches only)
	flip bool    // under a true negation flag
}

func sameDigit(a, b *sval) bool {
	if a == nil || b == nil || a.rec != b.rec {
		return false
	}
	if (a.term == nil) != (b.term == nil) || (a.term != nil && !a.term.equal(b.term)) {
		return false
	}
	return a.pos != nil && b.pos != nil && a.pos.equal(b.pos)
}

func (c *skelChecker) polarityAndWidth(sk *Skeleton, rPol, rWidth *report.Rule) {
	x := sk.x
	name := sk.Func
	nm := func(l *lin) string { return newNamer(x.sym).lin(l) }
	var walk func(list []*node, g guardCtx)
	walk = func(list []*node, g guardCtx) {
		for _, n := range list {
			switch n.kind {
			case "if":
				switch n.cond.kind {
				case "dig", "and", "or":
					// the digit-sign literals in force in the then-branch, and
					// (negated) in the else-branch
					gt, ge := g, g
					gt.dig = append(append([]*cond{}, g.dig...), guardsOf(n.cond)...)
					ge.dig = append(append([]*cond{}, g.dig...), guardsOf(x.negate(n.cond))...)
					walk(n.body, gt)
					walk(n.els, ge)
				case "flag":
					// then-branch holds when (flag != not); a true flag mirrors add/sub
					gt, ge := g, g
					if !n.cond.not {
						gt.flip = !g.flip
					} else {
						ge.flip = !g.flip
					}
					walk(n.body, gt)
					walk(n.els, ge)
					// the two branches must be mirror images
					a := sk.newPrinter(c.canonFn).nodes(n.body)
					b := sk.newPrinter(c.canonFn).nodes(swapAddSub(n.els))
					construct := name + " flag " + n.cond.flag
					if hasGroupOps(n.body) || hasGroupOps(n.els) {
						if a == b {
							rPol.OK(construct)
						} else {
							rPol.Failf(c.p.Pos(n.pos), name, "the branches under the negation flag are not mirror images (add <-> sub): «%s» vs «%s»", a, sk.newPrinter(c.canonFn).nodes(n.els))
						}
					}
				default:
					walk(n.body, g)
					walk(n.els, g)
				}
				continue
			case "add", "sub":
				dg := usedDigit(n)
				if dg == nil {
					break
				}
				c.res.DigitUses++
				construct := sprintf("%s %s(%s)@%s", name, dg.rec.kind, dg.rec.src, nm(dg.pos))
				// sign guard on this digit
				rel := ""
				signs := 7
				for _, gc := range g.dig {
					if sameDigit(gc.dig, dg) {
						signs &= signSet(gc.rel)
					}
				}
				switch signs {
				case 4:
					rel = ">0"
				case 1:
					rel = "<0"
				}
				wantOp := "add"
				wantNeg := false
				if rel == "<0" {
					wantOp, wantNeg = "sub", true
				}
				if g.flip {
					if wantOp == "add" {
						wantOp = "sub"
					} else {
						wantOp = "add"
					}
				}
				pos := c.p.Pos(n.pos)
				bucket := n.entry == nil
				var diag string
				switch {
				case bucket && rel == "":
					diag = "a bucket update is not guarded by the sign of its digit"
				case bucket && (dg.neg != wantNeg || dg.off != -1):
					diag = sprintf("under digit %s the bucket index must be %sd-1", rel, map[bool]string{true: "-", false: ""}[wantNeg])
				case !bucket && n.entry.tbl.cls.Kind == "ODD" && rel == "":
					diag = "a lookup in an odd-multiple (unsigned) table is not guarded by the sign of its digit"
				case !bucket && (dg.neg != wantNeg || dg.off != 0):
					diag = sprintf("the lookup argument must be %sd under guard «%s»", map[bool]string{true: "-", false: "+"}[wantNeg], rel)
				case n.kind != wantOp:
					diag = sprintf("the digit use under guard «%s»%s must be an %s, found %s (%s)", rel, map[bool]string{true: " with the negation flag set", false: ""}[g.flip], wantOp, n.kind, n.callee)
				}
				if diag != "" {
					rPol.Failf(pos, name, "polarity in %s: %s", shortKey(name), diag)
				} else {
					rPol.OK(construct)
				}
				// width <-> table
				if !bucket {
					cls := n.entry.tbl.cls
					wdiag := ""
					switch dg.rec.kind {
					case "R16":
						if cls.Kind != "CT" || cls.N != 8 {
							wdiag = sprintf("a radix-16 digit indexes a %s table (%s); only 8-entry constant-time tables hold the multiples 1..8", cls, cls.Type)
						}
					case "NAF":
						wv, ok := dg.rec.w.isConst()
						switch {
						case !ok || wv < 2 || wv > 8:
							wdiag = "the NAF width is not a constant in 2..8"
						case cls.Kind != "ODD":
							wdiag = sprintf("a NAF digit indexes a %s table (%s); NAF digits need odd-multiple tables", cls, cls.Type)
						case cls.N < int64(1)<<uint(wv-2):
							wdiag = sprintf("a width-%d NAF has odd digits up to 2^%d-1 and needs 2^%d = %d table entries, but the table %s has %d", wv, wv-1, wv-2, int64(1)<<uint(wv-2), cls.Type, cls.N)
						}
					default:
						wdiag = "a radix-2^w digit is used for a table lookup"
					}
					if wdiag != "" {
						rWidth.Failf(pos, name, "width/table in %s: %s", shortKey(name), wdiag)
					} else {
						rWidth.OK(construct)
					}
				}
			}
			walk(n.body, g)
			walk(n.els, g)
		}
	}
	walk(sk.norm, guardCtx{})
}

// declOnly reports whether n only declares recodings and lookup tables
// (possibly inside loops over the terms and length guards): it touches no
// accumulator.
func declOnly(n *node) bool {
	switch n.kind {
	case "recode", "table":
		return true
	case "loop", "if":
		if len(n.body)+len(n.els) == 0 {
			return false
		}
		for _, b := range n.body {
			if !declOnly(b) {
				return false
			}
		}
		for _, b := range n.els {
			if !declOnly(b) {
				return false
			}
		}
		return true
	}
	return false
}

// digLiterals lists every digit literal of c.
func digLiterals(c *cond) []*cond {
	if c.kind == "dig" {
		return []*cond{c}
	}
	var out []*cond
	for _, q := range c.sub {
		out = append(out, digLiterals(q)...)
	}
	return out
}

// swapAddSub returns a copy of list with add and sub exchanged.
func swapAddSub(list []*node) []*node {
	var out []*node
	for _, n := range list {
		m := *n
		switch n.kind {
		case "add":
			m.kind = "sub"
		case "sub":
			m.kind = "add"
		}
		m.body, m.els = swapAddSub(n.body), swapAddSub(n.els)
		out = append(out, &m)
	}
	return out
}
