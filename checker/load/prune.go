package load

import (
	"go/constant"
	"go/token"

	"golang.org/x/tools/go/ssa"
)

// FoldConst evaluates v if it is a constant or an operation on constants
// (go/ssa does not fold `false == true`, see DESIGN §2.1).
func FoldConst(v ssa.Value) (constant.Value, bool) {
	switch v := v.(type) {
	case *ssa.Const:
		if v.Value == nil {
			return nil, false
		}
		return v.Value, true
	case *ssa.BinOp:
		x, ok1 := FoldConst(v.X)
		y, ok2 := FoldConst(v.Y)
		if !ok1 || !ok2 {
			return nil, false
		}
		switch v.Op {
		case token.EQL, token.NEQ, token.LSS, token.LEQ, token.GTR, token.GEQ:
			if x.Kind() == constant.Bool && y.Kind() == constant.Bool {
				eq := constant.BoolVal(x) == constant.BoolVal(y)
				switch v.Op {
				case token.EQL:
					return constant.MakeBool(eq), true
				case token.NEQ:
					return constant.MakeBool(!eq), true
				}
				return nil, false
			}
			return constant.MakeBool(constant.Compare(x, v.Op, y)), true
		case token.LAND, token.LOR:
			return nil, false
		case token.SHL, token.SHR:
			s, ok := constant.Uint64Val(y)
			if !ok || x.Kind() != constant.Int {
				return nil, false
			}
			return constant.Shift(x, v.Op, uint(s)), true
		case token.QUO:
			if x.Kind() == constant.Int && y.Kind() == constant.Int {
				if constant.Sign(y) == 0 {
					return nil, false
				}
				return constant.BinaryOp(x, token.QUO_ASSIGN, y), true
			}
		}
		defer func() { _ = recover() }()
		return constant.BinaryOp(x, v.Op, y), true
	case *ssa.UnOp:
		if v.Op == token.NOT {
			x, ok := FoldConst(v.X)
			if ok && x.Kind() == constant.Bool {
				return constant.MakeBool(!constant.BoolVal(x)), true
			}
		}
	}
	return nil, false
}

// LiveSuccs returns the successors of b that survive constant pruning.
func LiveSuccs(b *ssa.BasicBlock) []*ssa.BasicBlock {
	if len(b.Instrs) == 0 {
		return b.Succs
	}
	if ifi, ok := b.Instrs[len(b.Instrs)-1].(*ssa.If); ok {
		if c, ok := FoldConst(ifi.Cond); ok && c.Kind() == constant.Bool {
			if constant.BoolVal(c) {
				return b.Succs[:1]
			}
			return b.Succs[1:2]
		}
	}
	return b.Succs
}

// LiveBlocks returns the set of blocks reachable from entry in the
// constant-pruned CFG.
func LiveBlocks(fn *ssa.Function) map[*ssa.BasicBlock]bool {
	live := map[*ssa.BasicBlock]bool{}
	if len(fn.Blocks) == 0 {
		return live
	}
	var walk func(b *ssa.BasicBlock)
	walk = func(b *ssa.BasicBlock) {
		if live[b] {
			return
		}
		live[b] = true
		for _, s := range LiveSuccs(b) {
			walk(s)
		}
	}
	walk(fn.Blocks[0])
	if fn.Recover != nil {
		walk(fn.Recover)
	}
	return live
}
