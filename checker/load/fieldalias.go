package load

import "go/types"

// AliasFieldNames maps the current fields of st to the names they had when the specifications
// were written: a field whose name is among the recorded ones IS that field (so a reordering of
// the fields of an unexported struct changes nothing); the remaining (renamed) fields take the
// remaining recorded names in order.
func AliasFieldNames(rec []string, st *types.Struct) []string {
	out := make([]string, st.NumFields())
	recorded := map[string]bool{}
	for _, r := range rec {
		recorded[r] = true
	}
	used := map[string]bool{}
	for i := range out {
		if n := st.Field(i).Name(); recorded[n] && !used[n] {
			out[i] = n
			used[n] = true
		}
	}
	var left []string
	for _, r := range rec {
		if !used[r] {
			left = append(left, r)
		}
	}
	for i := range out {
		if out[i] == "" {
			if len(left) > 0 {
				out[i], left = left[0], left[1:]
			} else {
				out[i] = st.Field(i).Name()
			}
		}
	}
	return out
}

