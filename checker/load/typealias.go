package load

import (
	"go/types"
	"sort"
	"strings"
	"sync"

	"golang.org/x/tools/go/ssa"
)

// Renamed unexported TYPES.  A recorded type (one that appears as a receiver in RecordedFuncs)
// that is missing from its package is matched with the unique unexported named type of the package
// that is not recorded and declares methods with exactly the recorded method names.  The match is
// an alias: the type is looked up, rendered and keyed under its recorded name.
var typeAliases sync.Map // *types.TypeName -> recorded name

// TypeRecordedName is the name the type had when the specifications were written.
func TypeRecordedName(tn *types.TypeName) string {
	if tn == nil {
		return ""
	}
	if v, ok := typeAliases.Load(tn); ok {
		return v.(string)
	}
	return tn.Name()
}

func (p *Program) resolveTypeRenames() {
	p.typeByRecorded = map[string]*types.TypeName{}
	if len(RecordedFuncs) == 0 {
		return
	}
	fam := Family(p.Cfg.ID) + "|"
	for _, pk := range p.Pkgs {
		rel := Rel(pk.Types)
		recorded := map[string]map[string]bool{} // type -> method names
		for k := range RecordedFuncs {
			if !strings.HasPrefix(k, fam+rel+"|") {
				continue
			}
			name := k[len(fam+rel+"|"):]
			if i := strings.IndexByte(name, '.'); i > 0 {
				if recorded[name[:i]] == nil {
					recorded[name[:i]] = map[string]bool{}
				}
				recorded[name[:i]][name[i+1:]] = true
			}
		}
		sc := pk.Types.Scope()
		var missing []string
		for t := range recorded {
			if _, ok := sc.Lookup(t).(*types.TypeName); !ok {
				missing = append(missing, t)
			}
		}
		if len(missing) == 0 {
			continue
		}
		sort.Strings(missing)
		var fresh []*types.TypeName
		for _, n := range sc.Names() {
			tn, ok := sc.Lookup(n).(*types.TypeName)
			if !ok || tn.Exported() || recorded[n] != nil {
				continue
			}
			if _, isNamed := tn.Type().(*types.Named); isNamed {
				fresh = append(fresh, tn)
			}
		}
		used := map[*types.TypeName]bool{}
		for _, t := range missing {
			var cands []*types.TypeName
			for _, tn := range fresh {
				named := tn.Type().(*types.Named)
				if named.NumMethods() != len(recorded[t]) {
					continue
				}
				ok := true
				for i := 0; i < named.NumMethods(); i++ {
					if !recorded[t][named.Method(i).Name()] {
						ok = false
					}
				}
				if ok && !used[tn] {
					cands = append(cands, tn)
				}
			}
			if len(cands) == 1 {
				used[cands[0]] = true
				typeAliases.Store(cands[0], t)
				p.typeByRecorded[rel+"|"+t] = cands[0]
			}
		}
	}
}

// aliasTypeNames rewrites "rel.Current" / "pkgname.Current" occurrences of renamed types in a
// rendered function or type string to the recorded names.
func aliasTypeNames(s string, pkg *types.Package) string {
	if pkg == nil {
		return s
	}
	typeAliases.Range(func(k, v any) bool {
		tn := k.(*types.TypeName)
		if tn.Pkg() != pkg {
			return true
		}
		for _, q := range []string{Rel(pkg) + ".", pkg.Name() + "."} {
			s = replaceIdent(s, q+tn.Name(), q+v.(string))
		}
		return true
	})
	return s
}

// replaceIdent replaces whole-identifier occurrences of old.
func replaceIdent(s, old, new string) string {
	out := ""
	for {
		i := strings.Index(s, old)
		if i < 0 {
			return out + s
		}
		j := i + len(old)
		if j < len(s) && (s[j] == '_' || s[j] >= '0' && s[j] <= '9' || s[j] >= 'a' && s[j] <= 'z' || s[j] >= 'A' && s[j] <= 'Z') {
			out += s[:j]
			s = s[j:]
			continue
		}
		out += s[:i] + new
		s = s[j:]
	}
}

// AliasTypeString renders type names of renamed types under their recorded names.
func AliasTypeString(s string, pkgs ...*types.Package) string {
	for _, p := range pkgs {
		s = aliasTypeNames(s, p)
	}
	return s
}

func fnPkg(fn *ssa.Function) *types.Package {
	if fn == nil {
		return nil
	}
	if fn.Pkg != nil {
		return fn.Pkg.Pkg
	}
	if fn.Object() != nil {
		return fn.Object().Pkg()
	}
	return nil
}
