package load

import (
	"go/types"
	"sort"
	"strings"
	"sync"

	"golang.org/x/tools/go/ssa"
)

// Renamed unexported functions.  The specifications of the checker anchor on
// functions by name.  A behaviour-preserving rename of an UNEXPORTED function
// or method must not lose the anchor: RecordedFuncs holds, per module function
// known when the specifications were written, its name-free signature; after
// loading, a recorded function that is missing from its package is matched
// with the unique unexported function of the same package (and receiver type)
// that is not in the table and has the identical signature.  The match is
// used as an alias: the function is reported and rendered under its recorded
// name.  No match (or an ambiguous one) leaves the anchor lost, which fails.

// RecordedFuncs: key "rel|Name" or "rel|Type.Name" -> signature key.
var RecordedFuncs map[string]string

// Family maps a configuration to the recorded configuration whose file set it shares.
func Family(cfgID string) string {
	switch cfgID {
	case "arm64":
		return "purego"
	case "f32pure", "386":
		return "f32"
	}
	return cfgID
}

// SigKey renders a function's receiver, parameter and result types without names.
func SigKey(f *types.Func) string {
	sig := f.Type().(*types.Signature)
	q := func(p *types.Package) string { return p.Path() }
	var sb strings.Builder
	if r := sig.Recv(); r != nil {
		sb.WriteString(types.TypeString(r.Type(), q))
	}
	sb.WriteString("(")
	for i := 0; i < sig.Params().Len(); i++ {
		if i > 0 {
			sb.WriteString(",")
		}
		sb.WriteString(types.TypeString(sig.Params().At(i).Type(), q))
	}
	if sig.Variadic() {
		sb.WriteString("...")
	}
	sb.WriteString(")(")
	for i := 0; i < sig.Results().Len(); i++ {
		if i > 0 {
			sb.WriteString(",")
		}
		sb.WriteString(types.TypeString(sig.Results().At(i).Type(), q))
	}
	sb.WriteString(")")
	return sb.String()
}

// funcKey is the table key of a function object ("" for non-module objects).
func funcKey(f *types.Func) string {
	if f.Pkg() == nil || !strings.HasPrefix(f.Pkg().Path(), Module) {
		return ""
	}
	rel := Rel(f.Pkg())
	sig := f.Type().(*types.Signature)
	if r := sig.Recv(); r != nil {
		t := r.Type()
		if pt, ok := t.(*types.Pointer); ok {
			t = pt.Elem()
		}
		if n, ok := t.(*types.Named); ok {
			return rel + "|" + TypeRecordedName(n.Obj()) + "." + f.Name()
		}
		return ""
	}
	return rel + "|" + f.Name()
}

// DeclaredFuncs lists the functions and methods declared in a package with their table keys (maintenance).
func DeclaredFuncs(tp *types.Package) map[string]string {
	out := map[string]string{}
	for _, f := range declaredFuncs(tp) {
		if k := funcKey(f); k != "" {
			out[k] = SigKey(f)
		}
	}
	return out
}

// declaredFuncs lists the functions and methods declared in a package.
func declaredFuncs(tp *types.Package) []*types.Func {
	var out []*types.Func
	sc := tp.Scope()
	for _, n := range sc.Names() {
		switch o := sc.Lookup(n).(type) {
		case *types.Func:
			out = append(out, o)
		case *types.TypeName:
			if named, ok := o.Type().(*types.Named); ok {
				for i := 0; i < named.NumMethods(); i++ {
					out = append(out, named.Method(i))
				}
			}
		}
	}
	return out
}

// resolveRenames fills p.renamed (current object -> recorded key).
func (p *Program) resolveRenames() {
	p.resolveTypeRenames()
	p.renamed = map[*types.Func]string{}
	p.byRecorded = map[string]*types.Func{}
	if len(RecordedFuncs) == 0 {
		return
	}
	fam := Family(p.Cfg.ID) + "|"
	for _, pk := range p.Pkgs {
		rel := fam + Rel(pk.Types)
		present := map[string]bool{}
		var fresh []*types.Func
		for _, f := range declaredFuncs(pk.Types) {
			k := funcKey(f)
			if k == "" {
				continue
			}
			k = fam + k
			if _, ok := RecordedFuncs[k]; ok {
				present[k] = true
			} else if !f.Exported() {
				fresh = append(fresh, f)
			}
		}
		var missing []string
		for k := range RecordedFuncs {
			if strings.HasPrefix(k, rel+"|") && !present[k] {
				missing = append(missing, k)
			}
		}
		sort.Strings(missing)
		for _, k := range missing {
			name := k[strings.LastIndexByte(k, '|')+1:]
			recvType := ""
			if i := strings.IndexByte(name, '.'); i >= 0 {
				recvType = name[:i]
			}
			var cands []*types.Func
			for _, f := range fresh {
				fk := funcKey(f)
				fname := fk[strings.LastIndexByte(fk, '|')+1:]
				frecv := ""
				if i := strings.IndexByte(fname, '.'); i >= 0 {
					frecv = fname[:i]
				}
				if frecv == recvType && SigKey(f) == RecordedFuncs[k] {
					cands = append(cands, f)
				}
			}
			if len(cands) == 1 {
				if _, taken := p.renamed[cands[0]]; !taken {
					plain := k[len(fam):]
					p.renamed[cands[0]] = plain
					p.byRecorded[plain] = cands[0]
				}
			}
		}
	}
}

// RecordedName returns the simple name a function had when the
// specifications were written (its current name unless it was renamed).
func (p *Program) RecordedName(f *types.Func) string {
	if k, ok := p.renamed[f]; ok {
		name := k[strings.IndexByte(k, '|')+1:]
		if i := strings.IndexByte(name, '.'); i >= 0 {
			name = name[i+1:]
		}
		return name
	}
	return f.Name()
}

// Renames lists "current -> recorded" for the evidence.
func (p *Program) Renames() []string {
	var out []string
	for f, k := range p.renamed {
		out = append(out, ObjName(f)+" -> "+k)
	}
	sort.Strings(out)
	return out
}

var progOf sync.Map // *ssa.Program -> *Program

// recordedSimpleName: the recorded simple name of fn if it was renamed, else "".
func recordedSimpleName(fn *ssa.Function) string {
	if fn == nil || fn.Prog == nil {
		return ""
	}
	v, ok := progOf.Load(fn.Prog)
	if !ok {
		return ""
	}
	p := v.(*Program)
	o, ok := fn.Object().(*types.Func)
	if !ok || o == nil {
		return ""
	}
	if _, ren := p.renamed[o]; !ren {
		return ""
	}
	return p.RecordedName(o)
}

// SimpleName is fn.Name(), or the recorded name of a renamed unexported function.
func SimpleName(fn *ssa.Function) string {
	if n := recordedSimpleName(fn); n != "" {
		return n
	}
	return fn.Name()
}

// ---- renamed unexported package-level variables and constants -------------------------------

// RecordedGlobals: "rel|name" -> type (qualified) of every package-level variable and constant
// known when the specifications were written.  A recorded one that is missing is matched with
// the unique unexported new one of the same package and type (see resolveRenames).
var RecordedGlobals map[string][]string

var renamedObjs sync.Map // types.Object -> recorded simple name

func globalKey(o types.Object) string {
	if o.Pkg() == nil || !strings.HasPrefix(o.Pkg().Path(), Module) {
		return ""
	}
	return Rel(o.Pkg()) + "|" + o.Name()
}

// DeclaredGlobals lists package-level variables and constants with their types (maintenance).
func DeclaredGlobals(tp *types.Package) map[string]string {
	out := map[string]string{}
	sc := tp.Scope()
	for _, n := range sc.Names() {
		switch o := sc.Lookup(n).(type) {
		case *types.Var, *types.Const:
			out[globalKey(o)] = globalSig(o)
		}
	}
	return out
}

func (p *Program) resolveGlobalRenames() {
	p.byRecordedGlobal = map[string]types.Object{}
	if len(RecordedGlobals) == 0 {
		return
	}
	fam := Family(p.Cfg.ID) + "|"
	for _, pk := range p.Pkgs {
		rel := fam + Rel(pk.Types)
		sc := pk.Types.Scope()
		present := map[string]bool{}
		var fresh []types.Object
		for _, n := range sc.Names() {
			o := sc.Lookup(n)
			switch o.(type) {
			case *types.Var, *types.Const:
			default:
				continue
			}
			k := fam + globalKey(o)
			if _, ok := RecordedGlobals[k]; ok {
				present[k] = true
			} else if !o.Exported() {
				fresh = append(fresh, o)
			}
		}
		var missing []string
		for k := range RecordedGlobals {
			if strings.HasPrefix(k, rel+"|") && !present[k] {
				missing = append(missing, k)
			}
		}
		sort.Strings(missing)
		used := map[types.Object]bool{}
		for _, k := range missing {
			var cands []types.Object
			for _, o := range fresh {
				if !used[o] && hasString(RecordedGlobals[k], globalSig(o)) {
					cands = append(cands, o)
				}
			}
			// several missing names of one type cannot be told apart: leave them unresolved
			same := 0
			for _, k2 := range missing {
				if strings.Join(RecordedGlobals[k2], "|") == strings.Join(RecordedGlobals[k], "|") {
					same++
				}
			}
			if len(cands) == 1 && same == 1 {
				used[cands[0]] = true
				name := k[strings.LastIndexByte(k, '|')+1:]
				renamedObjs.Store(cands[0], name)
				p.byRecordedGlobal[k[len(fam):]] = cands[0]
			}
		}
	}
}

// ObjSimpleName is o.Name(), or the recorded name of a renamed unexported package-level object.
func ObjSimpleName(o types.Object) string {
	if o == nil {
		return ""
	}
	if v, ok := renamedObjs.Load(o); ok {
		return v.(string)
	}
	return o.Name()
}

// globalSig: the type of a package-level object; for constants also the value (two renamed
// constants of one type are told apart by what they denote).
func globalSig(o types.Object) string {
	t := types.TypeString(o.Type(), func(p *types.Package) string { return p.Path() })
	if c, ok := o.(*types.Const); ok && c.Val() != nil {
		return t + " = " + c.Val().ExactString()
	}
	return t
}

func hasString(l []string, s string) bool {
	for _, x := range l {
		if x == s {
			return true
		}
	}
	return false
}
