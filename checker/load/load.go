// Package load loads /repo's current working tree, type-checked, in one of
// the build configurations of DESIGN.md §2.1, and builds go/ssa + the VTA
// call graph on demand.  Nothing is cached between runs.
package load

import (
	"fmt"
	"go/ast"
	"go/token"
	"go/types"
	"os"
	"sort"
	"strings"
	"sync"

	"golang.org/x/tools/go/callgraph"
	"golang.org/x/tools/go/callgraph/cha"
	"golang.org/x/tools/go/callgraph/vta"
	"golang.org/x/tools/go/packages"
	"golang.org/x/tools/go/ssa"
	"golang.org/x/tools/go/ssa/ssautil"
)

// Module is the module path of the analysed repository.
const Module = "github.com/oasisprotocol/curve25519-voi"

// ExpectedPackages is the number of non-test packages of the module; the loader
// fails when a configuration does not yield exactly this many.
const ExpectedPackages = 19

// Config is a build configuration.
type Config struct {
	ID     string
	GOARCH string
	Tags   string
	Desc   string
}

// Configs lists the configurations of DESIGN.md §2.1.
var Configs = []Config{
	{"amd64", "amd64", "", "field/scalar u64, feMul/fePow2k asm, AVX2 vector file, asm lookups, asm Keccak"},
	{"purego", "amd64", "purego", "u64 + feMulGeneric/fePow2kGeneric, generic vector/window stubs, Go Keccak"},
	{"f32", "amd64", "force32bit", "field/scalar/constants u32, generic vector/window stubs, asm Keccak"},
	{"f32pure", "amd64", "force32bit,purego", "as f32 with Go Keccak"},
	{"386", "386", "", "u32 natural target"},
	{"arm64", "arm64", "", "u64 generic natural target"},
}

// QuickConfigs / ThoroughConfigs are the tiers' configuration sets.
var (
	QuickConfigs    = []string{"amd64", "purego", "f32"}
	ThoroughConfigs = []string{"amd64", "purego", "f32", "f32pure", "386", "arm64"}
)

// ConfigByID returns the configuration with the given id.
func ConfigByID(id string) (Config, bool) {
	for _, c := range Configs {
		if c.ID == id {
			return c, true
		}
	}
	return Config{}, false
}

// RepoDir is the repository to analyse (VOI_REPO overrides; used by the
// checker's own tests on scratch copies, never by registered commands).
func RepoDir() string {
	if d := os.Getenv("VOI_REPO"); d != "" {
		return d
	}
	return "/repo"
}

// Program is one loaded configuration.
type Program struct {
	Cfg   Config
	Fset  *token.FileSet
	Pkgs  []*packages.Package          // module packages, sorted by path
	ByRel map[string]*packages.Package // "curve", "internal/field", ... ("" is impossible: no root package)
	All   map[string]*packages.Package // every package by path (incl. deps)

	SSA     *ssa.Program
	ssaPkgs map[*types.Package]*ssa.Package

	cgOnce sync.Once
	cg     *callgraph.Graph
	mfOnce sync.Once
	mf     []*ssa.Function

	renamed          map[*types.Func]string // renamed unexported functions: current object -> recorded key
	byRecorded       map[string]*types.Func
	byRecordedGlobal map[string]types.Object
	typeByRecorded   map[string]*types.TypeName // renamed unexported types: "rel|RecordedName" -> current type

	fileOf map[*token.File]*ast.File
}

// Opts control loading.
type Opts struct {
	SSA     bool
	Overlay map[string][]byte // absolute file name -> contents (in-memory mutants)
	Dir     string            // overrides RepoDir()
	Extra   []string          // additional package patterns (positive-control packages)

	NoControls bool // do not overlay the positive-control files
}

// ControlMarker is the substring of file names of positive-control files.
const ControlMarker = "zz_voicheck_control"

// controlOverlay reads checker/controls/*.go.txt: files added in memory to
// the analysed repository so that zero-instance rules fire on every run.
func controlOverlay(repo string) (map[string][]byte, error) {
	dir := os.Getenv("VOI_CONTROLS")
	if dir == "" {
		dir = "/verif/checker/controls"
	}
	ents, err := os.ReadDir(dir)
	if err != nil {
		return nil, fmt.Errorf("positive controls: %v", err)
	}
	out := map[string][]byte{}
	for _, e := range ents {
		if !strings.HasSuffix(e.Name(), ".go.txt") {
			continue
		}
		b, err := os.ReadFile(dir + "/" + e.Name())
		if err != nil {
			return nil, err
		}
		first := strings.SplitN(string(b), "\n", 2)[0]
		const pfx = "//voicheck:target "
		if !strings.HasPrefix(first, pfx) || !strings.Contains(first, ControlMarker) {
			return nil, fmt.Errorf("positive control %s: first line must be %q<path containing %s>", e.Name(), pfx, ControlMarker)
		}
		out[repo+"/"+strings.TrimSpace(strings.TrimPrefix(first, pfx))] = b
	}
	if len(out) == 0 {
		return nil, fmt.Errorf("positive controls: no control files in %s", dir)
	}
	return out, nil
}

// IsControlPos reports whether a formatted position lies in a control file.
func IsControlPos(pos string) bool { return strings.Contains(pos, ControlMarker) }

// Load loads one configuration.  It fails on any type error, on a wrong
// package count, and on go/packages errors.
func Load(cfgID string, o Opts) (*Program, error) {
	cfg, ok := ConfigByID(cfgID)
	if !ok {
		return nil, fmt.Errorf("unknown configuration %q", cfgID)
	}
	dir := o.Dir
	if dir == "" {
		dir = RepoDir()
	}
	env := append(os.Environ(),
		"GOARCH="+cfg.GOARCH, "GOOS=linux", "CGO_ENABLED=0",
		"GOFLAGS=-mod=mod", "GOPROXY=off", "GOSUMDB=off", "GOTOOLCHAIN=local", "GOWORK=off")
	if !o.NoControls {
		ov, err := controlOverlay(dir)
		if err != nil {
			return nil, err
		}
		if o.Overlay == nil {
			o.Overlay = map[string][]byte{}
		}
		for k, v := range ov {
			o.Overlay[k] = v
		}
	}
	fset := token.NewFileSet()
	pc := &packages.Config{
		Mode:    packages.LoadAllSyntax,
		Dir:     dir,
		Env:     env,
		Fset:    fset,
		Tests:   false,
		Overlay: o.Overlay,
	}
	if cfg.Tags != "" {
		pc.BuildFlags = []string{"-tags=" + cfg.Tags}
	}
	pats := append([]string{"./..."}, o.Extra...)
	roots, err := packages.Load(pc, pats...)
	if err != nil {
		return nil, fmt.Errorf("[%s] go/packages: %v", cfgID, err)
	}
	p := &Program{Cfg: cfg, Fset: fset, ByRel: map[string]*packages.Package{}, All: map[string]*packages.Package{},
		fileOf: map[*token.File]*ast.File{}}
	var errs []string
	packages.Visit(roots, nil, func(pk *packages.Package) {
		p.All[pk.PkgPath] = pk
		for _, e := range pk.Errors {
			errs = append(errs, fmt.Sprintf("%s: %v", pk.PkgPath, e))
		}
	})
	if len(errs) > 0 {
		sort.Strings(errs)
		if len(errs) > 8 {
			errs = append(errs[:8], fmt.Sprintf("... %d more", len(errs)-8))
		}
		return nil, fmt.Errorf("[%s] load/type errors:\n  %s", cfgID, strings.Join(errs, "\n  "))
	}
	for _, pk := range roots {
		if pk.PkgPath == Module || strings.HasPrefix(pk.PkgPath, Module+"/") {
			p.Pkgs = append(p.Pkgs, pk)
			p.ByRel[strings.TrimPrefix(strings.TrimPrefix(pk.PkgPath, Module), "/")] = pk
		}
	}
	sort.Slice(p.Pkgs, func(i, j int) bool { return p.Pkgs[i].PkgPath < p.Pkgs[j].PkgPath })
	if len(p.Pkgs) < ExpectedPackages && o.Dir == "" {
		return nil, fmt.Errorf("[%s] expected at least %d module packages, loaded %d", cfgID, ExpectedPackages, len(p.Pkgs))
	}
	for _, pk := range p.All {
		for _, f := range pk.Syntax {
			if tf := fset.File(f.Pos()); tf != nil {
				p.fileOf[tf] = f
			}
		}
	}
	p.resolveRenames()
	p.resolveGlobalRenames()
	if o.SSA {
		prog, _ := ssautil.AllPackages(roots, ssa.InstantiateGenerics)
		prog.Build()
		p.SSA = prog
		progOf.Store(prog, p)
		p.ssaPkgs = map[*types.Package]*ssa.Package{}
		for _, sp := range prog.AllPackages() {
			p.ssaPkgs[sp.Pkg] = sp
		}
	}
	return p, nil
}

// Pkg returns the module package with the given module-relative path.
func (p *Program) Pkg(rel string) *packages.Package { return p.ByRel[rel] }

// SSAPkg returns the ssa package of a module-relative path.
func (p *Program) SSAPkg(rel string) *ssa.Package {
	pk := p.ByRel[rel]
	if pk == nil || p.ssaPkgs == nil {
		return nil
	}
	return p.ssaPkgs[pk.Types]
}

// IsModule reports whether a types.Package belongs to the analysed module.
func IsModule(tp *types.Package) bool {
	if tp == nil {
		return false
	}
	return tp.Path() == Module || strings.HasPrefix(tp.Path(), Module+"/")
}

// Rel returns the module-relative path of a package ("curve", ...).
func Rel(tp *types.Package) string {
	if tp == nil {
		return ""
	}
	return strings.TrimPrefix(strings.TrimPrefix(tp.Path(), Module), "/")
}

// Obj resolves a package-level object "Name" or a method "Type.Name" /
// "(*Type).Name" in the module-relative package rel.  nil if absent.
func (p *Program) Obj(rel, name string) types.Object {
	pk := p.ByRel[rel]
	if pk == nil {
		return nil
	}
	name = strings.TrimPrefix(name, "(*")
	name = strings.Replace(name, ").", ".", 1)
	if i := strings.IndexByte(name, '.'); i >= 0 {
		tn, _ := pk.Types.Scope().Lookup(name[:i]).(*types.TypeName)
		if tn == nil {
			tn = p.typeByRecorded[rel+"|"+name[:i]] // renamed unexported type
		}
		if tn == nil {
			return nil
		}
		obj, _, _ := types.LookupFieldOrMethod(types.NewPointer(tn.Type()), true, pk.Types, name[i+1:])
		if obj == nil {
			if f := p.byRecorded[rel+"|"+name]; f != nil {
				return f // renamed unexported method
			}
		}
		return obj
	}
	if o := pk.Types.Scope().Lookup(name); o != nil {
		return o
	}
	if f := p.byRecorded[rel+"|"+name]; f != nil {
		return f // renamed unexported function
	}
	if o := p.byRecordedGlobal[rel+"|"+name]; o != nil {
		return o // renamed unexported variable / constant
	}
	return nil
}

// Func resolves an ssa function by module-relative package and name
// ("Name", "Type.Name" or "(*Type).Name").
func (p *Program) Func(rel, name string) *ssa.Function {
	if p.SSA == nil {
		return nil
	}
	obj, _ := p.Obj(rel, name).(*types.Func)
	if obj == nil {
		return nil
	}
	return p.SSA.FuncValue(obj)
}

// FuncDecl returns the syntax of a function object.
func (p *Program) FuncDecl(fn *types.Func) *ast.FuncDecl {
	if fn == nil {
		return nil
	}
	tf := p.Fset.File(fn.Pos())
	f := p.fileOf[tf]
	if f == nil {
		return nil
	}
	for _, d := range f.Decls {
		if fd, ok := d.(*ast.FuncDecl); ok && fd.Name.Pos() == fn.Pos() {
			return fd
		}
	}
	return nil
}

// InfoOf returns the types.Info of the package that declares obj.
func (p *Program) InfoOf(tp *types.Package) *types.Info {
	if pk := p.All[tp.Path()]; pk != nil {
		return pk.TypesInfo
	}
	return nil
}

// CallGraph returns the VTA call graph (built lazily, once).
func (p *Program) CallGraph() *callgraph.Graph {
	p.cgOnce.Do(func() {
		all := ssautil.AllFunctions(p.SSA)
		p.cg = vta.CallGraph(all, cha.CallGraph(p.SSA))
	})
	return p.cg
}

// ModuleFuncs returns every ssa function declared in the module: all
// declared functions and methods (whether or not anything calls them),
// package initialisers, and the anonymous functions nested in them; sorted by
// name.  Assembly declarations are included (no Blocks).
func (p *Program) ModuleFuncs() []*ssa.Function {
	p.mfOnce.Do(func() {
		seen := map[*ssa.Function]bool{}
		var add func(fn *ssa.Function)
		add = func(fn *ssa.Function) {
			if fn == nil || seen[fn] {
				return
			}
			seen[fn] = true
			p.mf = append(p.mf, fn)
			for _, a := range fn.AnonFuncs {
				add(a)
			}
		}
		for _, pk := range p.Pkgs {
			var objs []*types.Func
			for _, obj := range pk.TypesInfo.Defs {
				if f, ok := obj.(*types.Func); ok {
					objs = append(objs, f)
				}
			}
			sort.Slice(objs, func(i, j int) bool { return objs[i].Pos() < objs[j].Pos() })
			for _, f := range objs {
				if f.Name() == "init" || f.Name() == "_" {
					continue // source-level init functions are reached through the package initialiser below
				}
				add(p.SSA.FuncValue(f))
			}
			if sp := p.ssaPkgs[pk.Types]; sp != nil {
				for name, m := range sp.Members {
					if fn, ok := m.(*ssa.Function); ok && (name == "init" || strings.HasPrefix(name, "init#")) {
						add(fn)
					}
				}
			}
		}
		sort.Slice(p.mf, func(i, j int) bool { return p.mf[i].String() < p.mf[j].String() })
	})
	return p.mf
}

// Pos formats a position relative to the repository root.
func (p *Program) Pos(pos token.Pos) string {
	if !pos.IsValid() {
		return "-"
	}
	ps := p.Fset.Position(pos)
	fn := strings.TrimPrefix(ps.Filename, RepoDir()+"/")
	return fmt.Sprintf("%s:%d", fn, ps.Line)
}

// FuncName is a stable printable name: "curve.(*EdwardsPoint).Mul".
func FuncName(fn *ssa.Function) string {
	if fn == nil {
		return "<nil>"
	}
	s := fn.String()
	s = strings.ReplaceAll(s, Module+"/", "")
	s = aliasTypeNames(s, fnPkg(fn))
	if old := recordedSimpleName(fn); old != "" && old != fn.Name() {
		if i := strings.LastIndex(s, fn.Name()); i >= 0 {
			s = s[:i] + old
		}
	}
	return s
}

// ObjName is a stable printable name for a types.Func.
func ObjName(fn *types.Func) string {
	if fn == nil {
		return "<nil>"
	}
	s := fn.FullName()
	return strings.ReplaceAll(s, Module+"/", "")
}
