// Package elen implements E-LEN of DESIGN.md: error discipline (ERR),
// explicit-panic classification (PANIC) and length facts (LEN).
package elen

import (
	"fmt"
	"go/constant"
	"go/token"
	"go/types"

	"golang.org/x/tools/go/ssa"

	"voicheck/load"
	"voicheck/report"
)

var errorType = types.Universe.Lookup("error").Type()

func isErrorType(t types.Type) bool { return types.Identical(t, errorType) }

func isNilConst(v ssa.Value) bool {
	c, ok := v.(*ssa.Const)
	return ok && c.Value == nil
}

// failureEdge classifies an If condition.  It returns the index of the
// successor taken when a check FAILED (0 = true edge, 1 = false edge), a
// description of the check, and ok=false if the condition is not one of the
// recognised failure tests.
//
// Recognised (the repo's idioms, enumerated by reading): `err != nil` /
// `err == nil` on a value of type error that is the result of a call;
// `len(x) != C` / `len(x) == C` with constant C > 0 on a slice or string.
func failureEdge(cond ssa.Value) (succ int, what string, ok bool) {
	// strip a leading negation
	neg := false
	for {
		u, isU := cond.(*ssa.UnOp)
		if !isU || u.Op != token.NOT {
			break
		}
		neg = !neg
		cond = u.X
	}
	b, isB := cond.(*ssa.BinOp)
	if !isB || (b.Op != token.NEQ && b.Op != token.EQL) {
		return 0, "", false
	}
	x, y := b.X, b.Y
	if isNilConst(x) {
		x, y = y, x
	}
	failOnTrue := b.Op == token.NEQ
	if neg {
		failOnTrue = !failOnTrue
	}
	succ = 1
	if failOnTrue {
		succ = 0
	}
	if isNilConst(y) && isErrorType(x.Type()) && fromCall(x) {
		return succ, "error result of " + calleeName(x) + " is non-nil", true
	}
	// len(x) ⋈ C
	if c, isC := y.(*ssa.Const); isC && c.Value != nil && c.Value.Kind() == constant.Int {
		if call, isCall := x.(*ssa.Call); isCall {
			if bi, isBI := call.Call.Value.(*ssa.Builtin); isBI && bi.Name() == "len" {
				if v, exact := constant.Int64Val(c.Value); exact && v > 0 {
					switch call.Call.Args[0].Type().Underlying().(type) {
					case *types.Slice, *types.Basic:
						return succ, fmt.Sprintf("len(%s) != %d", call.Call.Args[0].Name(), v), true
					}
				}
			}
		}
	}
	return 0, "", false
}

// fromCall reports whether v is (an extracted component of) a call result.
func fromCall(v ssa.Value) bool {
	switch v := v.(type) {
	case *ssa.Call:
		return true
	case *ssa.Extract:
		_, ok := v.Tuple.(*ssa.Call)
		return ok
	}
	return false
}

func calleeName(v ssa.Value) string {
	var call *ssa.Call
	switch v := v.(type) {
	case *ssa.Call:
		call = v
	case *ssa.Extract:
		call, _ = v.Tuple.(*ssa.Call)
	}
	if call == nil {
		return "?"
	}
	if f := call.Call.StaticCallee(); f != nil {
		return load.FuncName(f)
	}
	if call.Call.IsInvoke() {
		return call.Call.Method.Name()
	}
	return call.Call.Value.Name()
}

// definitelyNonNilError reports whether the returned error operand is known
// non-nil: a freshly made interface, the result of fmt.Errorf / errors.New,
// or a load of a package-level error variable.
func definitelyNonNilError(v ssa.Value) bool {
	switch v := v.(type) {
	case *ssa.MakeInterface:
		return true
	case *ssa.Call:
		if f := v.Call.StaticCallee(); f != nil && f.Pkg != nil {
			switch f.Pkg.Pkg.Path() + "." + f.Name() {
			case "fmt.Errorf", "errors.New":
				return true
			}
		}
	case *ssa.UnOp:
		if v.Op == token.MUL {
			if g, ok := v.X.(*ssa.Global); ok && isErrorType(g.Type().(*types.Pointer).Elem()) {
				return true
			}
		}
	}
	return false
}

// carriesData reports whether a result type can hand out a (partial) point,
// key, signature or a success flag: pointers, slices, maps, interfaces,
// arrays/structs and bool.  Plain numbers and numeric enums cannot.
func carriesData(t types.Type) bool {
	switch u := t.Underlying().(type) {
	case *types.Basic:
		return u.Kind() == types.Bool
	}
	return true
}

func isZeroConst(v ssa.Value) bool {
	c, ok := v.(*ssa.Const)
	if !ok {
		return false
	}
	if c.Value == nil {
		return true
	}
	switch c.Value.Kind() {
	case constant.Bool:
		return !constant.BoolVal(c.Value)
	case constant.Int, constant.Float:
		return constant.Sign(c.Value) == 0
	case constant.String:
		return constant.StringVal(c.Value) == ""
	}
	return false
}

// ErrStats are the counts of one CheckErr run.
type ErrStats struct {
	Functions, Tests, Returns int
}

// CheckErr runs ERR-(i) "checked then succeeded" and ERR-(ii) "no result
// escapes together with an error" over every module function whose last
// result is error (or, for (i), whose only result is bool), restricted to
// functions accepted by scope (nil = all).
//
// ERR-(i): a Return dominated by the failure edge of a recognised failure test
// must not return a nil error (resp. true).  ERR-(ii): a Return whose error
// operand is definitely non-nil, or which is dominated by a failure edge,
// returns the zero value in every other result.
func CheckErr(run *report.Run, p *load.Program, ruleI, ruleII *report.Rule, scope func(*ssa.Function) bool) ErrStats {
	var st ErrStats
	for _, fn := range p.ModuleFuncs() {
		if len(fn.Blocks) == 0 || (scope != nil && !scope(fn)) {
			continue
		}
		res := fn.Signature.Results()
		if res.Len() == 0 {
			continue
		}
		lastErr := isErrorType(res.At(res.Len() - 1).Type())
		onlyBool := res.Len() == 1 && types.Identical(res.At(0).Type(), types.Typ[types.Bool])
		if !lastErr && !onlyBool {
			continue
		}
		st.Functions++
		live := load.LiveBlocks(fn)
		name := load.FuncName(fn)
		// failure regions
		type region struct {
			head *ssa.BasicBlock
			what string
			pos  token.Pos
		}
		var regions []region
		for _, b := range fn.Blocks {
			if !live[b] || len(b.Instrs) == 0 {
				continue
			}
			ifi, ok := b.Instrs[len(b.Instrs)-1].(*ssa.If)
			if !ok {
				continue
			}
			if _, isConst := load.FoldConst(ifi.Cond); isConst {
				continue
			}
			succ, what, ok := failureEdge(ifi.Cond)
			if !ok {
				continue
			}
			st.Tests++
			head := b.Succs[succ]
			if len(head.Preds) != 1 {
				continue // the edge is not a dominator; no claim
			}
			regions = append(regions, region{head, what, ifi.Cond.Pos()})
		}
		for _, b := range fn.Blocks {
			if !live[b] || len(b.Instrs) == 0 {
				continue
			}
			ret, ok := b.Instrs[len(b.Instrs)-1].(*ssa.Return)
			if !ok {
				continue
			}
			var inRegion *region
			for i := range regions {
				if regions[i].head.Dominates(b) {
					inRegion = &regions[i]
					break
				}
			}
			st.Returns++
			pos := p.Pos(ret.Pos())
			if inRegion != nil {
				last := ret.Results[len(ret.Results)-1]
				bad := false
				if lastErr && isNilConst(last) {
					bad = true
				}
				if onlyBool {
					if c, isC := last.(*ssa.Const); isC && c.Value != nil && constant.BoolVal(c.Value) {
						bad = true
					}
				}
				if bad {
					ruleI.Fail(pos, name, fmt.Sprintf("failed check (%s, tested at %s) is followed by a return that reports success", inRegion.what, p.Pos(inRegion.pos)), nil)
				} else {
					ruleI.OK(name)
				}
			}
			if lastErr && ruleII != nil && len(ret.Results) > 1 {
				last := ret.Results[len(ret.Results)-1]
				failing := definitelyNonNilError(last) || (inRegion != nil && !isNilConst(last))
				if failing {
					okAll := true
					for i, r := range ret.Results[:len(ret.Results)-1] {
						if !carriesData(res.At(i).Type()) {
							continue // plain numbers / enums carry no key, point or signature material
						}
						if !isZeroConst(r) {
							okAll = false
							ruleII.Fail(pos, name, fmt.Sprintf("result #%d (%s) is returned non-zero together with an error", i, res.At(i).Type()), nil)
						}
					}
					if okAll {
						ruleII.OK(name)
					}
				}
			}
		}
	}
	return st
}
