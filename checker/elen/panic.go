package elen

import (
	"fmt"
	"go/constant"
	"go/token"
	"go/types"
	"sort"
	"strings"

	"golang.org/x/tools/go/ssa"

	"voicheck/load"
	"voicheck/report"
)

// PANIC: classify every explicit panic of the library.
//
//   impossible   the panic sits in the failure branch of a call to a function
//                that (as verified here) fails only when len(arg) != C, and
//                the argument passed has exactly length C
//   vector-stub  panic(errVectorNotSupported) in a body that does nothing
//                else; unreachable by the dispatch rule (E-SIB)
//   init         only reachable from package initialisation
//   documented   listed in the frozen table with the reason
//
// Anything else is a violation.  Removing a panic never is.

// lenCond is "len(param j) == C is required".
type lenCond struct {
	j int
	c int64
}

// Exact returns the exact length of v at block at, if known.
func (l *Len) Exact(v ssa.Value, at *ssa.BasicBlock) (int64, bool) {
	v = stripConv(v)
	switch x := v.(type) {
	case *ssa.Slice:
		lo := int64(0)
		if x.Low != nil {
			c, ok := constInt(x.Low)
			if !ok {
				return 0, false
			}
			lo = c
		}
		if x.High != nil {
			hi, ok := constInt(x.High)
			if !ok {
				return 0, false
			}
			return hi - lo, true
		}
		switch t := x.X.Type().Underlying().(type) {
		case *types.Pointer:
			if arr, ok := t.Elem().Underlying().(*types.Array); ok {
				return arr.Len() - lo, true
			}
		default:
			if n, ok := l.Exact(x.X, at); ok {
				return n - lo, true
			}
		}
	case *ssa.MakeSlice:
		if c, ok := constInt(x.Len); ok {
			return c, true
		}
	case *ssa.Convert:
		if c, ok := x.X.(*ssa.Const); ok && c.Value != nil && c.Value.Kind() == constant.String {
			return int64(len(constant.StringVal(c.Value))), true
		}
	case *ssa.Call:
		if callee := x.Call.StaticCallee(); callee != nil {
			if n, ok := l.exactResult(callee, 0); ok {
				return n, true
			}
		}
	case *ssa.Extract:
		if call, ok := x.Tuple.(*ssa.Call); ok {
			if callee := call.Call.StaticCallee(); callee != nil {
				if n, ok := l.exactResult(callee, x.Index); ok {
					return n, true
				}
			}
		}
	}
	for _, c := range l.condsAt(at) {
		if n, ok := exactFromCond(c, v); ok {
			return n, true
		}
	}
	return 0, false
}

// exactResult: every (non-nil) slice returned as result i of fn has the same
// known exact length.
func (l *Len) exactResult(fn *ssa.Function, i int) (int64, bool) {
	if len(fn.Blocks) == 0 || !load.IsModule(pkgOf(fn)) {
		// a few external producers with fixed sizes
		switch fn.String() {
		case "crypto/sha512.Sum512":
			return 64, true
		}
		return 0, false
	}
	if l.inProgress[fn] {
		return 0, false
	}
	l.inProgress[fn] = true
	defer delete(l.inProgress, fn)
	have := false
	var n int64
	for _, b := range fn.Blocks {
		if len(b.Instrs) == 0 {
			continue
		}
		ret, ok := b.Instrs[len(b.Instrs)-1].(*ssa.Return)
		if !ok || i >= len(ret.Results) {
			continue
		}
		if isNilConst(ret.Results[i]) {
			continue
		}
		m, ok := l.Exact(ret.Results[i], b)
		if !ok || (have && m != n) {
			return 0, false
		}
		n, have = m, true
	}
	return n, have
}

func exactFromCond(c cond, target ssa.Value) (int64, bool) {
	v, pol := c.v, c.pol
	for {
		u, ok := v.(*ssa.UnOp)
		if !ok || u.Op != token.NOT {
			break
		}
		pol = !pol
		v = u.X
	}
	b, ok := v.(*ssa.BinOp)
	if !ok {
		return 0, false
	}
	x, y := b.X, b.Y
	if _, isLen := isLenOf(y); isLen {
		x, y = y, x
	}
	lx, isLen := isLenOf(x)
	if !isLen || lx != target {
		return 0, false
	}
	cv, ok := constInt(y)
	if !ok {
		return 0, false
	}
	if (b.Op == token.EQL && pol) || (b.Op == token.NEQ && !pol) {
		return cv, true
	}
	return 0, false
}

// failsOnlyOnLen returns the set of length requirements such that fn returns
// a non-nil error ONLY IF one of them is violated; ok=false if fn can fail
// for another reason (or never fails in a recognisable way).
func (l *Len) failsOnlyOnLen(fn *ssa.Function, depth int) (reqs []lenCond, ok bool) {
	if len(fn.Blocks) == 0 || depth > 5 {
		return nil, false
	}
	res := fn.Signature.Results()
	if res.Len() == 0 || !isErrorType(res.At(res.Len()-1).Type()) {
		return nil, false
	}
	live := load.LiveBlocks(fn)
	seen := map[lenCond]bool{}
	add := func(c lenCond) {
		if !seen[c] {
			seen[c] = true
			reqs = append(reqs, c)
		}
	}
	for _, b := range fn.Blocks {
		if !live[b] || len(b.Instrs) == 0 {
			continue
		}
		ret, isRet := b.Instrs[len(b.Instrs)-1].(*ssa.Return)
		if !isRet {
			continue
		}
		last := ret.Results[len(ret.Results)-1]
		if isNilConst(last) {
			continue
		}
		explained := false
		// (a) dominated by a failed len(param) == C test
		for _, c := range l.condsAt(b) {
			if j, cv, ok := lenNeqParam(fn, c); ok {
				add(lenCond{j, cv})
				explained = true
				break
			}
		}
		if explained {
			continue
		}
		// (b) the error is the result of — or the return is in the failure
		// branch of — a call to a length-only-failing callee
		var calls []*ssa.Call
		switch e := last.(type) {
		case *ssa.Extract:
			if c, _ := e.Tuple.(*ssa.Call); c != nil {
				calls = append(calls, c)
			}
		case *ssa.Call:
			calls = append(calls, e)
		}
		for _, c := range l.condsAt(b) {
			if bo, ok := c.v.(*ssa.BinOp); ok && (bo.Op == token.NEQ) == c.pol {
				var e ssa.Value
				if isNilConst(bo.Y) {
					e = bo.X
				} else if isNilConst(bo.X) {
					e = bo.Y
				}
				if e != nil && isErrorType(e.Type()) {
					switch x := e.(type) {
					case *ssa.Extract:
						if cc, _ := x.Tuple.(*ssa.Call); cc != nil {
							calls = append(calls, cc)
						}
					case *ssa.Call:
						calls = append(calls, x)
					}
				}
			}
		}
		for _, call := range calls {
			callee := call.Call.StaticCallee()
			if callee == nil || !load.IsModule(pkgOf(callee)) {
				continue
			}
			sub, ok := l.failsOnlyOnLen(callee, depth+1)
			if !ok {
				continue
			}
			all := true
			var pend []lenCond
			for _, rc := range sub {
				if rc.j >= len(call.Call.Args) {
					all = false
					break
				}
				a := stripConv(call.Call.Args[rc.j])
				if n, ok := l.Exact(a, call.Block()); ok && n == rc.c {
					continue // cannot fail on this argument
				}
				if prm, isP := a.(*ssa.Parameter); isP {
					if j := paramIndex(fn, prm); j >= 0 {
						pend = append(pend, lenCond{j, rc.c})
						continue
					}
				}
				all = false
			}
			if all {
				for _, c := range pend {
					add(c)
				}
				explained = true
				break
			}
		}
		if explained {
			continue
		}
		return nil, false
	}
	return reqs, true
}

// lenNeqParam: c states len(param j) != C.
func lenNeqParam(fn *ssa.Function, c cond) (int, int64, bool) {
	v, pol := c.v, c.pol
	b, ok := v.(*ssa.BinOp)
	if !ok {
		return 0, 0, false
	}
	x, y := b.X, b.Y
	if _, isLen := isLenOf(y); isLen {
		x, y = y, x
	}
	lx, isLen := isLenOf(x)
	if !isLen {
		return 0, 0, false
	}
	prm, isP := lx.(*ssa.Parameter)
	if !isP {
		return 0, 0, false
	}
	cv, ok := constInt(y)
	if !ok {
		return 0, 0, false
	}
	if (b.Op == token.NEQ && pol) || (b.Op == token.EQL && !pol) {
		if j := paramIndex(fn, prm); j >= 0 {
			return j, cv, true
		}
	}
	return 0, 0, false
}

// PanicSite is one classified panic.
type PanicSite struct {
	Pos, Func, Guard, Class, Reason string
}

// DocumentedPanic is an entry of the frozen table: function (printable
// name) + guard kind.
type DocumentedPanic struct {
	Func, Guard, Reason string
}

// pathsTo returns, for a block, the alternative condition lists under which
// it is reached: one list (the dominator chain) if it has a single
// predecessor chain, or one list per predecessor for a merge block (the
// `a || b` shape).
func (l *Len) pathsTo(b *ssa.BasicBlock) [][]cond {
	if len(b.Preds) <= 1 {
		return [][]cond{l.condsAt(b)}
	}
	var out [][]cond
	for _, p := range b.Preds {
		cs := append([]cond{}, l.condsAt(p)...)
		if len(p.Instrs) > 0 {
			if ifi, ok := p.Instrs[len(p.Instrs)-1].(*ssa.If); ok && p.Succs[0] != p.Succs[1] {
				cs = append([]cond{{ifi.Cond, p.Succs[0] == b}}, cs...)
			}
		}
		out = append(out, cs)
	}
	return out
}

func kindOfCond(c cond) (kind string, errCall *ssa.Call) {
	v := c.v
	for {
		u, ok := v.(*ssa.UnOp)
		if !ok || u.Op != token.NOT {
			break
		}
		v = u.X
	}
	bo, ok := v.(*ssa.BinOp)
	if !ok {
		switch x := v.(type) {
		case *ssa.Call:
			return "call:" + calleeName(x), nil
		case *ssa.Extract:
			return "call:" + calleeName(x), nil
		case *ssa.UnOp:
			return "state", nil
		}
		return "other", nil
	}
	x, y := bo.X, bo.Y
	if isNilConst(x) {
		x, y = y, x
	}
	if isNilConst(y) && isErrorType(x.Type()) {
		var call *ssa.Call
		switch e := x.(type) {
		case *ssa.Call:
			call = e
		case *ssa.Extract:
			call, _ = e.Tuple.(*ssa.Call)
		}
		return "err:" + calleeName(x), call
	}
	_, lx := isLenOf(unconv(x))
	_, ly := isLenOf(unconv(y))
	switch {
	case lx && ly:
		return "len-rel", nil
	case lx || ly:
		return "len", nil
	}
	if traceParam(x) || traceParam(y) {
		return "param", nil
	}
	return "state", nil
}

func unconv(v ssa.Value) ssa.Value {
	for {
		c, ok := v.(*ssa.Convert)
		if !ok {
			return v
		}
		v = c.X
	}
}

// guardKind abstracts the innermost condition(s) under which a panic block
// is reached.
func (l *Len) guardKind(fn *ssa.Function, b *ssa.BasicBlock) (kind string, errCall *ssa.Call) {
	paths := l.pathsTo(b)
	kinds := map[string]bool{}
	for _, cs := range paths {
		if len(cs) == 0 {
			kinds["always"] = true
			continue
		}
		k, ec := kindOfCond(cs[0])
		kinds[k] = true
		if len(paths) == 1 {
			errCall = ec
		}
	}
	var ks []string
	for k := range kinds {
		ks = append(ks, k)
	}
	sort.Strings(ks)
	return strings.Join(ks, "+"), errCall
}

// condFalseAt: is condition c (over the parameters of fn) definitely false
// when fn is entered from call site `site` with the given arguments?
// Recognised: len(param j) ⋈ C with an argument of exactly known length, and
// param j ⋈ C with a constant argument.
func (l *Len) condFalseAt(fn *ssa.Function, c cond, args []ssa.Value, site *ssa.BasicBlock) bool {
	v, pol := c.v, c.pol
	for {
		u, ok := v.(*ssa.UnOp)
		if !ok || u.Op != token.NOT {
			break
		}
		pol = !pol
		v = u.X
	}
	bo, ok := v.(*ssa.BinOp)
	if !ok {
		return false
	}
	x, y, op := unconv(bo.X), unconv(bo.Y), bo.Op
	if _, isC := constInt(x); isC {
		x, y = y, x
		switch op {
		case token.LSS:
			op = token.GTR
		case token.GTR:
			op = token.LSS
		case token.LEQ:
			op = token.GEQ
		case token.GEQ:
			op = token.LEQ
		}
	}
	cv, ok := constInt(y)
	if !ok {
		return false
	}
	var actual int64
	if lx, isLen := isLenOf(x); isLen {
		prm, isP := lx.(*ssa.Parameter)
		if !isP {
			return false
		}
		j := paramIndex(fn, prm)
		if j < 0 || j >= len(args) {
			return false
		}
		n, ok := l.Exact(args[j], site)
		if !ok {
			return false
		}
		actual = n
	} else if prm, isP := x.(*ssa.Parameter); isP {
		j := paramIndex(fn, prm)
		if j < 0 || j >= len(args) {
			return false
		}
		n, ok := constInt(args[j])
		if !ok {
			return false
		}
		actual = n
	} else {
		return false
	}
	var holds bool
	switch op {
	case token.EQL:
		holds = actual == cv
	case token.NEQ:
		holds = actual != cv
	case token.LSS:
		holds = actual < cv
	case token.LEQ:
		holds = actual <= cv
	case token.GTR:
		holds = actual > cv
	case token.GEQ:
		holds = actual >= cv
	default:
		return false
	}
	return holds != pol
}

// unreachableFromCallers: the panic block b of fn cannot be reached from any
// of fn's call sites in the module because each site falsifies a condition on
// every path to b.  Returns the number of call sites checked.
func (l *Len) unreachableFromCallers(fn *ssa.Function, b *ssa.BasicBlock) (int, bool) {
	node := l.P.CallGraph().Nodes[fn]
	if node == nil || len(node.In) == 0 {
		return 0, false
	}
	paths := l.pathsTo(b)
	n := 0
	for _, e := range node.In {
		caller := e.Caller.Func
		if caller == nil || e.Site == nil || !load.IsModule(pkgOf(caller)) {
			return 0, false
		}
		if !load.LiveBlocks(caller)[e.Site.Block()] {
			continue
		}
		args := e.Site.Common().Args
		if e.Site.Common().IsInvoke() {
			return 0, false
		}
		for _, cs := range paths {
			killed := false
			for _, c := range cs {
				if l.condFalseAt(fn, c, args, e.Site.Block()) {
					killed = true
					break
				}
			}
			if !killed {
				return 0, false
			}
		}
		n++
	}
	return n, n > 0
}

// traceParam: value derives from a scalar parameter through arithmetic.
func traceParam(v ssa.Value) bool {
	switch x := v.(type) {
	case *ssa.Parameter:
		return true
	case *ssa.BinOp:
		return traceParam(x.X) || traceParam(x.Y)
	case *ssa.Convert:
		return traceParam(x.X)
	case *ssa.ChangeType:
		return traceParam(x.X)
	}
	return false
}

// CheckPanics classifies every explicit panic in live module code.
func CheckPanics(run *report.Run, p *load.Program, rule *report.Rule, table []DocumentedPanic, vectorErr types.Object, ent *Entries) []PanicSite {
	l := NewLen(p)
	doc := map[string]string{}
	used := map[string]bool{}
	for _, d := range table {
		doc[d.Func+"|"+d.Guard] = d.Reason
	}
	initOnly := initOnlyFuncs(p)
	var sites []PanicSite
	for _, fn := range p.ModuleFuncs() {
		if len(fn.Blocks) == 0 {
			continue
		}
		live := load.LiveBlocks(fn)
		name := load.FuncName(fn)
		for _, b := range fn.Blocks {
			if !live[b] || len(b.Instrs) == 0 {
				continue
			}
			pn, ok := b.Instrs[len(b.Instrs)-1].(*ssa.Panic)
			if !ok {
				continue
			}
			guard, errCall := l.guardKind(fn, b)
			site := PanicSite{Pos: p.Pos(pn.Pos()), Func: name, Guard: guard}
			switch {
			case initOnly[fn]:
				site.Class, site.Reason = "init", "only reachable from package initialisation"
			case vectorErr != nil && panicsWithGlobal(pn, vectorErr):
				site.Class, site.Reason = "vector-stub", "stub of the vector back end; unreachable by the dispatch rule"
			}
			if site.Class == "" && errCall != nil {
				if callee := errCall.Call.StaticCallee(); callee != nil && load.IsModule(pkgOf(callee)) {
					if reqs, ok := l.failsOnlyOnLen(callee, 0); ok {
						all := true
						var why []string
						for _, rc := range reqs {
							if rc.j >= len(errCall.Call.Args) {
								all = false
								break
							}
							n, ok := l.Exact(errCall.Call.Args[rc.j], errCall.Block())
							if !ok || n != rc.c {
								all = false
								break
							}
							why = append(why, fmt.Sprintf("arg#%d has exact length %d", rc.j, n))
						}
						if all {
							site.Class = "impossible"
							site.Reason = fmt.Sprintf("%s fails only on a wrong length; %s", load.FuncName(callee), strings.Join(why, ", "))
						}
					}
				}
			}
			if site.Class == "" && !ent.IsPublicEntry(fn) {
				if n, ok := l.unreachableFromCallers(fn, b); ok {
					site.Class = "impossible"
					site.Reason = fmt.Sprintf("internal precondition: each of the %d call sites passes a constant / exact-length argument that falsifies the guard", n)
				}
			}
			if site.Class == "" {
				if r, ok := doc[name+"|"+guard]; ok {
					site.Class, site.Reason = "documented", r
					used[name+"|"+guard] = true
				}
			}
			if site.Class == "" && fn.Object() != nil && !fn.Object().Exported() && fn.Signature.Recv() == nil {
				// an unexported helper extracted from documented entry points: every caller is an entry
				// whose panic with the SAME guard kind is documented (the helper panics on their behalf)
				if node := p.CallGraph().Nodes[fn]; node != nil && len(node.In) > 0 {
					all, reason := true, ""
					seen := map[string]bool{}
					for _, e := range node.In {
						cn := load.FuncName(e.Caller.Func)
						r, ok := doc[cn+"|"+guard]
						if !ok {
							all = false
							break
						}
						if !seen[cn] {
							seen[cn] = true
							used[cn+"|"+guard] = true
							reason = r
						}
					}
					if all {
						site.Class, site.Reason = "documented", "helper of documented entry points only: "+reason
					}
				}
			}
			if site.Class == "" {
				rule.Fail(site.Pos, name, fmt.Sprintf("explicit panic (guard kind %q) is neither provably impossible, nor a vector stub, nor init-time, nor in the documented-panic table", guard), nil)
			} else {
				rule.OK(name)
			}
			sites = append(sites, site)
		}
	}
	sort.Slice(sites, func(i, j int) bool { return sites[i].Pos < sites[j].Pos })
	return sites
}

func panicsWithGlobal(pn *ssa.Panic, obj types.Object) bool {
	v := pn.X
	for {
		switch x := v.(type) {
		case *ssa.MakeInterface:
			v = x.X
			continue
		case *ssa.ChangeInterface:
			v = x.X
			continue
		case *ssa.UnOp:
			if g, ok := x.X.(*ssa.Global); ok && x.Op == token.MUL {
				return g.Object() == obj
			}
		}
		return false
	}
}

// initOnlyFuncs: functions reachable only from package initialisers.
func initOnlyFuncs(p *load.Program) map[*ssa.Function]bool {
	cg := p.CallGraph()
	out := map[*ssa.Function]bool{}
	funcs := p.ModuleFuncs()
	isInit := func(fn *ssa.Function) bool {
		return fn.Name() == "init" || strings.HasPrefix(fn.Name(), "init#") || (fn.Parent() != nil && (fn.Parent().Name() == "init" || strings.HasPrefix(fn.Parent().Name(), "init#")))
	}
	for _, fn := range funcs {
		if isInit(fn) {
			out[fn] = true
		}
	}
	for changed := true; changed; {
		changed = false
		for _, fn := range funcs {
			if out[fn] || fn.Parent() != nil {
				continue
			}
			if obj, ok := fn.Object().(*types.Func); ok && obj.Exported() {
				continue
			}
			n := cg.Nodes[fn]
			if n == nil || len(n.In) == 0 {
				continue
			}
			all := true
			for _, e := range n.In {
				if !out[e.Caller.Func] {
					all = false
					break
				}
			}
			if all {
				out[fn] = true
				changed = true
			}
		}
	}
	return out
}
