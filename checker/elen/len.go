package elen

import (
	"fmt"
	"go/constant"
	"go/token"
	"go/types"
	"sort"
	"strings"

	"golang.org/x/tools/go/ssa"

	"voicheck/load"
	"voicheck/report"
)

// LEN: lower bounds on slice lengths from dominating tests, slicing
// arithmetic and callee summaries; obligations at every constant-bound
// access on a slice; preconditions propagated to callers; a definite gap at
// an exported entry of a public package is a violation.

const inf = int64(1) << 40

// cond is a branch condition known to hold (pol) on entry of a block.
type cond struct {
	v   ssa.Value
	pol bool
}

// Len is the LEN analysis of one program.
type Len struct {
	P *load.Program

	// successLen[f][j]: lower bound on len(param j) whenever f returns
	// success (true / nil error); resultLen[f][i]: lower bound on the length
	// of slice result i.
	successLen map[*ssa.Function]map[int]int64
	resultLen  map[*ssa.Function]map[int]int64
	inProgress map[*ssa.Function]bool

	conds map[*ssa.BasicBlock][]cond
}

// NewLen creates the analysis.
func NewLen(p *load.Program) *Len {
	return &Len{P: p, successLen: map[*ssa.Function]map[int]int64{}, resultLen: map[*ssa.Function]map[int]int64{},
		inProgress: map[*ssa.Function]bool{}, conds: map[*ssa.BasicBlock][]cond{}}
}

// condsAt returns the conditions that hold on entry of b (from the
// dominator chain; an edge counts only if its target has a single predecessor).
func (l *Len) condsAt(b *ssa.BasicBlock) []cond {
	if cs, ok := l.conds[b]; ok {
		return cs
	}
	var cs []cond
	for x := b; x != nil; x = x.Idom() {
		d := x.Idom()
		if d == nil || len(x.Preds) != 1 || x.Preds[0] != d || len(d.Instrs) == 0 {
			continue
		}
		ifi, ok := d.Instrs[len(d.Instrs)-1].(*ssa.If)
		if !ok {
			continue
		}
		if d.Succs[0] == d.Succs[1] {
			continue
		}
		cs = append(cs, cond{ifi.Cond, d.Succs[0] == x})
	}
	l.conds[b] = cs
	return cs
}

func stripConv(v ssa.Value) ssa.Value {
	for {
		switch x := v.(type) {
		case *ssa.ChangeType:
			v = x.X
		case *ssa.Convert:
			// []byte(namedSlice) and back; not string conversions
			if _, ok := x.X.Type().Underlying().(*types.Slice); ok {
				if _, ok2 := x.Type().Underlying().(*types.Slice); ok2 {
					v = x.X
					continue
				}
			}
			return v
		default:
			return v
		}
	}
}

func isLenOf(v ssa.Value) (ssa.Value, bool) {
	call, ok := v.(*ssa.Call)
	if !ok {
		return nil, false
	}
	bi, ok := call.Call.Value.(*ssa.Builtin)
	if !ok || bi.Name() != "len" {
		return nil, false
	}
	return stripConv(call.Call.Args[0]), true
}

func constInt(v ssa.Value) (int64, bool) {
	c, ok := load.FoldConst(v)
	if !ok || c.Kind() != constant.Int {
		return 0, false
	}
	return constant.Int64Val(c)
}

// factFromCond: lower bound on len(target) implied by c (0 if none).
func (l *Len) factFromCond(c cond, target ssa.Value) int64 {
	v, pol := c.v, c.pol
	for {
		u, ok := v.(*ssa.UnOp)
		if !ok || u.Op != token.NOT {
			break
		}
		pol = !pol
		v = u.X
	}
	switch b := v.(type) {
	case *ssa.BinOp:
		x, y, op := b.X, b.Y, b.Op
		// normalise so that len(...) is on the left
		if _, isLen := isLenOf(y); isLen {
			x, y = y, x
			switch op {
			case token.LSS:
				op = token.GTR
			case token.GTR:
				op = token.LSS
			case token.LEQ:
				op = token.GEQ
			case token.GEQ:
				op = token.LEQ
			}
		}
		if lx, isLen := isLenOf(x); isLen && lx == target {
			cv, ok := constInt(y)
			if !ok {
				// len(a) ⋈ len(b) or other relational test: no constant fact
				return 0
			}
			if !pol {
				switch op {
				case token.EQL:
					op = token.NEQ
				case token.NEQ:
					op = token.EQL
				case token.LSS:
					op = token.GEQ
				case token.GEQ:
					op = token.LSS
				case token.GTR:
					op = token.LEQ
				case token.LEQ:
					op = token.GTR
				}
			}
			switch op {
			case token.EQL, token.GEQ:
				return cv
			case token.GTR:
				return cv + 1
			}
			return 0
		}
		// err == nil / err != nil on a call result, ok == true ...
		if isNilConst(y) || isNilConst(x) {
			e := x
			if isNilConst(x) {
				e = y
			}
			if !isErrorType(e.Type()) {
				return 0
			}
			success := (op == token.EQL) == pol
			if !success {
				return 0
			}
			return l.factFromSuccess(e, target)
		}
	case *ssa.Call, *ssa.Extract:
		// `if f(x) {` : success when pol
		if types.Identical(v.Type(), types.Typ[types.Bool]) && pol {
			return l.factFromSuccess(v, target)
		}
	}
	return 0
}

// factFromSuccess: v is the (bool or error) outcome of a call known to have
// succeeded; what does that say about len(target)?
func (l *Len) factFromSuccess(v ssa.Value, target ssa.Value) int64 {
	var call *ssa.Call
	switch x := v.(type) {
	case *ssa.Call:
		call = x
	case *ssa.Extract:
		call, _ = x.Tuple.(*ssa.Call)
		if call != nil {
			// must be the last result (error) or a bool result
			n := call.Call.Signature().Results().Len()
			if x.Index != n-1 && !types.Identical(x.Type(), types.Typ[types.Bool]) {
				return 0
			}
		}
	}
	if call == nil {
		return 0
	}
	callee := call.Call.StaticCallee()
	if callee == nil || len(callee.Blocks) == 0 || !load.IsModule(pkgOf(callee)) {
		return 0
	}
	sum := l.SuccessLen(callee)
	best := int64(0)
	for j, a := range call.Call.Args {
		if stripConv(a) == target {
			if sum[j] > best {
				best = sum[j]
			}
		}
	}
	return best
}

func pkgOf(fn *ssa.Function) *types.Package {
	if fn.Pkg != nil {
		return fn.Pkg.Pkg
	}
	if fn.Parent() != nil {
		return pkgOf(fn.Parent())
	}
	if o := fn.Object(); o != nil {
		return o.Pkg()
	}
	return nil
}

// LB returns a lower bound on len(v) at the entry of block at.
func (l *Len) LB(v ssa.Value, at *ssa.BasicBlock) int64 {
	return l.lb(v, at, map[ssa.Value]bool{})
}

func (l *Len) lb(v ssa.Value, at *ssa.BasicBlock, seen map[ssa.Value]bool) int64 {
	v = stripConv(v)
	if seen[v] {
		return inf // cycle through a phi: neutral element of min
	}
	seen[v] = true
	defer delete(seen, v)
	best := int64(0)
	for _, c := range l.condsAt(at) {
		if f := l.factFromCond(c, v); f > best {
			best = f
		}
	}
	var structural int64
	switch x := v.(type) {
	case *ssa.Slice:
		lo := int64(0)
		if x.Low != nil {
			c, ok := constInt(x.Low)
			if !ok {
				// x[i*8:] with a bounded counter: the upper bound of the low index
				c, ok = l.idxUpper(x.Low, at, 0)
				if !ok || c < 0 || x.High != nil {
					break
				}
			}
			lo = c
		}
		if x.High != nil {
			if hi, ok := constInt(x.High); ok {
				structural = hi - lo
			}
			break
		}
		switch t := x.X.Type().Underlying().(type) {
		case *types.Pointer: // *[N]T
			if arr, ok := t.Elem().Underlying().(*types.Array); ok {
				structural = arr.Len() - lo
			}
		case *types.Slice, *types.Basic:
			inner := l.lb(x.X, at, seen)
			if inner >= inf {
				structural = inf
			} else {
				structural = inner - lo
			}
		}
	case *ssa.MakeSlice:
		if c, ok := constInt(x.Len); ok {
			structural = c
		}
	case *ssa.Phi:
		structural = inf
		for i, e := range x.Edges {
			// facts valid at the end of the predecessor
			pred := x.Block().Preds[i]
			if b := l.lb(e, pred, seen); b < structural {
				structural = b
			}
		}
		if structural >= inf {
			structural = 0
		}
	case *ssa.Const:
		if x.Value != nil && x.Value.Kind() == constant.String {
			structural = int64(len(constant.StringVal(x.Value)))
		}
	case *ssa.Convert:
		// []byte(string const)
		if c, ok := x.X.(*ssa.Const); ok && c.Value != nil && c.Value.Kind() == constant.String {
			structural = int64(len(constant.StringVal(c.Value)))
		}
	case *ssa.Call:
		if callee := x.Call.StaticCallee(); callee != nil && len(callee.Blocks) > 0 && load.IsModule(pkgOf(callee)) {
			structural = l.ResultLen(callee)[0]
		} else if bi, ok := x.Call.Value.(*ssa.Builtin); ok && bi.Name() == "append" {
			a := l.lb(x.Call.Args[0], at, seen)
			if a < inf {
				structural = a
			}
		}
	case *ssa.Extract:
		if call, ok := x.Tuple.(*ssa.Call); ok {
			if callee := call.Call.StaticCallee(); callee != nil && len(callee.Blocks) > 0 && load.IsModule(pkgOf(callee)) {
				structural = l.ResultLen(callee)[x.Index]
			}
		}
	}
	if structural > best {
		best = structural
	}
	if best < 0 {
		best = 0
	}
	return best
}

// SuccessLen computes, per parameter index, a lower bound on its length
// that holds whenever fn returns success.
func (l *Len) SuccessLen(fn *ssa.Function) map[int]int64 {
	if s, ok := l.successLen[fn]; ok {
		return s
	}
	out := map[int]int64{}
	l.successLen[fn] = out // recursion guard: empty summary
	res := fn.Signature.Results()
	if res.Len() == 0 {
		return out
	}
	lastErr := isErrorType(res.At(res.Len() - 1).Type())
	boolIdx := -1
	for i := 0; i < res.Len(); i++ {
		if types.Identical(res.At(i).Type(), types.Typ[types.Bool]) {
			boolIdx = i
		}
	}
	if !lastErr && boolIdx < 0 {
		return out
	}
	live := load.LiveBlocks(fn)
	first := true
	acc := map[int]int64{}
	for _, b := range fn.Blocks {
		if !live[b] || len(b.Instrs) == 0 {
			continue
		}
		ret, ok := b.Instrs[len(b.Instrs)-1].(*ssa.Return)
		if !ok {
			continue
		}
		// is this return a definite failure?
		if lastErr {
			last := ret.Results[len(ret.Results)-1]
			if definitelyNonNilError(last) {
				continue
			}
			if !isNilConst(last) && l.inFailureRegionOf(last, b) {
				continue
			}
		} else {
			r := ret.Results[boolIdx]
			if c, isC := r.(*ssa.Const); isC && c.Value != nil && !constant.BoolVal(c.Value) {
				continue
			}
		}
		cur := map[int]int64{}
		for j, prm := range fn.Params {
			switch prm.Type().Underlying().(type) {
			case *types.Slice:
				cur[j] = l.LB(prm, b)
			case *types.Basic:
				if prm.Type().Underlying().(*types.Basic).Info()&types.IsString != 0 {
					cur[j] = l.LB(prm, b)
				}
			}
		}
		if first {
			acc = cur
			first = false
		} else {
			for j := range acc {
				if cur[j] < acc[j] {
					acc[j] = cur[j]
				}
			}
		}
	}
	for j, v := range acc {
		if v > 0 {
			out[j] = v
		}
	}
	return out
}

// inFailureRegionOf: block b is dominated by the non-nil edge of a test of
// error value e.
func (l *Len) inFailureRegionOf(e ssa.Value, b *ssa.BasicBlock) bool {
	for _, c := range l.condsAt(b) {
		bo, ok := c.v.(*ssa.BinOp)
		if !ok {
			continue
		}
		var other ssa.Value
		if isNilConst(bo.Y) {
			other = bo.X
		} else if isNilConst(bo.X) {
			other = bo.Y
		} else {
			continue
		}
		if other != e {
			continue
		}
		if (bo.Op == token.NEQ) == c.pol {
			return true
		}
	}
	return false
}

// ResultLen computes a lower bound on the length of each slice result.
func (l *Len) ResultLen(fn *ssa.Function) map[int]int64 {
	if s, ok := l.resultLen[fn]; ok {
		return s
	}
	out := map[int]int64{}
	l.resultLen[fn] = out
	res := fn.Signature.Results()
	live := load.LiveBlocks(fn)
	first := true
	acc := map[int]int64{}
	for _, b := range fn.Blocks {
		if !live[b] || len(b.Instrs) == 0 {
			continue
		}
		ret, ok := b.Instrs[len(b.Instrs)-1].(*ssa.Return)
		if !ok {
			continue
		}
		cur := map[int]int64{}
		for i := 0; i < res.Len(); i++ {
			if _, ok := res.At(i).Type().Underlying().(*types.Slice); ok {
				if isNilConst(ret.Results[i]) && res.Len() > 1 {
					cur[i] = inf // failure return (nil slice with an error): not a data result
					continue
				}
				cur[i] = l.LB(ret.Results[i], b)
			}
		}
		if first {
			acc = cur
			first = false
		} else {
			for i := range acc {
				if cur[i] < acc[i] {
					acc[i] = cur[i]
				}
			}
		}
	}
	for i, v := range acc {
		if v > 0 && v < inf {
			out[i] = v
		}
	}
	return out
}

// ---------------------------------------------------------------------------

// access is one obligation "len(v) >= need at instr".
type access struct {
	fn    *ssa.Function
	instr ssa.Instruction
	v     ssa.Value
	need  int64
	what  string
}

// external callees with a length precondition on an argument.
var externalNeeds = map[string]struct {
	arg  int
	need int64
}{
	"(encoding/binary.littleEndian).Uint16":    {0, 2},
	"(encoding/binary.littleEndian).Uint32":    {0, 4},
	"(encoding/binary.littleEndian).Uint64":    {0, 8},
	"(encoding/binary.littleEndian).PutUint16": {0, 2},
	"(encoding/binary.littleEndian).PutUint32": {0, 4},
	"(encoding/binary.littleEndian).PutUint64": {0, 8},
	"(encoding/binary.bigEndian).Uint16":       {0, 2},
	"(encoding/binary.bigEndian).Uint32":       {0, 4},
	"(encoding/binary.bigEndian).Uint64":       {0, 8},
	"(encoding/binary.bigEndian).PutUint16":    {0, 2},
	"(encoding/binary.bigEndian).PutUint32":    {0, 4},
	"(encoding/binary.bigEndian).PutUint64":    {0, 8},
}

// LenResult is the outcome of CheckLen.
type LenResult struct {
	Accesses, ConstAccesses, Discharged, Undecided int
	Preconditions                                  map[string]string
	UndecidedList                                  []string
}

// root traces a slice value to the parameter it derives from by
// constant-low slicing; off is the accumulated offset.
func root(v ssa.Value) (prm *ssa.Parameter, off int64, ok bool) {
	v = stripConv(v)
	switch x := v.(type) {
	case *ssa.Parameter:
		return x, 0, true
	case *ssa.Slice:
		if x.High != nil {
			return nil, 0, false
		}
		lo := int64(0)
		if x.Low != nil {
			c, isC := constInt(x.Low)
			if !isC {
				return nil, 0, false
			}
			lo = c
		}
		switch x.X.Type().Underlying().(type) {
		case *types.Slice, *types.Basic:
			p, o, ok := root(x.X)
			return p, o + lo, ok
		}
	}
	return nil, 0, false
}

func paramIndex(fn *ssa.Function, prm *ssa.Parameter) int {
	for i, q := range fn.Params {
		if q == prm {
			return i
		}
	}
	return -1
}

// idxUpper returns an upper bound on an index value at block at, if one is
// derivable: constants, dominating `i < C` / `i <= C` tests, loop counters
// that only decrease from a constant, and affine combinations thereof.
func (l *Len) idxUpper(v ssa.Value, at *ssa.BasicBlock, depth int) (int64, bool) {
	if c, ok := constInt(v); ok {
		return c, true
	}
	if depth > 6 {
		return 0, false
	}
	best, have := int64(0), false
	upd := func(b int64) {
		if !have || b < best {
			best, have = b, true
		}
	}
	for _, c := range l.condsAt(at) {
		cv, pol := c.v, c.pol
		b, ok := cv.(*ssa.BinOp)
		if !ok {
			continue
		}
		x, y, op := b.X, b.Y, b.Op
		if y == v {
			x, y = y, x
			switch op {
			case token.LSS:
				op = token.GTR
			case token.GTR:
				op = token.LSS
			case token.LEQ:
				op = token.GEQ
			case token.GEQ:
				op = token.LEQ
			}
		}
		if x != v {
			continue
		}
		k, ok := constInt(y)
		if !ok {
			continue
		}
		if !pol {
			switch op {
			case token.LSS:
				op = token.GEQ
			case token.GEQ:
				op = token.LSS
			case token.GTR:
				op = token.LEQ
			case token.LEQ:
				op = token.GTR
			case token.EQL:
				op = token.NEQ
			case token.NEQ:
				op = token.EQL
			}
		}
		switch op {
		case token.LSS:
			upd(k - 1)
		case token.LEQ, token.EQL:
			upd(k)
		}
	}
	switch x := v.(type) {
	case *ssa.Phi:
		// counter that starts at a constant and only decreases
		if len(x.Edges) == 2 {
			for i := 0; i < 2; i++ {
				if init, ok := constInt(x.Edges[i]); ok {
					if st, ok := x.Edges[1-i].(*ssa.BinOp); ok {
						if (st.Op == token.SUB && st.X == x) || (st.Op == token.ADD && st.X == x && isNegConst(st.Y)) {
							if _, ok := constInt(st.Y); ok {
								upd(init)
							}
						}
					}
				}
			}
		}
	case *ssa.BinOp:
		a, okA := l.idxUpper(x.X, at, depth+1)
		b, okB := l.idxUpper(x.Y, at, depth+1)
		if okA && okB && a >= 0 && b >= 0 {
			switch x.Op {
			case token.ADD:
				upd(a + b)
			case token.MUL:
				upd(a * b)
			case token.SHL:
				if b < 32 {
					upd(a << uint(b))
				}
			}
		}
		if x.Op == token.AND {
			if okB && b >= 0 {
				upd(b)
			} else if okA && a >= 0 {
				upd(a)
			}
		}
		if x.Op == token.SHR && okA && a >= 0 {
			if s, ok := constInt(x.Y); ok && s >= 0 && s < 63 {
				upd(a >> uint(s))
			}
		}
		if x.Op == token.SUB && okA {
			if s, ok := constInt(x.Y); ok && s >= 0 {
				upd(a - s)
			}
		}
	case *ssa.Convert:
		if a, ok := l.idxUpper(x.X, at, depth+1); ok && a >= 0 {
			upd(a)
		}
	}
	return best, have
}

func isNegConst(v ssa.Value) bool {
	c, ok := constInt(v)
	return ok && c < 0
}

// collect enumerates the obligations of fn.
func (l *Len) collect(fn *ssa.Function, res *LenResult) []access {
	var out []access
	live := load.LiveBlocks(fn)
	name := load.FuncName(fn)
	undec := func(instr ssa.Instruction, why string) {
		res.Undecided++
		res.UndecidedList = append(res.UndecidedList, fmt.Sprintf("%s %s: %s", l.P.Pos(instr.Pos()), name, why))
	}
	sliceLike := func(t types.Type) bool {
		switch u := t.Underlying().(type) {
		case *types.Slice:
			return true
		case *types.Basic:
			return u.Info()&types.IsString != 0
		}
		return false
	}
	for _, b := range fn.Blocks {
		if !live[b] {
			continue
		}
		for _, in := range b.Instrs {
			switch x := in.(type) {
			case *ssa.IndexAddr:
				if !sliceLike(x.X.Type()) {
					continue
				}
				res.Accesses++
				if ub, ok := l.idxUpper(x.Index, b, 0); ok {
					out = append(out, access{fn, in, x.X, ub + 1, fmt.Sprintf("index ≤ %d", ub)})
				} else if l.indexBoundedByLen(x.Index, x.X, b) {
					res.Discharged++
				} else {
					undec(in, "index with a relational / data-dependent bound")
				}
			case *ssa.Index:
				if !sliceLike(x.X.Type()) {
					continue
				}
				res.Accesses++
				if ub, ok := l.idxUpper(x.Index, b, 0); ok {
					out = append(out, access{fn, in, x.X, ub + 1, fmt.Sprintf("index ≤ %d", ub)})
				} else if l.indexBoundedByLen(x.Index, x.X, b) {
					res.Discharged++
				} else {
					undec(in, "string index with a relational bound")
				}
			case *ssa.Slice:
				if !sliceLike(x.X.Type()) {
					continue // slicing an array: bounds are checked against a constant length
				}
				res.Accesses++
				need := int64(0)
				decided := true
				for _, bd := range []ssa.Value{x.Low, x.High} {
					if bd == nil {
						continue
					}
					if ub, ok := l.idxUpper(bd, b, 0); ok {
						if ub > need {
							need = ub
						}
					} else if lx, isLen := isLenOf(bd); isLen && lx == stripConv(x.X) {
						// x[a:len(x)]
					} else if l.boundLeLen(bd, x.X, b) {
					} else {
						decided = false
					}
				}
				if !decided {
					undec(in, "slice bound with a relational / data-dependent value")
					continue
				}
				if need == 0 {
					res.Discharged++
					continue
				}
				out = append(out, access{fn, in, x.X, need, fmt.Sprintf("slice bound ≤ %d", need)})
			case *ssa.SliceToArrayPointer:
				res.Accesses++
				n := x.Type().Underlying().(*types.Pointer).Elem().Underlying().(*types.Array).Len()
				out = append(out, access{fn, in, x.X, n, fmt.Sprintf("conversion to *[%d]", n)})
			case *ssa.Call:
				callee := x.Call.StaticCallee()
				if callee == nil {
					continue
				}
				if en, ok := externalNeeds[callee.String()]; ok && en.arg < len(x.Call.Args)-0 {
					// method value receivers: args[0] is the receiver for bound methods
					args := x.Call.Args
					if callee.Signature.Recv() != nil {
						args = args[1:]
					}
					if en.arg < len(args) {
						res.Accesses++
						out = append(out, access{fn, in, args[en.arg], en.need, callee.Name()})
					}
				}
			}
		}
	}
	return out
}

// indexBoundedByLen: idx < len(x) holds at b by a dominating test (range
// loops and `for i := 0; i < len(x); i++`).
func (l *Len) indexBoundedByLen(idx ssa.Value, x ssa.Value, b *ssa.BasicBlock) bool {
	x = stripConv(x)
	for _, c := range l.condsAt(b) {
		bo, ok := c.v.(*ssa.BinOp)
		if !ok {
			continue
		}
		if bo.X == idx && c.pol && bo.Op == token.LSS {
			if lx, isLen := isLenOf(bo.Y); isLen && lx == x {
				return true
			}
		}
		if bo.Y == idx && c.pol && bo.Op == token.GTR {
			if lx, isLen := isLenOf(bo.X); isLen && lx == x {
				return true
			}
		}
	}
	// range loops over x: idx is the rangeindex counter t = phi+1 tested against len(x)
	return false
}

// boundLeLen: bd <= len(x) by a dominating test.
func (l *Len) boundLeLen(bd ssa.Value, x ssa.Value, b *ssa.BasicBlock) bool {
	x = stripConv(x)
	for _, c := range l.condsAt(b) {
		bo, ok := c.v.(*ssa.BinOp)
		if !ok {
			continue
		}
		if lx, isLen := isLenOf(bo.Y); isLen && lx == x && bo.X == bd {
			if (c.pol && (bo.Op == token.LSS || bo.Op == token.LEQ)) || (!c.pol && bo.Op == token.GTR) {
				return true
			}
		}
		if lx, isLen := isLenOf(bo.X); isLen && lx == x && bo.Y == bd {
			if (c.pol && (bo.Op == token.GTR || bo.Op == token.GEQ)) || (!c.pol && bo.Op == token.LSS) {
				return true
			}
		}
	}
	return false
}

// CheckLen runs the LEN analysis.  isEntry decides whether a function is an
// exported entry of a public package (its own obligations must be discharged
// by itself); documented lists preconditions that are documented panics.
func CheckLen(run *report.Run, p *load.Program, rule *report.Rule, isEntry func(*ssa.Function) bool, documented map[string]string) *LenResult {
	l := NewLen(p)
	res := &LenResult{Preconditions: map[string]string{}}
	type key struct {
		fn *ssa.Function
		j  int
	}
	need := map[key]int64{}
	needWhy := map[key]string{}
	funcs := p.ModuleFuncs()

	// local obligations
	for _, fn := range funcs {
		if len(fn.Blocks) == 0 {
			continue
		}
		for _, a := range l.collect(fn, res) {
			res.ConstAccesses++
			have := l.LB(a.v, a.instr.Block())
			if have >= a.need {
				res.Discharged++
				rule.OK(load.FuncName(fn))
				continue
			}
			prm, off, ok := root(a.v)
			if !ok {
				// not derived from a parameter by constant slicing: e.g. a
				// struct field or the result of an external call
				res.Undecided++
				res.UndecidedList = append(res.UndecidedList, fmt.Sprintf("%s %s: %s on a slice that is not parameter-derived (have ≥%d, need ≥%d)", p.Pos(a.instr.Pos()), load.FuncName(fn), a.what, have, a.need))
				continue
			}
			j := paramIndex(fn, prm)
			if j < 0 {
				// parameter of an enclosing function (closure free variable)
				res.Undecided++
				res.UndecidedList = append(res.UndecidedList, fmt.Sprintf("%s %s: access through a captured variable", p.Pos(a.instr.Pos()), load.FuncName(fn)))
				continue
			}
			k := key{fn, j}
			if a.need+off > need[k] {
				need[k] = a.need + off
				needWhy[k] = fmt.Sprintf("%s (%s)", p.Pos(a.instr.Pos()), a.what)
			}
		}
	}

	// propagate preconditions to callers
	cg := p.CallGraph()
	for iter := 0; iter < 12; iter++ {
		changed := false
		keys := make([]key, 0, len(need))
		for k := range need {
			keys = append(keys, k)
		}
		sort.Slice(keys, func(i, j int) bool {
			if keys[i].fn.String() != keys[j].fn.String() {
				return keys[i].fn.String() < keys[j].fn.String()
			}
			return keys[i].j < keys[j].j
		})
		for _, k := range keys {
			node := cg.Nodes[k.fn]
			if node == nil {
				continue
			}
			for _, e := range node.In {
				caller := e.Caller.Func
				if caller == nil || !load.IsModule(pkgOf(caller)) || e.Site == nil {
					continue
				}
				if !load.LiveBlocks(caller)[e.Site.Block()] {
					continue
				}
				args := e.Site.Common().Args
				j := k.j
				if e.Site.Common().IsInvoke() {
					// invoke: receiver is not in Args; callee params include it
					j = k.j - 1
				}
				if j < 0 || j >= len(args) {
					continue
				}
				a := args[j]
				have := l.LB(a, e.Site.Block())
				if have >= need[k] {
					continue
				}
				prm, off, ok := root(a)
				if !ok {
					continue
				}
				cj := paramIndex(caller, prm)
				if cj < 0 {
					continue
				}
				ck := key{caller, cj}
				if need[k]+off > need[ck] {
					need[ck] = need[k] + off
					needWhy[ck] = fmt.Sprintf("%s → %s needs len ≥ %d: %s", p.Pos(e.Site.Pos()), load.FuncName(k.fn), need[k], needWhy[k])
					changed = true
				}
			}
		}
		if !changed {
			break
		}
	}

	// verdicts at entries; call-site obligations elsewhere
	keys := make([]key, 0, len(need))
	for k := range need {
		keys = append(keys, k)
	}
	sort.Slice(keys, func(i, j int) bool { return keys[i].fn.String() < keys[j].fn.String() })
	for _, k := range keys {
		name := load.FuncName(k.fn)
		pname := "?"
		if k.j < len(k.fn.Params) {
			pname = k.fn.Params[k.j].Name()
		}
		desc := fmt.Sprintf("len(%s) ≥ %d, from %s", pname, need[k], needWhy[k])
		res.Preconditions[name+"#"+pname] = desc
		if isEntry != nil && isEntry(k.fn) {
			if why, ok := excludedParam(k.fn, k.j); ok {
				rule.OK(name)
				run.Sample(map[string]any{"excluded operand": name + "#" + pname, "needs": desc, "reason": why})
				continue
			}
			if why, ok := documented[name]; ok {
				rule.OK(name)
				run.Sample(map[string]any{"documented precondition": name, "needs": desc, "reason": why})
				continue
			}
			rule.Fail(p.Pos(k.fn.Pos()), name, fmt.Sprintf("exported function accesses its argument without a length check: requires %s; a shorter input panics", desc), nil)
		}
	}
	// call-site obligations for non-entry functions are implied: a caller that
	// cannot discharge them inherits the precondition (handled above).
	sort.Strings(res.UndecidedList)
	return res
}

// Entries decides which functions are exported entries of public packages.
type Entries struct {
	boxed map[types.Type]bool // named types that are converted to an interface somewhere in the module
}

// NewEntries scans the module for MakeInterface instructions.
func NewEntries(p *load.Program) *Entries {
	e := &Entries{boxed: map[types.Type]bool{}}
	for _, fn := range p.ModuleFuncs() {
		for _, b := range fn.Blocks {
			for _, in := range b.Instrs {
				if mi, ok := in.(*ssa.MakeInterface); ok {
					t := mi.X.Type()
					if pt, ok := t.(*types.Pointer); ok {
						t = pt.Elem()
					}
					e.boxed[t] = true
				}
			}
		}
	}
	return e
}

// IsPublicEntry reports whether fn is an exported function or method of a
// non-internal module package that a caller outside the module can invoke:
// exported functions, exported methods of exported types, and exported
// methods of unexported types that escape as interface values (io.Reader
// implementations).
func (e *Entries) IsPublicEntry(fn *ssa.Function) bool {
	if fn.Parent() != nil || fn.Pkg == nil || !load.IsModule(fn.Pkg.Pkg) {
		return false
	}
	if strings.Contains("/"+load.Rel(fn.Pkg.Pkg)+"/", "/internal/") {
		return false
	}
	obj, _ := fn.Object().(*types.Func)
	if obj == nil || !obj.Exported() {
		return false
	}
	if recv := obj.Type().(*types.Signature).Recv(); recv != nil {
		t := recv.Type()
		if pt, ok := t.(*types.Pointer); ok {
			t = pt.Elem()
		}
		if n, ok := t.(*types.Named); ok && !n.Obj().Exported() {
			return e.boxed[t]
		}
	}
	return true
}

// excludedParam: operands that are not externally supplied bytes.  Type
// driven: a value of type ed25519.PrivateKey is the caller's own key material
// (crypto/ed25519 has the same unchecked accessors); C19 is about untrusted
// input.
func excludedParam(fn *ssa.Function, j int) (string, bool) {
	if j >= len(fn.Params) {
		return "", false
	}
	if n, ok := fn.Params[j].Type().(*types.Named); ok {
		if n.Obj().Name() == "PrivateKey" && n.Obj().Pkg() != nil && load.Rel(n.Obj().Pkg()) == "primitives/ed25519" {
			return "operand of type ed25519.PrivateKey: caller-owned key material, not externally supplied bytes (same contract as crypto/ed25519)", true
		}
	}
	return "", false
}

// Summarise groups an undecided list by function.
func Summarise(list []string) map[string]int {
	out := map[string]int{}
	for _, s := range list {
		f := strings.SplitN(s, " ", 3)
		if len(f) >= 2 {
			out[strings.TrimSuffix(f[1], ":")]++
		}
	}
	return out
}
