// Package egvn decides the equivalence of two straight-line (after concrete
// unrolling) bit-manipulation routines by global value numbering: both are
// abstractly interpreted over go/ssa into ONE hash-consed expression DAG with
// algebraic normal forms (xor/and/or flattened, sorted and folded; rotations
// recognised from either idiom), and their results are compared by node
// identity.  Nothing is executed on concrete data: the data inputs are opaque
// leaves; only loop counters and indices are concrete.
package egvn

import (
	"fmt"
	"go/constant"
	"go/token"
	"go/types"
	"sort"
	"strings"

	"golang.org/x/tools/go/ssa"
)

// Node is a hash-consed expression over 64-bit words.
type Node struct {
	Op   string // in, const, xor, and, or, rot, shl, shr, add, sub, mul
	Args []*Node
	C    uint64 // const value / shift amount
	Name string // input name
	id   int
}

// Table is the hash-consing table shared by the routines that are compared.
type Table struct {
	nodes map[string]*Node
	next  int
}

func NewTable() *Table { return &Table{nodes: map[string]*Node{}} }

func (t *Table) intern(n *Node) *Node {
	var sb strings.Builder
	sb.WriteString(n.Op)
	fmt.Fprintf(&sb, ":%d:%s", n.C, n.Name)
	for _, a := range n.Args {
		fmt.Fprintf(&sb, ",%d", a.id)
	}
	k := sb.String()
	if e, ok := t.nodes[k]; ok {
		return e
	}
	t.next++
	n.id = t.next
	t.nodes[k] = n
	return n
}

func (t *Table) Size() int { return len(t.nodes) }

func (t *Table) Input(name string) *Node { return t.intern(&Node{Op: "in", Name: name}) }
func (t *Table) Const(c uint64) *Node    { return t.intern(&Node{Op: "const", C: c}) }

// assoc builds the normal form of an associative-commutative bitwise operator.
func (t *Table) assoc(op string, args ...*Node) *Node {
	var flat []*Node
	var push func(n *Node)
	push = func(n *Node) {
		if n.Op == op {
			for _, a := range n.Args {
				push(a)
			}
			return
		}
		flat = append(flat, n)
	}
	for _, a := range args {
		push(a)
	}
	// fold constants
	var c uint64
	switch op {
	case "and":
		c = ^uint64(0)
	}
	var rest []*Node
	for _, n := range flat {
		if n.Op == "const" {
			switch op {
			case "xor":
				c ^= n.C
			case "and":
				c &= n.C
			case "or":
				c |= n.C
			}
			continue
		}
		rest = append(rest, n)
	}
	sort.Slice(rest, func(i, j int) bool { return rest[i].id < rest[j].id })
	// xor: x^x = 0 ; and/or: idempotent
	var out []*Node
	for i := 0; i < len(rest); i++ {
		if i+1 < len(rest) && rest[i] == rest[i+1] {
			if op == "xor" {
				i++
				continue
			}
			continue
		}
		out = append(out, rest[i])
	}
	switch op {
	case "xor":
		if c != 0 {
			out = append(out, t.Const(c))
		}
		if len(out) == 0 {
			return t.Const(0)
		}
	case "and":
		if c == 0 {
			return t.Const(0)
		}
		if c != ^uint64(0) {
			out = append(out, t.Const(c))
		}
		if len(out) == 0 {
			return t.Const(^uint64(0))
		}
	case "or":
		if c == ^uint64(0) {
			return t.Const(c)
		}
		if c != 0 {
			out = append(out, t.Const(c))
		}
		if len(out) == 0 {
			return t.Const(0)
		}
	}
	if len(out) == 1 {
		return out[0]
	}
	return t.intern(&Node{Op: op, Args: out})
}

func (t *Table) Xor(a, b *Node) *Node { return t.assoc("xor", a, b) }
func (t *Table) And(a, b *Node) *Node { return t.assoc("and", a, b) }
func (t *Table) Not(a *Node) *Node    { return t.assoc("xor", a, t.Const(^uint64(0))) }

// rotation recognition: shl(x,k) combined with shr(x,64-k) by |, ^ or +.
func (t *Table) rotOf(a, b *Node) *Node {
	if a.Op == "shr" && b.Op == "shl" {
		a, b = b, a
	}
	if a.Op == "shl" && b.Op == "shr" && a.Args[0] == b.Args[0] && a.C+b.C == 64 {
		return t.Rot(a.Args[0], a.C)
	}
	return nil
}

func (t *Table) Or(a, b *Node) *Node {
	if r := t.rotOf(a, b); r != nil {
		return r
	}
	return t.assoc("or", a, b)
}

func (t *Table) XorOp(a, b *Node) *Node {
	if r := t.rotOf(a, b); r != nil {
		return r
	}
	return t.assoc("xor", a, b)
}

func (t *Table) Rot(x *Node, k uint64) *Node {
	k %= 64
	if x.Op == "rot" {
		k = (k + x.C) % 64
		x = x.Args[0]
	}
	if k == 0 {
		return x
	}
	if x.Op == "const" {
		return t.Const(x.C<<k | x.C>>(64-k))
	}
	return t.intern(&Node{Op: "rot", Args: []*Node{x}, C: k})
}

func (t *Table) Shift(op string, x *Node, k uint64) *Node {
	if k == 0 {
		return x
	}
	if k >= 64 {
		return t.Const(0)
	}
	if x.Op == "const" {
		if op == "shl" {
			return t.Const(x.C << k)
		}
		return t.Const(x.C >> k)
	}
	return t.intern(&Node{Op: op, Args: []*Node{x}, C: k})
}

func (t *Table) arith(op string, a, b *Node) *Node {
	if a.Op == "const" && b.Op == "const" {
		switch op {
		case "add":
			return t.Const(a.C + b.C)
		case "sub":
			return t.Const(a.C - b.C)
		case "mul":
			return t.Const(a.C * b.C)
		}
	}
	if (op == "add" || op == "mul") && a.id > b.id {
		a, b = b, a
	}
	return t.intern(&Node{Op: op, Args: []*Node{a, b}})
}

// ---------------------------------------------------------------------------
// abstract interpreter

type val struct {
	conc  bool
	c     uint64 // concrete value (loop counters, indices, booleans as 0/1)
	n     *Node  // symbolic 64-bit word
	addr  *cell  // address of a memory cell
	array *arr   // address of an array (pointer to array / slice of it)
}

type arr struct {
	cells map[int64]*val
	name  string
}

type cell struct {
	a *arr
	i int64
}

// Eval interprets fn.  The i-th parameter named in `state` is a pointer to an
// array of words whose cells are the inputs in:<prefix><index>; consts gives
// the contents of package-level constant tables by global name.  It returns
// the final contents of the state array.
func Eval(t *Table, fn *ssa.Function, stateLen int, consts map[string][]uint64, maxSteps int) ([]*Node, error) {
	if len(fn.Params) != 1 {
		return nil, fmt.Errorf("%s: expected exactly one parameter (pointer to the state)", fn)
	}
	st := &arr{cells: map[int64]*val{}, name: "state"}
	for i := 0; i < stateLen; i++ {
		st.cells[int64(i)] = &val{n: t.Input(fmt.Sprintf("a%d", i))}
	}
	env := map[ssa.Value]*val{fn.Params[0]: {array: st}}
	globals := map[string]*arr{}
	get := func(v ssa.Value) (*val, error) {
		switch x := v.(type) {
		case *ssa.Const:
			if x.Value == nil {
				return &val{conc: true}, nil
			}
			switch x.Value.Kind() {
			case constant.Int:
				u, ok := constant.Uint64Val(x.Value)
				if !ok {
					i, ok2 := constant.Int64Val(x.Value)
					if !ok2 {
						return nil, fmt.Errorf("constant %s out of range", x)
					}
					u = uint64(i)
				}
				return &val{conc: true, c: u}, nil
			case constant.Bool:
				if constant.BoolVal(x.Value) {
					return &val{conc: true, c: 1}, nil
				}
				return &val{conc: true}, nil
			}
			return nil, fmt.Errorf("unsupported constant %s", x)
		case *ssa.Global:
			name := x.Name()
			if a, ok := globals[name]; ok {
				return &val{array: a}, nil
			}
			tab, ok := consts[name]
			if !ok {
				return nil, fmt.Errorf("global %s is not a known constant table", name)
			}
			a := &arr{cells: map[int64]*val{}, name: name}
			for i, c := range tab {
				a.cells[int64(i)] = &val{conc: true, c: c}
			}
			globals[name] = a
			return &val{array: a}, nil
		}
		if r, ok := env[v]; ok {
			return r, nil
		}
		return nil, fmt.Errorf("value %s (%T) used before definition", v.Name(), v)
	}
	node := func(v *val) *Node {
		if v.conc {
			return t.Const(v.c)
		}
		return v.n
	}
	width := func(ty types.Type) uint {
		if b, ok := ty.Underlying().(*types.Basic); ok {
			switch b.Kind() {
			case types.Int8, types.Uint8:
				return 8
			case types.Int16, types.Uint16:
				return 16
			case types.Int32, types.Uint32:
				return 32
			}
		}
		return 64
	}
	blk := fn.Blocks[0]
	var prev *ssa.BasicBlock
	steps := 0
	for {
		var next *ssa.BasicBlock
		for _, in := range blk.Instrs {
			steps++
			if steps > maxSteps {
				return nil, fmt.Errorf("step budget exceeded (loop not concretely bounded?)")
			}
			switch x := in.(type) {
			case *ssa.DebugRef:
			case *ssa.Phi:
				for i, p := range blk.Preds {
					if p == prev {
						v, err := get(x.Edges[i])
						if err != nil {
							return nil, err
						}
						env[x] = v
					}
				}
			case *ssa.Alloc:
				a := &arr{cells: map[int64]*val{}, name: x.Name()}
				if at, ok := x.Type().Underlying().(*types.Pointer).Elem().Underlying().(*types.Array); ok {
					for i := int64(0); i < at.Len(); i++ {
						a.cells[i] = &val{conc: true}
					}
					env[x] = &val{array: a}
				} else {
					a.cells[0] = &val{conc: true}
					env[x] = &val{addr: &cell{a, 0}}
				}
			case *ssa.IndexAddr:
				base, err := get(x.X)
				if err != nil {
					return nil, err
				}
				idx, err := get(x.Index)
				if err != nil {
					return nil, err
				}
				if base.array == nil || !idx.conc {
					return nil, fmt.Errorf("%s: index is not concrete or base is not an array", fn.Prog.Fset.Position(x.Pos()))
				}
				i := int64(idx.c)
				if _, ok := base.array.cells[i]; !ok {
					return nil, fmt.Errorf("%s: index %d out of range of %s", fn.Prog.Fset.Position(x.Pos()), i, base.array.name)
				}
				env[x] = &val{addr: &cell{base.array, i}}
			case *ssa.UnOp:
				a, err := get(x.X)
				if err != nil {
					return nil, err
				}
				switch x.Op {
				case token.MUL:
					if a.addr == nil {
						return nil, fmt.Errorf("load through a non-cell pointer")
					}
					env[x] = a.addr.a.cells[a.addr.i]
				case token.XOR:
					if a.conc {
						env[x] = &val{conc: true, c: ^a.c}
					} else {
						env[x] = &val{n: t.Not(a.n)}
					}
				case token.SUB:
					if !a.conc {
						return nil, fmt.Errorf("negation of a symbolic word")
					}
					env[x] = &val{conc: true, c: -a.c}
				case token.NOT:
					if !a.conc {
						return nil, fmt.Errorf("boolean not of a symbolic value")
					}
					env[x] = &val{conc: true, c: a.c ^ 1}
				default:
					return nil, fmt.Errorf("unsupported unary %s", x.Op)
				}
			case *ssa.Store:
				a, err := get(x.Addr)
				if err != nil {
					return nil, err
				}
				v, err := get(x.Val)
				if err != nil {
					return nil, err
				}
				if a.addr == nil {
					return nil, fmt.Errorf("store through a non-cell pointer")
				}
				a.addr.a.cells[a.addr.i] = v
			case *ssa.Convert, *ssa.ChangeType:
				var src ssa.Value
				if c, ok := x.(*ssa.Convert); ok {
					src = c.X
				} else {
					src = x.(*ssa.ChangeType).X
				}
				v, err := get(src)
				if err != nil {
					return nil, err
				}
				if v.conc {
					w := width(x.(ssa.Value).Type())
					c := v.c
					if w < 64 {
						c &= 1<<w - 1
					}
					env[x.(ssa.Value)] = &val{conc: true, c: c}
				} else {
					if width(x.(ssa.Value).Type()) != 64 {
						return nil, fmt.Errorf("narrowing conversion of a symbolic word")
					}
					env[x.(ssa.Value)] = v
				}
			case *ssa.BinOp:
				a, err := get(x.X)
				if err != nil {
					return nil, err
				}
				b, err := get(x.Y)
				if err != nil {
					return nil, err
				}
				if a.array != nil || b.array != nil || a.addr != nil || b.addr != nil {
					return nil, fmt.Errorf("pointer arithmetic/comparison")
				}
				if a.conc && b.conc {
					r, err := concBin(x.Op, a.c, b.c, x.X.Type())
					if err != nil {
						return nil, err
					}
					env[x] = &val{conc: true, c: r}
					break
				}
				var n *Node
				switch x.Op {
				case token.XOR:
					n = t.XorOp(node(a), node(b))
				case token.AND:
					n = t.And(node(a), node(b))
				case token.OR:
					n = t.Or(node(a), node(b))
				case token.AND_NOT:
					n = t.And(node(a), t.Not(node(b)))
				case token.SHL, token.SHR:
					if !b.conc {
						return nil, fmt.Errorf("shift by a symbolic amount")
					}
					op := "shl"
					if x.Op == token.SHR {
						op = "shr"
					}
					n = t.Shift(op, node(a), b.c)
				case token.ADD:
					if r := t.rotOf(node(a), node(b)); r != nil {
						n = r
					} else {
						n = t.arith("add", node(a), node(b))
					}
				case token.SUB:
					n = t.arith("sub", node(a), node(b))
				case token.MUL:
					n = t.arith("mul", node(a), node(b))
				default:
					return nil, fmt.Errorf("%s: unsupported operator %s on symbolic words", fn.Prog.Fset.Position(x.Pos()), x.Op)
				}
				env[x] = &val{n: n}
			case *ssa.Call:
				callee := x.Call.StaticCallee()
				if callee == nil || callee.Pkg == nil || callee.Pkg.Pkg.Path() != "math/bits" || callee.Name() != "RotateLeft64" {
					return nil, fmt.Errorf("%s: unsupported call %s", fn.Prog.Fset.Position(x.Pos()), x.Call.Value)
				}
				a, err := get(x.Call.Args[0])
				if err != nil {
					return nil, err
				}
				k, err := get(x.Call.Args[1])
				if err != nil {
					return nil, err
				}
				if !k.conc {
					return nil, fmt.Errorf("rotation by a symbolic amount")
				}
				env[x] = &val{n: t.Rot(node(a), uint64(int64(k.c))&63)}
			case *ssa.Jump:
				next = blk.Succs[0]
			case *ssa.If:
				c, err := get(x.Cond)
				if err != nil {
					return nil, err
				}
				if !c.conc {
					return nil, fmt.Errorf("%s: data-dependent branch", fn.Prog.Fset.Position(x.Pos()))
				}
				if c.c != 0 {
					next = blk.Succs[0]
				} else {
					next = blk.Succs[1]
				}
			case *ssa.Return:
				out := make([]*Node, stateLen)
				for i := range out {
					out[i] = node(st.cells[int64(i)])
				}
				return out, nil
			default:
				return nil, fmt.Errorf("%s: unsupported instruction %T", fn.Prog.Fset.Position(in.Pos()), in)
			}
		}
		if next == nil {
			return nil, fmt.Errorf("block %d falls off", blk.Index)
		}
		prev, blk = blk, next
	}
}

func concBin(op token.Token, a, b uint64, ty types.Type) (uint64, error) {
	signed := false
	if bt, ok := ty.Underlying().(*types.Basic); ok {
		signed = bt.Info()&types.IsInteger != 0 && bt.Info()&types.IsUnsigned == 0
	}
	bo := func(x bool) uint64 {
		if x {
			return 1
		}
		return 0
	}
	switch op {
	case token.ADD:
		return a + b, nil
	case token.SUB:
		return a - b, nil
	case token.MUL:
		return a * b, nil
	case token.AND:
		return a & b, nil
	case token.OR:
		return a | b, nil
	case token.XOR:
		return a ^ b, nil
	case token.AND_NOT:
		return a &^ b, nil
	case token.SHL:
		if b >= 64 {
			return 0, nil
		}
		return a << b, nil
	case token.SHR:
		if signed {
			if b >= 64 {
				b = 63
			}
			return uint64(int64(a) >> b), nil
		}
		if b >= 64 {
			return 0, nil
		}
		return a >> b, nil
	case token.QUO, token.REM:
		if b == 0 {
			return 0, fmt.Errorf("division by zero")
		}
		if signed {
			if op == token.QUO {
				return uint64(int64(a) / int64(b)), nil
			}
			return uint64(int64(a) % int64(b)), nil
		}
		if op == token.QUO {
			return a / b, nil
		}
		return a % b, nil
	case token.EQL:
		return bo(a == b), nil
	case token.NEQ:
		return bo(a != b), nil
	case token.LSS:
		if signed {
			return bo(int64(a) < int64(b)), nil
		}
		return bo(a < b), nil
	case token.LEQ:
		if signed {
			return bo(int64(a) <= int64(b)), nil
		}
		return bo(a <= b), nil
	case token.GTR:
		if signed {
			return bo(int64(a) > int64(b)), nil
		}
		return bo(a > b), nil
	case token.GEQ:
		if signed {
			return bo(int64(a) >= int64(b)), nil
		}
		return bo(a >= b), nil
	}
	return 0, fmt.Errorf("unsupported concrete operator %s", op)
}

// Describe renders a node to a bounded depth (for diagnostics).
func Describe(n *Node, depth int) string {
	switch n.Op {
	case "in":
		return n.Name
	case "const":
		return fmt.Sprintf("%#x", n.C)
	}
	if depth == 0 {
		return n.Op + "(…)"
	}
	var parts []string
	for _, a := range n.Args {
		parts = append(parts, Describe(a, depth-1))
	}
	if n.Op == "rot" || n.Op == "shl" || n.Op == "shr" {
		return fmt.Sprintf("%s(%s, %d)", n.Op, parts[0], n.C)
	}
	return n.Op + "(" + strings.Join(parts, ", ") + ")"
}
