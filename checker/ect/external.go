package ect

import (
	"fmt"
	"strings"

	"golang.org/x/tools/go/ssa"

	"voicheck/load"
)

// external applies the closed allow-list of models for callees outside the
// module (and for interface methods whose dynamic type is unknown).  Anything
// not modelled that receives secret data is a sink.
func (s *fstate) external(instr ssa.CallInstruction, name string, args []ssa.Value, nres int) {
	if s.final {
		s.a.Stats.ExternalCalls++
	}
	tainted := s.anyArgTainted(args)
	short := name
	if i := strings.LastIndexByte(name, '.'); i >= 0 {
		short = name[i+1:]
	}
	pure := func() {
		if tainted {
			for i := 0; i < nres; i++ {
				s.setResult(instr, i, nres, fullTaint(), nil)
			}
		}
	}
	storeArg := func(i int) {
		if i < len(args) {
			for _, p := range s.Pts(args[i]) {
				s.store(p, fullTaint())
			}
		}
	}
	switch {
	case strings.HasPrefix(name, "crypto/subtle."):
		if short == "ConstantTimeCopy" {
			if tainted {
				storeArg(1)
			}
			return
		}
		if short == "XORBytes" {
			if tainted {
				storeArg(0)
			}
			return
		}
		pure()
		return
	case strings.HasPrefix(name, "math/bits."):
		switch short {
		case "Div", "Div32", "Div64", "Rem", "Rem32", "Rem64":
			if tainted && s.final {
				s.a.sink(s.fn, instr, "div", "secret operand of math/bits."+short+" (variable latency)")
			}
		}
		pure()
		return
	case strings.HasPrefix(name, "(encoding/binary.littleEndian)."), strings.HasPrefix(name, "(encoding/binary.bigEndian)."):
		switch {
		case strings.HasPrefix(short, "PutUint"):
			if len(args) >= 3 && s.T(args[2]).any() {
				storeArg(1)
			}
		case strings.HasPrefix(short, "AppendUint"):
			pure()
		default:
			pure()
		}
		return
	case name == "crypto/sha512.Sum512", name == "crypto/sha512.Sum384", name == "crypto/sha512.Sum512_256", name == "crypto/sha256.Sum256",
		name == "golang.org/x/crypto/sha3.Sum256", name == "golang.org/x/crypto/sha3.Sum512":
		pure()
		return
	case name == "golang.org/x/crypto/sha3.ShakeSum256", name == "golang.org/x/crypto/sha3.ShakeSum128":
		if len(args) >= 2 && s.contentTainted(args[1]) {
			storeArg(0)
		}
		return
	case isHashCtor(name):
		// fresh opaque hash / XOF object
		r := path{root: s.root(instr)}
		s.a.opaque(s, r.root)
		s.setResult(instr, 0, nres, nil, pathset{r.key(): r})
		return
	case name == "io.ReadFull", name == "io.ReadAtLeast":
		if len(args) >= 2 {
			s.read(instr, args[0], args[1])
		}
		return
	case name == "crypto/rand.Read":
		storeArg(0)
		return
	case name == "fmt.Errorf", name == "fmt.Sprintf", name == "errors.New", strings.HasPrefix(name, "strconv."), name == "(error).Error",
		name == "fmt.Sprint", name == "fmt.Println", name == "fmt.Printf":
		if tainted && s.final {
			s.a.sink(s.fn, instr, "format", "secret data formatted by "+name)
		}
		return
	case name == "(crypto.SignerOpts).HashFunc", name == "(crypto.Hash).HashFunc", name == "(crypto.Hash).Size", name == "(crypto.Hash).Available", name == "(crypto.Hash).String":
		return
	case strings.HasPrefix(name, "(*sync.Mutex)."), strings.HasPrefix(name, "(*sync.RWMutex)."):
		return
	}
	// methods of hash / XOF / reader / writer objects, by method name
	if len(args) >= 1 && (strings.HasPrefix(name, "(") || strings.Contains(name, ").")) {
		recv := args[0]
		switch short {
		case "Write":
			if len(args) >= 2 && s.contentTainted(args[1]) {
				for _, p := range s.Pts(recv) {
					s.store(p, fullTaint())
				}
			}
			return
		case "Sum":
			if len(args) >= 2 {
				res := pathset{}
				fresh := path{root: s.root(instr)}.with(elem{k: 'i', a: 0, b: infHi})
				res.add(fresh)
				for _, p := range s.Pts(args[1]) {
					if b, lo, _, ok := sliceWindow(p); ok {
						res.add(b.with(elem{k: 'i', a: lo, b: infHi}))
					} else {
						res.add(p)
					}
				}
				if s.contentTainted(recv) || s.contentTainted(args[1]) {
					for _, p := range res {
						s.store(p, fullTaint())
					}
				}
				s.setResult(instr, 0, nres, nil, res)
			}
			return
		case "Reset", "Size", "BlockSize":
			return
		case "Read":
			if len(args) >= 2 {
				s.read(instr, recv, args[1])
			}
			return
		case "Clone":
			r := path{root: s.root(instr)}
			s.a.opaque(s, r.root)
			if s.contentTainted(recv) {
				s.store(r, fullTaint())
			}
			s.setResult(instr, 0, nres, nil, pathset{r.key(): r})
			return
		}
	}
	if tainted {
		if s.final {
			s.a.Stats.Unmodelled[name]++
			s.a.sink(s.fn, instr, "unmodelled", "secret data passed to the unmodelled function "+name)
		}
		return
	}
}

func isHashCtor(name string) bool {
	for _, p := range []string{"crypto/sha512.New", "crypto/sha256.New", "golang.org/x/crypto/sha3.New", "golang.org/x/crypto/blake2b.New", "golang.org/x/crypto/sha3.NewShake", "golang.org/x/crypto/sha3.NewCShake"} {
		if strings.HasPrefix(name, p) {
			return true
		}
	}
	return false
}

// opaque hash roots are tracked per function state through the root id prefix.
func (a *Analyzer) opaque(s *fstate, root string) {
	if s.opaqueRoots == nil {
		s.opaqueRoots = map[string]bool{}
	}
	s.opaqueRoots[root] = true
}

// read models r.Read(buf) / io.ReadFull(r, buf).
//
//   - r resolves to module reader types: their Read methods are analysed
//     (transcript RNG, zero reader);
//   - r is a hash/XOF object created in this function: buf is tainted iff the
//     object absorbed secret data;
//   - otherwise r is an entropy source or a caller-supplied reader: the bytes
//     read are secret.
func (s *fstate) read(instr ssa.CallInstruction, r ssa.Value, buf ssa.Value) {
	fns, exact := s.a.concreteMethods(r, "Read", 0)
	if exact && len(fns) > 0 {
		handled := true
		for _, f := range fns {
			if pk := pkgOfFn(f); pk != nil && load.IsModule(pk) && len(f.Blocks) > 0 {
				s.applySummary(nopResult{instr}, f, []ssa.Value{r, buf}, nil, 2, funcDisplay(s.fn)+"→"+funcDisplay(f))
			} else {
				handled = false
			}
		}
		if handled {
			return
		}
	}
	isOpaque := false
	for _, p := range s.Pts(r) {
		if s.opaqueRoots[p.root] {
			isOpaque = true
		}
	}
	if isOpaque {
		if s.contentTainted(r) {
			for _, p := range s.Pts(buf) {
				s.store(p, fullTaint())
			}
		}
		return
	}
	for _, p := range s.Pts(buf) {
		s.store(p, fullTaint())
	}
}

// nopResult wraps a call instruction so that applySummary does not assign
// the (n, err) results of Read to the results of io.ReadFull (both public).
type nopResult struct{ ssa.CallInstruction }

func (n nopResult) Value() *ssa.Call { return nil }

// concreteMethods traces an interface value to the concrete types it can
// hold (MakeInterface), looking through phis and through the return values
// of module functions, and returns their method `name`.
func (a *Analyzer) concreteMethods(v ssa.Value, name string, depth int) (out []*ssa.Function, exact bool) {
	exact = true
	seen := map[ssa.Value]bool{}
	var walk func(v ssa.Value, d int)
	walk = func(v ssa.Value, d int) {
		if seen[v] || d > 4 {
			if d > 4 {
				exact = false
			}
			return
		}
		seen[v] = true
		switch x := v.(type) {
		case *ssa.MakeInterface:
			if m := a.P.SSA.LookupMethod(x.X.Type(), nil, name); m != nil {
				out = append(out, m)
			} else if m := a.lookupMethodAnyPkg(x, name); m != nil {
				out = append(out, m)
			} else {
				exact = false
			}
		case *ssa.ChangeInterface:
			walk(x.X, d)
		case *ssa.Phi:
			for _, e := range x.Edges {
				walk(e, d)
			}
		case *ssa.Const:
		case *ssa.Extract:
			if call, ok := x.Tuple.(*ssa.Call); ok {
				if callee := call.Call.StaticCallee(); callee != nil && len(callee.Blocks) > 0 {
					for _, b := range callee.Blocks {
						if ret, ok := b.Instrs[len(b.Instrs)-1].(*ssa.Return); ok && x.Index < len(ret.Results) {
							walk(ret.Results[x.Index], d+1)
						}
					}
					return
				}
			}
			exact = false
		case *ssa.Call:
			if callee := x.Call.StaticCallee(); callee != nil && len(callee.Blocks) > 0 {
				for _, b := range callee.Blocks {
					if ret, ok := b.Instrs[len(b.Instrs)-1].(*ssa.Return); ok && len(ret.Results) > 0 {
						walk(ret.Results[0], d+1)
					}
				}
				return
			}
			exact = false
		default:
			exact = false
		}
	}
	walk(v, depth)
	return out, exact
}

func (a *Analyzer) lookupMethodAnyPkg(mi *ssa.MakeInterface, name string) *ssa.Function {
	ms := a.P.SSA.MethodSets.MethodSet(mi.X.Type())
	for i := 0; i < ms.Len(); i++ {
		if ms.At(i).Obj().Name() == name {
			return a.P.SSA.MethodValue(ms.At(i))
		}
	}
	return nil
}

var _ = fmt.Sprintf
