// Package ect implements E-CT of DESIGN.md: an interprocedural,
// context-sensitive may-taint analysis over go/ssa that reports every use of
// secret-derived data as a branch condition, memory index, slice bound,
// allocation size, division operand, shift count, or argument of an
// unmodelled function.
package ect

import (
	"fmt"
	"sort"
	"strings"
)

// An access path names abstract memory: a root (parameter pointee, local
// allocation, global, or memory returned by a call) followed by field
// selections, index windows [lo,hi) on arrays/slices and dereferences of
// pointers stored in memory.  Arrays are window-sensitive for constant
// indices and constant slice bounds (so priv[0:32] and priv[32:64] are
// different locations) and smashed otherwise.

const maxElems = 5
const infHi = int64(-1)

type elem struct {
	k    byte // 'f' field, 'i' index window, 'd' deref
	a, b int64
}

type path struct {
	root string
	el   []elem
}

func (p path) key() string {
	var sb strings.Builder
	sb.WriteString(p.root)
	for _, e := range p.el {
		switch e.k {
		case 'f':
			fmt.Fprintf(&sb, ".%d", e.a)
		case 'i':
			if e.b == infHi {
				if e.a == 0 {
					sb.WriteString("[*]")
				} else {
					fmt.Fprintf(&sb, "[%d:]", e.a)
				}
			} else {
				fmt.Fprintf(&sb, "[%d:%d]", e.a, e.b)
			}
		case 'd':
			sb.WriteString("^")
		}
	}
	return sb.String()
}

func (p path) with(e elem) path {
	if len(p.el) >= maxElems {
		return p // truncated: the prefix stands for everything below it
	}
	el := make([]elem, len(p.el)+1)
	copy(el, p.el)
	el[len(p.el)] = e
	return path{p.root, el}
}

func (p path) withAll(es []elem) path {
	for _, e := range es {
		p = p.with(e)
	}
	return p
}

// last returns the last element (zero elem if none).
func (p path) last() (elem, bool) {
	if len(p.el) == 0 {
		return elem{}, false
	}
	return p.el[len(p.el)-1], true
}

func (p path) dropLast() path {
	return path{p.root, p.el[:len(p.el)-1]}
}

func overlap(a, b elem) bool {
	// windows [a.a,a.b) and [b.a,b.b) with b==infHi meaning unbounded
	if a.b != infHi && a.b <= b.a {
		return false
	}
	if b.b != infHi && b.b <= a.a {
		return false
	}
	return true
}

func elemMatch(t, q elem) bool {
	if t.k != q.k {
		return false
	}
	switch t.k {
	case 'f':
		return t.a == q.a
	case 'i':
		return overlap(t, q)
	}
	return true
}

// related reports whether tainted path t and queried path q denote
// overlapping memory (one is a prefix of the other, windows overlapping),
// and returns the elements of t beyond q (nil if t is not longer than q).
func related(t, q path) (rest []elem, ok bool) {
	if t.root != q.root {
		return nil, false
	}
	n := len(t.el)
	if len(q.el) < n {
		n = len(q.el)
	}
	for i := 0; i < n; i++ {
		if !elemMatch(t.el[i], q.el[i]) {
			return nil, false
		}
	}
	if len(t.el) > len(q.el) {
		return t.el[len(q.el):], true
	}
	return nil, true
}

// relset is the taint of an SSA value: a set of relative paths inside the
// value that are tainted; "" means the whole value.
type relset map[string][]elem

func relKey(es []elem) string { return path{"", es}.key() }

func (r relset) any() bool { return len(r) > 0 }

// self reports whether the value's own bits are tainted, as opposed to memory
// reachable from it through a pointer it contains.
func (r relset) self() bool {
	for _, es := range r {
		own := true
		for _, e := range es {
			if e.k == 'd' {
				own = false
				break
			}
		}
		if own {
			return true
		}
	}
	return false
}

func (r relset) addAll(o relset) bool {
	ch := false
	for k, v := range o {
		if _, ok := r[k]; !ok {
			r[k] = v
			ch = true
		}
	}
	return ch
}

func fullTaint() relset { return relset{"": nil} }

func (r relset) keys() []string {
	ks := make([]string, 0, len(r))
	for k := range r {
		ks = append(ks, k)
	}
	sort.Strings(ks)
	return ks
}

// pathset is a set of absolute paths.
type pathset map[string]path

func (s pathset) add(p path) bool {
	k := p.key()
	if _, ok := s[k]; ok {
		return false
	}
	s[k] = p
	return true
}

func (s pathset) addAll(o pathset) bool {
	ch := false
	for k, v := range o {
		if _, ok := s[k]; !ok {
			s[k] = v
			ch = true
		}
	}
	return ch
}

func (s pathset) keys() []string {
	ks := make([]string, 0, len(s))
	for k := range s {
		ks = append(ks, k)
	}
	sort.Strings(ks)
	return ks
}

// load returns the taint of a value loaded from location q given the tainted
// memory set mem.
func (mem pathset) load(q path) relset {
	out := relset{}
	for _, t := range mem {
		rest, ok := related(t, q)
		if !ok {
			continue
		}
		if rest == nil {
			out[""] = nil
		} else {
			out[relKey(rest)] = rest
		}
	}
	return out
}

// tainted reports whether anything at or below q is tainted.
func (mem pathset) tainted(q path) bool {
	for _, t := range mem {
		if _, ok := related(t, q); ok {
			return true
		}
	}
	return false
}

// store taints q (extended by the relative paths of r).
func (mem pathset) store(q path, r relset) bool {
	ch := false
	for _, rest := range r {
		if mem.add(q.withAll(rest)) {
			ch = true
		}
	}
	return ch
}
