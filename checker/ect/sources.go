package ect

import (
	"fmt"
	"go/types"
	"sort"
	"strings"

	"golang.org/x/tools/go/ssa"

	"voicheck/load"
)

// A Source names a constant-time entry point and which of its operands are
// secret.  Param indices count the receiver as 0 for methods.
//
//	Content: the memory the (pointer/slice) parameter refers to is secret;
//	         Window restricts that to bytes [lo,hi) of a byte slice.
//	Value:   the scalar parameter itself is secret.
type Source struct {
	Pkg, Func string
	Content   []int
	Window    map[int][2]int64
	Value     []int
	// Paths: per parameter, field paths (resolved through the types; "*" =
	// dereference a pointer stored in memory, "[*]" = all elements) below the
	// parameter's pointee that are secret.
	Paths    map[int][][]string
	AllVal   bool  // every basic-typed parameter is secret
	Optional bool  // the function does not exist in every configuration
	AllPtr   bool  // every pointer-like parameter's content is secret
	AllInt   bool  // every signed-int parameter (selector/choice/digit) is secret
	Public   []int // parameter indices that stay public under AllPtr/AllInt
	Why      string
}

// TypeSources declares "every exported, non-Vartime method (and listed
// function) of this type operates on secret operands".
type TypeSource struct {
	Pkg, Type string
	Exclude   map[string]string // method -> reason (decoders / validators / formatting)
	PublicPrm map[string][]int  // method -> public parameter indices
}

// Entry is a resolved source.
type Entry struct {
	Fn   *ssa.Function
	In   *ctxIn
	Desc string
}

func isSignedInt(t types.Type) bool {
	b, ok := t.Underlying().(*types.Basic)
	if !ok {
		return false
	}
	switch b.Kind() {
	case types.Int, types.Int8, types.Int16, types.Int32, types.Int64:
		return true
	}
	return false
}

func contains(xs []int, x int) bool {
	for _, y := range xs {
		if x == y {
			return true
		}
	}
	return false
}

// buildCtx makes the entry context of a source.
func buildCtx(fn *ssa.Function, src Source) (*ctxIn, error) {
	in := &ctxIn{mem: pathset{}, vals: make([]relset, len(fn.Params)+len(fn.FreeVars))}
	for i := range in.vals {
		in.vals[i] = relset{}
	}
	taintContent := func(i int) {
		prm := fn.Params[i]
		if !pointerLike(prm.Type()) {
			// aggregate passed by value
			in.vals[i] = fullTaint()
			return
		}
		p := path{root: fmt.Sprintf("p%d", i)}
		if sl, ok := prm.Type().Underlying().(*types.Slice); ok {
			lo, hi := int64(0), infHi
			if w, ok := src.Window[i]; ok {
				lo, hi = w[0], w[1]
			}
			p = p.with(elem{k: 'i', a: lo, b: hi})
			if _, isPtr := sl.Elem().Underlying().(*types.Pointer); isPtr {
				p = p.with(elem{k: 'd'}) // the pointed-to operands, not the pointers
			}
		}
		in.mem.add(p)
	}
	for i, fps := range src.Paths {
		if i >= len(fn.Params) {
			return nil, fmt.Errorf("parameter %d out of range", i)
		}
		for _, fp := range fps {
			t := fn.Params[i].Type()
			pt, ok := t.Underlying().(*types.Pointer)
			if !ok {
				return nil, fmt.Errorf("parameter %d is not a pointer", i)
			}
			t = pt.Elem()
			p := path{root: fmt.Sprintf("p%d", i)}
			for _, name := range fp {
				switch name {
				case "*":
					pt, ok := t.Underlying().(*types.Pointer)
					if !ok {
						return nil, fmt.Errorf("path %v: %s is not a pointer", fp, t)
					}
					p = p.with(elem{k: 'd'})
					t = pt.Elem()
				case "[*]":
					p = p.with(elem{k: 'i', a: 0, b: infHi})
					switch u := t.Underlying().(type) {
					case *types.Array:
						t = u.Elem()
					case *types.Slice:
						t = u.Elem()
					default:
						return nil, fmt.Errorf("path %v: %s is not indexable", fp, t)
					}
				default:
					st, ok := t.Underlying().(*types.Struct)
					if !ok {
						return nil, fmt.Errorf("path %v: %s is not a struct", fp, t)
					}
					found := false
					// fields are identified by the names they had when the source table was written
					// (a renamed unexported field is the same field: position-wise alias)
					var rec []string
					if n, ok := t.(*types.Named); ok && RecordedFieldNames != nil && n.Obj().Pkg() != nil {
						if r := RecordedFieldNames(load.Rel(n.Obj().Pkg()) + "." + n.Obj().Name()); len(r) == st.NumFields() {
							rec = load.AliasFieldNames(r, st)
						}
					}
					for k := 0; k < st.NumFields(); k++ {
						fname := st.Field(k).Name()
						if rec != nil {
							fname = rec[k]
						}
						if fname == name {
							p = p.with(elem{k: 'f', a: int64(k)})
							t = st.Field(k).Type()
							found = true
							break
						}
					}
					if !found {
						return nil, fmt.Errorf("path %v: no field %s in %s", fp, name, t)
					}
				}
			}
			in.mem.add(p)
		}
	}
	for i, prm := range fn.Params {
		if contains(src.Public, i) {
			continue
		}
		switch {
		case contains(src.Content, i):
			taintContent(i)
		case contains(src.Value, i):
			in.vals[i] = fullTaint()
		case src.AllPtr && (pointerLike(prm.Type()) || isAggregate(prm.Type())):
			if _, isIface := prm.Type().Underlying().(*types.Interface); isIface {
				continue
			}
			taintContent(i)
		case src.AllInt && isSignedInt(prm.Type()):
			in.vals[i] = fullTaint()
		case src.AllVal:
			if _, ok := prm.Type().Underlying().(*types.Basic); ok {
				in.vals[i] = fullTaint()
			}
		}
	}
	return in, nil
}

func isAggregate(t types.Type) bool {
	switch t.Underlying().(type) {
	case *types.Struct, *types.Array:
		return true
	}
	return false
}

// Resolve turns the source tables into entries; unresolved names are
// returned as errors (the check must fail, not pass vacuously).
func Resolve(p *load.Program, srcs []Source, tsrcs []TypeSource) (entries []Entry, errs []string) {
	for _, s := range srcs {
		fn := p.Func(s.Pkg, s.Func)
		if fn == nil {
			if !s.Optional {
				errs = append(errs, fmt.Sprintf("source %s.%s cannot be resolved", s.Pkg, s.Func))
			}
			continue
		}
		if len(fn.Blocks) == 0 {
			continue // assembly declaration: covered by E-ASM
		}
		in, err := buildCtx(fn, s)
		if err != nil {
			errs = append(errs, fmt.Sprintf("source %s.%s: %v", s.Pkg, s.Func, err))
			continue
		}
		entries = append(entries, Entry{fn, in, s.Pkg + "." + s.Func + " (" + s.Why + ")"})
	}
	for _, ts := range tsrcs {
		pk := p.Pkg(ts.Pkg)
		if pk == nil {
			errs = append(errs, "package "+ts.Pkg+" not loaded")
			continue
		}
		tn, _ := pk.Types.Scope().Lookup(ts.Type).(*types.TypeName)
		if tn == nil {
			errs = append(errs, fmt.Sprintf("type %s.%s cannot be resolved", ts.Pkg, ts.Type))
			continue
		}
		ms := types.NewMethodSet(types.NewPointer(tn.Type()))
		var names []string
		for i := 0; i < ms.Len(); i++ {
			names = append(names, ms.At(i).Obj().Name())
		}
		sort.Strings(names)
		n := 0
		for i := 0; i < ms.Len(); i++ {
			obj := ms.At(i).Obj().(*types.Func)
			name := obj.Name()
			if !obj.Exported() || strings.Contains(name, "Vartime") {
				continue
			}
			if _, ex := ts.Exclude[name]; ex {
				continue
			}
			fn := p.SSA.FuncValue(obj)
			if fn == nil || len(fn.Blocks) == 0 {
				continue
			}
			src := Source{AllPtr: true, AllInt: true, Public: ts.PublicPrm[name]}
			in, err := buildCtx(fn, src)
			if err != nil {
				errs = append(errs, err.Error())
				continue
			}
			entries = append(entries, Entry{fn, in, fmt.Sprintf("%s.(*%s).%s (all operands secret)", ts.Pkg, ts.Type, name)})
			n++
		}
		if n == 0 {
			errs = append(errs, fmt.Sprintf("type %s.%s has no constant-time methods", ts.Pkg, ts.Type))
		}
	}
	return entries, errs
}

// RunEntries analyses every entry.
func (a *Analyzer) RunEntries(entries []Entry) {
	for _, e := range entries {
		a.entry = e.Desc
		a.stack = a.stack[:0]
		a.Analyze(e.Fn, e.In)
	}
}

// RecordedFieldNames, when set, returns the recorded field names of a named module struct type.
var RecordedFieldNames func(typeKey string) []string
