package ect

import (
	"fmt"
	"go/constant"
	"go/token"
	"go/types"
	"sort"
	"strings"

	"golang.org/x/tools/go/ssa"

	"voicheck/load"
	"voicheck/report"
)

// Sink is one reported use of tainted data.
type Sink struct {
	Kind  string   `json:"kind"`
	Func  string   `json:"func"`
	Pos   string   `json:"pos"`
	What  string   `json:"what"`
	Entry string   `json:"entry"`
	Chain []string `json:"chain"`
}

// Analyzer runs the taint analysis over one loaded configuration.
type Analyzer struct {
	P    *load.Program
	Run  *report.Run
	Rule *report.Rule

	// AsmWrites: for bodyless (assembly) functions, the indices of pointer
	// parameters the routine stores through (from E-ASM); nil entry = all.
	AsmWrites map[string][]int
	// AsmOK: assembly routines admitted by E-ASM; a tainted call to a
	// bodyless function not in this set is a sink (nil = admit all).
	AsmOK map[string]bool
	// DeclassResult / DeclassArgs: "caller→callee" pairs whose call result
	// is public / whose arguments are treated as public (closed table).
	DeclassResult map[string]string
	DeclassArgs   map[string]string
	DeclassUsed   map[string]bool

	memo    map[string]*summary
	inprog  map[string]bool
	stack   []string
	entry   string
	sinks   map[string]bool
	Sinks   []Sink
	Stats   Stats
	visited map[*ssa.Function]bool
}

// Stats are coverage counters.
type Stats struct {
	Contexts, Functions, Branches, Indexes, SliceBounds, Divs, Shifts, Calls, ExternalCalls, Recursions int
	Unmodelled                                                                                          map[string]int
}

type resval struct {
	taint relset
	pts   pathset
}

type summary struct {
	mem     pathset
	results []resval
}

type ctxIn struct {
	vals []relset // params then free variables
	mem  pathset
}

// NewAnalyzer creates an analyzer.
func NewAnalyzer(p *load.Program, run *report.Run, rule *report.Rule) *Analyzer {
	return &Analyzer{P: p, Run: run, Rule: rule, memo: map[string]*summary{}, inprog: map[string]bool{},
		sinks: map[string]bool{}, DeclassResult: map[string]string{}, DeclassArgs: map[string]string{}, DeclassUsed: map[string]bool{},
		visited: map[*ssa.Function]bool{}, Stats: Stats{Unmodelled: map[string]int{}}}
}

func (c *ctxIn) key(fn *ssa.Function) string {
	var sb strings.Builder
	sb.WriteString(fn.String())
	for i, v := range c.vals {
		if v.any() {
			fmt.Fprintf(&sb, "|v%d:%s", i, strings.Join(v.keys(), ","))
		}
	}
	sb.WriteString("|m:")
	sb.WriteString(strings.Join(c.mem.keys(), ","))
	return sb.String()
}

// ---------------------------------------------------------------------------

type fstate struct {
	a           *Analyzer
	fn          *ssa.Function
	in          *ctxIn
	live        map[*ssa.BasicBlock]bool
	taint       map[ssa.Value]relset
	pts         map[ssa.Value]pathset
	tupT        map[ssa.Value][]relset
	tupP        map[ssa.Value][]pathset
	mem         pathset
	alias       map[string]pathset
	rootID      map[any]string
	nroot       int
	opaqueRoots map[string]bool
	ch          bool
	final       bool
}

func pointerLike(t types.Type) bool {
	switch t.Underlying().(type) {
	case *types.Pointer, *types.Slice, *types.Map, *types.Chan, *types.Interface, *types.Signature:
		return true
	}
	return false
}

func isSlice(t types.Type) bool {
	_, ok := t.Underlying().(*types.Slice)
	return ok
}

func isString(t types.Type) bool {
	b, ok := t.Underlying().(*types.Basic)
	return ok && b.Info()&types.IsString != 0
}

func (s *fstate) root(k any) string {
	if id, ok := s.rootID[k]; ok {
		return id
	}
	s.nroot++
	id := fmt.Sprintf("l%d", s.nroot)
	s.rootID[k] = id
	return id
}

func globalRoot(g *ssa.Global) string {
	return "g:" + g.Pkg.Pkg.Path() + "." + g.Name()
}

func (s *fstate) T(v ssa.Value) relset {
	if r, ok := s.taint[v]; ok {
		return r
	}
	return nil
}

func (s *fstate) Pts(v ssa.Value) pathset {
	switch x := v.(type) {
	case *ssa.Global:
		return pathset{"": path{root: globalRoot(x)}}.norm()
	}
	if r, ok := s.pts[v]; ok {
		return r
	}
	return nil
}

func (ps pathset) norm() pathset {
	out := pathset{}
	for _, p := range ps {
		out.add(p)
	}
	return out
}

func (s *fstate) addT(v ssa.Value, r relset) {
	if len(r) == 0 {
		return
	}
	cur := s.taint[v]
	if cur == nil {
		cur = relset{}
		s.taint[v] = cur
	}
	if cur.addAll(r) {
		s.ch = true
	}
}

func (s *fstate) addFull(v ssa.Value) { s.addT(v, fullTaint()) }

func (s *fstate) addP(v ssa.Value, ps pathset) {
	if len(ps) == 0 {
		return
	}
	cur := s.pts[v]
	if cur == nil {
		cur = pathset{}
		s.pts[v] = cur
	}
	if cur.addAll(ps) {
		s.ch = true
	}
}

func (s *fstate) addP1(v ssa.Value, p path) { s.addP(v, pathset{p.key(): p}) }

func (s *fstate) store(p path, r relset) {
	if len(r) == 0 {
		return
	}
	if s.mem.store(p, r) {
		s.ch = true
	}
}

// contentTainted: is the memory a pointer-like value refers to tainted?  For
// strings and plain values the value taint itself.
func (s *fstate) contentTainted(v ssa.Value) bool {
	if s.T(v).any() {
		return true
	}
	for _, p := range s.Pts(v) {
		if s.mem.tainted(p) {
			return true
		}
	}
	return false
}

func constI(v ssa.Value) (int64, bool) {
	c, ok := load.FoldConst(v)
	if !ok || c.Kind() != constant.Int {
		return 0, false
	}
	return constant.Int64Val(c)
}

// window helpers ------------------------------------------------------------

func sliceWindow(p path) (base path, lo, hi int64, ok bool) {
	e, has := p.last()
	if !has || e.k != 'i' {
		return p, 0, infHi, false
	}
	return p.dropLast(), e.a, e.b, true
}

func (s *fstate) instr(in ssa.Instruction) {
	switch x := in.(type) {
	case *ssa.Alloc:
		s.addP1(x, path{root: s.root(x)})
	case *ssa.FieldAddr:
		for _, p := range s.Pts(x.X) {
			s.addP1(x, p.with(elem{k: 'f', a: int64(x.Field)}))
		}
	case *ssa.IndexAddr:
		c, isC := constI(x.Index)
		if isSlice(x.X.Type()) {
			for _, p := range s.Pts(x.X) {
				base, lo, hi, ok := sliceWindow(p)
				if !ok {
					s.addP1(x, p.with(elem{k: 'i', a: 0, b: infHi}))
					continue
				}
				if isC {
					s.addP1(x, base.with(elem{k: 'i', a: lo + c, b: lo + c + 1}))
				} else {
					s.addP1(x, base.with(elem{k: 'i', a: lo, b: hi}))
				}
			}
		} else { // pointer to array
			for _, p := range s.Pts(x.X) {
				if isC {
					s.addP1(x, p.with(elem{k: 'i', a: c, b: c + 1}))
				} else {
					s.addP1(x, p.with(elem{k: 'i', a: 0, b: infHi}))
				}
			}
		}
		s.sinkVal(x, x.Index, "index", "memory index")
	case *ssa.Slice:
		lo, hi := int64(0), infHi
		loK, hiK := true, false
		if x.Low != nil {
			lo, loK = constI(x.Low)
			if !loK {
				lo = 0
			}
		}
		if x.High != nil {
			hi, hiK = constI(x.High)
			if !hiK {
				hi = infHi
			}
		}
		switch {
		case isString(x.X.Type()):
			s.addT(x, s.T(x.X))
		case isSlice(x.X.Type()):
			for _, p := range s.Pts(x.X) {
				base, wlo, whi, ok := sliceWindow(p)
				if !ok {
					s.addP1(x, p)
					continue
				}
				nlo := wlo + lo
				nhi := whi
				if hiK {
					nhi = wlo + hi
				}
				if !loK {
					nlo = wlo
				}
				s.addP1(x, base.with(elem{k: 'i', a: nlo, b: nhi}))
			}
		default: // pointer to array
			var n int64 = infHi
			if pt, ok := x.X.Type().Underlying().(*types.Pointer); ok {
				if arr, ok := pt.Elem().Underlying().(*types.Array); ok {
					n = arr.Len()
				}
			}
			if !hiK {
				hi = n
			}
			for _, p := range s.Pts(x.X) {
				s.addP1(x, p.with(elem{k: 'i', a: lo, b: hi}))
			}
		}
		for _, b := range []ssa.Value{x.Low, x.High, x.Max} {
			if b != nil {
				s.sinkVal(x, b, "slice-bound", "slice bound")
			}
		}
	case *ssa.SliceToArrayPointer:
		for _, p := range s.Pts(x.X) {
			base, lo, _, ok := sliceWindow(p)
			if ok && lo == 0 {
				s.addP1(x, base)
			} else {
				s.addP1(x, p)
			}
		}
	case *ssa.UnOp:
		switch x.Op {
		case token.MUL:
			for _, p := range s.Pts(x.X) {
				s.addT(x, s.mem.load(p))
				if pointerLike(x.Type()) {
					if al := s.alias[p.key()]; al != nil {
						s.addP(x, al)
					}
					d := p.with(elem{k: 'd'})
					if isSlice(x.Type()) {
						d = d.with(elem{k: 'i', a: 0, b: infHi})
					}
					s.addP1(x, d)
				}
			}
		case token.ARROW:
			if s.contentTainted(x.X) {
				s.addFull(x)
			}
		default:
			if s.T(x.X).self() {
				s.addFull(x)
			}
		}
	case *ssa.BinOp:
		tx, ty := s.T(x.X).self(), s.T(x.Y).self()
		if tx || ty {
			s.addFull(x)
		}
		switch x.Op {
		case token.QUO, token.REM:
			s.sinkVal(x, x.X, "div", "operand of / or %")
			s.sinkVal(x, x.Y, "div", "operand of / or %")
		case token.SHL, token.SHR:
			s.sinkVal(x, x.Y, "shift", "shift count")
		case token.EQL, token.NEQ, token.LSS, token.GTR, token.LEQ, token.GEQ:
			if _, basic := x.X.Type().Underlying().(*types.Basic); !basic || isString(x.X.Type()) {
				if _, isPtr := x.X.Type().Underlying().(*types.Pointer); !isPtr {
					s.sinkVal(x, x.X, "compare", "operand of a non-constant-time aggregate/string comparison")
					s.sinkVal(x, x.Y, "compare", "operand of a non-constant-time aggregate/string comparison")
				}
			}
		}
	case *ssa.Convert:
		switch {
		case isString(x.X.Type()) && isSlice(x.Type()):
			r := path{root: s.root(x)}.with(elem{k: 'i', a: 0, b: infHi})
			s.addP1(x, r)
			if s.T(x.X).any() {
				s.store(r, fullTaint())
			}
		case isSlice(x.X.Type()) && isString(x.Type()):
			if s.contentTainted(x.X) {
				s.addFull(x)
			}
		default:
			s.addT(x, s.T(x.X))
			s.addP(x, s.Pts(x.X))
		}
	case *ssa.ChangeType:
		s.addT(x, s.T(x.X))
		s.addP(x, s.Pts(x.X))
	case *ssa.MultiConvert:
		s.addT(x, s.T(x.X))
		s.addP(x, s.Pts(x.X))
	case *ssa.ChangeInterface:
		s.addT(x, s.T(x.X))
		s.addP(x, s.Pts(x.X))
	case *ssa.MakeInterface:
		s.addT(x, s.T(x.X))
		s.addP(x, s.Pts(x.X))
	case *ssa.TypeAssert:
		if x.CommaOk {
			s.setTup(x, 2)
			if s.tupT[x][0].addAll(s.T(x.X)) {
				s.ch = true
			}
			if s.tupP[x][0].addAll(s.Pts(x.X)) {
				s.ch = true
			}
		} else {
			s.addT(x, s.T(x.X))
			s.addP(x, s.Pts(x.X))
		}
	case *ssa.Extract:
		if ts, ok := s.tupT[x.Tuple]; ok && x.Index < len(ts) {
			s.addT(x, ts[x.Index])
			s.addP(x, s.tupP[x.Tuple][x.Index])
		}
	case *ssa.Field:
		s.addT(x, project(s.T(x.X), elem{k: 'f', a: int64(x.Field)}))
	case *ssa.Index:
		c, isC := constI(x.Index)
		e := elem{k: 'i', a: 0, b: infHi}
		if isC {
			e = elem{k: 'i', a: c, b: c + 1}
		}
		s.addT(x, project(s.T(x.X), e))
		s.sinkVal(x, x.Index, "index", "array index")
	case *ssa.Lookup:
		if s.contentTainted(x.X) {
			if x.CommaOk {
				s.setTup(x, 2)
				if s.tupT[x][0].addAll(fullTaint()) {
					s.ch = true
				}
			} else {
				s.addFull(x)
			}
		}
		s.sinkVal(x, x.Index, "index", "map key / string index")
	case *ssa.Phi:
		for i, e := range x.Edges {
			if !s.live[x.Block().Preds[i]] {
				continue
			}
			s.addT(x, s.T(e))
			s.addP(x, s.Pts(e))
		}
	case *ssa.MakeSlice:
		hi := infHi
		if c, ok := constI(x.Len); ok {
			hi = c
		}
		s.addP1(x, path{root: s.root(x)}.with(elem{k: 'i', a: 0, b: hi}))
		s.sinkVal(x, x.Len, "alloc-size", "allocation size")
		s.sinkVal(x, x.Cap, "alloc-size", "allocation size")
	case *ssa.MakeMap, *ssa.MakeChan:
		s.addP1(x.(ssa.Value), path{root: s.root(x)})
	case *ssa.MakeClosure:
		// handled at call sites
	case *ssa.Range:
		s.addT(x, s.T(x.X))
		s.addP(x, s.Pts(x.X))
	case *ssa.Next:
		s.setTup(x, 3)
		if s.contentTainted(x.Iter.(*ssa.Range).X) {
			for i := 1; i < 3; i++ {
				if s.tupT[x][i].addAll(fullTaint()) {
					s.ch = true
				}
			}
		}
	case *ssa.Store:
		for _, p := range s.Pts(x.Addr) {
			s.store(p, s.T(x.Val))
			if pointerLike(x.Val.Type()) {
				if ps := s.Pts(x.Val); len(ps) > 0 {
					al := s.alias[p.key()]
					if al == nil {
						al = pathset{}
						s.alias[p.key()] = al
					}
					if al.addAll(ps) {
						s.ch = true
					}
				}
			}
		}
	case *ssa.MapUpdate:
		for _, p := range s.Pts(x.Map) {
			if s.T(x.Value).any() || s.T(x.Key).any() {
				s.store(p, fullTaint())
			}
		}
		s.sinkVal(x, x.Key, "index", "map key")
	case *ssa.If:
		if _, isConst := load.FoldConst(x.Cond); !isConst {
			s.sinkVal(x, x.Cond, "branch", "branch condition")
			if s.final {
				s.a.Stats.Branches++
			}
		}
	case *ssa.Call:
		s.call(x)
	case *ssa.Defer:
		s.call(x)
	case *ssa.Go:
		s.call(x)
	case *ssa.Send:
		if s.T(x.X).any() {
			for _, p := range s.Pts(x.Chan) {
				s.store(p, fullTaint())
			}
		}
	case *ssa.Select:
		// no channel use is expected in constant-time code; values received are untracked
	}
}

func (s *fstate) setTup(v ssa.Value, n int) {
	if _, ok := s.tupT[v]; ok {
		return
	}
	ts := make([]relset, n)
	ps := make([]pathset, n)
	for i := range ts {
		ts[i] = relset{}
		ps[i] = pathset{}
	}
	s.tupT[v] = ts
	s.tupP[v] = ps
}

// project selects the part of an aggregate value's taint below element e.
func project(r relset, e elem) relset {
	if len(r) == 0 {
		return nil
	}
	out := relset{}
	for k, es := range r {
		if k == "" {
			out[""] = nil
			continue
		}
		if len(es) > 0 && elemMatch(es[0], e) {
			rest := es[1:]
			if len(rest) == 0 {
				out[""] = nil
			} else {
				out[relKey(rest)] = rest
			}
		}
	}
	return out
}

// sinkVal reports v if tainted (only in the final pass).
func (s *fstate) sinkVal(at ssa.Instruction, v ssa.Value, kind, what string) {
	if !s.final || v == nil {
		return
	}
	switch kind {
	case "index":
		s.a.Stats.Indexes++
	case "slice-bound":
		s.a.Stats.SliceBounds++
	case "div":
		s.a.Stats.Divs++
	case "shift":
		s.a.Stats.Shifts++
	}
	if s.T(v).self() {
		s.a.sink(s.fn, at, kind, fmt.Sprintf("secret-dependent %s (%s)", what, describe(v)))
	}
}

func describe(v ssa.Value) string {
	switch x := v.(type) {
	case *ssa.Parameter:
		return "parameter " + x.Name()
	case *ssa.Call:
		return "result of " + x.Call.Value.Name()
	}
	n := v.Name()
	if s := v.String(); len(s) < 60 && s != n {
		return n + " = " + s
	}
	return n
}

func (a *Analyzer) sink(fn *ssa.Function, at ssa.Instruction, kind, what string) {
	pos := at.Pos()
	if !pos.IsValid() {
		// find a nearby position
		for _, in := range at.Block().Instrs {
			if in.Pos().IsValid() {
				pos = in.Pos()
			}
			if in == at && pos.IsValid() {
				break
			}
		}
	}
	ps := a.P.Pos(pos)
	name := load.FuncName(fn)
	key := kind + "|" + name + "|" + ps + "|" + what
	if a.sinks[key] {
		return
	}
	a.sinks[key] = true
	chain := append([]string{}, a.stack...)
	sk := Sink{Kind: kind, Func: name, Pos: ps, What: what, Entry: a.entry, Chain: chain}
	a.Sinks = append(a.Sinks, sk)
	if a.Rule != nil {
		a.Rule.Fail(ps, name, fmt.Sprintf("%s [sink %s]; entry %s; call chain: %s", what, kind, a.entry, strings.Join(chain, " → ")), sk)
	}
}

// ---------------------------------------------------------------------------

// Analyze computes the summary of fn under the entry context.
func (a *Analyzer) Analyze(fn *ssa.Function, in *ctxIn) *summary {
	key := in.key(fn)
	if s, ok := a.memo[key]; ok {
		return s
	}
	if a.inprog[key] {
		a.Stats.Recursions++
		return &summary{mem: pathset{}, results: make([]resval, fn.Signature.Results().Len())}
	}
	a.inprog[key] = true
	defer delete(a.inprog, key)
	a.stack = append(a.stack, load.FuncName(fn))
	defer func() { a.stack = a.stack[:len(a.stack)-1] }()
	a.Stats.Contexts++
	if !a.visited[fn] {
		a.visited[fn] = true
		a.Stats.Functions++
	}

	s := &fstate{a: a, fn: fn, in: in, live: load.LiveBlocks(fn), taint: map[ssa.Value]relset{}, pts: map[ssa.Value]pathset{},
		tupT: map[ssa.Value][]relset{}, tupP: map[ssa.Value][]pathset{}, mem: pathset{}, alias: map[string]pathset{}, rootID: map[any]string{}}
	s.mem.addAll(in.mem)
	np := len(fn.Params)
	for i, prm := range fn.Params {
		if i < len(in.vals) {
			s.addT(prm, in.vals[i])
		}
		if pointerLike(prm.Type()) {
			p := path{root: fmt.Sprintf("p%d", i)}
			if isSlice(prm.Type()) {
				p = p.with(elem{k: 'i', a: 0, b: infHi})
			}
			s.addP1(prm, p)
		}
	}
	for i, fv := range fn.FreeVars {
		if np+i < len(in.vals) {
			s.addT(fv, in.vals[np+i])
		}
		if pointerLike(fv.Type()) {
			p := path{root: fmt.Sprintf("f%d", i)}
			if isSlice(fv.Type()) {
				p = p.with(elem{k: 'i', a: 0, b: infHi})
			}
			s.addP1(fv, p)
		}
	}
	for iter := 0; iter < 50; iter++ {
		s.ch = false
		for _, b := range fn.Blocks {
			if !s.live[b] {
				continue
			}
			for _, in := range b.Instrs {
				s.instr(in)
			}
		}
		if !s.ch {
			break
		}
	}
	// final pass: evaluate sinks
	s.final = true
	for _, b := range fn.Blocks {
		if !s.live[b] {
			continue
		}
		for _, in := range b.Instrs {
			s.instr(in)
		}
	}
	s.final = false

	sum := &summary{mem: pathset{}, results: make([]resval, fn.Signature.Results().Len())}
	for i := range sum.results {
		sum.results[i] = resval{relset{}, pathset{}}
	}
	retRoots := map[string]bool{}
	for _, b := range fn.Blocks {
		if !s.live[b] || len(b.Instrs) == 0 {
			continue
		}
		ret, ok := b.Instrs[len(b.Instrs)-1].(*ssa.Return)
		if !ok {
			continue
		}
		for i, r := range ret.Results {
			sum.results[i].taint.addAll(s.T(r))
			for _, p := range s.Pts(r) {
				sum.results[i].pts.add(p)
				retRoots[p.root] = true
			}
		}
	}
	for _, p := range s.mem {
		switch {
		case strings.HasPrefix(p.root, "p"), strings.HasPrefix(p.root, "f"), strings.HasPrefix(p.root, "g:"):
			sum.mem.add(p)
		case retRoots[p.root]:
			sum.mem.add(p)
		}
	}
	a.memo[key] = sum
	return sum
}

// ---------------------------------------------------------------------------
// calls

func funcDisplay(fn *ssa.Function) string { return load.FuncName(fn) }

func isVartimeName(fn *ssa.Function) bool {
	return strings.Contains(fn.Name(), "Vartime") || strings.Contains(fn.Name(), "vartime")
}

func (s *fstate) anyArgTainted(args []ssa.Value) bool {
	for _, a := range args {
		if s.contentTainted(a) {
			return true
		}
	}
	return false
}

func (s *fstate) setResult(instr ssa.CallInstruction, idx int, n int, t relset, ps pathset) {
	v := instr.Value()
	if v == nil {
		return
	}
	if n <= 1 {
		s.addT(v, t)
		s.addP(v, ps)
		return
	}
	s.setTup(v, n)
	if s.tupT[v][idx].addAll(t) {
		s.ch = true
	}
	if s.tupP[v][idx].addAll(ps) {
		s.ch = true
	}
}

func (s *fstate) call(instr ssa.CallInstruction) {
	common := instr.Common()
	if s.final {
		s.a.Stats.Calls++
	}
	nres := common.Signature().Results().Len()

	// builtins
	if bi, ok := common.Value.(*ssa.Builtin); ok {
		s.builtin(instr, bi, common.Args)
		return
	}

	type target struct {
		fn   *ssa.Function
		args []ssa.Value // aligned with fn.Params
		free []ssa.Value
	}
	var targets []target
	var unresolved bool

	if common.IsInvoke() {
		recvArgs := append([]ssa.Value{common.Value}, common.Args...)
		fns := s.resolveInvoke(instr, common)
		if len(fns) == 0 {
			unresolved = true
		}
		for _, f := range fns {
			targets = append(targets, target{fn: f, args: recvArgs})
		}
	} else if callee := common.StaticCallee(); callee != nil {
		t := target{fn: callee, args: common.Args}
		if mc, ok := common.Value.(*ssa.MakeClosure); ok {
			t.free = mc.Bindings
		}
		targets = append(targets, t)
	} else {
		// dynamic function value: resolve through the call graph
		if node := s.a.P.CallGraph().Nodes[s.fn]; node != nil {
			for _, e := range node.Out {
				if e.Site == instr && e.Callee.Func != nil {
					targets = append(targets, target{fn: e.Callee.Func, args: common.Args})
				}
			}
		}
		if len(targets) == 0 {
			unresolved = true
		}
	}

	callerName := funcDisplay(s.fn)
	if unresolved {
		// interface method on a value of unknown dynamic type: model by the
		// interface method
		name := "?"
		if common.Method != nil {
			name = common.Method.FullName()
		}
		args := common.Args
		if common.IsInvoke() {
			args = append([]ssa.Value{common.Value}, common.Args...)
		}
		s.external(instr, name, args, nres)
		return
	}

	for _, t := range targets {
		callee := t.fn
		calleeName := funcDisplay(callee)
		pair := callerName + "→" + calleeName
		args := t.args
		if _, ok := s.a.DeclassArgs[pair]; ok {
			s.a.DeclassUsed["args:"+pair] = true
			continue // arguments are public by declaration; the callee's results are public too
		}
		inModule := callee.Pkg != nil && load.IsModule(callee.Pkg.Pkg) || (callee.Parent() != nil && load.IsModule(pkgOfFn(callee)))
		if inModule && isVartimeName(callee) {
			if s.anyArgTainted(args) || s.anyArgTainted(t.free) {
				if s.final {
					s.a.sink(s.fn, instr, "vartime", fmt.Sprintf("secret data reaches the variable-time routine %s", calleeName))
				}
			}
			continue
		}
		if inModule && len(callee.Blocks) > 0 {
			s.applySummary(instr, callee, args, t.free, nres, pair)
			continue
		}
		if inModule { // assembly
			s.asmCall(instr, callee, args, nres)
			continue
		}
		if _, ok := s.a.DeclassResult[pair]; ok {
			s.a.DeclassUsed["result:"+pair] = true
			continue // result is public by declaration; the allow-listed callee has no side effects
		}
		s.external(instr, callee.String(), args, nres)
	}
}

func pkgOfFn(fn *ssa.Function) *types.Package {
	for fn != nil {
		if fn.Pkg != nil {
			return fn.Pkg.Pkg
		}
		fn = fn.Parent()
	}
	return nil
}

// resolveInvoke finds the concrete methods an interface call can reach:
// first by tracing the receiver to MakeInterface instructions (exact), then
// through the VTA call graph.
func (s *fstate) resolveInvoke(instr ssa.CallInstruction, common *ssa.CallCommon) []*ssa.Function {
	var out []*ssa.Function
	seen := map[ssa.Value]bool{}
	exact := true
	var walk func(v ssa.Value)
	walk = func(v ssa.Value) {
		if seen[v] {
			return
		}
		seen[v] = true
		switch x := v.(type) {
		case *ssa.MakeInterface:
			if m := s.a.P.SSA.LookupMethod(x.X.Type(), common.Method.Pkg(), common.Method.Name()); m != nil {
				out = append(out, m)
			} else {
				exact = false
			}
		case *ssa.ChangeInterface:
			walk(x.X)
		case *ssa.Phi:
			for _, e := range x.Edges {
				walk(e)
			}
		case *ssa.Const:
			// nil interface
		default:
			exact = false
		}
	}
	walk(common.Value)
	if exact && len(out) > 0 {
		return out
	}
	out = nil
	if node := s.a.P.CallGraph().Nodes[s.fn]; node != nil {
		for _, e := range node.Out {
			if e.Site == instr && e.Callee.Func != nil {
				f := e.Callee.Func
				if pk := pkgOfFn(f); pk != nil && load.IsModule(pk) {
					out = append(out, f)
				}
			}
		}
	}
	// Only trust the call graph when every target is in the module; an
	// interface that may also hold foreign implementations is modelled by
	// its interface method instead.
	if len(out) > 0 && !exact {
		if _, isParamRooted := common.Value.(*ssa.Parameter); isParamRooted {
			return nil
		}
	}
	sort.Slice(out, func(i, j int) bool { return out[i].String() < out[j].String() })
	return out
}

// translate caller taint into the callee's parameter-rooted paths.
func toCallee(t path, a path, root string, slice bool) (path, bool) {
	q := a
	var wlo int64
	var whi int64 = infHi
	if slice {
		if b, lo, hi, ok := sliceWindow(a); ok {
			q, wlo, whi = b, lo, hi
		} else {
			slice = false
		}
	}
	rest, ok := related(t, q)
	if !ok {
		return path{}, false
	}
	out := path{root: root}
	if len(t.el) <= len(q.el) {
		// t covers the whole argument
		if slice {
			out = out.with(elem{k: 'i', a: 0, b: infHi})
		}
		return out, true
	}
	if slice {
		e := rest[0]
		if e.k != 'i' {
			return path{}, false
		}
		w := elem{k: 'i', a: wlo, b: whi}
		if !overlap(e, w) {
			return path{}, false
		}
		lo := e.a
		if lo < wlo {
			lo = wlo
		}
		hi := e.b
		if whi != infHi && (hi == infHi || hi > whi) {
			hi = whi
		}
		nlo := lo - wlo
		nhi := infHi
		if hi != infHi {
			nhi = hi - wlo
		}
		out = out.with(elem{k: 'i', a: nlo, b: nhi})
		rest = rest[1:]
	}
	return out.withAll(rest), true
}

// toCaller maps a callee path rooted at a parameter back onto the argument.
func toCaller(c path, a path, slice bool) path {
	if slice {
		if b, wlo, whi, ok := sliceWindow(a); ok {
			if len(c.el) == 0 {
				return a
			}
			e := c.el[0]
			if e.k == 'i' {
				lo := wlo + e.a
				hi := whi
				if e.b != infHi {
					hi = wlo + e.b
					if whi != infHi && hi > whi {
						hi = whi
					}
				}
				return b.with(elem{k: 'i', a: lo, b: hi}).withAll(c.el[1:])
			}
			return a.withAll(c.el)
		}
	}
	return a.withAll(c.el)
}

func (s *fstate) applySummary(instr ssa.CallInstruction, callee *ssa.Function, args, free []ssa.Value, nres int, pair string) {
	in := &ctxIn{mem: pathset{}}
	all := append(append([]ssa.Value{}, args...), free...)
	np := len(callee.Params)
	if len(args) != np {
		// signature mismatch (should not happen); be conservative
		if s.anyArgTainted(all) && s.final {
			s.a.sink(s.fn, instr, "call", "secret passed to a call the analysis cannot align: "+funcDisplay(callee))
		}
		return
	}
	in.vals = make([]relset, len(all))
	for i, a := range all {
		in.vals[i] = relset{}
		in.vals[i].addAll(s.T(a))
		var prmType types.Type
		root := ""
		if i < np {
			prmType = callee.Params[i].Type()
			root = fmt.Sprintf("p%d", i)
		} else {
			prmType = callee.FreeVars[i-np].Type()
			root = fmt.Sprintf("f%d", i-np)
		}
		if !pointerLike(prmType) {
			continue
		}
		sl := isSlice(prmType)
		for _, ap := range s.Pts(a) {
			for _, t := range s.mem {
				if cp, ok := toCallee(t, ap, root, sl); ok {
					in.mem.add(cp)
				}
			}
		}
	}
	for _, t := range s.mem {
		if strings.HasPrefix(t.root, "g:") {
			in.mem.add(t)
		}
	}
	sum := s.a.Analyze(callee, in)
	// effects
	rename := func(p path) []path {
		switch {
		case strings.HasPrefix(p.root, "g:"):
			return []path{p}
		case strings.HasPrefix(p.root, "p") || strings.HasPrefix(p.root, "f"):
			var idx int
			fmt.Sscanf(p.root[1:], "%d", &idx)
			if p.root[0] == 'f' {
				idx += np
			}
			if idx >= len(all) {
				return nil
			}
			var prmType types.Type
			if idx < np {
				prmType = callee.Params[idx].Type()
			} else {
				prmType = callee.FreeVars[idx-np].Type()
			}
			var out []path
			for _, ap := range s.Pts(all[idx]) {
				out = append(out, toCaller(p, ap, isSlice(prmType)))
			}
			return out
		default:
			// callee-local memory escaping through the result
			return []path{{root: s.root(fmt.Sprintf("%p/%s", instr, p.root)), el: p.el}}
		}
	}
	for _, p := range sum.mem {
		for _, q := range rename(p) {
			if s.mem.add(q) {
				s.ch = true
			}
		}
	}
	_, declass := s.a.DeclassResult[pair]
	if declass {
		s.a.DeclassUsed["result:"+pair] = true
	}
	for i, r := range sum.results {
		ps := pathset{}
		for _, p := range r.pts {
			for _, q := range rename(p) {
				ps.add(q)
			}
		}
		t := r.taint
		if declass {
			t = nil
		}
		s.setResult(instr, i, nres, t, ps)
	}
}

func (s *fstate) asmCall(instr ssa.CallInstruction, callee *ssa.Function, args []ssa.Value, nres int) {
	name := funcDisplay(callee)
	tainted := s.anyArgTainted(args)
	if !tainted {
		return
	}
	if s.a.AsmOK != nil && !s.a.AsmOK[name] && s.final {
		s.a.sink(s.fn, instr, "asm", "secret passed to an assembly routine that was not admitted by the assembly lint: "+name)
	}
	writes, have := s.a.AsmWrites[name]
	for i, a := range args {
		if !pointerLike(a.Type()) {
			continue
		}
		if have {
			ok := false
			for _, w := range writes {
				if w == i {
					ok = true
				}
			}
			if !ok {
				continue
			}
		}
		for _, p := range s.Pts(a) {
			s.store(p, fullTaint())
		}
	}
	for i := 0; i < nres; i++ {
		s.setResult(instr, i, nres, fullTaint(), nil)
	}
}

func (s *fstate) builtin(instr ssa.CallInstruction, bi *ssa.Builtin, args []ssa.Value) {
	switch bi.Name() {
	case "len", "cap":
		// public: lengths are not secret
	case "copy":
		if s.contentTainted(args[1]) {
			for _, p := range s.Pts(args[0]) {
				s.store(p, fullTaint())
			}
		}
	case "append":
		v := instr.Value()
		fresh := path{root: s.root(instr)}.with(elem{k: 'i', a: 0, b: infHi})
		res := pathset{}
		res.add(fresh)
		for _, p := range s.Pts(args[0]) {
			if b, lo, _, ok := sliceWindow(p); ok {
				res.add(b.with(elem{k: 'i', a: lo, b: infHi}))
			} else {
				res.add(p)
			}
		}
		s.addP(v, res)
		if len(args) > 1 && s.contentTainted(args[1]) {
			for _, p := range res {
				s.store(p, fullTaint())
			}
		}
		if s.contentTainted(args[0]) {
			s.store(fresh, fullTaint())
		}
	case "min", "max":
		for _, a := range args {
			if s.T(a).any() {
				s.addFull(instr.Value())
			}
		}
	case "ssa:wrapnilchk":
		s.addT(instr.Value(), s.T(args[0]))
		s.addP(instr.Value(), s.Pts(args[0]))
	}
}
