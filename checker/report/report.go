// Package report collects obligations, violations and evidence for one
// property run and implements the VIOLATION / KNOWN-FINDING interface.
package report

import (
	"bufio"
	"encoding/json"
	"fmt"
	"os"
	"path/filepath"
	"sort"
	"strings"
	"sync"
	"time"
)

// VerifDir is the framework root.
func VerifDir() string {
	if d := os.Getenv("VOI_VERIF"); d != "" {
		return d
	}
	return "/verif"
}

// Violation is one reported construct.
type Violation struct {
	Property  string   `json:"property"`
	Rule      string   `json:"rule"`
	Configs   []string `json:"configs"`
	Pos       string   `json:"pos"`
	Construct string   `json:"construct"`
	Msg       string   `json:"msg"`
	Detail    any      `json:"detail,omitempty"`
}

// Rule is one armed rule of a property.
type Rule struct {
	ID          string
	Desc        string
	ExpectedMin int

	mu         sync.Mutex
	instances  int
	discharged int
	constructs map[string]bool
	perConfig  map[string]int
	undecided  []string
	run        *Run

	// positive controls: violations located in a control file
	// (zz_voicheck_control) are required, not reported.
	needControl bool
	nControl    int
	controls    map[string]bool
}

// RequireControl declares that the rule's expected violation count on the
// real tree is zero and that at least n distinct positive-control constructs
// must be reported by it on every run.
func (ru *Rule) RequireControl(n int) *Rule {
	ru.needControl = true
	if n > ru.nControl {
		ru.nControl = n
	}
	return ru
}

// Run is one property run.
type Run struct {
	Prop        string
	Tier        string
	Seed        int
	Explanation string
	Assumptions []string
	NotDecided  []string
	Configs     []string
	Exhaustive  bool
	Extra       map[string]any

	mu      sync.Mutex
	start   time.Time
	rules   []*Rule
	byID    map[string]*Rule
	samples []any
	viols   map[string]*Violation
	order   []string
	cfg     string // current configuration label
	fatal   []string

	perConstruct map[string]int
	suppressed   int
}

// New starts a run.
func New(prop, tier string, seed int) *Run {
	return &Run{Prop: prop, Tier: tier, Seed: seed, start: time.Now(), byID: map[string]*Rule{},
		viols: map[string]*Violation{}, Extra: map[string]any{}}
}

// SetConfig names the configuration subsequent obligations belong to.
func (r *Run) SetConfig(c string) {
	r.mu.Lock()
	r.cfg = c
	seen := false
	for _, x := range r.Configs {
		if x == c {
			seen = true
		}
	}
	if !seen && c != "" {
		r.Configs = append(r.Configs, c)
	}
	r.mu.Unlock()
}

// Config returns the current configuration label.
func (r *Run) Config() string { r.mu.Lock(); defer r.mu.Unlock(); return r.cfg }

// Rule declares (or returns) a rule.  expectedMin is the minimum number of
// instances per run over all configurations; fewer is a failure (vacuity).
func (r *Run) Rule(id, desc string, expectedMin int) *Rule {
	r.mu.Lock()
	defer r.mu.Unlock()
	if ru := r.byID[id]; ru != nil {
		return ru
	}
	ru := &Rule{ID: id, Desc: desc, ExpectedMin: expectedMin, constructs: map[string]bool{}, perConfig: map[string]int{}, run: r}
	r.byID[id] = ru
	r.rules = append(r.rules, ru)
	return ru
}

// OK records a discharged obligation on a construct.
func (ru *Rule) OK(construct string) {
	cfg := ru.run.Config()
	ru.mu.Lock()
	ru.instances++
	ru.discharged++
	ru.constructs[construct] = true
	ru.perConfig[cfg]++
	ru.mu.Unlock()
}

// OKN records n discharged obligations on one construct.
func (ru *Rule) OKN(construct string, n int) {
	cfg := ru.run.Config()
	ru.mu.Lock()
	ru.instances += n
	ru.discharged += n
	ru.constructs[construct] = true
	ru.perConfig[cfg] += n
	ru.mu.Unlock()
}

// Fail records a violated obligation.
func (ru *Rule) Fail(pos, construct, msg string, detail any) {
	cfg := ru.run.Config()
	if strings.Contains(pos, "zz_voicheck_control") || strings.Contains(construct, "oicheckControl") {
		ru.mu.Lock()
		if ru.controls == nil {
			ru.controls = map[string]bool{}
		}
		ru.controls[construct] = true
		ru.mu.Unlock()
		return
	}
	ru.mu.Lock()
	ru.instances++
	ru.constructs[construct] = true
	ru.perConfig[cfg]++
	ru.mu.Unlock()
	ru.run.addViolation(ru.ID, cfg, pos, construct, msg, detail)
}

// Failf is Fail with formatting and no detail.
func (ru *Rule) Failf(pos, construct, format string, a ...any) {
	ru.Fail(pos, construct, fmt.Sprintf(format, a...), nil)
}

// Check records OK or Fail.
func (ru *Rule) Check(ok bool, pos, construct, msg string) bool {
	if ok {
		ru.OK(construct)
	} else {
		ru.Fail(pos, construct, msg, nil)
	}
	return ok
}

// Instances returns the number of obligations seen so far.
func (ru *Rule) Instances() int { ru.mu.Lock(); defer ru.mu.Unlock(); return ru.instances }

func (r *Run) addViolation(rule, cfg, pos, construct, msg string, detail any) {
	r.mu.Lock()
	defer r.mu.Unlock()
	key := rule + "\x00" + construct + "\x00" + msg
	if _, dup := r.viols[key]; !dup {
		// at most maxPerConstruct distinct reports per (rule, construct): a broken
		// decision table fails on hundreds of paths; the first few name the defect
		ck := rule + "\x00" + construct
		if r.perConstruct == nil {
			r.perConstruct = map[string]int{}
		}
		r.perConstruct[ck]++
		if r.perConstruct[ck] > maxPerConstruct {
			r.suppressed++
			return
		}
	}
	if v := r.viols[key]; v != nil {
		for _, c := range v.Configs {
			if c == cfg {
				return
			}
		}
		v.Configs = append(v.Configs, cfg)
		return
	}
	r.viols[key] = &Violation{Property: r.Prop, Rule: rule, Configs: []string{cfg}, Pos: pos, Construct: construct, Msg: msg, Detail: detail}
	r.order = append(r.order, key)
}

const maxPerConstruct = 4

// Fatal records a failure of the machinery itself (load error, unresolved
// anchor, analysis panic).  It fails the check.
func (r *Run) Fatal(format string, a ...any) {
	r.mu.Lock()
	r.fatal = append(r.fatal, fmt.Sprintf(format, a...))
	r.mu.Unlock()
}

// Sample adds an actual case to the evidence (bounded).
func (r *Run) Sample(s any) {
	r.mu.Lock()
	if len(r.samples) < 40 {
		r.samples = append(r.samples, s)
	}
	r.mu.Unlock()
}

type finding struct {
	kind, prop, rule, construct, text string
}

func loadFindings() []finding {
	f, err := os.Open(filepath.Join(VerifDir(), "known-findings.txt"))
	if err != nil {
		return nil
	}
	defer f.Close()
	var out []finding
	sc := bufio.NewScanner(f)
	for sc.Scan() {
		line := strings.TrimSpace(sc.Text())
		if line == "" || strings.HasPrefix(line, "#") {
			continue
		}
		var fd finding
		switch {
		case strings.HasPrefix(line, "finding:"):
			fd.kind = "finding"
			line = strings.TrimSpace(strings.TrimPrefix(line, "finding:"))
		case strings.HasPrefix(line, "fixed:"):
			fd.kind = "fixed"
			line = strings.TrimSpace(strings.TrimPrefix(line, "fixed:"))
		default:
			continue
		}
		fields := strings.Fields(line)
		rest := []string{}
		for _, w := range fields {
			switch {
			case strings.HasPrefix(w, "property=") && fd.prop == "":
				fd.prop = strings.TrimPrefix(w, "property=")
			case strings.HasPrefix(w, "rule=") && fd.rule == "":
				fd.rule = strings.TrimPrefix(w, "rule=")
			case strings.HasPrefix(w, "construct=") && fd.construct == "":
				fd.construct = strings.TrimPrefix(w, "construct=")
			default:
				rest = append(rest, w)
			}
		}
		fd.text = strings.Join(rest, " ")
		out = append(out, fd)
	}
	return out
}

type ruleEvidence struct {
	ID          string         `json:"id"`
	Desc        string         `json:"desc"`
	Instances   int            `json:"instances"`
	Discharged  int            `json:"discharged"`
	ExpectedMin int            `json:"expected_min"`
	Controls    []string       `json:"positive_controls_fired,omitempty"`
	Constructs  int            `json:"distinct_constructs"`
	PerConfig   map[string]int `json:"per_config,omitempty"`
}

// Finish writes the evidence and violation files, prints the interface
// lines and returns the process exit code.
func (r *Run) Finish() int {
	r.mu.Lock()
	defer r.mu.Unlock()
	// vacuity
	for _, ru := range r.rules {
		if ru.instances < ru.ExpectedMin {
			key := ru.ID + "\x00vacuity"
			r.viols[key] = &Violation{Property: r.Prop, Rule: ru.ID + "/vacuity", Configs: r.Configs, Pos: "-", Construct: "rule " + ru.ID,
				Msg: fmt.Sprintf("rule matched %d instances, fewer than the %d confirmed by hand: the rule no longer sees the code it was written for", ru.instances, ru.ExpectedMin)}
			r.order = append(r.order, key)
		}
	}
	for _, ru := range r.rules {
		if ru.needControl && len(ru.controls) < ru.nControl {
			r.fatal = append(r.fatal, fmt.Sprintf("rule %s: only %d of %d positive controls fired (the rule is blind)", ru.ID, len(ru.controls), ru.nControl))
		}
	}
	findings := loadFindings()
	vdir := filepath.Join(VerifDir(), "evidence", "violations")
	os.MkdirAll(vdir, 0o755)
	// remove stale violation files of this property
	if old, _ := filepath.Glob(filepath.Join(vdir, r.Prop+"-*.json")); old != nil {
		for _, f := range old {
			os.Remove(f)
		}
	}
	nviol := 0
	known := 0
	var lines []string
	for _, key := range r.order {
		v := r.viols[key]
		sort.Strings(v.Configs)
		isKnown := false
		for _, fd := range findings {
			if fd.kind == "finding" && fd.prop == r.Prop && fd.rule == v.Rule && fd.construct == v.Construct {
				isKnown = true
				lines = append(lines, fmt.Sprintf("KNOWN-FINDING: property=%s rule=%s construct=%s %s", r.Prop, v.Rule, v.Construct, v.Msg))
			}
		}
		if isKnown {
			known++
			continue
		}
		nviol++
		path := filepath.Join(vdir, fmt.Sprintf("%s-%d.json", r.Prop, nviol))
		b, _ := json.MarshalIndent(v, "", " ")
		os.WriteFile(path, append(b, '\n'), 0o644)
		lines = append(lines, fmt.Sprintf("  %s [%s] %s %s: %s (configs %s)", v.Pos, v.Rule, v.Construct, "", v.Msg, strings.Join(v.Configs, ",")))
		lines = append(lines, fmt.Sprintf("VIOLATION property=%s replay=%s", r.Prop, path))
	}
	for i, f := range r.fatal {
		nviol++
		path := filepath.Join(vdir, fmt.Sprintf("%s-%d.json", r.Prop, nviol))
		b, _ := json.MarshalIndent(Violation{Property: r.Prop, Rule: "MACHINERY", Pos: "-", Construct: fmt.Sprintf("fatal-%d", i), Msg: f}, "", " ")
		os.WriteFile(path, append(b, '\n'), 0o644)
		lines = append(lines, "  MACHINERY FAILURE: "+f)
		lines = append(lines, fmt.Sprintf("VIOLATION property=%s replay=%s", r.Prop, path))
	}

	obl, dis, distinct := 0, 0, 0
	var res []ruleEvidence
	for _, ru := range r.rules {
		obl += ru.instances
		dis += ru.discharged
		distinct += len(ru.constructs)
		var ctl []string
		for c := range ru.controls {
			ctl = append(ctl, c)
		}
		sort.Strings(ctl)
		res = append(res, ruleEvidence{ru.ID, ru.Desc, ru.instances, ru.discharged, ru.ExpectedMin, ctl, len(ru.constructs), ru.perConfig})
	}
	samples := r.samples
	if len(samples) == 0 {
		samples = []any{"(no obligations were generated)"}
	}
	cov := map[string]any{
		"explanation":         r.Explanation,
		"obligations":         obl,
		"discharged":          dis,
		"evaluations":         obl,
		"distinct_nontrivial": distinct,
		"rule":                "one evaluation = one obligation of an armed rule decided on /repo's current source in one build configuration; distinct_nontrivial = number of distinct (rule, construct) pairs",
		"samples":             samples,
		"rules":               res,
		"configurations":      r.Configs,
		"known_findings":      known,
		"further_reports_on_same_construct_suppressed": r.suppressed,
		"not_decided":  append([]string{}, r.NotDecided...),
		"checker_cmd":  fmt.Sprintf("/verif/check %s %s", r.Prop, r.Tier),
		"trusted_base": []string{"go/types, go/ssa, VTA call graph (golang.org/x/tools v0.29.0)", "the specification tables transcribed into the checker"},
	}
	if r.Exhaustive {
		cov["exhaustive"] = true
	}
	for k, v := range r.Extra {
		cov[k] = v
	}
	assumptions := append([]string{
		"go/types, go/ssa and the VTA call graph of golang.org/x/tools v0.29.0 are correct",
		"the clause decided is a structural necessary condition of the property; the numeric/behavioural remainder listed under not_decided is not claimed",
	}, r.Assumptions...)
	ev := map[string]any{
		"property_id": r.Prop,
		"tier":        r.Tier,
		"seed":        r.Seed,
		"level":       "other",
		"coverage":    cov,
		"assumptions": assumptions,
		"wall_s":      time.Since(r.start).Seconds(),
		"violations":  nviol,
	}
	b, _ := json.MarshalIndent(ev, "", " ")
	os.MkdirAll(filepath.Join(VerifDir(), "evidence"), 0o755)
	if err := os.WriteFile(filepath.Join(VerifDir(), "evidence", r.Prop+".json"), append(b, '\n'), 0o644); err != nil {
		fmt.Println("cannot write evidence:", err)
		return 2
	}
	fmt.Printf("%s %s: %d obligations, %d discharged, %d rules, configs %v, %.1fs\n", r.Prop, r.Tier, obl, dis, len(r.rules), r.Configs, time.Since(r.start).Seconds())
	for _, ru := range res {
		fmt.Printf("  rule %-28s instances=%-5d discharged=%-5d expected_min=%d\n", ru.ID, ru.Instances, ru.Discharged, ru.ExpectedMin)
	}
	for _, l := range lines {
		fmt.Println(l)
	}
	if nviol > 0 {
		return 1
	}
	fmt.Printf("%s: PASS\n", r.Prop)
	return 0
}
