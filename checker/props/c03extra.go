package props

import (
	"fmt"
	"go/types"
	"strings"

	"golang.org/x/tools/go/ssa"

	"voicheck/edt"
	"voicheck/load"
	"voicheck/report"
)

// rootParam traces an address to the parameter it is a field/element of.
func rootParam(v ssa.Value) *ssa.Parameter {
	for i := 0; i < 20; i++ {
		switch x := v.(type) {
		case *ssa.Parameter:
			return x
		case *ssa.FieldAddr:
			v = x.X
		case *ssa.IndexAddr:
			v = x.X
		default:
			return nil
		}
	}
	return nil
}

func isFieldElementPtr(t types.Type) bool {
	pt, ok := t.Underlying().(*types.Pointer)
	if !ok {
		return false
	}
	n, ok := pt.Elem().(*types.Named)
	return ok && n.Obj().Name() == "Element" && n.Obj().Pkg() != nil && load.Rel(n.Obj().Pkg()) == "internal/field"
}

// checkConversionsReadSource (sibling uniformity of the representation
// conversions): a point-model method set*/Set* that converts ONE source
// operand of a DIFFERENT model type into its receiver computes every output
// coordinate from the source's coordinates; it never feeds a coordinate of the
// receiver it has already overwritten back in as an operand.  All conversions
// of curve/models.go follow this pattern today (the rule is the majority
// idiom, confirmed by reading); a conversion that reads its own output mixes
// old and new coordinates.
func checkConversionsReadSource(p *load.Program, rule *report.Rule) int {
	n := 0
	sp := p.SSAPkg("curve")
	if sp == nil {
		rule.Fail("-", "curve", "package curve not loaded", nil)
		return 0
	}
	for _, fn := range p.ModuleFuncs() {
		if fn.Pkg != sp || len(fn.Blocks) == 0 || fn.Signature.Recv() == nil || len(fn.Params) != 2 {
			continue
		}
		name := fn.Name()
		if !strings.HasPrefix(name, "set") && !strings.HasPrefix(name, "Set") {
			continue
		}
		recvT, srcT := fn.Params[0].Type(), fn.Params[1].Type()
		if types.Identical(recvT, srcT) {
			continue // same model: aliasing receiver and source is allowed (p.Set(p))
		}
		if _, ok := srcT.Underlying().(*types.Pointer); !ok {
			continue
		}
		calls := 0
		bad := ""
		for _, b := range fn.Blocks {
			for _, in := range b.Instrs {
				call, ok := in.(*ssa.Call)
				if !ok {
					continue
				}
				callee := call.Call.StaticCallee()
				if callee == nil || callee.Signature.Recv() == nil || !isFieldElementPtr(callee.Signature.Recv().Type()) {
					continue
				}
				args := call.Call.Args
				if len(args) == 0 || rootParam(args[0]) != fn.Params[0] {
					continue // not writing a receiver coordinate
				}
				calls++
				for _, a := range args[1:] {
					if isFieldElementPtr(a.Type()) && rootParam(a) == fn.Params[0] {
						bad = fmt.Sprintf("%s: %s reads a coordinate of the receiver as an operand while converting from %s (%s)", p.Pos(call.Pos()), callee.Name(), types.TypeString(srcT, nil), "every other conversion computes all outputs from the source")
					}
				}
			}
		}
		if calls == 0 {
			continue
		}
		n++
		if bad != "" {
			rule.Fail(p.Pos(fn.Pos()), load.FuncName(fn), bad, nil)
		} else {
			rule.OK(load.FuncName(fn))
		}
	}
	return n
}

// pairing specs: static scalars stay paired with static points, dynamic with dynamic.
func c03PairingSpecs(hasVector bool) []*edt.Spec {
	vec := func(e *edt.Env) edt.Tri {
		if !hasVector {
			return edt.F // supportsVectorizedEdwards is the constant false in this configuration
		}
		return e.V("vector")
	}
	minPaths := 3
	if !hasVector {
		minPaths = 2
	}
	pip := func(target string) string {
		return "curve." + target + "($staticScalars, φL0.0, $dynamicScalars, $dynamicPoints)"
	}
	return []*edt.Spec{
		{
			Pkg: "curve", Func: "expandedEdwardsMultiscalarMulPippengerVartime", SymLoops: true, MinPaths: minPaths,
			Opaque: []string{"curve.edwardsMultiscalarMulPippengerVartimeVector", "curve.edwardsMultiscalarMulPippengerVartimeGeneric"},
			Abbrev: [][2]string{{"φL0.1", "IDX"}},
			Vars:   map[string]string{"(IDX < len($staticPoints))": "more", "@curve.supportsVectorizedEdwards": "vector"},
			Classify: func(p *edt.Path, out string, e *edt.Env) string {
				switch {
				case strings.HasPrefix(out, "next-iteration@L0("):
					return "collect"
				case out == "ptr($out)":
					if f, ok := p.Final["$out"]; ok {
						switch f.String() {
						case pip("edwardsMultiscalarMulPippengerVartimeVector"):
							return "vector"
						case pip("edwardsMultiscalarMulPippengerVartimeGeneric"):
							return "generic"
						}
					}
				}
				return ""
			},
			Formula: map[string]func(e *edt.Env) edt.Tri{
				"collect": func(e *edt.Env) edt.Tri { return e.V("more") },
				"vector":  func(e *edt.Env) edt.Tri { return edt.And(edt.Not(e.V("more")), vec(e)) },
				"generic": func(e *edt.Env) edt.Tri { return edt.And(edt.Not(e.V("more")), edt.Not(vec(e))) },
			},
			Extra: func(p *edt.Path, out, class string, e *edt.Env, ab func(string) string) string {
				if class == "collect" {
					// the list passed in the static-points position is built, in order, from staticPoints[i].point
					ok := false
					for _, f := range p.Final {
						if ab(f.String()) == "cat(φL0.0, &T:$staticPoints[IDX].point)" {
							ok = true
						}
					}
					if !ok {
						return "the point list paired with the static scalars is not built element by element from staticPoints[i].point"
					}
					return ""
				}
				for _, ev := range p.Events {
					if ev == "loop L0: φL0.0 starts as cat" {
						return ""
					}
				}
				return "the point list paired with the static scalars does not start empty"
			},
		},
	}
}
