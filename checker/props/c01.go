package props

import (
	"fmt"
	"go/ast"
	"go/constant"
	"go/types"
	"strings"

	"voicheck/edt"
	"voicheck/load"
	"voicheck/report"
)

// Role vocabulary shared by the Ed25519 verification specs (C01, C09).
// Long canonical terms are abbreviated in this order.
var ed25519Abbrev = [][2]string{
	{"CompressedEdwardsY.SetBytes($publicKey)", "Aenc"},
	{"EdwardsPoint.SetCompressedY(Aenc)", "A"},
	{"CompressedEdwardsY.SetBytes($sig[0:32])", "Renc"},
	{"EdwardsPoint.SetCompressedY(Renc)", "R"},
	{"Scalar.SetBytesModOrder($sig[32:])", "S"},
	{"\"SigEd25519 no Ed25519 collisions\"", "DOM2PFX"},
	{"@primitives/ed25519.VerifyOptionsDefault.", "def."},
	{"$opts.Verify.", "opt."},
}

// flag atoms of an options struct prefix -> variables
func flagVars(vars map[string]string, prefix, tag string) {
	vars[prefix+"AllowSmallOrderA"] = tag + "smallA"
	vars[prefix+"AllowSmallOrderR"] = tag + "smallR"
	vars[prefix+"AllowNonCanonicalA"] = tag + "nonCanA"
	vars[prefix+"AllowNonCanonicalR"] = tag + "nonCanR"
	vars[prefix+"CofactorlessVerify"] = tag + "cofactorless"
}

// optsFlag: the flag the code must consult: opts.Verify's, or the default
// preset's when opts.Verify is nil.
func optsFlag(e *edt.Env, x string) edt.Tri {
	return edt.Ite(e.V("verifyNil"), e.V("d."+x), e.V("o."+x))
}

// Specification of option/hash validation (DT-4): error classes.
func optsError(e *edt.Env) edt.Tri {
	incompatible := edt.And(edt.Not(e.V("verifyNil")), e.V("o.nonCanR"), e.V("o.cofactorless"))
	ctxErr := edt.And(e.V("ctxNonEmpty"), e.V("ctxTooLong"))
	hashErr := edt.Or(edt.And(e.V("hashSHA512"), edt.Not(e.V("msgLen64"))), edt.And(edt.Not(e.V("hashSHA512")), edt.Not(e.V("hashZero"))))
	return edt.Or(incompatible, ctxErr, hashErr)
}

// admission predicates (DT-1, DT-2) over a flag accessor.
func pkAdmit(e *edt.Env, flag func(string) edt.Tri) edt.Tri {
	return edt.And(e.V("pkLenOK"), e.V("decodeA"), edt.Or(flag("smallA"), edt.Not(e.V("isSmallA"))), edt.Or(flag("nonCanA"), e.V("canonA")))
}

func sigAdmit(e *edt.Env, flag func(string) edt.Tri) edt.Tri {
	needR := edt.Not(edt.And(flag("cofactorless"), flag("smallR")))
	rOK := edt.Implies(needR, edt.And(e.V("decodeR"), edt.Or(flag("smallR"), edt.Not(e.V("isSmallR")))))
	return edt.And(e.V("sigLen64"), e.V("sMinimal"), rOK, edt.Or(flag("nonCanR"), e.V("canonR")))
}

// dom2 term required by RFC 8032 for the variant the path selected.
func dom2Term(e *edt.Env, ctxExpr string) (string, bool) {
	if !e.Known("ctxNonEmpty") || !e.Known("hashSHA512") {
		return "", false
	}
	ctx := e.V("ctxNonEmpty") == edt.T
	ph := e.V("hashSHA512") == edt.T
	switch {
	case !ctx && !ph:
		return "", true // pure Ed25519: no dom2
	case ctx && !ph:
		return "cat(DOM2PFX, 0, byte(len(" + ctxExpr + ")), bytes(" + ctxExpr + ")), ", true
	case ctx && ph:
		return "cat(DOM2PFX, 1, byte(len(" + ctxExpr + ")), bytes(" + ctxExpr + ")), ", true
	default:
		return "cat(DOM2PFX, 1, 0), ", true
	}
}

func verifyVars() map[string]string {
	vars := map[string]string{
		"isnil($opts.Verify)":                         "verifyNil",
		"($opts.Hash == 7)":                           "hashSHA512",
		"($opts.Hash == 0)":                           "hashZero",
		"(len($opts.Context) == 0)":                   "!ctxNonEmpty",
		"(255 < len($opts.Context))":                  "ctxTooLong",
		"(len($message) == 64)":                       "msgLen64",
		"(len($sig) == 64)":                           "sigLen64",
		"isnil(err(Aenc))":                            "pkLenOK",
		"isnil(err(A))":                               "decodeA",
		"EdwardsPoint.IsSmallOrder(A)":                "isSmallA",
		"CompressedEdwardsY.IsCanonicalVartime(Aenc)": "canonA",
		"scalar.ScMinimalVartime($sig[32:])":          "sMinimal",
		"isnil(err(R))":                               "decodeR",
		"EdwardsPoint.IsSmallOrder(R)":                "isSmallR",
		"CompressedEdwardsY.IsCanonicalVartime(Renc)": "canonR",
	}
	flagVars(vars, "opt.", "o.")
	flagVars(vars, "def.", "d.")
	return vars
}

var verifyAssume = map[string]edt.Assumption{
	"isnil(err(Renc))": {Val: true, Why: "SetBytes fails only on a wrong length; sig[0:32] has exactly 32 bytes (E-LEN failsOnlyOnLen)"},
	"isnil(err(S))":    {Val: true, Why: "SetBytesModOrder fails only on a wrong length; sig[32:] has exactly 32 bytes once len(sig)==64"},
}

func c01Spec() *edt.Spec {
	vars := verifyVars()
	flag := func(e *edt.Env) func(string) edt.Tri { return func(x string) edt.Tri { return optsFlag(e, x) } }
	return &edt.Spec{
		Pkg: "primitives/ed25519", Func: "verifyWithOptionsNoPanic",
		Abbrev: ed25519Abbrev, Vars: vars, Assume: verifyAssume, MinPaths: 400,
		Classify: func(p *edt.Path, out string, e *edt.Env) string {
			switch {
			case out == "false ; nil":
				return "reject"
			case strings.HasPrefix(out, "false ; err(fmt.Errorf(\"ed25519: failed to deserialize H(R,A,m)"):
				return "infeasible-hram"
			case strings.HasPrefix(out, "false ; err(fmt.Errorf("):
				return "error"
			case strings.HasPrefix(out, "EdwardsPoint.IsSmallOrder(EdwardsPoint.TripleScalarMulBasepointVartime(") && strings.HasSuffix(out, " ; nil"):
				return "eq-cofactored"
			case strings.HasPrefix(out, "bytes.Equal(") && strings.HasSuffix(out, " ; nil"):
				return "eq-cofactorless"
			}
			return ""
		},
		Formula: map[string]func(e *edt.Env) edt.Tri{
			"error": optsError,
			"reject": func(e *edt.Env) edt.Tri {
				return edt.And(edt.Not(optsError(e)), edt.Not(edt.And(pkAdmit(e, flag(e)), sigAdmit(e, flag(e)))))
			},
			"eq-cofactored": func(e *edt.Env) edt.Tri {
				return edt.And(edt.Not(optsError(e)), pkAdmit(e, flag(e)), sigAdmit(e, flag(e)), edt.Not(flag(e)("cofactorless")), e.V("hramOK"))
			},
			"eq-cofactorless": func(e *edt.Env) edt.Tri {
				return edt.And(edt.Not(optsError(e)), pkAdmit(e, flag(e)), sigAdmit(e, flag(e)), flag(e)("cofactorless"), e.V("hramOK"))
			},
			// the wide reduction of a 64-byte digest cannot fail: these paths exist in
			// the code but are infeasible; they must only arise after full admission
			"infeasible-hram": func(e *edt.Env) edt.Tri {
				return edt.And(edt.Not(optsError(e)), pkAdmit(e, flag(e)), sigAdmit(e, flag(e)), edt.Not(e.V("hramOK")))
			},
		},
		Extra: func(p *edt.Path, out, class string, e *edt.Env, ab func(string) string) string {
			if class != "eq-cofactored" && class != "eq-cofactorless" {
				return ""
			}
			dom2, ok := dom2Term(e, "$opts.Context")
			if !ok {
				return "the path reaches the verification equation without having fixed the Ed25519 variant (context / pre-hash)"
			}
			k := "Scalar.SetBytesModOrderWide(Sum(H(sha512.New, " + dom2 + "$sig[0:32], $publicKey, $message)))"
			var want string
			if class == "eq-cofactored" {
				want = "EdwardsPoint.IsSmallOrder(EdwardsPoint.TripleScalarMulBasepointVartime(" + k + ", EdwardsPoint.Neg(A), S, R)) ; nil"
			} else {
				want = "bytes.Equal($sig[0:32], CompressedEdwardsY.SetEdwardsPoint(EdwardsPoint.DoubleScalarMulBasepointVartime(" + k + ", EdwardsPoint.Neg(A), S))) ; nil"
			}
			if out != want {
				return fmt.Sprintf("the verification equation or its challenge hash differs from the specification:\n      got  %s\n      want %s", out, want)
			}
			return ""
		},
	}
}

// hramVars adds the family of "wide reduction succeeded" atoms.
func addHramVars(sp *edt.Spec, paths []string) {}

// presetSpec: the literal flag values the property statement assumes (DT-6).
var presetSpec = map[string]map[string]bool{
	"VerifyOptionsDefault":    {"AllowSmallOrderR": true},
	"VerifyOptionsStdLib":     {"AllowSmallOrderA": true, "AllowSmallOrderR": true, "AllowNonCanonicalA": true, "CofactorlessVerify": true},
	"VerifyOptionsFIPS_186_5": {"AllowSmallOrderA": true, "AllowSmallOrderR": true},
	"VerifyOptionsZIP_215":    {"AllowSmallOrderA": true, "AllowSmallOrderR": true, "AllowNonCanonicalA": true, "AllowNonCanonicalR": true},
}

// checkPresets reads the composite literals of the option presets from the
// typed syntax tree and compares all five flags with the specification.
func checkPresets(p *load.Program, rule *report.Rule) {
	pk := p.Pkg("primitives/ed25519")
	flags := []string{"AllowSmallOrderA", "AllowSmallOrderR", "AllowNonCanonicalA", "AllowNonCanonicalR", "CofactorlessVerify"}
	found := map[string]bool{}
	for _, f := range pk.Syntax {
		for _, d := range f.Decls {
			gd, ok := d.(*ast.GenDecl)
			if !ok {
				continue
			}
			for _, s := range gd.Specs {
				vs, ok := s.(*ast.ValueSpec)
				if !ok {
					continue
				}
				for i, n := range vs.Names {
					want, ok := presetSpec[n.Name]
					if !ok || i >= len(vs.Values) {
						continue
					}
					obj := pk.TypesInfo.Defs[n]
					if obj == nil || obj.Parent() != pk.Types.Scope() {
						continue
					}
					found[n.Name] = true
					e := ast.Unparen(vs.Values[i])
					if u, ok := e.(*ast.UnaryExpr); ok {
						e = u.X
					}
					cl, ok := e.(*ast.CompositeLit)
					if !ok {
						rule.Fail(p.Pos(n.Pos()), "primitives/ed25519."+n.Name, "preset is not a composite literal: its flag values cannot be read", nil)
						continue
					}
					got := map[string]bool{}
					okLit := true
					for _, el := range cl.Elts {
						kv, ok := el.(*ast.KeyValueExpr)
						if !ok {
							okLit = false
							continue
						}
						key, _ := kv.Key.(*ast.Ident)
						tv := pk.TypesInfo.Types[kv.Value]
						if key == nil || tv.Value == nil || tv.Value.Kind() != constant.Bool {
							okLit = false
							continue
						}
						got[key.Name] = constant.BoolVal(tv.Value)
					}
					if !okLit {
						rule.Fail(p.Pos(n.Pos()), "primitives/ed25519."+n.Name, "preset literal has an element that is not a constant boolean keyed field", nil)
						continue
					}
					for _, fl := range flags {
						rule.Check(got[fl] == want[fl], p.Pos(n.Pos()), "primitives/ed25519."+n.Name,
							fmt.Sprintf("preset flag %s is %v, the specification of this preset requires %v", fl, got[fl], want[fl]))
					}
				}
			}
		}
	}
	for name := range presetSpec {
		if !found[name] {
			rule.Fail("-", "primitives/ed25519."+name, "preset variable not found", nil)
		}
	}
	_ = types.Typ
}

func init() {
	Registry["C01"] = func(c *Ctx) {
		run := c.Run
		run.Explanation = "E-DT/E-SEQ: the accept/reject decision of Ed25519 verification is extracted path by path from go/ssa with every value abstracted to an uninterpreted term over the parameters (library predicates are atoms, never evaluated) and compared in three-valued logic with the specification predicate over the admission predicates and the five option flags; on every accepting path the verification equation, the operand roles and the exact challenge-hash input sequence (dom2 variant, R bytes, A bytes, message) must be the specified term. Exhaustive over all paths, i.e. all flag combinations and predicate outcomes."
		run.NotDecided = []string{"that the predicates themselves (IsSmallOrder, decoding, scalar multiplication, SHA-512) compute the mathematical function", "bit-for-bit equality with crypto/ed25519 beyond the decision structure"}
		run.Exhaustive = true
		id := "amd64"
		if !c.Preload(id) {
			return
		}
		p := c.Prog(id)
		run.SetConfig(id)
		m := modFor(p)
		cfg := &edt.Config{P: p, Mod: m}
		dt := run.Rule("DT-verify", "every path of verifyWithOptionsNoPanic yields the class the specification predicate gives for the conditions it tested; accepting paths return the specified equation over the specified roles and challenge hash", 400)
		sp := c01Spec()
		// family of atoms: wide reduction of the 64-byte digest
		for _, pfx := range hramAtoms(cfg, sp) {
			sp.Vars[pfx] = "hramOK"
		}
		res := edt.Check(dt, cfg, sp)
		for _, s := range res.Samples {
			run.Sample(s)
		}
		run.Sample(map[string]any{"function": "verifyWithOptionsNoPanic", "paths": res.Paths, "feasible": res.Feasible, "atoms": res.Atoms, "classes": res.ClassCount, "spec variables": res.Vars})
		wr := run.Rule("DT-wrappers", "VerifyWithOptions panics exactly on a bad public-key length or an option error and otherwise returns the decision; Verify delegates with the default options", 4)
		for _, s := range wrapperSpecs() {
			r := edt.Check(wr, cfg, s)
			run.Sample(map[string]any{"function": s.Func, "paths": r.Paths, "classes": r.ClassCount})
		}
		pr := run.Rule("DT-presets", "the four verification presets are literals with the flag values the property statement assumes", 20)
		checkPresets(p, pr)
		// verification with a precomputed (expanded) public key decides the same predicate (same rule as C09)
		ve := run.Rule("DT-verify-expanded", "verifyExpandedWithOptionsNoPanic is the same Boolean function of the same conditions as single verification, over the cached key predicates", 300)
		xs := verifyExpandedSpec()
		addHram(cfg, xs)
		edt.Check(ve, cfg, xs)
		// the S < L admission test used by verification is decided completely (same rule as C05)
		dts := run.Rule("DT-S", "ScMinimalVartime returns exactly 'little-endian value < L' on every consistent abstract input, false on any other length", 5000)
		if smp := checkScMinimal(dts, cfg); smp != nil {
			run.Sample(smp)
		}
		arithmeticFoundations(c)
		groupFoundations(c, true)
		ownershipRules(c) // expanded keys and verifiers keep copies, never the caller's buffers
		latticeRules(c)   // the verification equation is evaluated through the short-vector reduction
	}
}

// hramAtoms collects the atoms of the form isnil(err(Scalar.SetBytesModOrderWide(Sum(H(...))))) of the target.
func hramAtoms(cfg *edt.Config, sp *edt.Spec) []string {
	fn := cfg.P.Func(sp.Pkg, sp.Func)
	if fn == nil {
		return nil
	}
	var out []string
	seen := map[string]bool{}
	for _, pa := range edt.Walk(&edt.Config{P: cfg.P, Mod: cfg.Mod}, fn) {
		for _, l := range pa.Lits {
			a := l.Atom
			for _, ab := range sp.Abbrev {
				a = strings.ReplaceAll(a, ab[0], ab[1])
			}
			if strings.HasPrefix(a, "isnil(err(Scalar.SetBytesModOrderWide(Sum(H(sha512.New, ") && !seen[a] {
				seen[a] = true
				out = append(out, a)
			}
		}
	}
	return out
}

func wrapperSpecs() []*edt.Spec {
	return []*edt.Spec{
		{
			Pkg: "primitives/ed25519", Func: "VerifyWithOptions", Opaque: []string{"ed25519.verifyWithOptionsNoPanic"}, MinPaths: 3,
			Abbrev: [][2]string{{"ed25519.verifyWithOptionsNoPanic($publicKey, $message, $sig, $opts)", "CORE"}},
			Vars:   map[string]string{"(len($publicKey) == 32)": "pkLen32", "isnil(err(CORE))": "noErr"},
			Classify: func(p *edt.Path, out string, e *edt.Env) string {
				switch {
				case strings.HasPrefix(out, "panic((\"ed25519: bad public key length"):
					return "panic-len"
				case out == "panic(err(CORE))":
					return "panic-err"
				case out == "res0(CORE)":
					return "decision"
				}
				return ""
			},
			Formula: map[string]func(e *edt.Env) edt.Tri{
				"panic-len": func(e *edt.Env) edt.Tri { return edt.Not(e.V("pkLen32")) },
				"panic-err": func(e *edt.Env) edt.Tri { return edt.And(e.V("pkLen32"), edt.Not(e.V("noErr"))) },
				"decision":  func(e *edt.Env) edt.Tri { return edt.And(e.V("pkLen32"), e.V("noErr")) },
			},
		},
		{
			Pkg: "primitives/ed25519", Func: "Verify", Opaque: []string{"ed25519.VerifyWithOptions"}, MinPaths: 1,
			Vars: map[string]string{},
			Classify: func(p *edt.Path, out string, e *edt.Env) string {
				if out == "ed25519.VerifyWithOptions($publicKey, $message, $sig, @primitives/ed25519.optionsDefault)" {
					return "delegates"
				}
				return ""
			},
			Formula: map[string]func(e *edt.Env) edt.Tri{"delegates": func(e *edt.Env) edt.Tri { return edt.T }},
		},
	}
}
