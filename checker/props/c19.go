package props

import (
	"voicheck/edt"
	"voicheck/elen"
	"voicheck/emod"
)

// documentedPanics is the frozen table of explicit panics that the library
// documents or that guard impossible conditions the analysis cannot prove by
// length facts alone.  Key: function + guard kind (derived from the innermost
// dominating condition, not from source text).
var documentedPanics = []elen.DocumentedPanic{
	// --- documented argument validation of exported API ---------------------
	{"(*curve.EdwardsPoint).MultiscalarMul", "len-rel", "documented: panics if len(scalars) != len(points)"},
	{"(*curve.EdwardsPoint).MultiscalarMulVartime", "len-rel", "documented: panics if len(scalars) != len(points)"},
	{"(*curve.EdwardsPoint).ExpandedMultiscalarMulVartime", "len-rel", "documented: panics on mismatched static/dynamic slice lengths"},
	{"(*curve/scalar.Scalar).NonAdjacentForm", "param", "invalid recoding width w outside 2..8 (property statement: 'invalid recoding widths')"},
	{"curve/scalar.ToRadix2wSizeHint", "param", "invalid radix width outside {6,7,8} (property statement: 'invalid recoding widths')"},
	{"primitives/ed25519.Sign", "err:(primitives/ed25519.PrivateKey).Sign", "documented: panics if len(privateKey) is not PrivateKeySize"},
	{"primitives/ed25519.VerifyWithOptions", "len", "documented: panics if len(publicKey) is not PublicKeySize"},
	{"primitives/ed25519.VerifyWithOptions", "err:primitives/ed25519.verifyWithOptionsNoPanic", "documented: panics on bad pre-hash length, over-long context, incompatible or nil options"},
	{"primitives/ed25519.VerifyExpandedWithOptions", "err:primitives/ed25519.verifyExpandedWithOptionsNoPanic", "documented: same contract as VerifyWithOptions"},
	{"primitives/ed25519.newKeyFromSeed", "len", "documented on NewKeyFromSeed: panics if len(seed) is not SeedSize"},
	{"primitives/ed25519.makeDom2", "len", "context longer than 255 bytes: documented option error, re-checked internally after (*Options).verify"},
	{"primitives/ed25519/extra/cache.NewLRUCache", "param", "documented: cache capacity must be positive"},
	{"primitives/ed25519/extra/ecvrf.Prove", "err:primitives/ed25519/extra/ecvrf.doProve", "private-key operand: bad ed25519.PrivateKey length (caller-owned key material)"},
	{"primitives/ed25519/extra/ecvrf.Prove_v10", "err:primitives/ed25519/extra/ecvrf.doProve", "private-key operand: bad ed25519.PrivateKey length (caller-owned key material)"},
	{"(*primitives/merlin.Transcript).AppendMessage", "len", "documented Merlin limit: label/message longer than 2^32-1 bytes"},
	{"(*primitives/merlin.Transcript).ExtractBytes", "len", "documented Merlin limit: label/destination longer than 2^32-1 bytes"},
	{"(*primitives/merlin.TranscriptRngBuilder).RekeyWithWitnessBytes", "len", "documented Merlin limit: label/witness longer than 2^32-1 bytes"},
	{"(*primitives/sr25519.SigningContext).NewTranscriptHash", "state", "documented: hash digest size must be 32 or 64 bytes"},
	{"(*primitives/sr25519.SecretKey).PublicKey", "state", "use of an uninitialised (zero value) SecretKey: API misuse, not input data"},
	// --- entropy-source / XOF failures (not input data) ---------------------
	{"(*primitives/ed25519.BatchVerifier).VerifyBatchOnly", "err:internal/scalar128.NewGenerator", "entropy-source failure"},
	{"(*primitives/ed25519.BatchVerifier).VerifyBatchOnly", "err:(*internal/scalar128.Generator).SetScalarVartime", "entropy-source failure"},
	{"(*primitives/sr25519.BatchVerifier).VerifyBatchOnly", "err:(*primitives/sr25519.SigningTranscript).witnessRng", "entropy-source failure"},
	{"(*primitives/sr25519.BatchVerifier).VerifyBatchOnly", "err:io.ReadFull", "transcript RNG read failure (cannot fail: merlin RNG never errors)"},
	{"(*primitives/sr25519.entry).doInit", "err:(*primitives/sr25519.SigningTranscript).witnessBytes", "entropy-source failure"},
	{"(*primitives/sr25519.SigningContext).NewTranscriptXOF", "err:io.ReadFull", "caller-supplied XOF read failure"},
	// --- internal invariants that length facts cannot prove -----------------
	{"(*curve.EdwardsPoint).mulByPow2", "param", "internal: k > 0; callers pass 3, 4, 8 or the Pippenger window w in {6,7,8}"},
	{"internal/elligator.SetEdwardsFromXY", "err:(*curve.EdwardsPoint).SetCompressedY", "internal invariant: the Elligator output is a curve point (numeric, not decided statically)"},
	{"(*internal/strobe.Strobe).operate", "state", "use of an uninitialised STROBE state: merlin always initialises"},
	{"(*internal/strobe.Strobe).operate", "param", "STROBE streaming misuse (flag mismatch with more=true); merlin passes constant flags"},
	{"primitives/ed25519/extra/ecvrf.doVerify", "err:primitives/ed25519/extra/ecvrf.encodeToCurveH2cSuite", "internal invariant: hash-to-curve with the fixed 40-byte DST cannot fail"},
	{"primitives/x25519.checkBasepoint", "state", "documented: the exported Basepoint variable was modified by the caller"},
}

func init() {
	Registry["C19"] = func(c *Ctx) {
		run := c.Run
		run.Explanation = "E-LEN: error discipline, explicit-panic classification and constant-bound length obligations over every byte-taking API (structural necessary conditions of C19; termination and relational bounds are not decided)"
		if !c.Preload(c.Configs()...) {
			return
		}
		ri := run.Rule("ERR-i", "a return dominated by the failure edge of an error/length test reports failure", 60).RequireControl(1)
		rii := run.Rule("ERR-ii", "no non-zero result is returned together with an error", 40).RequireControl(1)
		rlen := run.Rule("LEN-const", "constant-bound accesses on parameter-derived slices are guarded by a length fact along every call chain from an exported entry", 60).RequireControl(1)
		rpanic := run.Rule("PANIC-class", "every explicit panic is provably impossible, a guarded vector stub, init-time, or documented", 40).RequireControl(1)
		rneu := run.Rule("ERR-iii", "every UnmarshalBinary leaves its receiver neutral on failure: no input-derived data, and either reset to one constant state on all failing paths or untouched, per the frozen mode table", 25)
		rnar := run.Rule("LOOP-narrow", "no up-counted 8/16-bit loop counter is tested with an inclusive bound that can be the largest value of its type (the loop would never end on the largest valid input)", 1).RequireControl(1)
		rlst := run.Rule("LIST-type", "unchecked type assertions on container/list elements assert the one type the package puts into its lists", 1)
		ridx := run.Rule("IDX-dec", "an index counted down inside a loop is kept at or above zero wherever it indexes", 20)
		rnil := run.Rule("DT-cache-delegation", "the caching verifier fails without verifying when the key cannot be obtained and otherwise delegates with the (non-nil) expanded key it obtained", 6)
		for _, id := range c.Configs() {
			p := c.Prog(id)
			run.SetConfig(id)
			if id == c.Configs()[0] {
				run.Sample(map[string]any{"config": id, "decoders": checkDecoderNeutrality(p, rneu)})
				// the caching verifier hands a key to verification exactly when it has one (a nil key would be
				// dereferenced: an implicit panic on attacker-chosen bytes) — the delegation tables of C09
				ecfg := &edt.Config{P: p, Mod: modFor(p)}
				for _, s := range c09MoreSpecs() {
					if s.Pkg == "primitives/ed25519/extra/cache" {
						edt.Check(rnil, ecfg, s)
					}
				}
				// an expanded key reaches the lookup tables only after the admission test that a zero-value
				// or undecodable key fails (its tables are nil: an implicit panic) — the table of C09/C01
				ve := run.Rule("DT-verify-expanded", "verification with an expanded key rejects (never dereferences) a key whose point was not decoded: same admission function as single verification over the cached key predicates", 300)
				sp := verifyExpandedSpec()
				addHram(ecfg, sp)
				edt.Check(ve, ecfg, sp)
				for _, s := range c09MiscSpecs() {
					if s.Func == "(*VerifyOptions).checkExpandedPublicKey" || s.Func == "NewExpandedPublicKey" {
						edt.Check(ve, ecfg, s)
					}
				}
				// a malformed sr25519 entry (all-zero placeholder point, absorbing) never reaches the batch
				// equation: the early aborts and summaries of the sr25519 batch verifier (tables of C12)
				sb := run.Rule("DT-sr25519-batch", "the sr25519 batch verifier refuses a batch with a refused entry before the equation and reports per-entry results like single verification", 4)
				for _, s := range c12BatchSpecs() {
					edt.Check(sb, ecfg, s)
				}
				// the shared cache mutates its list and index only under the exclusive lock (a racing
				// container/list is a nil dereference inside Verify)
				lacc := run.Rule("LOCK-access", "every access to a field of a mutex-containing struct holds the lock; writes hold it exclusively", 8).RequireControl(1)
				latm := run.Rule("LOCK-atomic", "every externally callable method of a mutex-containing struct takes the lock first and releases it by defer", 2).RequireControl(1)
				ldbl := run.Rule("LOCK-double", "no path locks the same mutex twice", 2).RequireControl(1)
				emod.CheckLocks(p, modFor(p), lacc, latm, ldbl)
			}
			run.Sample(checkIndexDecrement(p, ridx))
			run.Sample(checkLoopNarrow(p, rnar))
			run.Sample(checkListTypes(p, rlst))
			st := elen.CheckErr(run, p, ri, rii, nil)
			run.Sample(map[string]any{"config": id, "error-returning functions": st.Functions, "failure tests": st.Tests, "returns": st.Returns})
			ent := elen.NewEntries(p)
			lr := elen.CheckLen(run, p, rlen, ent.IsPublicEntry, nil)
			run.Sample(map[string]any{"config": id, "slice accesses": lr.Accesses, "with constant requirement": lr.ConstAccesses, "discharged": lr.Discharged, "undecided (not claimed)": lr.Undecided})
			sites := elen.CheckPanics(run, p, rpanic, documentedPanics, p.Obj("curve", "errVectorNotSupported"), ent)
			if id == "amd64" || id == "purego" {
				run.Extra["len_preconditions_"+id] = lr.Preconditions
				run.Extra["len_undecided_by_function_"+id] = elen.Summarise(lr.UndecidedList)
				run.Extra["panic_sites_"+id] = sites
			}
		}
		// a panic inside the transcript layer is a panic of every sr25519 / Merlin entry point: STROBE's
		// position arithmetic (runF at the block boundary, beginOp, duplex) per the tables of C13
		transcriptFoundations(c)
	}
}
