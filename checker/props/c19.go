package props

import (
	"voicheck/elen"
)

func init() {
	Registry["C19"] = func(c *Ctx) {
		run := c.Run
		run.Explanation = "E-LEN: error discipline, explicit-panic classification and constant-bound length obligations over every byte-taking API (structural necessary conditions of C19; termination and relational bounds are not decided)"
		if !c.Preload(c.Configs()...) {
			return
		}
		ri := run.Rule("ERR-i", "a return dominated by the failure edge of an error/length test reports failure", 60)
		rii := run.Rule("ERR-ii", "no non-zero result is returned together with an error", 40)
		for _, id := range c.Configs() {
			p := c.Prog(id)
			run.SetConfig(id)
			st := elen.CheckErr(run, p, ri, rii, nil)
			run.Sample(map[string]any{"config": id, "error-returning functions": st.Functions, "failure tests": st.Tests, "returns": st.Returns})
		}
	}
}
