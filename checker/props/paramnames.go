package props

import (
	_ "embed"
	"encoding/json"
	"fmt"
	"go/types"
	"os"
	"path/filepath"
	"sort"

	"voicheck/ect"
	"voicheck/esib"
	"voicheck/edt"
	"voicheck/load"
)

// The parameter names (receiver first) every module function had when the
// specifications of this checker were written.  Specifications refer to
// parameters by these names; edt.Walk aliases the current names to them
// position-wise, so renaming a parameter does not change any rendered term.
//
//go:embed paramnames.json
var paramNamesJSON []byte

// The name-free signature of every module function known when the
// specifications were written (load.RecordedFuncs: renamed unexported
// functions are matched by signature, see load/rename.go).
//
//go:embed funcsigs.json
var funcSigsJSON []byte

// The field names of every named struct type of the module when the specifications were written.
//
//go:embed fieldnames.json
var fieldNamesJSON []byte

// Package-level variables and constants with their types (load.RecordedGlobals).
//
//go:embed globals.json
var globalsJSON []byte

var recordedFieldNames map[string][]string

var recordedParamNames map[string][]string

func init() {
	if err := json.Unmarshal(paramNamesJSON, &recordedParamNames); err != nil {
		panic("paramnames.json: " + err.Error())
	}
	edt.ParamNames = func(fn string) []string { return recordedParamNames[fn] }
	if err := json.Unmarshal(funcSigsJSON, &load.RecordedFuncs); err != nil {
		panic("funcsigs.json: " + err.Error())
	}
	if err := json.Unmarshal(fieldNamesJSON, &recordedFieldNames); err != nil {
		panic("fieldnames.json: " + err.Error())
	}
	edt.FieldNames = func(k string) []string { return recordedFieldNames[k] }
	ect.RecordedFieldNames = edt.FieldNames
	esib.RecordedFieldNames = edt.FieldNames
	if err := json.Unmarshal(globalsJSON, &load.RecordedGlobals); err != nil {
		panic("globals.json: " + err.Error())
	}
}

// DumpParamNames writes the table for the current tree (all quick configurations).
func DumpParamNames(out string) {
	tab := map[string][]string{}
	sigs := map[string]string{}
	fields := map[string][]string{}
	globals := map[string][]string{}
	for _, id := range []string{"amd64", "purego", "f32"} {
		p, err := load.Load(id, load.Opts{SSA: true, NoControls: true})
		if err != nil {
			fmt.Fprintln(os.Stderr, err)
			os.Exit(2)
		}
		for _, pk := range p.Pkgs {
			sc := pk.Types.Scope()
			for _, n := range sc.Names() {
				tn, ok := sc.Lookup(n).(*types.TypeName)
				if !ok {
					continue
				}
				st, ok := tn.Type().Underlying().(*types.Struct)
				if !ok {
					continue
				}
				var names []string
				for i := 0; i < st.NumFields(); i++ {
					names = append(names, st.Field(i).Name())
				}
				k := load.Rel(pk.Types) + "." + n
				if _, seen := fields[k]; !seen {
					fields[k] = names
				}
			}
			for k, v := range load.DeclaredGlobals(pk.Types) {
				k = id + "|" + k
				dup := false
				for _, x := range globals[k] {
					if x == v {
						dup = true
					}
				}
				if !dup {
					globals[k] = append(globals[k], v) // the type may differ per configuration (radix)
				}
			}
			for k, v := range load.DeclaredFuncs(pk.Types) {
				sigs[id+"|"+k] = v // per configuration: a function of another back end is not "missing"
			}
		}
		for _, fn := range p.ModuleFuncs() {
			if fn.Parent() != nil || len(fn.Params) == 0 {
				continue
			}
			var names []string
			for _, prm := range fn.Params {
				names = append(names, prm.Name())
			}
			k := load.FuncName(fn)
			if old, ok := tab[k]; ok && fmt.Sprint(old) != fmt.Sprint(names) {
				continue // configuration-specific siblings with different names: keep the first (amd64) spelling
			}
			tab[k] = names
		}
	}
	keys := make([]string, 0, len(tab))
	for k := range tab {
		keys = append(keys, k)
	}
	sort.Strings(keys)
	f, err := os.Create(out)
	if err != nil {
		fmt.Fprintln(os.Stderr, err)
		os.Exit(2)
	}
	defer f.Close()
	fmt.Fprintln(f, "{")
	for i, k := range keys {
		b, _ := json.Marshal(tab[k])
		kb, _ := json.Marshal(k)
		sep := ","
		if i == len(keys)-1 {
			sep = ""
		}
		fmt.Fprintf(f, " %s: %s%s\n", kb, b, sep)
	}
	fmt.Fprintln(f, "}")
	gb, _ := json.MarshalIndent(globals, "", " ")
	if err := os.WriteFile(filepath.Join(filepath.Dir(out), "globals.json"), append(gb, '\n'), 0o644); err != nil {
		fmt.Fprintln(os.Stderr, err)
		os.Exit(2)
	}
	fb, _ := json.MarshalIndent(fields, "", " ")
	if err := os.WriteFile(filepath.Join(filepath.Dir(out), "fieldnames.json"), append(fb, '\n'), 0o644); err != nil {
		fmt.Fprintln(os.Stderr, err)
		os.Exit(2)
	}
	b, _ := json.MarshalIndent(sigs, "", " ")
	if err := os.WriteFile(filepath.Join(filepath.Dir(out), "funcsigs.json"), append(b, '\n'), 0o644); err != nil {
		fmt.Fprintln(os.Stderr, err)
		os.Exit(2)
	}
}
