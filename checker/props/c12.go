package props

import (
	"fmt"
	"strings"

	"voicheck/edt"
)

// C12 — sr25519: schnorrkel transcript structure, canonical decoders.

const (
	srTR  = `Transcript.AppendMessage(Transcript.AppendMessage(Transcript.Clone($transcript.t), "proto-name", bytes("Schnorr-sig")), "sign:pk", PK)`
	srWIT = `res0(Scalar.SetRandom(res0(TranscriptRngBuilder.Finalize(TranscriptRngBuilder.RekeyWithWitnessBytes(Transcript.BuildRng(TR), "signing", $kp.sk.nonce), $rng))))`
)

func srChallenge(tr, r string) string {
	return `res0(scalar.NewFromBytesModOrderWide(out1(Transcript.ExtractBytes(Transcript.AppendMessage(` + tr + `, "sign:R", ` + r + `), zero, "sign:c"))))`
}

func c12Specs() []*edt.Spec {
	sigScalar := "upd($data[32:], [31]=(($data[32:][31] & 127)))"
	wideOK := map[string]edt.Assumption{
		"isnil(err(scalar.NewFromBytesModOrderWide(": {Val: true, Why: "wide reduction of a 64-byte buffer cannot fail (E-LEN: panic classified impossible)"},
	}
	return []*edt.Spec{
		// ---------------- signing: sign:pk, witness, sign:R, sign:c ; s = c*key + r -------------
		{
			Pkg: "primitives/sr25519", Func: "(*KeyPair).Sign", WritesOverride: merlinWrites, MinPaths: 3,
			Abbrev: [][2]string{{"$kp.pk.compressed", "PK"}, {strings.ReplaceAll(srTR, "PK", "PK"), "TR"}, {strings.ReplaceAll(srWIT, "TR", "TR"), "WIT"}},
			VarPrefix: map[string]string{
				"isnil(err(TranscriptRngBuilder.Finalize(": "rngOK",
				"isnil(err(Scalar.SetRandom(":              "witnessOK",
			},
			Vars:         map[string]string{},
			AssumePrefix: wideOK,
			Classify: func(p *edt.Path, out string, e *edt.Env) string {
				switch {
				case strings.HasPrefix(out, "nil ; err(fmt.Errorf("):
					return "error"
				case strings.HasPrefix(out, "&new(agg(.rCompressed=("):
					return "signature"
				}
				return ""
			},
			Formula: map[string]func(e *edt.Env) edt.Tri{
				"error":     func(e *edt.Env) edt.Tri { return edt.Not(edt.And(e.V("rngOK"), e.V("witnessOK"))) },
				"signature": func(e *edt.Env) edt.Tri { return edt.And(e.V("rngOK"), e.V("witnessOK")) },
			},
			Extra: func(p *edt.Path, out, class string, e *edt.Env, ab func(string) string) string {
				if class != "signature" {
					return ""
				}
				R := "CompressedRistretto.SetRistrettoPoint(RistrettoPoint.MulBasepoint(@curve.RISTRETTO_BASEPOINT_TABLE, WIT))"
				want := "&new(agg(.rCompressed=(" + R + "), .s=(Scalar.Add(Scalar.Mul($kp.sk.key, " + srChallenge("TR", R) + "), WIT)))) ; nil"
				if out != want {
					return fmt.Sprintf("signing does not follow schnorrkel (proto-name, sign:pk, witness \"signing\" keyed with the nonce seed and the rng, sign:R, challenge sign:c, s = c·key + r):\n      got  %s\n      want %s", clip(out, 900), want)
				}
				return ""
			},
		},
		{
			Pkg: "primitives/sr25519", Func: "deriveVerifyChallengeScalar", WritesOverride: merlinWrites, MinPaths: 1,
			Abbrev:       [][2]string{{"$publicKey.compressed", "PK"}, {srTR, "TR"}},
			Vars:         map[string]string{},
			AssumePrefix: wideOK,
			Classify: func(p *edt.Path, out string, e *edt.Env) string {
				if out == srChallenge("TR", "$signature.rCompressed") {
					return "challenge"
				}
				return ""
			},
			Formula: map[string]func(e *edt.Env) edt.Tri{"challenge": always},
		},
		{
			// verification: sB - cA - R == identity (Ristretto)
			Pkg: "primitives/sr25519", Func: "(*PublicKey).Verify", Opaque: []string{"sr25519.deriveVerifyChallengeScalar"}, WritesOverride: merlinWrites, MinPaths: 4,
			Abbrev: [][2]string{{"RistrettoPoint.SetCompressed($signature.rCompressed)", "R"}},
			Vars:   map[string]string{"isnil($pk.point)": "noKey", "isnil($signature.s)": "noSig", "isnil(err(R))": "decodeR"},
			Classify: func(p *edt.Path, out string, e *edt.Env) string {
				switch out {
				case "false":
					return "reject"
				case "RistrettoPoint.IsIdentity(RistrettoPoint.TripleScalarMulBasepointVartime(sr25519.deriveVerifyChallengeScalar($pk, $transcript, $signature), RistrettoPoint.Neg($pk.point), $signature.s, R))":
					return "equation"
				}
				return ""
			},
			Formula: map[string]func(e *edt.Env) edt.Tri{
				"reject":   func(e *edt.Env) edt.Tri { return edt.Or(e.V("noKey"), e.V("noSig"), edt.Not(e.V("decodeR"))) },
				"equation": func(e *edt.Env) edt.Tri { return edt.And(edt.Not(e.V("noKey")), edt.Not(e.V("noSig")), e.V("decodeR")) },
			},
		},
		// ---------------- decoders ----------------------------------------------------------
		{
			Pkg: "primitives/sr25519", Func: "(*Signature).UnmarshalBinary", MinPaths: 5,
			Abbrev: [][2]string{{sigScalar, "SBYTES"}},
			Vars: map[string]string{
				"(len($data) == 64)":                               "len64",
				"(($data[63] & 128) == 0)":                         "unmarked",
				"scalar.ScMinimalVartime(SBYTES)":                  "sMinimal",
				"isnil(err(scalar.NewFromCanonicalBytes(SBYTES)))": "sCanonical",
			},
			Assume: map[string]edt.Assumption{"isnil(err(CompressedRistretto.SetBytes($data[0:32])))": {Val: true, Why: "SetBytes fails only on a wrong length; data[0:32] has 32 bytes"}},
			Classify: func(p *edt.Path, out string, e *edt.Env) string {
				switch {
				case out == "nil":
					return "ok"
				case strings.HasPrefix(out, "err(") || strings.HasPrefix(out, "errvar("):
					return "error"
				}
				return ""
			},
			Formula: map[string]func(e *edt.Env) edt.Tri{
				"ok": func(e *edt.Env) edt.Tri {
					return edt.And(e.V("len64"), edt.Not(e.V("unmarked")), e.V("sMinimal"), e.V("sCanonical"))
				},
				"error": func(e *edt.Env) edt.Tri {
					return edt.Not(edt.And(e.V("len64"), edt.Not(e.V("unmarked")), e.V("sMinimal"), e.V("sCanonical")))
				},
			},
			Extra: func(p *edt.Path, out, class string, e *edt.Env, ab func(string) string) string {
				if class == "ok" {
					return finalsAre(p, ab, map[string]string{"$sig.s": "res0(scalar.NewFromCanonicalBytes(SBYTES))", "$sig.rCompressed": "CompressedRistretto.SetBytes($data[0:32])"})
				}
				return finalsAre(p, ab, map[string]string{"$sig.s": "nil", "$sig.rCompressed": "CompressedRistretto.Identity"})
			},
		},
		{
			Pkg: "primitives/sr25519", Func: "(*Signature).MarshalBinary", MinPaths: 2,
			Vars: map[string]string{"isnil($sig.s)": "noSig", "isnil(err(Scalar.MarshalBinary($sig.s)))": "encOK"},
			Classify: func(p *edt.Path, out string, e *edt.Env) string {
				switch {
				case strings.HasPrefix(out, "nil ; err("):
					return "error"
				case out == "&new(agg([63]=((zero | 128)))) ; nil":
					return "empty-marked"
				case out == "&new(upd(cat($sig.rCompressed, res0(Scalar.MarshalBinary($sig.s))), [63]=((sel(cat($sig.rCompressed, res0(Scalar.MarshalBinary($sig.s))), [63]) | 128)))) ; nil":
					return "marked"
				}
				return ""
			},
			Formula: map[string]func(e *edt.Env) edt.Tri{
				"empty-marked": func(e *edt.Env) edt.Tri { return e.V("noSig") },
				"error":        func(e *edt.Env) edt.Tri { return edt.And(edt.Not(e.V("noSig")), edt.Not(e.V("encOK"))) },
				"marked":       func(e *edt.Env) edt.Tri { return edt.And(edt.Not(e.V("noSig")), e.V("encOK")) },
			},
		},
		{
			// the key scalar must be decoded CANONICALLY (scalars at or above L rejected)
			Pkg: "primitives/sr25519", Func: "(*SecretKey).UnmarshalBinary", MinPaths: 3,
			Vars: map[string]string{"(len($data) == 64)": "len64", "isnil(err(scalar.NewFromCanonicalBytes($data[0:32])))": "keyCanonical"},
			Classify: func(p *edt.Path, out string, e *edt.Env) string {
				switch {
				case out == "nil":
					return "ok"
				case strings.HasPrefix(out, "err("):
					return "error"
				}
				return ""
			},
			Formula: map[string]func(e *edt.Env) edt.Tri{
				"ok":    func(e *edt.Env) edt.Tri { return edt.And(e.V("len64"), e.V("keyCanonical")) },
				"error": func(e *edt.Env) edt.Tri { return edt.Not(edt.And(e.V("len64"), e.V("keyCanonical"))) },
			},
			Extra: func(p *edt.Path, out, class string, e *edt.Env, ab func(string) string) string {
				if class == "ok" {
					return finalsAre(p, ab, map[string]string{"$sk.key": "res0(scalar.NewFromCanonicalBytes($data[0:32]))", "$sk.nonce": "$data[32:]"})
				}
				return noWritesBelow(p, "$sk")
			},
		},
		{
			Pkg: "primitives/sr25519", Func: "(*KeyPair).UnmarshalBinary", MinPaths: 5,
			Opaque: []string{"SecretKey.PublicKey", "PublicKey.Equal", "SecretKey.UnmarshalBinary", "PublicKey.UnmarshalBinary"},
			Abbrev: [][2]string{{"SecretKey.UnmarshalBinary($data[0:64])", "SK"}, {"PublicKey.UnmarshalBinary($data[64:])", "PKEY"}},
			Vars: map[string]string{"(len($data) == 96)": "len96", "isnil(err(SK))": "skOK", "isnil(err(PKEY))": "pkOK",
				"PublicKey.Equal(SecretKey.PublicKey(SK), PKEY)": "matches"},
			Classify: func(p *edt.Path, out string, e *edt.Env) string {
				switch {
				case out == "nil":
					return "ok"
				case strings.HasPrefix(out, "err("):
					return "error"
				}
				return ""
			},
			Formula: map[string]func(e *edt.Env) edt.Tri{
				"ok": func(e *edt.Env) edt.Tri { return edt.And(e.V("len96"), e.V("skOK"), e.V("pkOK"), e.V("matches")) },
				"error": func(e *edt.Env) edt.Tri {
					return edt.Not(edt.And(e.V("len96"), e.V("skOK"), e.V("pkOK"), e.V("matches")))
				},
			},
			Extra: func(p *edt.Path, out, class string, e *edt.Env, ab func(string) string) string {
				if class == "ok" {
					return finalsAre(p, ab, map[string]string{"$kp.sk": "SK", "$kp.pk": "PKEY"})
				}
				return finalsAre(p, ab, map[string]string{"$kp.sk": "nil", "$kp.pk": "nil"})
			},
		},
		// ---------------- hash-based transcripts: the digest actually produced is committed -----------
		{
			Pkg: "primitives/sr25519", Func: "(*SigningContext).NewTranscriptHash", WritesOverride: merlinWrites, MinPaths: 3,
			Vars: map[string]string{"(hash.Hash.Size($h) == 32)": "size32", "(hash.Hash.Size($h) == 64)": "size64"},
			Classify: func(p *edt.Path, out string, e *edt.Env) string {
				switch {
				case strings.HasPrefix(out, "panic(\"sr25519: invalid hash digest size\")"):
					return "panic-size"
				case out == "&new(agg(.t=(Transcript.AppendMessage(Transcript.Clone($sc.t), \"sign-256\", Sum($h)))))":
					return "sign-256"
				case out == "&new(agg(.t=(Transcript.AppendMessage(Transcript.Clone($sc.t), \"sign-512\", Sum($h)))))":
					return "sign-512"
				}
				return ""
			},
			Formula: map[string]func(e *edt.Env) edt.Tri{
				"sign-256":   func(e *edt.Env) edt.Tri { return e.V("size32") },
				"sign-512":   func(e *edt.Env) edt.Tri { return edt.And(edt.Not(e.V("size32")), e.V("size64")) },
				"panic-size": func(e *edt.Env) edt.Tri { return edt.And(edt.Not(e.V("size32")), edt.Not(e.V("size64"))) },
			},
		},
		{
			Pkg: "primitives/sr25519", Func: "(*SigningContext).NewTranscriptBytes", WritesOverride: merlinWrites, MinPaths: 1,
			Vars: map[string]string{},
			Classify: func(p *edt.Path, out string, e *edt.Env) string {
				if out == "&new(agg(.t=(Transcript.AppendMessage(Transcript.Clone($sc.t), \"sign-bytes\", $b))))" {
					return "sign-bytes"
				}
				return ""
			},
			Formula: map[string]func(e *edt.Env) edt.Tri{"sign-bytes": always},
		},
		{
			// key expansion: transcript "ExpandSecretKeys", mini key under "mini", 64 bytes "sk" reduced to the key, then "no" as the nonce
			Pkg: "primitives/sr25519", Func: "(*MiniSecretKey).ExpandUniform", WritesOverride: merlinWrites, MinPaths: 2,
			Abbrev: [][2]string{{"Transcript.ExtractBytes(Transcript.AppendMessage(merlin.NewTranscript(\"ExpandSecretKeys\"), \"mini\", $msk), zero, \"sk\")", "SK"}},
			Vars:   map[string]string{"isnil(err(scalar.NewFromBytesModOrderWide(out1(SK))))": "wideOK"},
			Classify: func(p *edt.Path, out string, e *edt.Env) string {
				switch {
				case strings.HasPrefix(out, "panic("):
					return "panic"
				case out == "&new(agg(.key=(res0(scalar.NewFromBytesModOrderWide(out1(SK)))), .nonce=(out1(Transcript.ExtractBytes(SK, zero, \"no\")))))":
					return "expanded"
				}
				return ""
			},
			Formula: map[string]func(e *edt.Env) edt.Tri{
				"expanded": func(e *edt.Env) edt.Tri { return e.V("wideOK") },
				"panic":    func(e *edt.Env) edt.Tri { return edt.Not(e.V("wideOK")) },
			},
		},
		{
			// XOF transcripts: 32 bytes of XOF output under schnorrkel's label "sign-XoF"; a failed read panics
			Pkg: "primitives/sr25519", Func: "(*SigningContext).NewTranscriptXOF", WritesOverride: merlinWrites, MinPaths: 2,
			Vars: map[string]string{"isnil(err(io.ReadFull(zero)))": "readOK"},
			Classify: func(p *edt.Path, out string, e *edt.Env) string {
				switch {
				case strings.HasPrefix(out, "panic("):
					return "panic-read"
				case out == "&new(agg(.t=(Transcript.AppendMessage(Transcript.Clone($sc.t), \"sign-XoF\", out1(io.ReadFull(zero))))))":
					return "sign-XoF"
				}
				return ""
			},
			Formula: map[string]func(e *edt.Env) edt.Tri{
				"sign-XoF":   func(e *edt.Env) edt.Tri { return e.V("readOK") },
				"panic-read": func(e *edt.Env) edt.Tri { return edt.Not(e.V("readOK")) },
			},
		},
		{
			Pkg: "primitives/sr25519", Func: "NewSigningContext", WritesOverride: merlinWrites, MinPaths: 1,
			Vars: map[string]string{},
			Classify: func(p *edt.Path, out string, e *edt.Env) string {
				if out == "&new(agg(.t=(Transcript.AppendMessage(merlin.NewTranscript(\"SigningContext\"), \"\", $context))))" {
					return "context"
				}
				return ""
			},
			Formula: map[string]func(e *edt.Env) edt.Tri{"context": always},
		},
	}
}

func init() {
	Registry["C12"] = func(c *Ctx) {
		run := c.Run
		run.Explanation = "E-DT/E-SEQ over Merlin operations: sr25519 signing, challenge derivation and verification are extracted as uninterpreted terms and compared with the schnorrkel definition (proto-name \"Schnorr-sig\", sign:pk, witness \"signing\" keyed with the nonce seed and the rng, sign:R, challenge sign:c over 64 bytes, s = c·key + r; verification sB - cA - R is the Ristretto identity; signing contexts and hash/byte transcripts commit exactly the stated labels and the digest actually produced); the four decoders accept exactly the stated conditions (marker bit, S minimal and canonical, canonical key scalar, matching key pair, lengths) and leave the stated state; marshalling sets the marker bit on every path."
		run.NotDecided = []string{"that the Merlin/Ristretto/scalar operations compute their mathematical functions (C03/C05/C11/C13)", "the delinearised batch equation (numeric)"}
		run.Exhaustive = true
		id := "amd64"
		if !c.Preload(id) {
			return
		}
		p := c.Prog(id)
		run.SetConfig(id)
		cfg := &edt.Config{P: p, Mod: modFor(p)}
		dt := run.Rule("DT-sr25519", "sr25519 signing/verification transcripts, context construction, decoders and marshalling have exactly the specified structure", 35)
		for _, s := range append(c12Specs(), c12BatchSpecs()...) {
			r := edt.Check(dt, cfg, s)
			run.Sample(map[string]any{"function": s.Func, "paths": r.Paths, "feasible": r.Feasible, "classes": r.ClassCount})
		}
		errRulesFor(run, p, "primitives/sr25519")
		arithmeticFoundations(c)
		groupFoundations(c, true)
		ownershipRules(c) // encodings handed out are copies; inputs are not modified
		readFullRule(c)
		transcriptFoundations(c)
	}
}
