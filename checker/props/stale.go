package props

import (
	"fmt"
	"strings"

	"golang.org/x/tools/go/ssa"

	"voicheck/load"
	"voicheck/report"
)

// STALE-copy: a converted copy of an accumulator is not used after the
// accumulator it was converted from has been modified.  The scalar
// multiplication routines thread one running point through several
// representations: `t.Add(tEp.setCompleted(&t), entry)` converts the current
// value of t and adds to THAT.  If the conversion is hoisted out of a loop
// whose body modifies t, later iterations add to a stale copy and silently
// drop terms (seeded change C15/4).  Decided by a forward may-dataflow over the
// SSA control-flow graph of each function: a local object C becomes "derived
// from S" at a conversion call C.set*(S) (receiver written, single source
// read); any later write to S (store, or call whose may-write summary covers
// that argument) makes C stale; re-deriving C clears it; a read of a stale C
// is reported.  On the unchanged tree no function reads a stale copy (the
// idiom is unanimous), so an intended use of an old value is not excused.
func checkStaleCopies(p *load.Program, rule *report.Rule, pkgs []string) map[string]any {
	in := map[string]bool{}
	for _, r := range pkgs {
		in[r] = true
	}
	m := modFor(p)
	nfn, nconv := 0, 0
	for _, fn := range p.ModuleFuncs() {
		if fn.Pkg == nil || !in[load.Rel(fn.Pkg.Pkg)] || len(fn.Blocks) == 0 {
			continue
		}
		// root alloc of an address value
		root := func(v ssa.Value) *ssa.Alloc {
			for i := 0; i < 12; i++ {
				switch x := v.(type) {
				case *ssa.Alloc:
					return x
				case *ssa.FieldAddr:
					v = x.X
				case *ssa.IndexAddr:
					v = x.X
				case *ssa.ChangeType:
					v = x.X
				case *ssa.Convert:
					v = x.X
				default:
					return nil
				}
			}
			return nil
		}
		type conv struct{ c, s *ssa.Alloc }
		// classify every instruction once
		type effect struct {
			derive *conv        // C derived from S here
			writes []*ssa.Alloc // objects (possibly) written
			reads  []*ssa.Alloc // objects read
			pos    ssa.Instruction
		}
		effects := map[ssa.Instruction]*effect{}
		hasConv := false
		for _, b := range fn.Blocks {
			for _, ins := range b.Instrs {
				e := &effect{pos: ins}
				switch x := ins.(type) {
				case *ssa.Store:
					if a := root(x.Addr); a != nil {
						e.writes = append(e.writes, a)
					}
				case *ssa.UnOp:
					if a := root(x.X); a != nil {
						e.reads = append(e.reads, a)
					}
				case ssa.CallInstruction:
					c := x.Common()
					callee := c.StaticCallee()
					if callee == nil || c.IsInvoke() {
						for _, a := range c.Args {
							if r := root(a); r != nil {
								e.reads = append(e.reads, r)
								e.writes = append(e.writes, r)
							}
						}
						break
					}
					sum := m.Sum[callee]
					var wr, rd []*ssa.Alloc
					for i, a := range c.Args {
						r := root(a)
						if r == nil {
							continue
						}
						w, rdd := true, true
						if sum != nil {
							w, rdd = sum.Writes[i], sum.Reads[i]
						}
						if w {
							wr = append(wr, r)
						}
						if rdd || !w {
							rd = append(rd, r)
						}
					}
					// conversion: a method set*/Set* whose receiver is a local object and whose only other
					// object argument is a different local object
					name := callee.Name()
					if callee.Signature.Recv() != nil && (strings.HasPrefix(name, "set") || strings.HasPrefix(name, "Set")) && len(c.Args) == 2 {
						cr, sr := root(c.Args[0]), root(c.Args[1])
						if cr != nil && sr != nil && cr != sr {
							e.derive = &conv{cr, sr}
							hasConv = true
							nconv++
						}
					}
					e.writes, e.reads = wr, rd
					if e.derive != nil {
						// the receiver is overwritten, not read
						var rd2 []*ssa.Alloc
						for _, r := range rd {
							if r != e.derive.c {
								rd2 = append(rd2, r)
							}
						}
						e.reads = rd2
					}
				}
				effects[ins] = e
			}
		}
		if !hasConv {
			continue
		}
		nfn++
		// dataflow state per block entry: derived[C] = S (fresh), stale[C] = true
		type state struct {
			derived map[*ssa.Alloc]*ssa.Alloc
			stale   map[*ssa.Alloc]bool
		}
		clone := func(s *state) *state {
			n := &state{map[*ssa.Alloc]*ssa.Alloc{}, map[*ssa.Alloc]bool{}}
			for k, v := range s.derived {
				n.derived[k] = v
			}
			for k := range s.stale {
				n.stale[k] = true
			}
			return n
		}
		inState := map[*ssa.BasicBlock]*state{fn.Blocks[0]: {map[*ssa.Alloc]*ssa.Alloc{}, map[*ssa.Alloc]bool{}}}
		work := []*ssa.BasicBlock{fn.Blocks[0]}
		reported := map[ssa.Instruction]bool{}
		bad := ""
		for iter := 0; len(work) > 0 && iter < 20000; iter++ {
			b := work[len(work)-1]
			work = work[:len(work)-1]
			st := clone(inState[b])
			for _, ins := range b.Instrs {
				e := effects[ins]
				if e == nil {
					continue
				}
				for _, r := range e.reads {
					rewritten := false
					for _, w := range e.writes {
						if w == r {
							rewritten = true // a callee that also writes the copy may re-derive it before reading (extracted step helper)
						}
					}
					if rewritten {
						continue
					}
					if st.stale[r] && !reported[ins] {
						reported[ins] = true
						if bad == "" {
							bad = fmt.Sprintf("%s: reads the converted copy `%s` after the object it was converted from has been modified (the conversion must be repeated: a stale accumulator drops the operations applied in between)", p.Pos(ins.Pos()), allocName(r))
						}
					}
				}
				for _, w := range e.writes {
					if e.derive != nil && w == e.derive.c {
						continue
					}
					// writing S makes every copy derived from S stale
					for c, s := range st.derived {
						if s == w {
							st.stale[c] = true
							delete(st.derived, c)
						}
					}
					// writing C by other means ends its derived status
					delete(st.derived, w)
					delete(st.stale, w)
				}
				if e.derive != nil {
					st.derived[e.derive.c] = e.derive.s
					delete(st.stale, e.derive.c)
				}
			}
			for _, succ := range b.Succs {
				old := inState[succ]
				if old == nil {
					inState[succ] = clone(st)
					work = append(work, succ)
					continue
				}
				// join: stale if stale on any path; derived only if derived from the same source on all paths
				changed := false
				for c := range st.stale {
					if !old.stale[c] {
						old.stale[c] = true
						delete(old.derived, c)
						changed = true
					}
				}
				for c, s := range old.derived {
					if st.derived[c] != s {
						delete(old.derived, c)
						changed = true
					}
				}
				if changed {
					work = append(work, succ)
				}
			}
		}
		name := load.FuncName(fn)
		if bad != "" {
			rule.Fail(p.Pos(fn.Pos()), name, bad, nil)
		} else {
			rule.OK(name)
		}
	}
	return map[string]any{"functions with conversions of local accumulators": nfn, "conversion sites": nconv}
}

func allocName(a *ssa.Alloc) string {
	if a.Comment != "" {
		return a.Comment
	}
	return a.Name()
}
