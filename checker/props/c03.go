package props

import (
	"sort"
	"strings"

	"voicheck/econst"
	"voicheck/edt"
	"voicheck/esib"
	"voicheck/load"
)

// C03 — group law and scalar multiplication: the structural necessary
// conditions of DESIGN E-SIB (dispatch, skeletons, duality, masked scans,
// clones).  The numeric group law is NOT decided.
func init() {
	Registry["C03"] = func(c *Ctx) {
		run := c.Run
		run.Explanation = "E-SIB: structural skeleton of every scalar-multiplication routine and agreement of the untested serial (*Generic) twins with their tested vector twins. " +
			"Decided from typed syntax and go/ssa, per build configuration: (1) vector-only code is reached only under supportsVectorizedEdwards and every dispatch switch pairs a vector routine with a generic sibling; " +
			"(2) the two members of each pair have equal skeleton normal forms (recodings, loops with normalised bounds, doublings between digit uses, guard/operation/lookup of every digit use); " +
			"(3) Horner shape per algorithm, add/sub polarity incl. the mirrored d0IsNeg branches, recoding width <-> table size, Pippenger bucket count, lookup-table constructors, entry-point facts; " +
			"(4) every Sub* mixed-addition formula is the sign-dual of its Add* twin; (5) constant-time lookups scan every table entry exactly once; " +
			"(6) [withdrawn: the syntactic clone comparison of the ABGLSV-Pornin prologues and the two lattice passes fired on behaviour-preserving edits of one clone; each is now specified on its own under C16]. " +
			"What is decided is skeleton/duality/sibling structure — NOT that the formulas, tables or assembly compute the group law."
		run.Assumptions = []string{
			"callees are classified by receiver type and declared method name (Identity, Double/double, MulByPow2/mulByPow2, Add*/Sub*, Set*/set*, Lookup, ToRadix16/NonAdjacentForm/ToRadix2w); the classification table is frozen in esib/skeleton.go and an unclassified method of a point type inside a routine fails the check",
			"representation conversions (setCompleted, SetCompleted, setExtended, setProjective, SetEdwards, SetExtended, ...) denote the same group element; their formulas are not checked here",
			"accumulator identity is tracked in one forward pass (a conversion continues its source, an operation continues its first operand); loop-carried flows are assumed stable after one iteration",
			"the package-level odd-multiple tables hold multiples of B resp. 2^128 B (frozen role table; contents are E-CONST/C20, the vector ones are traced to their constructor calls in init)",
			"methods of curve/field types write only their receiver (used by the duality value numbering)",
			"clone comparison: the statement that obtains the table of A (constructor call vs. field of the expanded point) and the hand-off exit `if SafeToShrink() { break }` of the first lattice pass are excluded by the two documented relaxations",
		}
		run.NotDecided = []string{
			"the group law itself: that the formulas of curve/models.go, the AVX2 assembly and the tables compute point addition/doubling",
			"data flow between representation temporaries inside a routine beyond accumulator identity (e.g. that the value doubled is the current accumulator in every iteration > 1)",
			"alignment of scalar i with point i in multi-term routines beyond 'both are indexed by the term counter'",
			"(*extendedPoint).AddExtendedCached / SubExtendedCached duality (bodies call assembly; Go level: Sub negates the cached operand with vecNegateLazyCached_AVX2)",
			"the masked scans implemented in assembly (lookupAffineNiels / lookupCached on amd64) — E-ASM; only their Go wrappers are decided here",
			"that recoded digits reconstruct the scalar (C17) and that FindShortVector returns a short vector (C16)",
		}
		cfgs := []string{"amd64", "purego"}
		if c.Tier == "thorough" {
			cfgs = c.Configs()
		}
		if !c.Preload(cfgs...) {
			return
		}
		// expected_min ~ 90 % of the counts measured on the unchanged tree in the
		// quick tier (amd64 + purego: 81/30/32/208/184/18/32/10/6/14), scaled by
		// the number of configuration pairs in the thorough tier
		k := len(cfgs) / 2
		run.Rule("SIB-dispatch", "every call edge into the vector-only set is dominated by the true edge of supportsVectorizedEdwards; each switch pairs a vector routine with a generic sibling", 73*k)
		run.Rule("SIB-dispatch-agree", "the (vector, generic) pairs discovered are the same in every configuration", len(cfgs)-1)
		run.Rule("SIB-skel"+esib.SufPair, "the two members of every (vector, generic) pair have equal skeleton normal forms", 27*k)
		run.Rule("SIB-skel"+esib.SufHorner, "Horner shape per algorithm", 28*k)
		run.Rule("SIB-skel"+esib.SufPolarity, "add/sub polarity of every digit use", 187*k)
		run.Rule("SIB-skel"+esib.SufWidth, "recoding width <-> table size", 165*k)
		run.Rule("SIB-skel"+esib.SufCtor, "lookup-table constructors", 16*k)
		run.Rule("SIB-skel"+esib.SufEntry, "entry-point facts", 28*k)
		run.Rule("SIB-duality", "Sub* formulas are the sign-dual of their Add* twins", 9*k)
		run.Rule("SIB-scan", "constant-time lookups scan every entry exactly once", 5*k)

		convRule := run.Rule("SIB-conv-source", "every representation conversion set*/Set* between different point models computes all output coordinates from its source operand and never reads back a receiver coordinate (sibling uniformity of curve/models.go)", 10*k)
		aliasRule := run.Rule("ALIAS", "point, scalar and wide-integer operations compute the same result when two same-typed pointer parameters (receiver included) denote one object — in-place use p.Add(p, q) is safe", 100)
		stale := run.Rule("STALE-copy", "a converted copy of an accumulator is never read after the accumulator it was converted from has been modified", 10)
		shf := run.Rule("SHARED-fresh", "re-initialising an expanded point installs a fresh table (by-value copies and readers of the old one keep a consistent table)", 2)
		formRule := run.Rule("FORMULA", "the serial point formulas, representation changes, neutral elements and their compositions equal the reference formulas (extended twisted Edwards, a = -1) as terms over uninterpreted field operations, modulo commutativity", 22*len(cfgs))
		poRule := run.Rule("PAIR-order", "slice-of-slice literals built from a function's own parameters (the static/dynamic scalar and point groups of the Pippenger kernels) list the parameter groups in one order, so the parallel buffers filled from them stay paired", 0)
		pairRule := run.Rule("DT-pairing", "the expanded Pippenger fallback keeps static scalars paired with the points of the static (expanded) operands and dynamic with dynamic", 3*k)
		generic := c.Prog("purego")
		pairSets := map[string]string{}
		sampled := false
		for _, id := range cfgs {
			p := c.Prog(id)
			if p == nil {
				continue
			}
			run.SetConfig(id)
			g := generic
			if p.Obj("curve", "errVectorNotSupported") != nil {
				g = p // a generic configuration names its own stubs
			}
			d := esib.CheckDispatch(run, p, g, "SIB-dispatch")
			var ps []string
			for _, q := range d.DistinctPairs() {
				ps = append(ps, q.Vector+" | "+q.Generic)
			}
			sort.Strings(ps)
			pairSets[id] = strings.Join(ps, "\n")
			sk := esib.CheckSkeletons(run, p, d.Pairs, "SIB-skel")
			du := esib.CheckDuality(run, p, "SIB-duality")
			sc := esib.CheckMaskedScan(run, p, "SIB-scan")
			nconv := checkConversionsReadSource(p, convRule)
			checkSharedFresh(p, shf)
			run.Sample(checkPairOrder(p, poRule))
			run.Sample(checkStaleCopies(p, stale, []string{"curve"}))
			if id == cfgs[0] {
				checkSumFolds(run.Rule("DT-sum", "point summation is a left fold of Add over all values that starts from the neutral element and returns the accumulator", 2), &edt.Config{P: p, Mod: modFor(p)})
				run.Sample(checkAliasing(aliasRule, p, []string{"curve", "curve/scalar", "internal/lattice", "internal/elligator"}))
				checkAliasSlice(p, run.Rule("ALIAS-slice", "a function with an output *T and a slice of T / *T finishes reading the slice elements before it first writes the output (the output may be one of the elements)", 15), false)
			}
			ecfg := &edt.Config{P: p, Mod: modFor(p)}
			for _, s := range append(c03FormulaSpecs(), c03CompositionSpecs()...) {
				edt.Check(formRule, ecfg, s)
			}
			for _, s := range c03PairingSpecs(p.Obj("curve", "errVectorNotSupported") == nil) {
				edt.Check(pairRule, ecfg, s)
			}
			if !sampled && id == "amd64" {
				run.Sample(map[string]any{"config": id, "representation conversions checked": nconv})
				sampled = true
				run.Sample(map[string]any{"config": id, "dispatch": map[string]any{
					"stubs": d.Stubs, "vector_only_set": len(d.VectorOnly), "guards": d.Guards, "dispatch_switches": d.Switches,
					"call_edges_into_V": d.Edges, "distinct_pairs": ps}})
				for _, r := range sk.Routines {
					if strings.Contains(r.Func, "edwardsMulGeneric") || strings.Contains(r.Func, "StrausVartimeGeneric") ||
						strings.Contains(r.Func, "TableGeneric).Mul") || strings.Contains(r.Func, "BasepointVartimeGenericInner") {
						run.Sample(map[string]any{"config": id, "skeleton": r})
					}
				}
				run.Sample(map[string]any{"config": id, "pairs_incl_derived": len(sk.Pairs), "constructors": sk.Constructors, "digit_uses": sk.DigitUses})
				for _, x := range du {
					if x.Kind == "formula" {
						run.Sample(map[string]any{"config": id, "duality": x})
					}
				}
				run.Sample(map[string]any{"config": id, "masked_scans": sc})
				run.Extra["dispatch_switches"] = d.Switches
				run.Extra["routines_with_skeleton"] = len(sk.Routines)
			}
		}
		// cross-configuration agreement of the discovered pairs
		run.SetConfig("")
		agree := run.Rule("SIB-dispatch-agree", "", 1)
		ref := ""
		for _, id := range cfgs {
			if s, ok := pairSets[id]; ok {
				if ref == "" {
					ref = id
					continue
				}
				if s == pairSets[ref] {
					agree.OK(ref + " = " + id)
				} else {
					agree.Failf("-", "dispatch pairs "+ref+" vs "+id, "the (vector, generic) pairs discovered in %s and %s differ:\n%s\n--- vs ---\n%s", ref, id, pairSets[ref], s)
				}
			}
		}
		_ = load.Module
		// the torsion points, base points and tables the group law is exercised on, by value (same rules as C20)
		for _, id := range cfgs {
			run.SetConfig(id)
			econst.CheckAll(run, c.Prog(id), "CONST")
		}
		arithmeticFoundations(c)
		ownershipRules(c) // results never alias an object's interior, a constant, or a caller's buffer: a point handed out cannot desynchronise a table
	}
}
