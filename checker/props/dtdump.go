package props

import (
	"fmt"
	"os"

	"voicheck/edt"
	"voicheck/emod"
	"voicheck/load"
)

// DumpDT prints the path table of one function (debugging aid for authoring
// specification tables; not used by any check).
func DumpDT(cfg, pkg, fn string) {
	p, err := load.Load(cfg, load.Opts{SSA: true})
	if err != nil {
		fmt.Println(err)
		os.Exit(2)
	}
	f := p.Func(pkg, fn)
	if f == nil {
		fmt.Println("cannot resolve", pkg, fn)
		os.Exit(2)
	}
	m := emod.New(p, nil)
	paths := edt.Walk(&edt.Config{P: p, Mod: m}, f)
	fmt.Printf("%s: %d paths, atoms:\n", load.FuncName(f), len(paths))
	for _, a := range edt.Atoms(paths) {
		fmt.Println("  ATOM", a)
	}
	max := 60
	if os.Getenv("DT_MAX") != "" {
		fmt.Sscanf(os.Getenv("DT_MAX"), "%d", &max)
	}
	for i, pa := range paths {
		if i >= max {
			break
		}
		fmt.Printf("PATH %d: %s\n   => %s\n", i, pa.LitString(), pa.OutcomeString())
		if os.Getenv("DT_FINAL") != "" {
			for k, v := range pa.Final {
				fmt.Printf("      final %s = %s\n", k, v)
			}
		}
		if os.Getenv("DT_EVENTS") != "" {
			for _, e := range pa.Events {
				fmt.Printf("      event %s\n", e)
			}
		}
	}
}
