package props

import (
	"fmt"
	"os"
	"strings"
	"voicheck/report"

	"voicheck/edt"
	"voicheck/load"
)

// DumpDT prints the path table of one function (debugging aid for authoring
// specification tables; not used by any check).
func DumpDT(cfg, pkg, fn string) {
	p, err := load.Load(cfg, load.Opts{SSA: true})
	if err != nil {
		fmt.Println(err)
		os.Exit(2)
	}
	f := p.Func(pkg, fn)
	if f == nil {
		fmt.Println("cannot resolve", pkg, fn)
		os.Exit(2)
	}
	m := modFor(p)
	dcfg := &edt.Config{P: p, Mod: m, SymLoops: os.Getenv("DT_SYMLOOPS") != ""}
	if os.Getenv("DT_OPAQUE") != "" {
		dcfg.Opaque = map[string]bool{}
		for _, o := range strings.Split(os.Getenv("DT_OPAQUE"), ",") {
			dcfg.Opaque[o] = true
		}
	}
	if os.Getenv("DT_MERLIN") != "" {
		dcfg.WritesOverride = merlinWrites
	}
	paths := edt.Walk(dcfg, f)
	fmt.Printf("%s: %d paths, atoms:\n", load.FuncName(f), len(paths))
	for _, a := range edt.Atoms(paths) {
		fmt.Println("  ATOM", a)
	}
	max := 60
	if os.Getenv("DT_MAX") != "" {
		fmt.Sscanf(os.Getenv("DT_MAX"), "%d", &max)
	}
	for i, pa := range paths {
		if i >= max {
			break
		}
		fmt.Printf("PATH %d: %s\n   => %s\n", i, pa.LitString(), pa.OutcomeString())
		if os.Getenv("DT_FINAL") != "" {
			for k, v := range pa.Final {
				fmt.Printf("      final %s = %s\n", k, v)
			}
		}
		if os.Getenv("DT_EVENTS") != "" {
			for _, e := range pa.Events {
				fmt.Printf("      event %s\n", e)
			}
		}
	}
}

// DumpMod prints the may-write summaries of functions whose name contains substr.
func DumpMod(cfg, substr string) {
	p, err := load.Load(cfg, load.Opts{SSA: true})
	if err != nil {
		fmt.Println(err)
		os.Exit(2)
	}
	m := modFor(p)
	for _, fn := range p.ModuleFuncs() {
		if !strings.Contains(load.FuncName(fn), substr) {
			continue
		}
		s := m.Sum[fn]
		fmt.Printf("%s reads=%v writes=%v returns=%v globals=%v\n", load.FuncName(fn), s.Reads, s.Writes, s.Returns, s.WritesGlobals)
	}
}

// DumpInputWrites lists the exported functions that may write a non-receiver parameter (discovery for INPUT-readonly).
func DumpInputWrites(cfg string) {
	p, err := load.Load(cfg, load.Opts{SSA: true})
	if err != nil {
		fmt.Println(err)
		os.Exit(2)
	}
	r := report.New("XINP", "quick", 0)
	st := checkInputReadonly(p, r.Rule("INPUT-readonly", "", 0), true)
	for _, l := range st["discovered"].([]string) {
		fmt.Println(l)
	}
	fmt.Println(st["exported functions"], st["pointer-like parameters"])
	st = checkReturnFresh(p, r.Rule("RETURN-fresh", "", 0), true)
	for _, l := range st["discovered"].([]string) {
		fmt.Println(l)
	}
	fmt.Println(st["exported functions returning byte slices"])
	st = checkInputRetain(p, r.Rule("INPUT-retain", "", 0), true)
	for _, l := range st["discovered"].([]string) {
		fmt.Println("retain:", l)
	}
	fmt.Println(st["byte-slice parameters of exported functions"])
	st = checkResultDisjoint(p, r.Rule("RESULT-disjoint", "", 0), true)
	for _, l := range st["discovered"].([]string) {
		fmt.Println("overlap:", l)
	}
	fmt.Println(st["exported functions with two byte-slice results"])
	st = checkReturnGlobal(p, r.Rule("RETURN-global", "", 0), true)
	for _, l := range st["discovered"].([]string) {
		fmt.Println("return-global:", l)
	}
	fmt.Println(st["exported functions with pointer-like results"])
	st = checkReturnInterior(p, r.Rule("RETURN-interior", "", 0), true)
	for _, l := range st["discovered"].([]string) {
		fmt.Println("return-interior:", l)
	}
	fmt.Println(st["exported functions with pointer results"])
	st = checkAliasSlice(p, r.Rule("ALIAS-slice", "", 0), true)
	for _, l := range st["discovered"].([]string) {
		fmt.Println("alias-slice:", l)
	}
	fmt.Println(st["(output pointer, element slice) pairs"])
}
