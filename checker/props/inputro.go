package props

import (
	"fmt"
	"go/token"
	"go/types"
	"sort"
	"strings"

	"golang.org/x/tools/go/ssa"

	"voicheck/emod"
	"voicheck/load"
	"voicheck/report"
)

// INPUT-readonly: an exported function of a public package never writes through a parameter
// that is an input.  Callers share keys, scalars, points and messages between goroutines
// (PrivateKey.DiffieHellman, Verify on one public key, ...): a function that clamps, reduces or
// normalises its argument in place is a data race on caller-owned memory and silently changes
// the caller's value.  Decided with the may-write summaries of E-MOD (transitive through
// callees, assembly facts included): for every exported function or method of an exported type
// in a non-internal package, every pointer-like parameter other than the receiver must be absent
// from the write set, unless it is an OUTPUT by the API's own convention:
//   - it is named dst/out/output/dest/buf/b/p (io.Reader.Read / Sum / Append style) — the
//     frozen table outputParams below lists the names seen on the unchanged tree, per function
//     kind, each confirmed by reading;
//   - it is an interface or function value (io.Reader, hash.Hash, rand sources: calling their
//     methods "writes" them by nature).
var outputParamNames = map[string]bool{
	"dst": true, "out": true, "output": true, "dest": true, "outBytes": true,
}

// inputWriteExceptions: exported functions that write a non-receiver parameter not covered by
// the naming convention, each confirmed by reading (function -> parameter -> reason).
var inputWriteExceptions = map[string]map[string]string{
	"(*curve/scalar.Scalar).BatchInvert":                        {"inputs": "documented in/out: each element of the slice is replaced by its inverse"},
	"(*primitives/ed25519/extra/cache.Verifier).Add":            {"verifier": "the batch verifier is the accumulator the entry is added to"},
	"(*primitives/ed25519/extra/cache.Verifier).AddWithOptions": {"verifier": "the batch verifier is the accumulator the entry is added to"},
	"(*primitives/merlin.Transcript).AppendMessage":             {"message": merlinImprecision},
	"(*primitives/sr25519.BatchVerifier).Add":                   {"pk": merlinImprecision, "signature": merlinImprecision},
	"(*primitives/sr25519.PublicKey).Verify":                    {"signature": merlinImprecision},
	"(*primitives/sr25519.SigningContext).NewTranscriptBytes":   {"b": merlinImprecision},
	"primitives/sr25519.NewSigningContext":                      {"context": merlinImprecision},
}

// merlinImprecision: the may-write summary of strobe.duplex includes its data argument because the
// routine writes it in the cbefore/cafter modes (PRF, recv); AD / meta-AD, the only operations these
// callers reach with this argument, never select those modes (decided by SEQ-merlin, C13).
const merlinImprecision = "imprecision of the may-write summary of strobe.duplex (writes its data only in modes AD never selects; see SEQ-merlin)"

func checkInputReadonly(p *load.Program, rule *report.Rule, discover bool) map[string]any {
	m := modFor(p)
	nfn, nparam := 0, 0
	var found []string
	for _, fn := range p.ModuleFuncs() {
		if fn.Pkg == nil || fn.Object() == nil || !fn.Object().Exported() || len(fn.Blocks) == 0 {
			continue
		}
		rel := load.Rel(fn.Pkg.Pkg)
		if strings.HasPrefix(rel, "internal") || strings.Contains(rel, "/internal") {
			continue
		}
		sig := fn.Signature
		first := 0
		if sig.Recv() != nil {
			first = 1
			rt := sig.Recv().Type()
			if pt, ok := rt.(*types.Pointer); ok {
				rt = pt.Elem()
			}
			if n, ok := rt.(*types.Named); ok && !n.Obj().Exported() {
				continue
			}
		}
		sum := m.Sum[fn]
		if sum == nil {
			continue
		}
		nfn++
		name := load.FuncName(fn)
		for i := first; i < len(fn.Params); i++ {
			prm := fn.Params[i]
			switch prm.Type().Underlying().(type) {
			case *types.Pointer, *types.Slice, *types.Map:
			default:
				continue // interfaces, function values, scalars
			}
			nparam++
			pname := paramRecordedName(fn, i)
			if !sum.Writes[i] {
				rule.OK(name + "#" + pname)
				continue
			}
			if outputParamNames[pname] {
				rule.OK(name + "#" + pname)
				continue
			}
			if why, ok := inputWriteExceptions[name][pname]; ok && why != "" {
				rule.OK(name + "#" + pname)
				continue
			}
			if discover {
				found = append(found, fmt.Sprintf("%s  param %s %s", name, pname, prm.Type()))
				continue
			}
			rule.Fail(p.Pos(witnessPos(fn)), name, fmt.Sprintf("may write through its input parameter %q (%s): callers share inputs between goroutines and keep using them; an input must be copied before it is clamped, reduced or normalised", pname, prm.Type()), nil)
		}
	}
	sort.Strings(found)
	return map[string]any{"exported functions": nfn, "pointer-like parameters": nparam, "discovered": found}
}

func witnessPos(fn *ssa.Function) token.Pos { return fn.Pos() }

// paramRecordedName: the name the parameter had when the tables were written.
func paramRecordedName(fn *ssa.Function, i int) string {
	if names, ok := recordedParamNames[load.FuncName(fn)]; ok && i < len(names) && names[i] != "" {
		return names[i]
	}
	return fn.Params[i].Name()
}

// RETURN-fresh: an exported function of a public package that returns a byte slice returns
// memory the caller owns: the result never aliases the receiver's (or a parameter's) internal
// storage.  Marshalled keys and encodings are routinely modified by callers (flip a bit, append);
// a result aliasing the object's cached encoding corrupts the object.  Decided with the
// may-alias-result summaries of E-MOD; exceptions (append-style dst results) are listed.
var returnAliasExceptions = map[string]map[string]string{}

func checkReturnFresh(p *load.Program, rule *report.Rule, discover bool) map[string]any {
	m := modFor(p)
	n := 0
	var found []string
	for _, fn := range p.ModuleFuncs() {
		if fn.Pkg == nil || fn.Object() == nil || !fn.Object().Exported() || len(fn.Blocks) == 0 {
			continue
		}
		rel := load.Rel(fn.Pkg.Pkg)
		if strings.HasPrefix(rel, "internal") || strings.Contains(rel, "/internal") {
			continue
		}
		sig := fn.Signature
		if sig.Recv() != nil {
			rt := sig.Recv().Type()
			if pt, ok := rt.(*types.Pointer); ok {
				rt = pt.Elem()
			}
			if nm, ok := rt.(*types.Named); ok && !nm.Obj().Exported() {
				continue
			}
		}
		hasSlice := false
		for i := 0; i < sig.Results().Len(); i++ {
			if sl, ok := sig.Results().At(i).Type().Underlying().(*types.Slice); ok {
				if b, ok := sl.Elem().Underlying().(*types.Basic); ok && b.Kind() == types.Byte {
					hasSlice = true
				}
			}
		}
		if !hasSlice {
			continue
		}
		sum := m.Sum[fn]
		if sum == nil {
			continue
		}
		n++
		name := load.FuncName(fn)
		bad := ""
		var idx []int
		for i := range sum.Returns {
			idx = append(idx, i)
		}
		sort.Ints(idx)
		for _, i := range idx {
			if i >= len(fn.Params) {
				continue
			}
			pname := paramRecordedName(fn, i)
			// only pointer receivers / pointer and slice parameters carry storage the result can alias
			switch fn.Params[i].Type().Underlying().(type) {
			case *types.Pointer, *types.Slice:
			default:
				continue
			}
			if outputParamNames[pname] {
				continue // append-style: the result is the (grown) destination handed in
			}
			if why := returnAliasExceptions[name][pname]; why != "" {
				continue
			}
			bad = pname
			break
		}
		if bad == "" {
			rule.OK(name)
			continue
		}
		if discover {
			found = append(found, name+"  aliases "+bad)
			continue
		}
		rule.Fail(p.Pos(fn.Pos()), name, fmt.Sprintf("the byte slice returned may alias the storage of %q: a caller modifying the result would corrupt the object; return a copy", bad), nil)
	}
	sort.Strings(found)
	return map[string]any{"exported functions returning byte slices": n, "discovered": found}
}

// INPUT-retain: an exported function of a public package never keeps a caller's byte slice:
// no slice deriving from a byte-slice parameter is stored into memory that outlives the call
// (fields of the receiver / of returned or heap objects, globals, maps), directly or through a
// callee.  An object that keeps pointing into the caller's buffer changes silently when the
// caller re-uses the buffer (an expanded key whose cached encoding no longer matches its
// precomputed tables; a hash computed over bytes of another key).  Decided by
// emod.SliceRetentions (fixpoint over the call graph).  By-design retentions are listed.
var inputRetainExceptions = map[string]map[string]string{
	"(*primitives/ed25519.BatchVerifier).Add":                    {"sig": batchKeepsSig},
	"(*primitives/ed25519.BatchVerifier).AddWithOptions":         {"sig": batchKeepsSig},
	"(*primitives/ed25519.BatchVerifier).AddExpanded":            {"sig": batchKeepsSig},
	"(*primitives/ed25519.BatchVerifier).AddExpandedWithOptions": {"sig": batchKeepsSig},
	"(*primitives/ed25519/extra/cache.Verifier).Add":             {"sig": batchKeepsSig},
	"(*primitives/ed25519/extra/cache.Verifier).AddWithOptions":  {"sig": batchKeepsSig},
}

// batchKeepsSig: entry.signature keeps the signature bytes until Verify (the cofactorless fallback
// compares them with the recomputed R): the batch API's contract is add-then-verify, the entry is
// the only holder, and nothing derived from the bytes is cached beside them (R, S are decoded at Add).
const batchKeepsSig = "the batch entry keeps the signature for the cofactorless comparison in the serial fallback (by design; nothing derived is cached beside it that could disagree with other uses)"

func checkInputRetain(p *load.Program, rule *report.Rule, discover bool) map[string]any {
	m := modFor(p)
	ret := m.SliceRetentions()
	n := 0
	var found []string
	for _, fn := range p.ModuleFuncs() {
		if fn.Pkg == nil || fn.Object() == nil || !fn.Object().Exported() || len(fn.Blocks) == 0 {
			continue
		}
		rel := load.Rel(fn.Pkg.Pkg)
		if strings.HasPrefix(rel, "internal") || strings.Contains(rel, "/internal") {
			continue
		}
		sig := fn.Signature
		first := 0
		if sig.Recv() != nil {
			first = 1
			rt := sig.Recv().Type()
			if pt, ok := rt.(*types.Pointer); ok {
				rt = pt.Elem()
			}
			if nm, ok := rt.(*types.Named); ok && !nm.Obj().Exported() {
				continue
			}
		}
		name := load.FuncName(fn)
		for i := first; i < len(fn.Params); i++ {
			sl, ok := fn.Params[i].Type().Underlying().(*types.Slice)
			if !ok {
				continue
			}
			if b, ok := sl.Elem().Underlying().(*types.Basic); !ok || b.Kind() != types.Byte {
				continue
			}
			n++
			pname := paramRecordedName(fn, i)
			r, bad := ret[fn][i]
			if !bad {
				rule.OK(name + "#" + pname)
				continue
			}
			if why := inputRetainExceptions[name][pname]; why != "" {
				rule.OK(name + "#" + pname)
				continue
			}
			via := ""
			if r.Via != "" {
				via = " (through " + r.Via + ")"
			}
			if discover {
				found = append(found, fmt.Sprintf("%s  param %s at %s%s", name, pname, p.Pos(r.Pos), via))
				continue
			}
			rule.Fail(p.Pos(r.Pos), name, fmt.Sprintf("keeps the caller's byte slice %q%s: the object then points into a buffer the caller may re-use or modify; copy the bytes", pname, via), nil)
		}
	}
	sort.Strings(found)
	return map[string]any{"byte-slice parameters of exported functions": n, "discovered": found}
}

// RESULT-disjoint: two byte-slice results of one exported function never share storage
// (a key pair returned as two views of one buffer: writing the public key changes the private
// key's public half).
func checkResultDisjoint(p *load.Program, rule *report.Rule, discover bool) map[string]any {
	m := modFor(p)
	n := 0
	var found []string
	for _, fn := range p.ModuleFuncs() {
		if fn.Pkg == nil || fn.Object() == nil || !fn.Object().Exported() || len(fn.Blocks) == 0 {
			continue
		}
		rel := load.Rel(fn.Pkg.Pkg)
		if strings.HasPrefix(rel, "internal") || strings.Contains(rel, "/internal") {
			continue
		}
		k := 0
		for i := 0; i < fn.Signature.Results().Len(); i++ {
			if sl, ok := fn.Signature.Results().At(i).Type().Underlying().(*types.Slice); ok {
				if b, ok := sl.Elem().Underlying().(*types.Basic); ok && b.Kind() == types.Byte {
					k++
				}
			}
		}
		if k < 2 {
			continue
		}
		n++
		name := load.FuncName(fn)
		ov := m.ResultOverlaps(fn)
		if len(ov) == 0 {
			rule.OK(name)
			continue
		}
		if discover {
			found = append(found, fmt.Sprintf("%s results %d and %d at %s", name, ov[0].A, ov[0].B, p.Pos(ov[0].Pos)))
			continue
		}
		rule.Fail(p.Pos(ov[0].Pos), name, fmt.Sprintf("results %d and %d are views of one allocation that may overlap: a caller writing one silently changes the other; return independent copies", ov[0].A, ov[0].B), nil)
	}
	sort.Strings(found)
	return map[string]any{"exported functions with two byte-slice results": n, "discovered": found}
}

// ALIAS-slice: a function with an output pointer *T (receiver or parameter it writes) and a
// slice parameter whose elements are *T or T finishes READING the slice's elements before it
// first WRITES the output: callers legitimately pass the receiver as one of the inputs
// (acc.Sum([]*T{acc, x}), inputs[k].BatchInvert(inputs)); a result stored early clobbers an
// operand the remaining passes still need.  The pairwise rule ALIAS covers fixed pointer
// parameters; this is its slice form, decided as an ordering fact over the CFG with the
// may-read / may-write summaries of E-MOD.
func checkAliasSlice(p *load.Program, rule *report.Rule, discover bool) map[string]any {
	m := modFor(p)
	n := 0
	var found []string
	for _, fn := range p.ModuleFuncs() {
		if fn.Pkg == nil || len(fn.Blocks) == 0 || fn.Parent() != nil {
			continue
		}
		sum := m.Sum[fn]
		if sum == nil {
			continue
		}
		name := load.FuncName(fn)
		for w, pw := range fn.Params {
			pt, ok := pw.Type().Underlying().(*types.Pointer)
			if !ok || !sum.Writes[w] {
				continue
			}
			nm, ok := pt.Elem().(*types.Named)
			if !ok {
				continue
			}
			for r, pr := range fn.Params {
				if r == w {
					continue
				}
				sl, ok := pr.Type().Underlying().(*types.Slice)
				if !ok {
					continue
				}
				et := sl.Elem()
				if ep, ok := et.Underlying().(*types.Pointer); ok {
					et = ep.Elem()
				}
				if !types.Identical(et, nm) {
					continue
				}
				n++
				key := name + "#" + paramRecordedName(fn, w) + "/" + paramRecordedName(fn, r)
				ov, bad := m.ReadAfterWrite(fn, w, r)
				if !bad {
					rule.OK(key)
					continue
				}
				if discover {
					found = append(found, fmt.Sprintf("%s write %s read %s", key, p.Pos(ov.WritePos), p.Pos(ov.ReadPos)))
					continue
				}
				rule.Fail(p.Pos(ov.WritePos), name, fmt.Sprintf("writes its output %q (at %s) and may still read elements of %q afterwards (at %s): when the output is one of the elements the operand is clobbered before its last use; compute into a temporary and store the result last", paramRecordedName(fn, w), p.Pos(ov.WritePos), paramRecordedName(fn, r), p.Pos(ov.ReadPos)), nil)
			}
		}
	}
	sort.Strings(found)
	return map[string]any{"(output pointer, element slice) pairs": n, "discovered": found}
}

// RETURN-global: no exported function or method of a public package hands out a pointer (or
// slice) into a package-level variable: the caller would hold mutable access to a constant the
// whole library computes with (the base point, a table, a torsion point) — writing through it
// silently changes every later result in the process.  Package-level variables that are
// themselves exported pointers are reachable by callers anyway; what this rule forbids is an
// API RESULT that aliases library-owned storage.  Decided with the result-root summaries of
// E-MOD (transitive through callees).  Exceptions are listed with a reason.
var returnGlobalExceptions = map[string]string{}

func checkReturnGlobal(p *load.Program, rule *report.Rule, discover bool) map[string]any {
	m := modFor(p)
	n := 0
	var found []string
	for _, fn := range p.ModuleFuncs() {
		if fn.Pkg == nil || fn.Object() == nil || !fn.Object().Exported() || len(fn.Blocks) == 0 {
			continue
		}
		rel := load.Rel(fn.Pkg.Pkg)
		if strings.HasPrefix(rel, "internal") || strings.Contains(rel, "/internal") {
			continue
		}
		sig := fn.Signature
		if sig.Recv() != nil {
			rt := sig.Recv().Type()
			if pt, ok := rt.(*types.Pointer); ok {
				rt = pt.Elem()
			}
			if nm, ok := rt.(*types.Named); ok && !nm.Obj().Exported() {
				continue
			}
		}
		ptrRes := false
		for i := 0; i < sig.Results().Len(); i++ {
			switch sig.Results().At(i).Type().Underlying().(type) {
			case *types.Pointer, *types.Slice:
				ptrRes = true
			}
		}
		sum := m.Sum[fn]
		if !ptrRes || sum == nil {
			continue
		}
		n++
		name := load.FuncName(fn)
		if len(sum.ReturnsGlobals) == 0 || returnGlobalExceptions[name] != "" {
			rule.OK(name)
			continue
		}
		var gs []string
		for g := range sum.ReturnsGlobals {
			gs = append(gs, g)
		}
		sort.Strings(gs)
		if discover {
			found = append(found, name+" -> "+strings.Join(gs, ", "))
			continue
		}
		rule.Fail(p.Pos(fn.Pos()), name, "a pointer-like result may point into the package-level variable(s) "+strings.Join(gs, ", ")+": the caller could modify a constant the library computes with; return a copy", nil)
	}
	sort.Strings(found)
	return map[string]any{"exported functions with pointer-like results": n, "discovered": found}
}

// RETURN-interior: no exported function or method of a public package returns a pointer INTO the
// object one of its pointer parameters (usually the receiver) designates (&p.point, &tbl[i]): the
// caller could write through it and desynchronise the object's parts (an expanded point whose stored
// point no longer matches its precomputed table).  Returning the receiver itself (chaining) is fine.
var returnInteriorExceptions = map[string]string{}

func checkReturnInterior(p *load.Program, rule *report.Rule, discover bool) map[string]any {
	n := 0
	var found []string
	for _, fn := range p.ModuleFuncs() {
		if fn.Pkg == nil || fn.Object() == nil || !fn.Object().Exported() || len(fn.Blocks) == 0 {
			continue
		}
		rel := load.Rel(fn.Pkg.Pkg)
		if strings.HasPrefix(rel, "internal") || strings.Contains(rel, "/internal") {
			continue
		}
		sig := fn.Signature
		if sig.Recv() != nil {
			rt := sig.Recv().Type()
			if pt, ok := rt.(*types.Pointer); ok {
				rt = pt.Elem()
			}
			if nm, ok := rt.(*types.Named); ok && !nm.Obj().Exported() {
				continue
			}
		}
		ptrRes := false
		for i := 0; i < sig.Results().Len(); i++ {
			if _, ok := sig.Results().At(i).Type().Underlying().(*types.Pointer); ok {
				ptrRes = true
			}
		}
		if !ptrRes {
			continue
		}
		n++
		name := load.FuncName(fn)
		pi, pos, bad := emod.InteriorReturn(fn)
		if !bad || returnInteriorExceptions[name] != "" {
			rule.OK(name)
			continue
		}
		if discover {
			found = append(found, fmt.Sprintf("%s interior of %s at %s", name, paramRecordedName(fn, pi), p.Pos(pos)))
			continue
		}
		rule.Fail(p.Pos(pos), name, fmt.Sprintf("returns a pointer into the object %q designates: the caller can modify a part of the object behind its back (its other parts — cached tables, flags — no longer match); return a copy", paramRecordedName(fn, pi)), nil)
	}
	sort.Strings(found)
	return map[string]any{"exported functions with pointer results": n, "discovered": found}
}
