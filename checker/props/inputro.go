package props

import (
	"fmt"
	"go/token"
	"go/types"
	"sort"
	"strings"

	"golang.org/x/tools/go/ssa"

	"voicheck/load"
	"voicheck/report"
)

// INPUT-readonly: an exported function of a public package never writes through a parameter
// that is an input.  Callers share keys, scalars, points and messages between goroutines
// (PrivateKey.DiffieHellman, Verify on one public key, ...): a function that clamps, reduces or
// normalises its argument in place is a data race on caller-owned memory and silently changes
// the caller's value.  Decided with the may-write summaries of E-MOD (transitive through
// callees, assembly facts included): for every exported function or method of an exported type
// in a non-internal package, every pointer-like parameter other than the receiver must be absent
// from the write set, unless it is an OUTPUT by the API's own convention:
//   - it is named dst/out/output/dest/buf/b/p (io.Reader.Read / Sum / Append style) — the
//     frozen table outputParams below lists the names seen on the unchanged tree, per function
//     kind, each confirmed by reading;
//   - it is an interface or function value (io.Reader, hash.Hash, rand sources: calling their
//     methods "writes" them by nature).
var outputParamNames = map[string]bool{
	"dst": true, "out": true, "output": true, "dest": true, "outBytes": true,
}

// inputWriteExceptions: exported functions that write a non-receiver parameter not covered by
// the naming convention, each confirmed by reading (function -> parameter -> reason).
var inputWriteExceptions = map[string]map[string]string{
	"(*curve/scalar.Scalar).BatchInvert":                        {"inputs": "documented in/out: each element of the slice is replaced by its inverse"},
	"(*primitives/ed25519/extra/cache.Verifier).Add":            {"verifier": "the batch verifier is the accumulator the entry is added to"},
	"(*primitives/ed25519/extra/cache.Verifier).AddWithOptions": {"verifier": "the batch verifier is the accumulator the entry is added to"},
	"(*primitives/merlin.Transcript).AppendMessage":             {"message": merlinImprecision},
	"(*primitives/sr25519.BatchVerifier).Add":                   {"pk": merlinImprecision, "signature": merlinImprecision},
	"(*primitives/sr25519.PublicKey).Verify":                    {"signature": merlinImprecision},
	"(*primitives/sr25519.SigningContext).NewTranscriptBytes":   {"b": merlinImprecision},
	"primitives/sr25519.NewSigningContext":                      {"context": merlinImprecision},
}

// merlinImprecision: the may-write summary of strobe.duplex includes its data argument because the
// routine writes it in the cbefore/cafter modes (PRF, recv); AD / meta-AD, the only operations these
// callers reach with this argument, never select those modes (decided by SEQ-merlin, C13).
const merlinImprecision = "imprecision of the may-write summary of strobe.duplex (writes its data only in modes AD never selects; see SEQ-merlin)"

func checkInputReadonly(p *load.Program, rule *report.Rule, discover bool) map[string]any {
	m := modFor(p)
	nfn, nparam := 0, 0
	var found []string
	for _, fn := range p.ModuleFuncs() {
		if fn.Pkg == nil || fn.Object() == nil || !fn.Object().Exported() || len(fn.Blocks) == 0 {
			continue
		}
		rel := load.Rel(fn.Pkg.Pkg)
		if strings.HasPrefix(rel, "internal") || strings.Contains(rel, "/internal") {
			continue
		}
		sig := fn.Signature
		first := 0
		if sig.Recv() != nil {
			first = 1
			rt := sig.Recv().Type()
			if pt, ok := rt.(*types.Pointer); ok {
				rt = pt.Elem()
			}
			if n, ok := rt.(*types.Named); ok && !n.Obj().Exported() {
				continue
			}
		}
		sum := m.Sum[fn]
		if sum == nil {
			continue
		}
		nfn++
		name := load.FuncName(fn)
		for i := first; i < len(fn.Params); i++ {
			prm := fn.Params[i]
			switch prm.Type().Underlying().(type) {
			case *types.Pointer, *types.Slice, *types.Map:
			default:
				continue // interfaces, function values, scalars
			}
			nparam++
			pname := paramRecordedName(fn, i)
			if !sum.Writes[i] {
				rule.OK(name + "#" + pname)
				continue
			}
			if outputParamNames[pname] {
				rule.OK(name + "#" + pname)
				continue
			}
			if why, ok := inputWriteExceptions[name][pname]; ok && why != "" {
				rule.OK(name + "#" + pname)
				continue
			}
			if discover {
				found = append(found, fmt.Sprintf("%s  param %s %s", name, pname, prm.Type()))
				continue
			}
			rule.Fail(p.Pos(witnessPos(fn)), name, fmt.Sprintf("may write through its input parameter %q (%s): callers share inputs between goroutines and keep using them; an input must be copied before it is clamped, reduced or normalised", pname, prm.Type()), nil)
		}
	}
	sort.Strings(found)
	return map[string]any{"exported functions": nfn, "pointer-like parameters": nparam, "discovered": found}
}

func witnessPos(fn *ssa.Function) token.Pos { return fn.Pos() }

// paramRecordedName: the name the parameter had when the tables were written.
func paramRecordedName(fn *ssa.Function, i int) string {
	if names, ok := recordedParamNames[load.FuncName(fn)]; ok && i < len(names) && names[i] != "" {
		return names[i]
	}
	return fn.Params[i].Name()
}

// RETURN-fresh: an exported function of a public package that returns a byte slice returns
// memory the caller owns: the result never aliases the receiver's (or a parameter's) internal
// storage.  Marshalled keys and encodings are routinely modified by callers (flip a bit, append);
// a result aliasing the object's cached encoding corrupts the object.  Decided with the
// may-alias-result summaries of E-MOD; exceptions (append-style dst results) are listed.
var returnAliasExceptions = map[string]map[string]string{}

func checkReturnFresh(p *load.Program, rule *report.Rule, discover bool) map[string]any {
	m := modFor(p)
	n := 0
	var found []string
	for _, fn := range p.ModuleFuncs() {
		if fn.Pkg == nil || fn.Object() == nil || !fn.Object().Exported() || len(fn.Blocks) == 0 {
			continue
		}
		rel := load.Rel(fn.Pkg.Pkg)
		if strings.HasPrefix(rel, "internal") || strings.Contains(rel, "/internal") {
			continue
		}
		sig := fn.Signature
		if sig.Recv() != nil {
			rt := sig.Recv().Type()
			if pt, ok := rt.(*types.Pointer); ok {
				rt = pt.Elem()
			}
			if nm, ok := rt.(*types.Named); ok && !nm.Obj().Exported() {
				continue
			}
		}
		hasSlice := false
		for i := 0; i < sig.Results().Len(); i++ {
			if sl, ok := sig.Results().At(i).Type().Underlying().(*types.Slice); ok {
				if b, ok := sl.Elem().Underlying().(*types.Basic); ok && b.Kind() == types.Byte {
					hasSlice = true
				}
			}
		}
		if !hasSlice {
			continue
		}
		sum := m.Sum[fn]
		if sum == nil {
			continue
		}
		n++
		name := load.FuncName(fn)
		bad := ""
		var idx []int
		for i := range sum.Returns {
			idx = append(idx, i)
		}
		sort.Ints(idx)
		for _, i := range idx {
			if i >= len(fn.Params) {
				continue
			}
			pname := paramRecordedName(fn, i)
			// only pointer receivers / pointer and slice parameters carry storage the result can alias
			switch fn.Params[i].Type().Underlying().(type) {
			case *types.Pointer, *types.Slice:
			default:
				continue
			}
			if outputParamNames[pname] {
				continue // append-style: the result is the (grown) destination handed in
			}
			if why := returnAliasExceptions[name][pname]; why != "" {
				continue
			}
			bad = pname
			break
		}
		if bad == "" {
			rule.OK(name)
			continue
		}
		if discover {
			found = append(found, name+"  aliases "+bad)
			continue
		}
		rule.Fail(p.Pos(fn.Pos()), name, fmt.Sprintf("the byte slice returned may alias the storage of %q: a caller modifying the result would corrupt the object; return a copy", bad), nil)
	}
	sort.Strings(found)
	return map[string]any{"exported functions returning byte slices": n, "discovered": found}
}
