package props

import (
	"fmt"
	"go/constant"
	"go/token"
	"go/types"

	"golang.org/x/tools/go/ssa"

	"voicheck/load"
	"voicheck/report"
)

// IDX-dec: an index that is counted DOWN inside a loop never goes below zero
// where it is used to index.  For every loop-carried integer phi i with a
// back-edge value i − c (c > 0) and every indexing instruction a[i] inside the
// function, one of the following must hold (dominance over the SSA CFG):
//
//	(a) the use is dominated by the edge of a test that implies i >= 0
//	    (i >= 0, 0 <= i, i > −1 true edge; i < 0 false edge) — the `for i := n; i >= 0; i--` form;
//	(b) every decrement of i is dominated by the edge of a test that implies i > 0
//	    (i != 0, i > 0, 0 < i true edge; i == 0 false edge) and i starts from a
//	    non-negative constant — the `for { …; if i == 0 { break }; i-- }` form.
//
// Anything else is reported: a search loop such as `for a[i] == 0 { i-- }` walks off
// the array when nothing is found (seeded change C19/4: panic on all-zero scalars).
func checkIndexDecrement(p *load.Program, rule *report.Rule) map[string]any {
	nphi, nuse := 0, 0
	for _, fn := range p.ModuleFuncs() {
		if len(fn.Blocks) == 0 {
			continue
		}
		bad := ""
		found := false
		isConstInt := func(v ssa.Value) (int64, bool) {
			c, ok := v.(*ssa.Const)
			if !ok || c.Value == nil || c.Value.Kind() != constant.Int {
				return 0, false
			}
			n, ok := constant.Int64Val(c.Value)
			return n, ok
		}
		// strip conversions
		strip := func(v ssa.Value) ssa.Value {
			for {
				switch x := v.(type) {
				case *ssa.Convert:
					v = x.X
				case *ssa.ChangeType:
					v = x.X
				default:
					return v
				}
			}
		}
		// edgeImplies: reaching block x from its immediate dominator d through d's If implies rel(i)
		implies := func(d, x *ssa.BasicBlock, i ssa.Value, want string) bool {
			if len(d.Instrs) == 0 {
				return false
			}
			ifi, ok := d.Instrs[len(d.Instrs)-1].(*ssa.If)
			if !ok || len(d.Succs) != 2 {
				return false
			}
			bo, ok := ifi.Cond.(*ssa.BinOp)
			if !ok {
				return false
			}
			onTrue := d.Succs[0] == x && d.Succs[1] != x
			onFalse := d.Succs[1] == x && d.Succs[0] != x
			l, r := strip(bo.X), strip(bo.Y)
			lc, lok := isConstInt(l)
			rc, rok := isConstInt(r)
			switch want {
			case ">=0":
				switch {
				case l == i && rok && bo.Op == token.GEQ && rc >= 0, l == i && rok && bo.Op == token.GTR && rc >= -1,
					r == i && lok && bo.Op == token.LEQ && lc >= 0, r == i && lok && bo.Op == token.LSS && lc >= -1:
					return onTrue
				case l == i && rok && bo.Op == token.LSS && rc <= 0, r == i && lok && bo.Op == token.GTR && lc <= 0:
					return onFalse
				}
			case ">0":
				switch {
				case l == i && rok && bo.Op == token.NEQ && rc == 0, l == i && rok && bo.Op == token.GTR && rc >= 0,
					r == i && lok && bo.Op == token.LSS && lc >= 0, r == i && lok && bo.Op == token.NEQ && lc == 0:
					return onTrue
				case l == i && rok && bo.Op == token.EQL && rc == 0, r == i && lok && bo.Op == token.EQL && lc == 0,
					l == i && rok && bo.Op == token.LEQ && rc == 0:
					return onFalse
				}
			}
			return false
		}
		dominatedByEdge := func(b *ssa.BasicBlock, stop *ssa.BasicBlock, i ssa.Value, want string) bool {
			for x := b; x != nil; x = x.Idom() {
				d := x.Idom()
				if d == nil {
					break
				}
				if implies(d, x, i, want) {
					return true
				}
				if x == stop {
					break
				}
			}
			return false
		}
		for _, b := range fn.Blocks {
			for _, ins := range b.Instrs {
				phi, ok := ins.(*ssa.Phi)
				if !ok {
					continue
				}
				if bt, ok := phi.Type().Underlying().(*types.Basic); !ok || bt.Info()&types.IsInteger == 0 {
					continue
				}
				var decs []*ssa.BinOp
				initsOK := true
				// nonNeg: the value is >= 0 when it flows out of block `from`
				var nonNeg func(v ssa.Value, from *ssa.BasicBlock, seen map[ssa.Value]bool) bool
				nonNeg = func(v ssa.Value, from *ssa.BasicBlock, seen map[ssa.Value]bool) bool {
					v = strip(v)
					if c, okc := isConstInt(v); okc {
						return c >= 0
					}
					if seen[v] {
						return true // cycle: decided by the other edges
					}
					seen[v] = true
					if q, ok := v.(*ssa.Phi); ok {
						// a counter that is tested to be >= 0 on the way to `from`
						if from != nil && dominatedByEdge(from, q.Block(), q, ">=0") {
							return true
						}
						for k, e := range q.Edges {
							if bo, ok := e.(*ssa.BinOp); ok && strip(bo.X) == ssa.Value(q) {
								continue // its own update: covered by the test above at the uses
							}
							if !nonNeg(e, q.Block().Preds[k], seen) {
								return false
							}
						}
						return true
					}
					return false
				}
				for k, e := range phi.Edges {
					_ = k
					if bo, ok := e.(*ssa.BinOp); ok {
						if c, okc := isConstInt(bo.Y); okc && strip(bo.X) == ssa.Value(phi) && ((bo.Op == token.SUB && c > 0) || (bo.Op == token.ADD && c < 0)) {
							decs = append(decs, bo)
							continue
						}
					}
					if !nonNeg(e, phi.Block().Preds[k], map[ssa.Value]bool{ssa.Value(phi): true}) {
						initsOK = false
					}
				}
				if len(decs) == 0 {
					continue
				}
				nphi++
				// every decrement guarded by i > 0 ?
				decGuarded := initsOK
				for _, d := range decs {
					if !dominatedByEdge(d.Block(), phi.Block(), phi, ">0") {
						decGuarded = false
					}
				}
				// uses as an index
				for _, ref := range *phi.Referrers() {
					var use ssa.Instruction
					switch x := ref.(type) {
					case *ssa.IndexAddr:
						if strip(x.Index) == ssa.Value(phi) {
							use = x
						}
					case *ssa.Index:
						if strip(x.Index) == ssa.Value(phi) {
							use = x
						}
					case *ssa.Convert:
						for _, r2 := range *x.Referrers() {
							switch y := r2.(type) {
							case *ssa.IndexAddr:
								if y.Index == ssa.Value(x) {
									use = y
								}
							case *ssa.Index:
								if y.Index == ssa.Value(x) {
									use = y
								}
							}
						}
					}
					if use == nil {
						continue
					}
					nuse++
					found = true
					if decGuarded || dominatedByEdge(use.Block(), phi.Block(), phi, ">=0") {
						continue
					}
					bad = fmt.Sprintf("%s: indexes with a counter that is decremented in the loop without a test that keeps it at or above zero on the way to this use (the loop walks off the front of the array when its exit condition never fires)", p.Pos(use.Pos()))
				}
			}
		}
		if !found {
			continue
		}
		if bad != "" {
			rule.Fail(p.Pos(fn.Pos()), load.FuncName(fn), bad, nil)
		} else {
			rule.OK(load.FuncName(fn))
		}
	}
	return map[string]any{"down-counting loop indices": nphi, "indexing uses": nuse}
}
