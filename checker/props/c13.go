package props

import (
	"fmt"
	"go/ast"
	"go/constant"
	"go/types"
	"sort"
	"strings"

	"voicheck/econst"
	"voicheck/edt"
	"voicheck/egvn"
	"voicheck/load"
	"voicheck/report"

	"golang.org/x/tools/go/packages"
)

// C13 — Merlin v1.0 over STROBE-128/1600: framing of every operation,
// STROBE operation structure, clone independence, Keccak sibling equality.

// callParts splits "Op(a, b, c)" into the operator and its top-level arguments.
func callParts(s string) (op string, args []string) {
	i := strings.IndexByte(s, '(')
	if i < 0 || !strings.HasSuffix(s, ")") {
		return s, nil
	}
	op = s[:i]
	body := s[i+1 : len(s)-1]
	depth, start := 0, 0
	inStr := false
	for k := 0; k < len(body); k++ {
		c := body[k]
		switch {
		case c == '"' && (k == 0 || body[k-1] != '\\'):
			inStr = !inStr
		case inStr:
		case c == '(' || c == '[':
			depth++
		case c == ')' || c == ']':
			depth--
		case c == ',' && depth == 0:
			args = append(args, strings.TrimSpace(body[start:k]))
			start = k + 1
		}
	}
	args = append(args, strings.TrimSpace(body[start:]))
	return op, args
}

// strobeOps reduces the Strobe.* events of a path to "Op(data[, more])",
// dropping the (nested) state argument.
func strobeOps(p *edt.Path, prefix string) []string {
	var out []string
	for _, ev := range p.Events {
		if !strings.HasPrefix(ev, prefix) {
			continue
		}
		op, args := callParts(ev)
		n := 1
		switch strings.TrimPrefix(op, prefix) {
		case "MetaAD", "AD":
			n = 2
		case "operate":
			n = 3
		case "duplex":
			n = 3
		}
		if len(args) > n {
			args = args[len(args)-n:]
		}
		out = append(out, strings.TrimPrefix(op, prefix)+"("+strings.Join(args, ", ")+")")
	}
	return out
}

func le32(x string) string {
	return "out1(littleEndian.PutUint32(@binary.LittleEndian, zero, uint32(len(" + x + "))))"
}

// seqSpec: a function whose successful path performs exactly the given
// sequence of STROBE operations.
func seqSpec(pkg, fn string, opaque []string, vars map[string]string, okFormula func(e *edt.Env) edt.Tri, okOutcomePrefix string, want []string) *edt.Spec {
	return &edt.Spec{
		Pkg: pkg, Func: fn, Opaque: opaque, Vars: vars, MinPaths: 1,
		AssumePrefix: map[string]edt.Assumption{"isnil(err(io.ReadFull(": {Val: true, Why: "entropy read failure is a separate documented error path"}},
		Classify: func(p *edt.Path, out string, e *edt.Env) string {
			switch {
			case p.Panic != nil, strings.Contains(out, "err(fmt.Errorf("):
				return "limit"
			case strings.HasPrefix(out, okOutcomePrefix):
				return "ok"
			}
			return ""
		},
		Formula: map[string]func(e *edt.Env) edt.Tri{
			"ok":    okFormula,
			"limit": func(e *edt.Env) edt.Tri { return edt.Not(okFormula(e)) },
		},
		Extra: func(p *edt.Path, out, class string, e *edt.Env, ab func(string) string) string {
			if class != "ok" {
				return ""
			}
			got := strobeOps(p, "Strobe.")
			if strings.Join(got, " ; ") != strings.Join(want, " ; ") {
				return fmt.Sprintf("operation framing differs from Merlin v1.0:\n      got  %s\n      want %s", strings.Join(got, " ; "), strings.Join(want, " ; "))
			}
			return ""
		},
	}
}

func c13Specs() []*edt.Spec {
	lim := func(a, b string) func(e *edt.Env) edt.Tri {
		return func(e *edt.Env) edt.Tri { return edt.And(edt.Not(e.V(a)), edt.Not(e.V(b))) }
	}
	strobeOpaque := []string{"Strobe.operate", "Strobe.duplex", "Strobe.beginOp", "Strobe.runF", "strobe.keccakF1600Bytes"}
	return []*edt.Spec{
		// ---- Merlin framing -------------------------------------------------------------------
		seqSpec("primitives/merlin", "(*Transcript).AppendMessage", nil,
			map[string]string{"(4294967295 < len($label))": "labelTooLong", "(4294967295 < len($message))": "dataTooLong"}, lim("labelTooLong", "dataTooLong"), "",
			[]string{"MetaAD(bytes($label), false)", "MetaAD(" + le32("$message") + ", true)", "AD($message, false)"}),
		seqSpec("primitives/merlin", "(*Transcript).ExtractBytes", nil,
			map[string]string{"(4294967295 < len($label))": "labelTooLong", "(4294967295 < len($dest))": "dataTooLong"}, lim("labelTooLong", "dataTooLong"), "",
			[]string{"MetaAD(bytes($label), false)", "MetaAD(" + le32("$dest") + ", true)", "PRF($dest)"}),
		seqSpec("primitives/merlin", "(*TranscriptRngBuilder).RekeyWithWitnessBytes", nil,
			map[string]string{"(4294967295 < len($label))": "labelTooLong", "(4294967295 < len($witness))": "dataTooLong"}, lim("labelTooLong", "dataTooLong"), "ptr($rb)",
			[]string{"MetaAD(bytes($label), false)", "MetaAD(" + le32("$witness") + ", true)", "KEY($witness)"}),
		// every Read — including a zero-length one — is framed by the length and a PRF
		seqSpec("primitives/merlin", "(*transcriptRng).Read", nil,
			map[string]string{"(4294967295 < len($p))": "tooLong"}, func(e *edt.Env) edt.Tri { return edt.Not(e.V("tooLong")) }, "len($p) ; nil",
			[]string{"MetaAD(" + le32("$p") + ", false)", "PRF($p)"}),
		{
			Pkg: "primitives/merlin", Func: "(*TranscriptRngBuilder).Finalize", MinPaths: 2,
			Vars: map[string]string{"isnil(ptr($rng))": "rngNil", "isnil(err(io.ReadFull(zero)))": "readOK", "isnil(err(io.ReadFull(@rand.Reader, zero)))": "readOK"},
			Classify: func(p *edt.Path, out string, e *edt.Env) string {
				switch {
				case strings.HasPrefix(out, "nil ; err(fmt.Errorf("):
					return "error"
				case strings.HasPrefix(out, "&new(agg(.s=("):
					return "rng"
				}
				return ""
			},
			Formula: map[string]func(e *edt.Env) edt.Tri{
				"rng":   func(e *edt.Env) edt.Tri { return e.V("readOK") },
				"error": func(e *edt.Env) edt.Tri { return edt.Not(e.V("readOK")) },
			},
			Extra: func(p *edt.Path, out, class string, e *edt.Env, ab func(string) string) string {
				if class == "error" {
					// a Finalize that fails is not part of the history: the builder must be as it was
					if got := strobeOps(p, "Strobe."); len(got) != 0 {
						return "a failing Finalize (entropy read error) must leave the builder's STROBE state untouched, but it has already performed " + strings.Join(got, " ; ")
					}
					return ""
				}
				if class != "rng" {
					return ""
				}
				got := strobeOps(p, "Strobe.")
				if len(got) != 2 || got[0] != "MetaAD(bytes(\"rng\"), false)" || !strings.HasPrefix(got[1], "KEY(out1(io.ReadFull(") {
					return "Finalize must be meta-AD(\"rng\") then KEY(32 bytes read from the rng): got " + strings.Join(got, " ; ")
				}
				return ""
			},
		},
		{
			Pkg: "primitives/merlin", Func: "NewTranscript", MinPaths: 1,
			Vars: map[string]string{"(4294967295 < len($appLabel))": "tooLong"},
			Classify: func(p *edt.Path, out string, e *edt.Env) string {
				if p.Panic != nil {
					return "limit"
				}
				if strings.HasPrefix(out, "&new(agg(.s=(") {
					return "ok"
				}
				return ""
			},
			Formula: map[string]func(e *edt.Env) edt.Tri{
				"ok":    func(e *edt.Env) edt.Tri { return edt.Not(e.V("tooLong")) },
				"limit": func(e *edt.Env) edt.Tri { return e.V("tooLong") },
			},
			Extra: func(p *edt.Path, out, class string, e *edt.Env, ab func(string) string) string {
				if class != "ok" {
					return ""
				}
				if len(p.Events) == 0 || p.Events[0] != "strobe.New(\"Merlin v1.0\")" {
					return "the transcript must start from STROBE keyed with the protocol label \"Merlin v1.0\""
				}
				got := strobeOps(p, "Strobe.")
				want := []string{"MetaAD(bytes(\"dom-sep\"), false)", "MetaAD(" + le32("$appLabel") + ", true)", "AD(bytes($appLabel), false)"}
				if strings.Join(got, " ; ") != strings.Join(want, " ; ") {
					return "NewTranscript must append the application label under \"dom-sep\": got " + strings.Join(got, " ; ")
				}
				return ""
			},
		},
		// the clone is a copy of the whole STROBE state: through Strobe.Clone, or as a value copy of the
		// struct (TYPE-clone decides that the copied types are plain data)
		termSpecAny("primitives/merlin", "(*Transcript).Clone", nil, "&new(agg(.s=(Strobe.Clone($t.s))))", "&new($t)", "&new(agg(.s=($t.s)))"),
		termSpec("primitives/merlin", "(*Transcript).BuildRng", nil, "&new(agg(.s=(Strobe.Clone($t.s))))"),
		// ---- STROBE operations -----------------------------------------------------------------
		strobeOpSpec("(*Strobe).AD", strobeOpaque, "operate(2, $data, $more)"),
		strobeOpSpec("(*Strobe).MetaAD", strobeOpaque, "operate(18, $data, $more)"),
		strobeOpSpec("(*Strobe).KEY", strobeOpaque, "operate(6, $data, false)"), // on a copy: see Extra below
		{
			Pkg: "internal/strobe", Func: "(*Strobe).PRF", Opaque: strobeOpaque, SymLoops: true, MinPaths: 2,
			Vars: map[string]string{"(φL0.0 < len($dest))": "more"},
			Classify: func(p *edt.Path, out string, e *edt.Env) string {
				if strings.HasPrefix(out, "next-iteration@L0(") {
					return "zeroing"
				}
				if out == "" {
					return "operate"
				}
				return ""
			},
			Formula: map[string]func(e *edt.Env) edt.Tri{
				"zeroing": func(e *edt.Env) edt.Tri { return e.V("more") },
				"operate": func(e *edt.Env) edt.Tri { return edt.Not(e.V("more")) },
			},
			Extra: func(p *edt.Path, out, class string, e *edt.Env, ab func(string) string) string {
				if class == "zeroing" {
					return finalIs(p, ab, "$dest[φL0.0]", "0")
				}
				got := strobeOps(p, "Strobe.")
				if len(got) != 1 || got[0] != "operate(7, havoc@L0($dest), false)" {
					return "PRF must zero its destination and then operate with flags I|A|C on it: got " + strings.Join(got, " ; ")
				}
				return ""
			},
		},
		{
			Pkg: "internal/strobe", Func: "(*Strobe).operate", Opaque: strobeOpaque, MinPaths: 4,
			Vars: map[string]string{"$s.initialized": "initialized", "$more": "more", "($f == $s.curFlags)": "sameFlags"},
			Classify: func(p *edt.Path, out string, e *edt.Env) string {
				switch {
				case p.Panic != nil:
					return "panic"
				case len(strobeOps(p, "Strobe.")) == 2:
					return "begin+duplex"
				case len(strobeOps(p, "Strobe.")) == 1:
					return "duplex"
				}
				return ""
			},
			Formula: map[string]func(e *edt.Env) edt.Tri{
				"panic": func(e *edt.Env) edt.Tri {
					return edt.Or(edt.Not(e.V("initialized")), edt.And(e.V("more"), edt.Not(e.V("sameFlags"))))
				},
				"begin+duplex": func(e *edt.Env) edt.Tri { return edt.And(e.V("initialized"), edt.Not(e.V("more"))) },
				"duplex":       func(e *edt.Env) edt.Tri { return edt.And(e.V("initialized"), e.V("more"), e.V("sameFlags")) },
			},
			Extra: func(p *edt.Path, out, class string, e *edt.Env, ab func(string) string) string {
				got := strobeOps(p, "Strobe.")
				switch class {
				case "begin+duplex":
					if got[0] != "beginOp($f)" || got[1] != "duplex($data, not((($f & 4) == 0)), false)" {
						return "a new operation must begin with beginOp(f) and then duplex(data, cBefore = f has C, forceF = false): got " + strings.Join(got, " ; ")
					}
					return finalContains(p, "$s", ".curFlags=($f)")
				case "duplex":
					if got[0] != "duplex($data, not((($f & 4) == 0)), false)" {
						return "a continued operation must duplex(data, cBefore = f has C, forceF = false): got " + got[0]
					}
				}
				return ""
			},
		},
		{
			// the framing bytes [old_begin, flags] are absorbed with forceF exactly when the operation has the C flag
			Pkg: "internal/strobe", Func: "(*Strobe).beginOp", Opaque: strobeOpaque, MinPaths: 1,
			Vars: map[string]string{},
			Classify: func(p *edt.Path, out string, e *edt.Env) string {
				got := strobeOps(p, "Strobe.")
				if len(got) == 1 && got[0] == "duplex(agg([0]=(byte($s.posBegin)), [1]=($f)), false, not((($f & 4) == 0)))" {
					return "framing"
				}
				return ""
			},
			Formula: map[string]func(e *edt.Env) edt.Tri{"framing": always},
			Extra: func(p *edt.Path, out, class string, e *edt.Env, ab func(string) string) string {
				for _, ev := range p.Events {
					if strings.HasPrefix(ev, "Strobe.duplex(upd($s, .posBegin=(($s.pos + 1))), ") {
						return ""
					}
				}
				return "posBegin must be set to pos+1 before the framing bytes are absorbed"
			},
		},
		{
			Pkg: "internal/strobe", Func: "(*Strobe).runF", Opaque: strobeOpaque, MinPaths: 2,
			Vars: map[string]string{"$s.initialized": "initialized"},
			Classify: func(p *edt.Path, out string, e *edt.Env) string {
				for _, ev := range p.Events {
					switch ev {
					case "strobe.keccakF1600Bytes($s.st)":
						return "bare"
					case "strobe.keccakF1600Bytes(upd($s.st, [$s.pos]=(($s.st[$s.pos] ^ byte($s.posBegin))), [($s.pos + 1)]=(($s.st[($s.pos + 1)] ^ 4)), [($s.r + 1)]=(($s.st[($s.r + 1)] ^ 128))))":
						return "padded"
					}
				}
				return ""
			},
			Formula: map[string]func(e *edt.Env) edt.Tri{
				"padded": func(e *edt.Env) edt.Tri { return e.V("initialized") },
				"bare":   func(e *edt.Env) edt.Tri { return edt.Not(e.V("initialized")) },
			},
			Extra: func(p *edt.Path, out, class string, e *edt.Env, ab func(string) string) string {
				return finalsAre(p, ab, map[string]string{"$s.pos": "0", "$s.posBegin": "0"})
			},
		},
		termSpec("internal/strobe", "(*Strobe).Clone", nil, "&new($s)"),
		{
			// New: absorb the STROBE-128/1600 domain string with R+2 = 168, force F, then R = 166, initialised, meta-AD(proto)
			Pkg: "internal/strobe", Func: "New", Opaque: strobeOpaque, MinPaths: 1, Vars: map[string]string{},
			Classify: func(p *edt.Path, out string, e *edt.Env) string { return "init" },
			Formula:  map[string]func(e *edt.Env) edt.Tri{"init": always},
			Extra: func(p *edt.Path, out, class string, e *edt.Env, ab func(string) string) string {
				dom := append([]byte{1, 168, 1, 0, 1, 96}, "STROBEv1.0.2"...)
				var parts []string
				for i, b := range dom {
					parts = append(parts, fmt.Sprintf("[%d]=(%d)", i, b))
				}
				sort.Strings(parts)
				d := "Strobe.duplex(agg(.r=(168)), agg(" + strings.Join(parts, ", ") + "), false, true)"
				if len(p.Events) != 2 || p.Events[0] != d {
					return "New must first absorb [1, R+2, 1, 0, 1, 96] ‖ \"STROBEv1.0.2\" into the zero state with rate 168 and force the permutation: got " + clip(strings.Join(p.Events, " ; "), 300)
				}
				want := "Strobe.operate(upd(" + d + ", .initialized=(true), .r=((sel(" + d + ", .r) - 2))), 18, bytes($proto), false)"
				if p.Events[1] != want {
					return "New must then set initialized, reduce the rate by 2 and absorb the protocol label as meta-AD: got " + clip(p.Events[1], 300)
				}
				return ""
			},
		},
		{
			// duplex: per block, permute exactly when pos reaches the rate; at the end, exactly when forceF and pos != 0
			Pkg: "internal/strobe", Func: "(*Strobe).duplex", Opaque: []string{"Strobe.runF"}, SymLoops: true, MinPaths: 10,
			Vars: map[string]string{"$forceF": "forceF", "$cBefore": "cBefore", "(0 < φL0.1)": "remaining"},
			VarPrefix: map[string]string{
				"(sel(havoc@L0($s), .pos) == 0)": "posZero",
				"((sel(havoc@L2($s), .pos) + ":   "blockFull",
				"(((sel(havoc@L0($s), .r) - sel(havoc@L0($s), .pos)) + sel(havoc@L2($s), .pos)) == ": "blockFull",
				"(φL1.0 < ": "xorDataMore",
				"(φL2.0 < ": "xorStateMore",
				"((sel(havoc@L0($s), .r) - sel(havoc@L0($s), .pos)) < φL0.1)": "clipToBlock",
			},
			Classify: func(p *edt.Path, out string, e *edt.Env) string {
				f := ""
				for _, ev := range p.Events {
					if strings.HasPrefix(ev, "Strobe.runF(") {
						f += "+F"
					}
				}
				switch {
				case strings.HasPrefix(out, "next-iteration@L1("):
					return "xorData"
				case strings.HasPrefix(out, "next-iteration@L2("):
					return "xorState"
				case strings.HasPrefix(out, "next-iteration@L0("):
					return "block" + f
				case out == "":
					return "exit" + f
				}
				return ""
			},
			Formula: func() map[string]func(e *edt.Env) edt.Tri {
				pastData := func(e *edt.Env) edt.Tri { return edt.Or(edt.Not(e.V("cBefore")), edt.Not(e.V("xorDataMore"))) }
				blockEnd := func(e *edt.Env) edt.Tri {
					return edt.And(e.V("remaining"), pastData(e), edt.Not(e.V("xorStateMore")))
				}
				force := func(e *edt.Env) edt.Tri { return edt.And(e.V("forceF"), edt.Not(e.V("posZero"))) }
				return map[string]func(e *edt.Env) edt.Tri{
					"xorData":  func(e *edt.Env) edt.Tri { return edt.And(e.V("remaining"), e.V("cBefore"), e.V("xorDataMore")) },
					"xorState": func(e *edt.Env) edt.Tri { return edt.And(e.V("remaining"), pastData(e), e.V("xorStateMore")) },
					"block+F":  func(e *edt.Env) edt.Tri { return edt.And(blockEnd(e), e.V("blockFull")) },
					"block":    func(e *edt.Env) edt.Tri { return edt.And(blockEnd(e), edt.Not(e.V("blockFull"))) },
					"exit+F":   func(e *edt.Env) edt.Tri { return edt.And(edt.Not(e.V("remaining")), force(e)) },
					"exit":     func(e *edt.Env) edt.Tri { return edt.And(edt.Not(e.V("remaining")), edt.Not(force(e))) },
				}
			}(),
			Extra: func(p *edt.Path, out, class string, e *edt.Env, ab func(string) string) string {
				switch class {
				case "xorData", "xorState":
					// C operations: data ^= state first; always: state ^= data — same offsets on both sides
					n := "φL0.1"
					if e.V("clipToBlock") == edt.T {
						n = "(sel(havoc@L0($s), .r) - sel(havoc@L0($s), .pos))"
					}
					dwin := "[φL0.0:" + cb("+", "φL0.0", n) + "]"
					swin := ".st[sel(havoc@L0($s), .pos):" + cb("+", "sel(havoc@L0($s), .pos)", n) + "]"
					key, want := "$data"+dwin+"[φL1.0]", cb("^", "sel(havoc@L1($data), "+dwin+"[φL1.0])", "sel(havoc@L0($s), "+swin+"[φL1.0])")
					if class == "xorState" {
						d := "havoc@L1($data)"
						if e.V("cBefore") == edt.F {
							d = "havoc@L0($data)"
						}
						dsel := "sel(" + d + ", " + dwin + "[φL2.0])"
						key, want = "$s"+swin+"[φL2.0]", cb("^", "sel(havoc@L2($s), "+swin+"[φL2.0])", dsel)
					}
					f, ok := p.Final[key]
					if !ok {
						return "the xor step does not write " + ab(key)
					}
					if f.String() != want {
						return "xor step writes " + clip(f.String(), 200) + ", want " + clip(want, 200)
					}
				case "block", "block+F":
					// the block-full test compares pos + n with the rate r
					for _, l := range p.Lits {
						if strings.Contains(l.Atom, "sel(havoc@L2($s), .pos)") && strings.Contains(l.Atom, " + ") && !strings.HasSuffix(l.Atom, ") == sel(havoc@L2($s), .r))") {
							return "the permutation inside duplex must be triggered by pos == r: " + clip(l.Atom, 120)
						}
					}
					// the chunk is clipped to r - pos
					n := "φL0.1"
					if e.V("clipToBlock") == edt.T {
						n = "(sel(havoc@L0($s), .r) - sel(havoc@L0($s), .pos))"
					}
					if !strings.HasPrefix(out, "next-iteration@L0("+cb("+", "φL0.0", n)+", (φL0.1 - "+n+"))") {
						return "a block must consume n = min(remaining, r - pos) bytes: " + clip(out, 160)
					}
				}
				return ""
			},
		},
	}
}

func strobeOpSpec(fn string, opaque []string, want string) *edt.Spec {
	return &edt.Spec{
		Pkg: "internal/strobe", Func: fn, Opaque: opaque, MinPaths: 1, Vars: map[string]string{},
		Classify: func(p *edt.Path, out string, e *edt.Env) string {
			got := strobeOps(p, "Strobe.")
			if len(got) == 1 && (got[0] == want || strings.Replace(got[0], "cat($data)", "$data", 1) == want) {
				return "as-specified" // (a private copy made with append([]byte(nil), data...) renders as cat($data))
			}
			return ""
		},
		Formula: map[string]func(e *edt.Env) edt.Tri{"as-specified": always},
		Extra: func(p *edt.Path, out, class string, e *edt.Env, ab func(string) string) string {
			if strings.HasSuffix(fn, ".KEY") {
				// KEY must work on a copy: the caller's buffer is not written
				if _, written := p.Final["$data"]; written {
					return "KEY writes the caller's key buffer (it must operate on a copy)"
				}
			}
			return ""
		},
	}
}

func finalContains(p *edt.Path, key, sub string) string {
	if f, ok := p.Final[key]; ok && strings.Contains(f.String(), sub) {
		return ""
	}
	return fmt.Sprintf("%s does not end with %s", key, sub)
}

// plainData: a type with no pointer, slice, map, channel, function or
// interface component (copying it by value yields an independent object).
func plainData(t types.Type, seen map[types.Type]bool) (bool, string) {
	if seen[t] {
		return true, ""
	}
	seen[t] = true
	switch u := t.Underlying().(type) {
	case *types.Basic:
		if u.Kind() == types.UnsafePointer {
			return false, "unsafe.Pointer"
		}
		return true, ""
	case *types.Array:
		return plainData(u.Elem(), seen)
	case *types.Struct:
		for i := 0; i < u.NumFields(); i++ {
			if ok, why := plainData(u.Field(i).Type(), seen); !ok {
				return false, u.Field(i).Name() + ": " + why
			}
		}
		return true, ""
	}
	return false, t.String()
}

// checkCloneTypes: TYPE-clone of DESIGN §4 C13.
func checkCloneTypes(p *load.Program, rule *report.Rule) {
	for _, tn := range []struct{ pkg, name string }{{"internal/strobe", "Strobe"}, {"primitives/merlin", "Transcript"}} {
		obj := p.Obj(tn.pkg, tn.name)
		name := tn.pkg + "." + tn.name
		if obj == nil {
			rule.Fail("-", name, "type not found (anchor lost)", nil)
			continue
		}
		if ok, why := plainData(obj.Type(), map[types.Type]bool{}); !ok {
			rule.Fail(p.Pos(obj.Pos()), name, "the type is copied by value when a transcript is cloned but contains a reference ("+why+"): a clone would share state with its origin", nil)
		} else {
			rule.OK(name)
		}
	}
}

func init() {
	Registry["C13"] = func(c *Ctx) {
		run := c.Run
		run.Explanation = "E-SEQ/E-DT + types + siblings: every Merlin operation performs exactly the STROBE operation sequence of Merlin v1.0 (meta-AD(label), meta-AD(le32(len) of the SAME buffer, more), then AD/PRF/KEY; every RNG read — also a zero-length one — is framed; Finalize = meta-AD(\"rng\"), KEY(32 entropy bytes); NewTranscript = STROBE(\"Merlin v1.0\") + dom-sep); STROBE: flag values of AD/meta-AD/KEY/PRF, PRF zeroes its destination, KEY works on a copy, operate begins a new operation or continues with equal flags, beginOp absorbs [old_begin, flags] with forceF exactly for C operations, runF pads exactly when initialised and resets pos/posBegin, duplex forces the permutation at its end exactly when forceF and pos != 0; the cloned types are plain data; the Go Keccak-f[1600] computes, for each of the 25 state words, the same canonical expression (global value numbering: xor/and/or normal forms, rotations recognised from either idiom, loop unrolled on concrete counters, data symbolic) as the permutation of the repository's own dependency golang.org/x/crypto/sha3 (sibling implementation), round constants by value."
		run.NotDecided = []string{"conformance of the duplex byte loop on every history (block-boundary arithmetic across iterations)", "that different histories give different challenges (cryptographic)", "the amd64 Keccak assembly beyond its round constants and the assembly lint (C08/C20)"}
		run.Exhaustive = true
		if !c.Preload("amd64", "purego") {
			return
		}
		p := c.Prog("amd64")
		run.SetConfig("amd64")
		cfg := &edt.Config{P: p, Mod: modFor(p)}
		dt := run.Rule("SEQ-merlin", "Merlin operations and STROBE primitives have exactly the specified operation sequences and decision structure", 30)
		for _, s := range c13Specs() {
			r := edt.Check(dt, cfg, s)
			run.Sample(map[string]any{"function": s.Func, "paths": r.Paths, "feasible": r.Feasible, "classes": r.ClassCount})
		}
		tc := run.Rule("TYPE-clone", "types copied by value on Clone/BuildRng are plain data (no shared references)", 2)
		checkCloneTypes(p, tc)
		checkKeccakSibling(c, run)
		pg := c.Prog("purego")
		run.SetConfig("purego")
		econst.CheckNamed(run, pg, "CONST", "internal/strobe.rc")
	}
}

// constTable reads a package-level table of integer constants (a composite
// literal whose elements are constant expressions) from the typed syntax.
func constTable(pk *packages.Package, name string) ([]uint64, error) {
	if pk == nil {
		return nil, fmt.Errorf("package not loaded")
	}
	for _, f := range pk.Syntax {
		for _, d := range f.Decls {
			gd, ok := d.(*ast.GenDecl)
			if !ok {
				continue
			}
			for _, sp := range gd.Specs {
				vs, ok := sp.(*ast.ValueSpec)
				if !ok {
					continue
				}
				for i, n := range vs.Names {
					if n.Name != name || i >= len(vs.Values) {
						continue
					}
					cl, ok := vs.Values[i].(*ast.CompositeLit)
					if !ok {
						return nil, fmt.Errorf("%s is not a composite literal", name)
					}
					var out []uint64
					for _, e := range cl.Elts {
						tv, ok := pk.TypesInfo.Types[e]
						if !ok || tv.Value == nil {
							return nil, fmt.Errorf("%s has a non-constant element", name)
						}
						u, ok := constant.Uint64Val(tv.Value)
						if !ok {
							return nil, fmt.Errorf("%s has an element out of range", name)
						}
						out = append(out, u)
					}
					return out, nil
				}
			}
		}
	}
	return nil, fmt.Errorf("%s not found", name)
}

// checkKeccakSibling: the Go Keccak-f[1600] of internal/strobe against
// golang.org/x/crypto/sha3's, by global value numbering (purego configuration).
func checkKeccakSibling(c *Ctx, run *report.Run) {
	// Keccak: Go implementation vs the dependency's
	pg := c.Prog("purego")
	run.SetConfig("purego")
	kk := run.Rule("SIB-keccak", "the Go Keccak-f[1600] of internal/strobe is structurally equal to golang.org/x/crypto/sha3's (same role, independently tested)", 1)
	mine := pg.Func("internal/strobe", "keccakF1600")
	var theirs = (*ssaFunction)(nil)
	if xp := pg.All["golang.org/x/crypto/sha3"]; xp != nil && pg.SSA != nil {
		if sp := pg.SSA.Package(xp.Types); sp != nil {
			theirs = sp.Func("keccakF1600")
		}
	}
	switch {
	case mine == nil || len(mine.Blocks) == 0:
		kk.Fail("-", "internal/strobe.keccakF1600", "Go Keccak not found in the purego configuration (anchor lost)", nil)
	case theirs == nil || len(theirs.Blocks) == 0:
		kk.Fail("-", "golang.org/x/crypto/sha3.keccakF1600", "the dependency's pure-Go permutation is not part of this configuration: sibling unavailable", nil)
	default:
		tab := egvn.NewTable()
		rcMine, err1 := constTable(pg.Pkg("internal/strobe"), "rc")
		rcTheirs, err2 := constTable(pg.All["golang.org/x/crypto/sha3"], "rc")
		var outA, outB []*egvn.Node
		var errA, errB error
		if err1 == nil && err2 == nil {
			outA, errA = egvn.Eval(tab, mine, 25, map[string][]uint64{"rc": rcMine}, 200000)
			outB, errB = egvn.Eval(tab, theirs, 25, map[string][]uint64{"rc": rcTheirs}, 200000)
		}
		switch {
		case err1 != nil || err2 != nil:
			kk.Fail(pg.Pos(mine.Pos()), "internal/strobe.keccakF1600", fmt.Sprintf("round-constant table cannot be read: %v %v", err1, err2), nil)
		case errA != nil:
			kk.Fail(pg.Pos(mine.Pos()), "internal/strobe.keccakF1600", "value numbering cannot follow the routine: "+errA.Error(), nil)
		case errB != nil:
			kk.Fail(pg.Pos(mine.Pos()), "internal/strobe.keccakF1600", "value numbering cannot follow the reference routine: "+errB.Error(), nil)
		default:
			bad := -1
			for i := range outA {
				if outA[i] != outB[i] {
					bad = i
					break
				}
			}
			if bad >= 0 {
				kk.Fail(pg.Pos(mine.Pos()), "internal/strobe.keccakF1600", fmt.Sprintf("state word %d after the 24 rounds is a different function of the input state than in golang.org/x/crypto/sha3.keccakF1600: %s vs %s", bad, egvn.Describe(outA[bad], 3), egvn.Describe(outB[bad], 3)), nil)
			} else {
				kk.OK("internal/strobe.keccakF1600")
				run.Sample(map[string]any{"keccak sibling": "golang.org/x/crypto/sha3.keccakF1600", "state words compared": len(outA), "expression DAG nodes": tab.Size(), "method": "global value numbering with xor/and/or normal forms and rotation recognition; loop counters concrete, data symbolic"})
			}
		}
	}
}
