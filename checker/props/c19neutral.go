package props

import (
	"fmt"
	"go/types"
	"sort"
	"strings"

	"voicheck/edt"
	"voicheck/load"
	"voicheck/report"

	"golang.org/x/tools/go/ssa"
)

// decoderMode: how each UnmarshalBinary leaves its receiver when it fails
// (confirmed by reading; frozen so that a decoder cannot silently stop
// resetting).  "reset": the receiver is put into its neutral state before
// decoding and every failing path leaves exactly that state; "untouched":
// nothing is written before the last check.
var decoderMode = map[string]string{
	"(*curve.EdwardsPoint).UnmarshalBinary":               "reset",
	"(*curve.CompressedEdwardsY).UnmarshalBinary":         "reset",
	"(*curve.RistrettoPoint).UnmarshalBinary":             "reset",
	"(*curve.CompressedRistretto).UnmarshalBinary":        "reset",
	"(*curve/scalar.Scalar).UnmarshalBinary":              "untouched",
	"(*primitives/sr25519.PublicKey).UnmarshalBinary":     "reset",
	"(*primitives/sr25519.KeyPair).UnmarshalBinary":       "reset",
	"(*primitives/sr25519.Signature).UnmarshalBinary":     "reset",
	"(*primitives/sr25519.SecretKey).UnmarshalBinary":     "untouched",
	"(*primitives/sr25519.MiniSecretKey).UnmarshalBinary": "untouched",
}

// checkDecoderNeutrality: ERR-(iii) of DESIGN §3 E-LEN, decided with the
// path enumerator: on every failing path of every UnmarshalBinary the
// receiver holds no input-derived data and is in the decoder's neutral mode.
func checkDecoderNeutrality(p *load.Program, rule *report.Rule) map[string]any {
	// walk into callees that can themselves fail (decoder chains); everything
	// else (arithmetic, resets, predicates) stays an uninterpreted operation
	errT := types.Universe.Lookup("error").Type()
	cfg := &edt.Config{P: p, Mod: modFor(p), MaxPaths: 3000, MaxForks: 4000, MaxSteps: 2000000,
		Inline: func(callee *ssa.Function) bool {
			if callee.Parent() != nil {
				return true
			}
			res := callee.Signature.Results()
			return res.Len() > 0 && types.Identical(res.At(res.Len()-1).Type(), errT) && callee.Pkg != nil && load.IsModule(callee.Pkg.Pkg)
		}}
	seen := map[string]bool{}
	stats := map[string]any{}
	for _, fn := range p.ModuleFuncs() {
		if fn.Name() != "UnmarshalBinary" || fn.Signature.Recv() == nil || len(fn.Blocks) == 0 || len(fn.Params) != 2 {
			continue
		}
		if strings.Contains("/"+load.Rel(fn.Pkg.Pkg)+"/", "/internal/") {
			continue
		}
		if _, ok := fn.Params[1].Type().Underlying().(*types.Slice); !ok {
			continue
		}
		name := load.FuncName(fn)
		seen[name] = true
		mode, known := decoderMode[name]
		pos := p.Pos(fn.Pos())
		if !known {
			rule.Fail(pos, name, "new decoder without a declared failure mode (reset / untouched): add it to the table after reading it", nil)
			continue
		}
		recv := "$" + fn.Params[0].Name()
		data := "$" + fn.Params[1].Name()
		paths := edt.Walk(cfg, fn)
		nfail := 0
		var resetState string
		bad := ""
		for _, pa := range paths {
			if pa.Note != "" {
				bad = "decoder structure not recognised: " + pa.Note
				break
			}
			if pa.Panic != nil || len(pa.Outcome) != 1 || pa.Outcome[0].String() == "nil" {
				continue
			}
			nfail++
			var keys []string
			for k := range pa.Final {
				if k == recv || strings.HasPrefix(k, recv+".") || strings.HasPrefix(k, recv+"[") {
					keys = append(keys, k)
				}
			}
			sort.Strings(keys)
			var sb strings.Builder
			for _, k := range keys {
				v := pa.Final[k].String()
				if strings.Contains(v, data) {
					bad = fmt.Sprintf("a failing path leaves input-derived data in the receiver: %s = %s", k, clip(v, 100))
				}
				sb.WriteString(k + "=" + v + ";")
			}
			st := sb.String()
			switch mode {
			case "untouched":
				if st != "" && bad == "" {
					bad = "a failing path writes the receiver (" + clip(st, 120) + "); this decoder must not touch it before its last check"
				}
			case "reset":
				if st == "" && bad == "" {
					bad = "a failing path leaves the receiver as it was: this decoder must reset it to its neutral state before decoding (the previous value would survive a failed decode)"
				}
				if resetState == "" {
					resetState = st
				} else if st != resetState && bad == "" {
					bad = "failing paths leave the receiver in different states: " + clip(st, 100) + " vs " + clip(resetState, 100)
				}
			}
			if bad != "" {
				break
			}
		}
		if bad != "" {
			rule.Fail(pos, name, bad, nil)
			continue
		}
		if nfail == 0 {
			rule.Fail(pos, name, "no failing path found (the decoder accepts everything?)", nil)
			continue
		}
		rule.OKN(name, nfail)
		stats[name] = map[string]any{"mode": mode, "paths": len(paths), "failing paths": nfail}
	}
	for name := range decoderMode {
		if !seen[name] {
			rule.Fail("-", name, "decoder listed in the failure-mode table no longer exists (anchor lost)", nil)
		}
	}
	return stats
}
