package props

import (
	"fmt"
	"sort"
	"strings"

	"voicheck/econst"
	"voicheck/edt"
	"voicheck/elen"
	"voicheck/elin"
	"voicheck/load"
	"voicheck/report"

	"golang.org/x/tools/go/ssa"
)

type ssaFunction = ssa.Function

// termSpec: a function without branches whose result must be one term.
// termSpecAny: like termSpec with several equivalent renderings of the one specified term.
func termSpecAny(pkg, fn string, opaque []string, wants ...string) *edt.Spec {
	return &edt.Spec{
		Pkg: pkg, Func: fn, Opaque: opaque, MinPaths: 1, Vars: map[string]string{},
		Classify: func(p *edt.Path, out string, e *edt.Env) string {
			for _, w := range wants {
				if out == w {
					return "as-specified"
				}
			}
			return ""
		},
		Formula: map[string]func(e *edt.Env) edt.Tri{"as-specified": always},
	}
}

func termSpec(pkg, fn string, opaque []string, want string) *edt.Spec {
	return &edt.Spec{
		Pkg: pkg, Func: fn, Opaque: opaque, MinPaths: 1, Vars: map[string]string{},
		Classify: func(p *edt.Path, out string, e *edt.Env) string {
			if out == want {
				return "as-specified"
			}
			return ""
		},
		Formula: map[string]func(e *edt.Env) edt.Tri{"as-specified": always},
	}
}

// finalsAre checks the final contents of the given locations.
func finalsAre(p *edt.Path, ab func(string) string, want map[string]string) string {
	keys := make([]string, 0, len(want))
	for k := range want {
		keys = append(keys, k)
	}
	sort.Strings(keys)
	for _, k := range keys {
		if m := finalIs(p, ab, k, want[k]); m != "" {
			return m
		}
	}
	return ""
}

// noWritesBelow: the path wrote nothing at or below the given location prefix.
func noWritesBelow(p *edt.Path, prefix string) string {
	for k := range p.Final {
		if k == prefix || strings.HasPrefix(k, prefix+".") || strings.HasPrefix(k, prefix+"[") {
			return fmt.Sprintf("a failing path leaves %s written (= %s): the receiver must stay untouched on failure", k, clip(p.Final[k].String(), 120))
		}
	}
	return ""
}

var edwardsIdentityState = map[string]string{
	"$p.inner.X": "Element.Zero", "$p.inner.Y": "Element.One", "$p.inner.Z": "Element.One", "$p.inner.T": "Element.Zero",
}

func isCanonicalSpec() *edt.Spec {
	vars := map[string]string{
		"($p[0] < 237)":           "b0below237",
		"(($p[31] | 128) == 255)": "topAllOnes",
		"bytes.Equal($p, @curve.noncanonicalSignBits[0])": "isBadSign0",
		"bytes.Equal($p, @curve.noncanonicalSignBits[1])": "isBadSign1",
	}
	for i := 1; i <= 30; i++ {
		vars[fmt.Sprintf("($p[%d] == 255)", i)] = fmt.Sprintf("ff%d", i)
	}
	// y >= p = 2^255-19 (bytes ed ff..ff 7f) iff byte0 >= 0xed, bytes 1..30 all 0xff and the low 7 bits of byte 31 all set
	yCanonical := func(e *edt.Env) edt.Tri {
		mid := []edt.Tri{}
		for i := 1; i <= 30; i++ {
			mid = append(mid, e.V(fmt.Sprintf("ff%d", i)))
		}
		return edt.Not(edt.And(edt.Not(e.V("b0below237")), edt.And(mid...), e.V("topAllOnes")))
	}
	canonical := func(e *edt.Env) edt.Tri {
		return edt.And(yCanonical(e), edt.Not(e.V("isBadSign0")), edt.Not(e.V("isBadSign1")))
	}
	return &edt.Spec{
		Pkg: "curve", Func: "(*CompressedEdwardsY).IsCanonicalVartime", Vars: vars, MinPaths: 60, InlinePkgs: []string{"curve"},
		Classify: func(p *edt.Path, out string, e *edt.Env) string {
			if out == "true" || out == "false" {
				return out
			}
			return ""
		},
		Formula: map[string]func(e *edt.Env) edt.Tri{
			"true":  canonical,
			"false": func(e *edt.Env) edt.Tri { return edt.Not(canonical(e)) },
		},
	}
}

func c10Specs() []*edt.Spec {
	const Y = "Element.SetBytes($compressedY)"
	const sqrtT = "Element.SqrtRatioI(Element.Sub(Element.Square(" + Y + "), Element.One), Element.Add(Element.Mul(@curve.constEDWARDS_D, Element.Square(" + Y + ")), Element.One))"
	const X = "Element.ConditionalNegate(" + sqrtT + ", ($compressedY[31] >> 7))"
	decodeVars := map[string]string{
		"(res1(" + sqrtT + ") == 1)": "isValidY",
		"(len($data) == 32)":         "len32",
	}
	return []*edt.Spec{
		isCanonicalSpec(),
		{
			// RFC 8032 §5.1.3 decoding: x = sqrt((y²-1)/(dy²+1)), sign from bit 255
			Pkg: "curve", Func: "(*EdwardsPoint).SetCompressedY", MinPaths: 2, Vars: decodeVars,
			Assume: map[string]edt.Assumption{"isnil(err(" + Y + "))": {Val: true, Why: "field SetBytes fails only on a wrong length; the argument is a 32-byte array"}},
			Classify: func(p *edt.Path, out string, e *edt.Env) string {
				switch out {
				case "nil ; errvar(@curve.errNotValidYCoordinate)":
					return "invalid"
				case "ptr($p) ; nil":
					return "decoded"
				}
				return ""
			},
			Formula: map[string]func(e *edt.Env) edt.Tri{
				"invalid": func(e *edt.Env) edt.Tri { return edt.Not(e.V("isValidY")) },
				"decoded": func(e *edt.Env) edt.Tri { return e.V("isValidY") },
			},
			Extra: func(p *edt.Path, out, class string, e *edt.Env, ab func(string) string) string {
				if class == "invalid" {
					return noWritesBelow(p, "$p")
				}
				return finalsAre(p, ab, map[string]string{
					"$p.inner.X": "Element.Set(" + X + ")",
					"$p.inner.Y": "Element.Set(" + Y + ")",
					"$p.inner.Z": "Element.Set(Element.One)",
					"$p.inner.T": "Element.Mul(" + X + ", " + Y + ")",
				})
			},
		},
		{
			Pkg: "curve", Func: "(*EdwardsPoint).UnmarshalBinary", Opaque: []string{"EdwardsPoint.SetCompressedY"}, MinPaths: 2,
			Vars: map[string]string{"(len($data) == 32)": "len32"},
			Classify: func(p *edt.Path, out string, e *edt.Env) string {
				switch {
				case strings.HasPrefix(out, "err(fmt.Errorf("):
					return "length-error"
				case strings.HasPrefix(out, "err(EdwardsPoint.SetCompressedY("):
					return "decoder-result" // returns exactly the decoder's error value (nil on success)
				}
				return ""
			},
			Formula: map[string]func(e *edt.Env) edt.Tri{
				"length-error":   func(e *edt.Env) edt.Tri { return edt.Not(e.V("len32")) },
				"decoder-result": func(e *edt.Env) edt.Tri { return e.V("len32") },
			},
			Extra: func(p *edt.Path, out, class string, e *edt.Env, ab func(string) string) string {
				if class == "length-error" {
					// wrong length: the receiver must have been reset to the identity and nothing else
					return finalsAre(p, ab, edwardsIdentityState)
				}
				// the decoder is applied to the identity-reset receiver and the 32 input bytes
				want := "err(EdwardsPoint.SetCompressedY(agg(.inner.T=(Element.Zero), .inner.X=(Element.Zero), .inner.Y=(Element.One), .inner.Z=(Element.One)), $data))"
				if out != want && out != "err(EdwardsPoint.SetCompressedY($data))" {
					return "decoding must start from the identity-reset receiver and use the 32 input bytes: " + clip(out, 200)
				}
				if len(p.Events) == 0 || !(strings.HasPrefix(p.Events[0], "Element.Zero") || strings.HasPrefix(p.Events[0], "Element.One")) {
					return "the receiver is not reset to the identity before decoding starts (first effect: " + firstEvent(p) + ")"
				}
				return ""
			},
		},
		{
			Pkg: "curve", Func: "(*CompressedEdwardsY).UnmarshalBinary", Opaque: []string{"EdwardsPoint.UnmarshalBinary"}, MinPaths: 2,
			Vars: map[string]string{"isnil(err(EdwardsPoint.UnmarshalBinary($data)))": "pointOK", "(len($data) == 32)": "len32"},
			Classify: func(p *edt.Path, out string, e *edt.Env) string {
				switch {
				case out == "nil":
					return "ok"
				case out == "err(EdwardsPoint.UnmarshalBinary($data))":
					return "error"
				}
				return ""
			},
			Formula: map[string]func(e *edt.Env) edt.Tri{
				"ok":    func(e *edt.Env) edt.Tri { return e.V("pointOK") },
				"error": func(e *edt.Env) edt.Tri { return edt.Not(e.V("pointOK")) },
			},
			Extra: func(p *edt.Path, out, class string, e *edt.Env, ab func(string) string) string {
				if class == "error" {
					// identity encoding: 01 00 .. 00
					for i := 0; i < 32; i++ {
						want := "0"
						if i == 0 {
							want = "1"
						}
						if m := finalElemIs(p, ab, "$p", i, want); m != "" {
							return "on failure the compressed point must be the identity encoding: " + m
						}
					}
					return ""
				}
				if e.V("len32") == edt.F {
					return "" // infeasible: EdwardsPoint.UnmarshalBinary succeeds only on 32 bytes (previous specification)
				}
				return finalIs(p, ab, "$p", "$data")
			},
		},
		termSpec("curve", "(*EdwardsPoint).IsSmallOrder", []string{"EdwardsPoint.MulByCofactor", "EdwardsPoint.IsIdentity"}, "EdwardsPoint.IsIdentity(EdwardsPoint.MulByCofactor($p))"),
		termSpec("curve", "(*EdwardsPoint).IsTorsionFree", []string{"EdwardsPoint.Mul", "EdwardsPoint.IsIdentity"}, "EdwardsPoint.IsIdentity(EdwardsPoint.Mul($p, @curve/scalar.BASEPOINT_ORDER))"),
		termSpec("curve", "(*EdwardsPoint).IsIdentity", []string{"EdwardsPoint.Equal", "EdwardsPoint.Identity"}, "(EdwardsPoint.Equal($p, EdwardsPoint.Identity) == 1)"),
		termSpec("curve", "(*EdwardsPoint).Equal", nil, "(Element.Equal(Element.Mul($other.inner.X, $p.inner.Z), Element.Mul($other.inner.Z, $p.inner.X)) & Element.Equal(Element.Mul($other.inner.Y, $p.inner.Z), Element.Mul($other.inner.Z, $p.inner.Y)))"),
		termSpec("curve", "(*EdwardsPoint).MarshalBinary", []string{"CompressedEdwardsY.SetEdwardsPoint", "CompressedEdwardsY.MarshalBinary"},
			"res0(CompressedEdwardsY.MarshalBinary(CompressedEdwardsY.SetEdwardsPoint($p))) ; err(CompressedEdwardsY.MarshalBinary(CompressedEdwardsY.SetEdwardsPoint($p)))"),
	}
}

func firstEvent(p *edt.Path) string {
	if len(p.Events) == 0 {
		return "none"
	}
	return clip(p.Events[0], 80)
}

// errRulesFor runs ERR-(i)/(ii) restricted to the given module-relative packages.
func errRulesFor(run *report.Run, p *load.Program, pkgs ...string) {
	ri := run.Rule("ERR-i", "a return dominated by the failure edge of an error/length test reports failure", 3).RequireControl(0)
	rii := run.Rule("ERR-ii", "no pointer/slice/bool result escapes together with an error", 1).RequireControl(0)
	want := map[string]bool{}
	for _, k := range pkgs {
		want[k] = true
	}
	elen.CheckErr(run, p, ri, rii, func(fn *ssaFunction) bool {
		f := fn
		for f.Parent() != nil {
			f = f.Parent()
		}
		return f.Pkg != nil && want[load.Rel(f.Pkg.Pkg)]
	})
}

func init() {
	Registry["C10"] = func(c *Ctx) {
		run := c.Run
		run.Explanation = "E-DT + E-LEN-ERR + E-CONST: the Edwards decoders and predicates are extracted path by path as uninterpreted terms. Decided: IsCanonicalVartime as a complete Boolean function of its byte comparisons against 'y < p and not an x=0 encoding with the sign bit set' (loop fully unrolled, constants checked by value); SetCompressedY fails exactly when the square-root flag is not 1, computes x = sqrt((y²-1)/(dy²+1)) negated by bit 255 with Z=1, T=xy, and writes nothing on failure; UnmarshalBinary (point and compressed) errs exactly on a wrong length or a failed decode, resets the receiver to the identity first and leaves exactly the identity on failure; IsSmallOrder/IsTorsionFree/IsIdentity/Equal/MarshalBinary have the specified structure; no failed check is followed by success."
		run.NotDecided = []string{"that SqrtRatioI and the field arithmetic compute the mathematical function (so that accepted strings are exactly the curve points)", "the Montgomery maps' numeric correctness"}
		run.Exhaustive = true
		id := "amd64"
		if !c.Preload(id) {
			return
		}
		p := c.Prog(id)
		run.SetConfig(id)
		cfg := &edt.Config{P: p, Mod: modFor(p)}
		dt := run.Rule("DT-edwards", "Edwards decoders, canonicity test and subgroup predicates have exactly the specified decision structure and term structure", 70)
		for _, s := range append(c10Specs(), setMontgomerySpec()) {
			r := edt.Check(dt, cfg, s)
			run.Sample(map[string]any{"function": s.Func, "paths": r.Paths, "feasible": r.Feasible, "classes": r.ClassCount})
		}
		errRulesFor(run, p, "curve")
		econst.CheckNamed(run, p, "CONST", "curve.noncanonicalSignBits", "curve.constEDWARDS_D")
		// "encoding is canonical" and "decoding ignores bit 255 / reduces mod p" rest on the byte<->limb
		// conversions of the field back end: decided as affine identities in BOTH radices (E-LIN)
		if c.Preload("purego", "f32") {
			exp := expRule(run, 2)
			for _, id2 := range []string{"purego", "f32"} {
				run.SetConfig(id2)
				checkExpAll(run, c.Prog(id2), exp) // the square root behind decoding (E-EXP)
				lr := elin.CheckField(run, c.Prog(id2), "LIN")
				run.Sample(map[string]any{"config": id2, "LIN functions": lr.Functions, "LIN obligations": lr.Obligations})
			}
		}
		groupFoundations(c, true)
		ownershipRules(c) // encodings handed out are copies; inputs are not modified
		if p0 := c.Prog(c.Configs()[0]); p0 != nil {
			c.Run.SetConfig(c.Configs()[0])
			checkCompressedUnmarshal(c.Run.Rule("DT-compressed-unmarshal", "CompressedEdwardsY.UnmarshalBinary accepts only after a successful point decode of the input bytes themselves and then holds those bytes", 1), &edt.Config{P: p0, Mod: modFor(p0)}, []string{"CompressedEdwardsY"})
		}
	}
}

// setMontgomerySpec: the birational map u -> y = (u-1)/(u+1) is refused exactly for the DECODED
// value u = -1 (every encoding of it: decided on the field element, not on bytes), the sign goes to
// bit 255 of the encoded y, and the result is whatever Edwards decompression says.
func setMontgomerySpec() *edt.Spec {
	const (
		U = "Element.SetBytes($montgomeryU)"
		y = "Element.Mul(Element.Invert(Element.Add(@internal/field.One, " + U + ")), Element.Sub(" + U + ", @internal/field.One))"
		Y = "out1(Element.ToBytes(" + y + ", zero))"
	)
	return &edt.Spec{
		Pkg: "curve", Func: "(*EdwardsPoint).SetMontgomery", Opaque: []string{"EdwardsPoint.SetCompressedY"}, MinPaths: 2,
		Vars: map[string]string{"(Element.Equal(@internal/field.MinusOne, " + U + ") == 1)": "uIsMinusOne"},
		Classify: func(p *edt.Path, out string, e *edt.Env) string {
			switch {
			case strings.HasPrefix(out, "nil ; err"):
				return "refused"
			case strings.HasPrefix(out, "ptr($p) ; err(EdwardsPoint.SetCompressedY("):
				return "decoded"
			}
			return ""
		},
		Formula: map[string]func(e *edt.Env) edt.Tri{
			"refused": func(e *edt.Env) edt.Tri { return e.V("uIsMinusOne") },
			"decoded": func(e *edt.Env) edt.Tri { return edt.Not(e.V("uIsMinusOne")) },
		},
		Extra: func(p *edt.Path, out, class string, e *edt.Env, ab func(string) string) string {
			if class == "refused" {
				return noWritesBelow(p, "$p")
			}
			f, ok := p.Final["$p"]
			if !ok || f.Op != "EdwardsPoint.SetCompressedY" || len(f.Args) == 0 {
				return "the result is not produced by Edwards decompression"
			}
			enc := f.Args[len(f.Args)-1]
			if enc.Op != "upd" || len(enc.Args) != 2 || normComm(enc.Args[0].String()) != normComm(Y) {
				return "the decompressed string is not the canonical encoding of y = (u-1)/(u+1) with only byte 31 modified: " + clip(enc.String(), 300)
			}
			b31 := enc.Sub("[31]")
			if b31 == nil {
				return "the sign is not placed in byte 31"
			}
			want := cb("^", "($sign << 7)", "sel("+Y+", [31])")
			if normComm(b31.String()) != normComm(want) && b31.String() != want {
				return "byte 31 must be y's byte 31 xor (sign << 7): got " + clip(b31.String(), 200)
			}
			return ""
		},
	}
}
