package props

import (
	"go/types"
	"sort"
	"strings"

	"golang.org/x/tools/go/ssa"

	"voicheck/load"
	"voicheck/report"
)

// READ-full: entropy and XOF output are always read completely.  io.Reader.Read may return
// fewer bytes than asked for without an error; the bytes not filled stay zero (a key for the
// batch coefficients, a nonce, a seed read from a caller-supplied reader).  Rule, on SSA with
// the VTA call graph: a dynamic call of a method Read(p []byte) (int, error) is accepted only
// when every resolved callee is a reader that fills its argument by construction (the module's
// own readers and the sponge of x/crypto/sha3), or when the returned count is used; anything
// else must go through io.ReadFull.  Instances: the io.ReadFull call sites and the direct Read
// calls examined.
var alwaysFillReaders = []string{
	"golang.org/x/crypto/sha3.", "crypto/sha3.", "crypto/internal/fips140/sha3.",
}

func checkReadFull(p *load.Program, rule *report.Rule) map[string]any {
	cg := p.CallGraph()
	nFull, nDirect := 0, 0
	for _, fn := range p.ModuleFuncs() {
		if len(fn.Blocks) == 0 {
			continue
		}
		for _, b := range fn.Blocks {
			for _, ins := range b.Instrs {
				call, ok := ins.(*ssa.Call)
				if !ok {
					continue
				}
				if c := call.Call.StaticCallee(); c != nil {
					if c.Pkg != nil && c.Pkg.Pkg.Path() == "io" && c.Name() == "ReadFull" {
						nFull++
						rule.OK(load.FuncName(fn) + ": io.ReadFull")
					}
					continue
				}
				if !call.Call.IsInvoke() || call.Call.Method.Name() != "Read" || !isReadSig(call.Call.Method.Type().(*types.Signature)) {
					continue
				}
				nDirect++
				name := load.FuncName(fn) + ": " + call.Call.Value.Name() + ".Read"
				// the count is used?
				countUsed := false
				for _, r := range *call.Referrers() {
					if ex, ok := r.(*ssa.Extract); ok && ex.Index == 0 {
						for _, u := range *ex.Referrers() {
							if _, dbg := u.(*ssa.DebugRef); !dbg {
								countUsed = true
							}
						}
					}
				}
				var callees []string
				allFill := true
				if node := cg.Nodes[fn]; node != nil {
					for _, e := range node.Out {
						if e.Site != ssa.CallInstruction(call) || e.Callee.Func == nil {
							continue
						}
						cf := e.Callee.Func
						callees = append(callees, cf.String())
						ok := cf.Pkg != nil && load.IsModule(cf.Pkg.Pkg)
						for _, pre := range alwaysFillReaders {
							if strings.Contains(cf.String(), pre) {
								ok = true
							}
						}
						if !ok {
							allFill = false
						}
					}
				}
				sort.Strings(callees)
				switch {
				case countUsed:
					rule.OK(name)
				case len(callees) > 0 && allFill:
					rule.OK(name)
				default:
					what := "no reader type is known to reach this call (a caller-supplied reader)"
					if len(callees) > 0 {
						what = "it may be " + strings.Join(callees, ", ")
					}
					rule.Fail(p.Pos(call.Pos()), name, "the reader's Read is called directly and the returned count is ignored: a short read leaves the rest of the buffer zero without an error ("+what+"); use io.ReadFull", nil)
				}
			}
		}
	}
	return map[string]any{"io.ReadFull call sites": nFull, "direct Read calls examined": nDirect}
}

func isReadSig(s *types.Signature) bool {
	if s.Params().Len() != 1 || s.Results().Len() != 2 {
		return false
	}
	sl, ok := s.Params().At(0).Type().Underlying().(*types.Slice)
	if !ok {
		return false
	}
	b, ok := sl.Elem().Underlying().(*types.Basic)
	return ok && b.Kind() == types.Byte
}

func readFullRule(c *Ctx) {
	id := c.Configs()[0]
	if !c.Preload(id) {
		return
	}
	c.Run.SetConfig(id)
	r := c.Run.Rule("READ-full", "entropy and XOF output are read completely: no direct Read on a reader that may return short counts with the count ignored", 12)
	c.Run.Sample(checkReadFull(c.Prog(id), r))
}
