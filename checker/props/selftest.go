package props

import "voicheck/load"

func init() {
	Registry["SELFTEST"] = func(c *Ctx) {
		c.Run.Explanation = "loader self test"
		ru := c.Run.Rule("LOAD", "every configuration loads with 19 packages and no type error", 3)
		for _, id := range c.Configs() {
			p := c.Prog(id)
			if p == nil {
				continue
			}
			c.Run.SetConfig(id)
			ru.OK(id)
			c.Run.Sample(map[string]any{"config": id, "packages": len(p.Pkgs), "functions": len(p.ModuleFuncs())})
			_ = load.Module
		}
	}
}
