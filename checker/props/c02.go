package props

import (
	"fmt"
	"strings"

	"voicheck/edt"
	"voicheck/elen"
	"voicheck/esib"
)

// C02 — key generation and signing are RFC 8032-exact in structure.

// clampOK checks extensionally (all 256 byte values) that the term `clamped`
// is base with byte 0 replaced by b&248 and byte 31 by (b&127)|64, nothing
// else changed.
func clampOK(clamped *edt.Term, base string) string {
	if clamped.Op != "upd" || len(clamped.Args) != 3 || clamped.Args[0].String() != "sel("+base+", [0:32])" {
		return "the secret scalar is not the first 32 digest bytes with exactly bytes 0 and 31 modified: " + clip(clamped.String(), 200)
	}
	b0, b31 := clamped.Sub("[0]"), clamped.Sub("[31]")
	if b0 == nil || b31 == nil {
		return "clamping does not modify exactly bytes 0 and 31: " + clip(clamped.String(), 200)
	}
	f0, ok0 := edt.ByteFunction(b0, "sel("+base+", [0])")
	f31, ok31 := edt.ByteFunction(b31, "sel("+base+", [31])")
	if !ok0 || !ok31 {
		return "clamping is not a bit-mask function of the digest byte: " + clip(clamped.String(), 200)
	}
	for b := 0; b < 256; b++ {
		if f0[b] != byte(b)&248 {
			return fmt.Sprintf("clamp of byte 0 maps %#x to %#x, RFC 8032 requires %#x (clear the lowest three bits)", b, f0[b], byte(b)&248)
		}
		if f31[b] != (byte(b)&127)|64 {
			return fmt.Sprintf("clamp of byte 31 maps %#x to %#x, RFC 8032 requires %#x (clear bit 7, set bit 6)", b, f31[b], (byte(b)&127)|64)
		}
	}
	return ""
}

func clip(s string, n int) string {
	if len(s) > n {
		return s[:n] + "…"
	}
	return s
}

const signEXT = "Sum(H(sha512.New, $priv[0:32]))"

func signSpec() *edt.Spec {
	vars := map[string]string{
		"typeis(ptr($opts), *ed25519.Options)":        "isOptions",
		"isnil($opts.Verify)":                         "verifyNil",
		"$opts.Verify.AllowNonCanonicalR":             "o.nonCanR",
		"$opts.Verify.CofactorlessVerify":             "o.cofactorless",
		"(len($opts.Context) == 0)":                   "!ctxNonEmpty",
		"(255 < len($opts.Context))":                  "ctxTooLong",
		"(crypto.SignerOpts.HashFunc($opts) == 7)":    "hashSHA512",
		"(crypto.SignerOpts.HashFunc($opts) == 0)":    "hashZero",
		"(len($message) == 64)":                       "msgLen64",
		"(len($priv) == 64)":                          "privLen64",
		"$opts.AddedRandomness":                       "addedRand",
		"$opts.SelfVerify":                            "selfVerify",
		"isnil(ptr($rand))":                           "randNil",
		"isnil(err(io.ReadFull(@rand.Reader, zero)))": "readOK",
		"isnil(err(io.ReadFull(zero)))":               "readOK",
	}
	optsErr := func(e *edt.Env) edt.Tri {
		incompatible := edt.And(edt.Not(e.V("verifyNil")), e.V("o.nonCanR"), e.V("o.cofactorless"))
		ctxErr := edt.And(e.V("ctxNonEmpty"), e.V("ctxTooLong"))
		hashErr := edt.Or(edt.And(e.V("hashSHA512"), edt.Not(e.V("msgLen64"))), edt.And(edt.Not(e.V("hashSHA512")), edt.Not(e.V("hashZero"))))
		return edt.Or(edt.And(e.V("isOptions"), edt.Or(incompatible, ctxErr)), hashErr, edt.Not(e.V("privLen64")))
	}
	readErr := func(e *edt.Env) edt.Tri { return edt.And(e.V("isOptions"), e.V("addedRand"), edt.Not(e.V("readOK"))) }
	selfErr := func(e *edt.Env) edt.Tri {
		return edt.And(e.V("isOptions"), e.V("selfVerify"), edt.Not(e.V("selfVerifyOK")))
	}
	return &edt.Spec{
		Pkg: "primitives/ed25519", Func: "PrivateKey.Sign", Opaque: []string{"ed25519.VerifyWithOptions"}, MinPaths: 150,
		Abbrev:    [][2]string{{"\"SigEd25519 no Ed25519 collisions\"", "DOM2PFX"}},
		Vars:      vars,
		VarPrefix: map[string]string{"ed25519.VerifyWithOptions($priv[32:], $message, ": "selfVerifyOK"},
		AssumePrefix: map[string]edt.Assumption{
			"isnil(err(Scalar.SetBytesModOrderWide(Sum(H(": {Val: true, Why: "wide reduction of a 64-byte digest cannot fail (E-LEN failsOnlyOnLen)"},
			"isnil(err(Scalar.SetBits(upd(sel(Sum(H(":      {Val: true, Why: "SetBits on exactly 32 bytes cannot fail"},
			"isnil(err(Scalar.ToBytes(":                    {Val: true, Why: "ToBytes into exactly 32 bytes cannot fail"},
		},
		Classify: func(p *edt.Path, out string, e *edt.Env) string {
			switch {
			case strings.HasPrefix(out, "nil ; err(fmt.Errorf(\"ed25519: failed to self-verify"):
				return "self-verify-error"
			case strings.HasPrefix(out, "nil ; err(fmt.Errorf(\"ed25519: failed to read Z"):
				return "entropy-error"
			case strings.HasPrefix(out, "nil ; err(fmt.Errorf("):
				return "error"
			case strings.HasPrefix(out, "&new(agg([0:32]=(") && strings.HasSuffix(out, " ; nil"):
				return "signature"
			}
			return ""
		},
		Formula: map[string]func(e *edt.Env) edt.Tri{
			"error":             optsErr,
			"entropy-error":     func(e *edt.Env) edt.Tri { return edt.And(edt.Not(optsErr(e)), readErr(e)) },
			"self-verify-error": func(e *edt.Env) edt.Tri { return edt.And(edt.Not(optsErr(e)), edt.Not(readErr(e)), selfErr(e)) },
			"signature": func(e *edt.Env) edt.Tri {
				return edt.And(edt.Not(optsErr(e)), edt.Not(readErr(e)), edt.Not(selfErr(e)))
			},
		},
		Extra: func(p *edt.Path, out, class string, e *edt.Env, ab func(string) string) string {
			// the self-check verifies THIS signature of THIS message under the public half of the
			// key with the caller's own options (variant, context and verification preset)
			for _, l := range p.Lits {
				t := l.Term
				if t == nil || t.Op != "ed25519.VerifyWithOptions" {
					continue
				}
				if len(t.Args) != 4 || t.Args[0].String() != "$priv[32:]" || t.Args[1].String() != "$message" {
					return "the self-check does not verify the message under the public half of the signing key: " + clip(ab(t.String()), 200)
				}
				if t.Args[3].String() != "$opts" {
					return "the self-check does not verify with the caller's options (variant, context, preset): it uses " + clip(ab(t.Args[3].String()), 200)
				}
				if class == "signature" && len(p.Outcome) > 0 && p.Outcome[0].Op == "&new" && len(p.Outcome[0].Args) == 1 && t.Args[2].String() != p.Outcome[0].Args[0].String() {
					return "the self-check verifies something other than the signature returned"
				}
			}
			if class != "signature" {
				return ""
			}
			// variant
			ctx := e.V("isOptions") == edt.T && e.V("ctxNonEmpty") == edt.T
			ph := e.V("hashSHA512") == edt.T
			dom2 := ""
			switch {
			case ctx && !ph:
				dom2 = "cat(DOM2PFX, 0, byte(len($opts.Context)), bytes($opts.Context))"
			case ctx && ph:
				dom2 = "cat(DOM2PFX, 1, byte(len($opts.Context)), bytes($opts.Context))"
			case !ctx && ph:
				dom2 = "cat(DOM2PFX, 1, 0)"
			}
			randomised := e.V("isOptions") == edt.T && e.V("addedRand") == edt.T
			sig := p.Outcome[0]
			if sig.Op != "&new" || len(sig.Args) != 1 {
				return "signature is not a freshly built 64-byte buffer"
			}
			R, sOut := sig.Args[0].Sub("[0:32]"), sig.Args[0].Sub("[32:64]")
			if R == nil || sOut == nil || len(sig.Args[0].Args) != 2 {
				return "signature is not R (32 bytes) followed by S (32 bytes): " + clip(ab(sig.String()), 200)
			}
			hashArgs := func(t *edt.Term, what string) ([]*edt.Term, string) {
				if t.Op != "Scalar.SetBytesModOrderWide" || len(t.Args) != 1 || t.Args[0].Op != "Sum" || t.Args[0].Args[0].Op != "H" {
					return nil, what + " is not the wide reduction of a SHA-512 digest: " + clip(ab(t.String()), 160)
				}
				a := t.Args[0].Args[0].Args
				if len(a) == 0 || !strings.HasPrefix(a[0].String(), "sha512.New") {
					return nil, what + " is not hashed with SHA-512"
				}
				a = a[1:]
				if dom2 != "" {
					if len(a) == 0 || ab(a[0].String()) != dom2 {
						return nil, what + ": the hash does not start with dom2 for this variant (" + dom2 + ")"
					}
					a = a[1:]
				} else if len(a) > 0 && strings.Contains(a[0].String(), "SigEd25519") {
					return nil, what + ": pure Ed25519 must not absorb dom2"
				}
				return a, ""
			}
			if R.Op != "CompressedEdwardsY.SetEdwardsPoint" || R.Args[0].Op != "EdwardsPoint.MulBasepoint" || R.Args[0].Args[0].String() != "@curve.ED25519_BASEPOINT_TABLE" {
				return "R is not compress([r]B) with the Ed25519 base-point table: " + clip(ab(R.String()), 200)
			}
			r := R.Args[0].Args[1]
			ra, msg := hashArgs(r, "the nonce r")
			if msg != "" {
				return msg
			}
			prefix := "sel(" + signEXT + ", [32:64])"
			if !randomised {
				if len(ra) != 2 || ra[0].String() != prefix || ra[1].String() != "$message" {
					return "deterministic nonce must be H(dom2 ‖ prefix ‖ M) with prefix = SHA-512(seed)[32:64] (RFC 8032 §5.1.6): got " + clip(ab(r.String()), 300)
				}
			} else {
				hasEnt, hasPrefix, hasMsg := false, false, false
				for _, a := range ra {
					s := a.String()
					if strings.Contains(s, "io.ReadFull(") {
						hasEnt = true
					}
					if s == prefix {
						hasPrefix = true
					}
					if s == "$message" {
						hasMsg = true
					}
				}
				if !hasEnt {
					return "with AddedRandomness the nonce hash does not absorb the bytes read from the entropy source (the nonce would not depend on the supplied entropy)"
				}
				if !hasPrefix || !hasMsg {
					return "with AddedRandomness the nonce hash must still absorb the secret prefix and the message"
				}
			}
			// S = r + k*a
			if sOut.Op != "out1" || sOut.Args[0].Op != "Scalar.ToBytes" {
				return "the second half of the signature is not the encoding of S"
			}
			S := sOut.Args[0].Args[0]
			// operands of the commutative scalar operations are matched by role, not by position
			if S.Op != "Scalar.Add" || len(S.Args) != 2 {
				return "S is not k·a + r with the same r that produced R: " + clip(ab(S.String()), 200)
			}
			prod, nonce := S.Args[0], S.Args[1]
			if prod.Op != "Scalar.Mul" {
				prod, nonce = nonce, prod
			}
			if prod.Op != "Scalar.Mul" || len(prod.Args) != 2 || nonce.String() != r.String() {
				return "S is not k·a + r with the same r that produced R: " + clip(ab(S.String()), 200)
			}
			k, a := prod.Args[0], prod.Args[1]
			if k.Op == "Scalar.SetBits" {
				k, a = a, k
			}
			ka, msg := hashArgs(k, "the challenge k")
			if msg != "" {
				return msg
			}
			if len(ka) != 3 || ka[0].String() != R.String() || ka[1].String() != "$priv[32:]" || ka[2].String() != "$message" {
				return "the challenge must be H(dom2 ‖ R ‖ A ‖ M) with the R just computed and A = priv[32:64]: got " + clip(ab(k.String()), 300)
			}
			if a.Op != "Scalar.SetBits" || len(a.Args) != 1 {
				return "the secret scalar a is not read with SetBits"
			}
			return clampOK(a.Args[0], signEXT)
		},
	}
}

func keygenSpecs() []*edt.Spec {
	const dig = "sha512.Sum512($seed)"
	return []*edt.Spec{
		{
			Pkg: "primitives/ed25519", Func: "newKeyFromSeed", MinPaths: 2,
			Vars:         map[string]string{"(len($seed) == 32)": "seedLen32"},
			AssumePrefix: map[string]edt.Assumption{"isnil(err(Scalar.SetBits(": {Val: true, Why: "SetBits on exactly 32 bytes cannot fail"}},
			Classify: func(p *edt.Path, out string, e *edt.Env) string {
				switch {
				case strings.HasPrefix(out, "panic((\"ed25519: bad seed length"):
					return "panic-len"
				case out == "" && p.Panic == nil:
					return "key"
				}
				return ""
			},
			Formula: map[string]func(e *edt.Env) edt.Tri{
				"panic-len": func(e *edt.Env) edt.Tri { return edt.Not(e.V("seedLen32")) },
				"key":       func(e *edt.Env) edt.Tri { return e.V("seedLen32") },
			},
			Extra: func(p *edt.Path, out, class string, e *edt.Env, ab func(string) string) string {
				if class != "key" {
					return ""
				}
				lo, hi := p.Final["$privateKey"], p.Final["$privateKey[32:]"]
				if lo == nil || hi == nil || lo.String() != "$seed" {
					return "the private key must be seed ‖ public key (copy(privateKey, seed); copy(privateKey[32:], A))"
				}
				if hi.Op != "CompressedEdwardsY.SetEdwardsPoint" || hi.Args[0].Op != "EdwardsPoint.MulBasepoint" || hi.Args[0].Args[0].String() != "@curve.ED25519_BASEPOINT_TABLE" {
					return "the public key is not compress([a]B) with the Ed25519 base-point table"
				}
				a := hi.Args[0].Args[1]
				if a.Op != "Scalar.SetBits" {
					return "the secret scalar a is not read with SetBits"
				}
				return clampOK(a.Args[0], dig)
			},
		},
		{
			Pkg: "primitives/ed25519", Func: "NewKeyFromSeed", Opaque: []string{"ed25519.newKeyFromSeed"}, MinPaths: 1,
			Vars: map[string]string{},
			Classify: func(p *edt.Path, out string, e *edt.Env) string {
				if out == "&new(out0(ed25519.newKeyFromSeed(zero, $seed)))" || out == "&new(ed25519.newKeyFromSeed($seed))" || out == "&new(ed25519.newKeyFromSeed(zero, $seed))" {
					return "delegates"
				}
				return ""
			},
			Formula: map[string]func(e *edt.Env) edt.Tri{"delegates": always},
		},
	}
}

func init() {
	Registry["C02"] = func(c *Ctx) {
		run := c.Run
		run.Explanation = "E-DT/E-SEQ: PrivateKey.Sign and newKeyFromSeed are extracted path by path as uninterpreted terms. Decided: the error/success decision of Sign as a Boolean function of option validity, hash and key lengths, entropy-read and self-verification outcomes; on every success path the returned buffer is compress([r]B) ‖ enc(k·a + r) with r and k the wide reductions of SHA-512 over exactly the RFC 8032 sequences (dom2 per variant; prefix = digest[32:64]; R, A = priv[32:64], M), a = SetBits(clamp(digest[0:32])) with the clamp compared extensionally on all 256 byte values; with AddedRandomness the nonce hash absorbs the bytes read from the entropy source (layout not frozen); no signature is returned together with an error."
		run.NotDecided = []string{"byte-for-byte equality of outputs with RFC 8032 (needs the arithmetic)", "that a produced signature fails to verify once any bit is changed (cryptographic)"}
		run.Exhaustive = true
		id := "amd64"
		if !c.Preload(id) {
			return
		}
		p := c.Prog(id)
		run.SetConfig(id)
		cfg := &edt.Config{P: p, Mod: modFor(p)}
		sg := run.Rule("DT-sign", "Sign errs exactly under the specified conditions and otherwise returns R ‖ S built from the RFC 8032 hash sequences, clamp and S = k·a + r", 150)
		r := edt.Check(sg, cfg, signSpec())
		run.Sample(map[string]any{"function": "PrivateKey.Sign", "paths": r.Paths, "feasible": r.Feasible, "classes": r.ClassCount, "variables": r.Vars})
		for _, s := range r.Samples {
			run.Sample(s)
		}
		kg := run.Rule("DT-keygen", "newKeyFromSeed panics exactly on a wrong seed length and writes seed ‖ compress([clamp(SHA-512(seed)[0:32])]B)", 3)
		for _, s := range keygenSpecs() {
			r := edt.Check(kg, cfg, s)
			run.Sample(map[string]any{"function": s.Func, "paths": r.Paths, "classes": r.ClassCount})
		}
		ei := run.Rule("ERR-ii", "no signature, key or point escapes together with an error (primitives/ed25519)", 20).RequireControl(0)
		dummy := run.Rule("ERR-i", "a failed check is never followed by a success return (primitives/ed25519)", 20)
		elen.CheckErr(run, p, dummy, ei, nil)
		// R = [r]B and A = [a]B use the constant-time fixed-base tables; r, k are wide reductions: the
		// arithmetic building blocks in the portable back ends (masked scans, pack/unpack, multiplication)
		run.Rule("SIB-scan", "constant-time lookups scan every entry exactly once", 5)
		esib.CheckMaskedScan(run, p, "SIB-scan")
		arithmeticFoundations(c)
		groupFoundations(c, true)
		ownershipRules(c) // generated keys are independent copies; inputs are not modified or kept
		readFullRule(c)
		// "always verifiable": every verifier sibling and the short-vector reduction behind the
		// verification equation
		verifierSiblingRules(c)
		latticeRules(c)
	}
}
