package props

import (
	"fmt"
	"go/types"

	"golang.org/x/tools/go/ssa"

	"voicheck/load"
	"voicheck/report"
)

// PORTABLE-width: no 64-bit integer is converted to a platform-sized integer
// (int, uint, uintptr).  On the 32-bit targets the library supports such a
// conversion silently drops the upper half (seeded change C16/6: bits.Len(uint(limb))
// in the wide-integer bit length).  The unchanged tree contains no such
// conversion at all (confirmed by scanning every configuration), so the rule
// is exact: zero instances expected, one positive control.
func checkPortableWidth(p *load.Program, rule *report.Rule) int {
	n := 0
	for _, fn := range p.ModuleFuncs() {
		bad := ""
		for _, b := range fn.Blocks {
			for _, ins := range b.Instrs {
				cv, ok := ins.(*ssa.Convert)
				if !ok {
					continue
				}
				sb, ok1 := cv.X.Type().Underlying().(*types.Basic)
				db, ok2 := cv.Type().Underlying().(*types.Basic)
				if !ok1 || !ok2 {
					continue
				}
				if _, isConst := cv.X.(*ssa.Const); isConst {
					continue
				}
				if (sb.Kind() == types.Uint64 || sb.Kind() == types.Int64) && (db.Kind() == types.Uint || db.Kind() == types.Int || db.Kind() == types.Uintptr) {
					bad = fmt.Sprintf("%s: converts a %s to the platform-sized %s: on 32-bit targets the upper 32 bits are dropped", p.Pos(cv.Pos()), sb, db)
				}
			}
		}
		if len(fn.Blocks) == 0 {
			continue
		}
		n++
		if bad != "" {
			rule.Fail(p.Pos(fn.Pos()), load.FuncName(fn), bad, nil)
		} else {
			rule.OK(load.FuncName(fn))
		}
	}
	return n
}
