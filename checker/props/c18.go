package props

import (
	"fmt"
	"sort"
	"strings"

	"golang.org/x/tools/go/ssa"

	"voicheck/easm"
	"voicheck/edt"
	"voicheck/emod"
	"voicheck/load"
	"voicheck/report"
)

// Shared precomputed object types (module-relative): values of these types
// are handed to many concurrent callers and must never be written by the API
// that receives them.
var sharedTypes = map[string]bool{
	"curve.EdwardsBasepointTable":                true,
	"curve.edwardsBasepointTableGeneric":         true,
	"curve.edwardsBasepointTableVector":          true,
	"curve.RistrettoBasepointTable":              true,
	"curve.ExpandedEdwardsPoint":                 true,
	"curve.ExpandedRistrettoPoint":               true,
	"curve.affineNielsPointLookupTable":          true,
	"curve.projectiveNielsPointLookupTable":      true,
	"curve.cachedPointLookupTable":               true,
	"curve.affineNielsPointNafLookupTable":       true,
	"curve.projectiveNielsPointNafLookupTable":   true,
	"curve.cachedPointNafLookupTable":            true,
	"curve.packedAffineNielsPointNafLookupTable": true,
	"primitives/ed25519.ExpandedPublicKey":       true,
}

// sharedHandles: lock-free handle types of which ONE value serves every goroutine ("a shared
// caching verifier"): after construction no function stores into the value's own fields (per-call
// state lives in locals; the state behind its pointers has its own lock, see LOCK-*).
var sharedHandles = map[string]bool{
	"primitives/ed25519/extra/cache.Verifier": true,
}

// checkSharedHandles: a store, copy or written call argument whose address is a field (or a part
// of a field) of a shared handle, reached without a load, of a value not freshly allocated there.
func checkSharedHandles(p *load.Program, m *emod.Mod, rule *report.Rule) {
	seen := map[string]bool{}
	for _, hw := range m.OwnFieldWrites(sharedHandles, load.Rel) {
		via := ""
		if hw.Via != "" {
			via = " (written by " + hw.Via + ")"
		}
		rule.Fail(p.Pos(hw.Pos), load.FuncName(hw.Fn), "stores into a field of the shared handle "+hw.Type+" after construction"+via+": concurrent callers of the one shared value overwrite each other's state (keep per-call state in locals)", nil)
	}
	for k := range sharedHandles {
		i := strings.LastIndexByte(k, '.')
		obj := p.Obj(k[:i], k[i+1:])
		if obj == nil {
			rule.Fail("-", k, "shared handle type cannot be resolved (anchor lost)", nil)
			continue
		}
		if !seen[k] {
			seen[k] = true
			rule.OK(k)
		}
	}
}

// sharedWriters: the only functions allowed to write through a parameter of
// a shared type — the type's own initialisers (confirmed by reading).
var sharedWriters = map[string]string{
	"(*curve.ExpandedEdwardsPoint).SetEdwardsPoint":     "initialiser of ExpandedEdwardsPoint (called by NewExpandedEdwardsPoint on a fresh object)",
	"(*curve.ExpandedRistrettoPoint).SetRistrettoPoint": "initialiser of ExpandedRistrettoPoint (called by NewExpandedRistrettoPoint on a fresh object)",
}

func init() {
	Registry["C18"] = func(c *Ctx) {
		run := c.Run
		run.Explanation = "E-MOD: may-write summaries over SSA + call graph. Decides the structural clauses of C18: the library never writes package-level state after initialisation, never writes through shared precomputed objects it receives, starts no goroutine and uses no channel/atomic, and every access to a field of a mutex-containing struct happens with the lock held; each externally callable method of such a struct holds the lock for its whole body (so operations are atomic and linearisability reduces to sequential correctness)."
		run.NotDecided = []string{"sequential correctness of the LRU policy (eviction order, capacity)", "races inside the standard library", "callers overwriting exported variables", "user-supplied Cache implementations"}
		run.Assumptions = append(run.Assumptions, "external callees outside the read-only allow-list (emod.go) are assumed to write every pointer argument", "sync.Mutex provides mutual exclusion")
		if !c.Preload(c.Configs()...) {
			return
		}
		gst := run.Rule("GLOBAL-store", "no store to memory rooted at a package-level variable outside package initialisation (directly or through a written call argument)", 400).RequireControl(1)
		lru := run.Rule("DT-lru", "the LRU cache stores a new entry holding exactly the given expanded key under the given key and evicts the oldest element's own entry exactly at capacity", 3)
		shf := run.Rule("SHARED-fresh", "initialisers of shared precomputed types install freshly allocated tables and never write through a table pointer loaded from the object", 2)
		shh := run.Rule("SHARED-handle", "no function stores into the own fields of a lock-free handle shared by all goroutines (the caching verifier) after construction", 1)
		cdl := run.Rule("DT-cache-delegation", "the caching verifier fails without verifying when the key cannot be obtained and otherwise delegates with the expanded key it obtained itself", 6)
		shr := run.Rule("SHARED-readonly", "no function writes through a parameter of a shared precomputed type except that type's own initialisers", 60).RequireControl(1)
		lacc := run.Rule("LOCK-access", "every access to a field of a mutex-containing struct holds the lock (or is in a constructor / a helper whose callers all hold it)", 8).RequireControl(1)
		latm := run.Rule("LOCK-atomic", "every externally callable method of a mutex-containing struct takes the lock first and releases it by defer", 2).RequireControl(1)
		ldbl := run.Rule("LOCK-double", "no path locks the same mutex twice", 2).RequireControl(1)
		conc := run.Rule("NO-concurrency", "no goroutine, channel, sync/atomic or unsafe.Pointer conversion in library code (outside the allow-listed Keccak cast)", 400).RequireControl(1)
		retf := run.Rule("RETURN-fresh", "byte slices returned by exported functions never alias the storage of the receiver or of a parameter (callers own and modify what they get)", 20)
		inro := run.Rule("INPUT-readonly", "no exported function of a public package writes through an input parameter (callers share keys, scalars and messages between goroutines)", 200)
		retn := run.Rule("INPUT-retain", "no exported function keeps a caller's byte slice in an object that outlives the call (the object would change when the caller re-uses its buffer)", 80)
		rglb := run.Rule("RETURN-global", "no exported function hands out a pointer or slice into a package-level variable (shared constants and tables cannot be modified through an API result)", 100)
		rdis := run.Rule("RESULT-disjoint", "two byte-slice results of one exported function never share storage", 1)
		for _, id := range c.Configs() {
			p := c.Prog(id)
			run.SetConfig(id)
			if st := checkInputReadonly(p, inro, false); id == c.Configs()[0] {
				delete(st, "discovered")
				run.Sample(st)
			}
			checkReturnFresh(p, retf, false)
			checkInputRetain(p, retn, false)
			checkResultDisjoint(p, rdis, false)
			checkReturnGlobal(p, rglb, false)
			asmWrites := map[string][]int{}
			if len(p.Pkg("internal/field").OtherFiles)+len(p.Pkg("curve").OtherFiles)+len(p.Pkg("internal/strobe").OtherFiles) > 0 {
				ares := easm.Lint(run, p, "ASM", nil)
				for _, sf := range ares.Symbols {
					var w []int
					for _, pr := range sf.Writes {
						w = append(w, pr.Index)
					}
					asmWrites[sf.QualifiedName()] = w
				}
			}
			m := emod.New(p, asmWrites)
			// GLOBAL-store
			byFn := map[string]bool{}
			nInit := 0
			for _, w := range m.DirectGlobalWrites() {
				name := load.FuncName(w.Fn)
				if m.InitOnly[w.Fn] {
					nInit++
					continue
				}
				byFn[name] = true
				gst.Fail(w.Pos, name, fmt.Sprintf("writes package-level variable %s after initialisation (%s): shared by every goroutine using the package", w.Global, w.What), nil)
			}
			nf := 0
			for _, fn := range p.ModuleFuncs() {
				if len(fn.Blocks) > 0 && !byFn[load.FuncName(fn)] {
					gst.OK(load.FuncName(fn))
					nf++
				}
			}
			// SHARED-readonly
			writers := map[string]bool{}
			for _, u := range m.ParamUses(sharedTypes) {
				name := load.FuncName(u.Fn)
				if !u.Writes {
					shr.OK(name)
					continue
				}
				if _, ok := sharedWriters[name]; ok || onlyCalledByInitialisers(p, u.Fn, 0) {
					// the type's own initialiser, or an unexported helper that only initialisers call
					shr.OK(name)
					writers[name] = true
					continue
				}
				shr.Fail(p.Pos(u.Fn.Pos()), name, fmt.Sprintf("may write through its parameter #%d of shared type %s (only the type's own initialisers may)", u.Param, u.Type), nil)
			}
			checkSharedFresh(p, shf)
			checkSharedHandles(p, m, shh)
			if id == c.Configs()[0] {
				// sequential specification of the LRU cache (what "atomic" operations must do): same table as C09
				ecfg := &edt.Config{P: p, Mod: m}
				for _, s := range c09LRUSpecs() {
					edt.Check(lru, ecfg, s)
				}
				// the caching verifier uses the expanded key it expanded or found — never a second, unchecked
				// look-up that a concurrent eviction can turn into nil (delegation tables of C09)
				for _, s := range c09MoreSpecs() {
					if s.Pkg == "primitives/ed25519/extra/cache" {
						edt.Check(cdl, ecfg, s)
					}
				}
			}
			// locks
			lst := emod.CheckLocks(p, m, lacc, latm, ldbl)
			cst := emod.CheckNoConcurrencyPrimitives(p, conc, map[string]string{
				"internal/strobe.keccakF1600Bytes": "the one documented cast of the STROBE state array to the [25]uint64 the Keccak permutation works on",
			})
			var ws []string
			for w := range writers {
				ws = append(ws, w)
			}
			sort.Strings(ws)
			run.Sample(map[string]any{"config": id, "functions": nf, "global writes inside init": nInit, "mutex-guarded types": lst.TypeNames,
				"guarded field accesses": lst.Accesses, "externally callable methods": lst.Methods, "instructions scanned": cst.Instructions, "initialisers writing shared types": ws})
		}
	}
}

// onlyCalledByInitialisers: fn is unexported and every caller is a registered initialiser of a shared
// type (or, recursively, such a helper): it is part of the initialiser.
func onlyCalledByInitialisers(p *load.Program, fn *ssa.Function, depth int) bool {
	if depth > 3 || fn.Object() == nil || fn.Object().Exported() {
		return false
	}
	node := p.CallGraph().Nodes[fn]
	if node == nil || len(node.In) == 0 {
		return false
	}
	for _, in := range node.In {
		caller := in.Caller.Func
		if caller == nil {
			return false
		}
		if _, ok := sharedWriters[load.FuncName(caller)]; ok {
			continue
		}
		if !onlyCalledByInitialisers(p, caller, depth+1) {
			return false
		}
	}
	return true
}
