package props

import (
	"fmt"
	"go/types"
	"regexp"
	"strings"

	"voicheck/edt"
	"voicheck/elin"
)

// C16 — lattice reduction (Pornin 2020, Algorithm 4) and the delta-scaled
// verification equation: step structure, sign and shift coupling, callers.

var latticeOpaque = []string{"lattice.ellSquared", "int512.Mul", "int512.Add", "int512.PositiveLt", "int512.SafeToShrink", "int512.BitLen",
	"int512.IsNegative", "int512.AddShifted", "int512.SubShifted", "int384.FromInt512", "int384.PositiveLt", "int384.BitLen", "int384.IsNegative",
	"int384.AddShifted", "int384.SubShifted", "Int128.sub", "Int128.add", "Int128.shl", "lattice.newInt128FromScalar"}

var loopStartRE = regexp.MustCompile(`^loop L([01]): (φL[01]\.\d+) starts as (.*)$`)

// fsvRoles recovers, from the loop-entry events of one path, which loop
// symbol plays which role of Algorithm 4 (N_u, N_v, u_0, u_1, v_0, v_1) in
// each pass, before the swap of that pass's current iteration.
func fsvRoles(p *edt.Path, swap0 bool) (r0, r1 map[string]string, msg string) {
	init0 := map[string]string{
		"lattice.ellSquared": "NU",
		"int512.Add(int512.Mul($k, $k), @internal/lattice.i512One)": "NV",
		"@internal/lattice.constELL_LOWER_HALF":                     "u0",
		"@internal/lattice.i128Zero":                                "u1",
		"lattice.newInt128FromScalar($k)":                           "v0",
		"@internal/lattice.i128One":                                 "v1",
	}
	r0, r1 = map[string]string{}, map[string]string{}
	sym0 := map[string]string{} // φL0.j -> role (pre-swap)
	type start struct{ sym, val string }
	var l1 []start
	for _, ev := range p.Events {
		m := loopStartRE.FindStringSubmatch(ev)
		if m == nil {
			continue
		}
		if m[1] == "0" {
			role, ok := init0[m[3]]
			if !ok {
				return nil, nil, "the reduction starts from " + clip(m[3], 80) + ", which is not one of ℓ², k²+1, ℓ mod 2^128, 0, k, 1 (Algorithm 4 initialisation)"
			}
			r0[role] = m[2]
			sym0[m[2]] = role
		} else {
			l1 = append(l1, start{m[2], m[3]})
		}
	}
	if len(r0) != 6 {
		return nil, nil, fmt.Sprintf("only %d of the six state variables of Algorithm 4 are initialised as specified", len(r0))
	}
	havePMul := false
	for _, ev := range p.Events {
		if ev == "int512.Mul(@curve/scalar.BASEPOINT_ORDER, $k)" {
			havePMul = true
		}
	}
	if !havePMul {
		return nil, nil, "p is not initialised as ℓ·k"
	}
	if len(l1) == 0 {
		return r0, nil, ""
	}
	// pass 2 inherits the post-swap state of pass 1
	swapRole := map[string]string{"NU": "NV", "NV": "NU", "u0": "v0", "u1": "v1", "v0": "u0", "v1": "u1"}
	for _, s := range l1 {
		src := strings.TrimSuffix(strings.TrimPrefix(s.val, "int384.FromInt512("), ")")
		role, ok := sym0[src]
		if !ok {
			return nil, nil, "pass 2 starts from " + clip(s.val, 80) + ", which is not a state variable of pass 1"
		}
		if swap0 {
			role = swapRole[role]
		}
		big := role == "NU" || role == "NV"
		if big != strings.HasPrefix(s.val, "int384.FromInt512(") {
			return nil, nil, "pass 2 must shrink exactly N_u, N_v (and p) to 384 bits: " + clip(s.val, 80)
		}
		if _, dup := r1[role]; dup {
			return nil, nil, "pass 2 inherits " + role + " twice"
		}
		r1[role] = s.sym
	}
	if len(r1) != 6 {
		return nil, nil, fmt.Sprintf("pass 2 inherits only %d of the six state variables", len(r1))
	}
	return r0, r1, ""
}

func fsvSpec() *edt.Spec {
	lit := func(p *edt.Path, atom string) (val, ok bool) {
		for _, l := range p.Lits {
			if l.Atom == atom {
				return l.Val, true
			}
		}
		return false, false
	}
	return &edt.Spec{
		Pkg: "internal/lattice", Func: "FindShortVector", Opaque: latticeOpaque, SymLoops: true, MinPaths: 30,
		VarPrefix: map[string]string{
			"int512.PositiveLt(":    "swap1",
			"int512.SafeToShrink(":  "shrink",
			"(254 < int512.BitLen(": "long1",
			"(int512.BitLen(":       "shift1",
			"int512.IsNegative(":    "neg1",
			"int384.PositiveLt(":    "swap2",
			"(254 < int384.BitLen(": "long2",
			"(int384.BitLen(":       "shift2",
			"int384.IsNegative(":    "neg2",
		},
		Classify: func(p *edt.Path, out string, e *edt.Env) string {
			switch {
			case strings.HasPrefix(out, "next-iteration@L0("):
				return "step1"
			case strings.HasPrefix(out, "next-iteration@L1("):
				return "step2"
			case strings.HasPrefix(out, "φL0."):
				return "return1"
			case strings.HasPrefix(out, "φL1."):
				return "return2"
			}
			return ""
		},
		Formula: map[string]func(e *edt.Env) edt.Tri{
			// the vector is returned exactly when N_v has at most T = 254 bits; pass 2 is entered exactly when N_u is safe to shrink
			"return1": func(e *edt.Env) edt.Tri { return edt.And(edt.Not(e.V("shrink")), edt.Not(e.V("long1"))) },
			"step1":   func(e *edt.Env) edt.Tri { return edt.And(edt.Not(e.V("shrink")), e.V("long1")) },
			"return2": func(e *edt.Env) edt.Tri { return edt.And(e.V("shrink"), edt.Not(e.V("long2"))) },
			"step2":   func(e *edt.Env) edt.Tri { return edt.And(e.V("shrink"), e.V("long2")) },
		},
		Extra: func(p *edt.Path, out, class string, e *edt.Env, ab func(string) string) string {
			swap0 := e.V("swap1") == edt.T
			r0, r1, msg := fsvRoles(p, swap0)
			if msg != "" {
				return msg
			}
			pass, roles, ty, P, swap := 1, r0, "int512", "havoc@L0(A<lattice.int512>#1)", swap0
			if class == "step2" || class == "return2" {
				pass, roles, ty, P, swap = 2, r1, "int384", "havoc@L1(A<lattice.int384>#2)", e.V("swap2") == edt.T
				if roles == nil {
					return "pass 2 reached without its loop state"
				}
				// hand-off: tested on the post-swap N_u of pass 1, p shrunk as well
				nu := r0["NU"]
				if swap0 {
					nu = r0["NV"]
				}
				if _, ok := lit(p, "int512.SafeToShrink("+nu+")"); !ok {
					return "the hand-off to 384 bits must be decided on N_u (the largest of N_u, N_v, |p|) after the swap"
				}
				found := false
				for _, ev := range p.Events {
					if ev == "int384.FromInt512(havoc@L0(A<lattice.int512>#1))" {
						found = true
					}
				}
				if !found {
					return "p is not carried over into pass 2"
				}
			}
			// the swap test compares N_u with N_v (pre-swap roles)
			if _, ok := lit(p, ty+".PositiveLt("+roles["NU"]+", "+roles["NV"]+")"); !ok {
				return fmt.Sprintf("pass %d: the swap must be decided by N_u < N_v", pass)
			}
			R := roles
			if swap {
				// u and v, N_u and N_v are exchanged TOGETHER
				R = map[string]string{"NU": roles["NV"], "NV": roles["NU"], "u0": roles["v0"], "u1": roles["v1"], "v0": roles["u0"], "v1": roles["u1"]}
			}
			long, ok := lit(p, "(254 < "+ty+".BitLen("+R["NV"]+"))")
			if !ok {
				return fmt.Sprintf("pass %d: termination must be decided by len(N_v) <= 254 on the post-swap N_v", pass)
			}
			if !long {
				if out != R["v0"]+" ; "+R["v1"] {
					return fmt.Sprintf("pass %d: the short vector returned must be (v_0, v_1) after the swap; got %s", pass, out)
				}
				return ""
			}
			// one reduction step
			sh, ok := lit(p, "("+ty+".BitLen("+R["NV"]+") < "+ty+".BitLen("+P+"))")
			if !ok {
				return fmt.Sprintf("pass %d: the shift must be decided by len(p) > len(N_v)", pass)
			}
			S := "0"
			if sh {
				S = "(" + ty + ".BitLen(" + P + ") - " + ty + ".BitLen(" + R["NV"] + "))"
			}
			neg, ok := lit(p, ty+".IsNegative("+P+")")
			if !ok {
				return fmt.Sprintf("pass %d: the direction of the step must be decided by the sign of p", pass)
			}
			op, bop := "Int128.sub", ty+".SubShifted"
			if neg {
				op, bop = "Int128.add", ty+".AddShifted"
			}
			twoS, s1 := "("+S+" << 1)", cb("+", S, "1")
			if S == "0" {
				twoS, s1 = "0", "1"
			}
			u0 := op + "(" + R["u0"] + ", Int128.shl(" + R["v0"] + ", " + S + "))"
			u1 := op + "(" + R["u1"] + ", Int128.shl(" + R["v1"] + ", " + S + "))"
			// next state, listed in the order of the loop symbols
			next := map[string]string{"NU": R["NU"], "NV": R["NV"], "u0": u0, "u1": u1, "v0": R["v0"], "v1": R["v1"]}
			_, args := callParts(out)
			if len(args) != 6 {
				return "unexpected loop state: " + clip(out, 200)
			}
			for role, sym := range roles {
				var idx int
				fmt.Sscanf(sym[strings.IndexByte(sym, '.')+1:], "%d", &idx)
				if idx >= len(args) || args[idx] != next[role] {
					return fmt.Sprintf("pass %d: after a step with %s, %s must become %s; got %s (u and v must move by the SAME shift and sign in both coordinates: u -= ±(v << s))", pass, map[bool]string{true: "p < 0", false: "p >= 0"}[neg], role, clip(next[role], 200), clip(args[idx], 200))
				}
			}
			wantNU := bop + "(" + ty + ".AddShifted(" + R["NU"] + ", " + R["NV"] + ", " + twoS + "), " + P + ", " + s1 + ")"
			if m := finalIs(p, ab, R["NU"], wantNU); m != "" {
				return fmt.Sprintf("pass %d: N_u must become N_u + (N_v << 2s) ∓ (p << (s+1)): %s", pass, clip(m, 400))
			}
			wantP := bop + "(" + P + ", " + R["NV"] + ", " + S + ")"
			got := ""
			for k, f := range p.Final {
				if strings.HasPrefix(k, "A<lattice."+ty+">#") && f.String() != P && strings.Contains(f.String(), P) {
					got = f.String()
				}
			}
			if got != wantP {
				return fmt.Sprintf("pass %d: p must become p ∓ (N_v << s): got %s, want %s", pass, clip(got, 200), clip(wantP, 200))
			}
			return ""
		},
	}
}

// ---- ABGLSV-Pornin prologues and inner loops -----------------------------------------------------

const (
	fsvTerm = "lattice.FindShortVector($a)"
	cSet    = "agg(.inner.T=(Element.Set($C.inner.T)), .inner.X=(Element.Set($C.inner.X)), .inner.Y=(Element.Set($C.inner.Y)), .inner.Z=(Element.Set($C.inner.Z)))"
	cNeg    = "agg(.inner.T=(Element.Neg($C.inner.T)), .inner.X=(Element.Neg($C.inner.X)), .inner.Y=(Element.Set($C.inner.Y)), .inner.Z=(Element.Set($C.inner.Z)))"
)

// porninPrologueSpec: [d0]A + [|d1|·(±b)]B + [|d1|](∓C): the sign of d1 moves into b and C together, the sign of d0 is handed on.
func porninPrologueSpec(fn, inner, tableA, tableCtor string) *edt.Spec {
	opaque := []string{"lattice.FindShortVector", "curve." + inner, "curve." + tableCtor, "Int128.ToScalar", "Int128.Abs", "Int128.IsNegative"}
	return &edt.Spec{
		Pkg: "curve", Func: fn, Opaque: opaque, MinPaths: 2,
		Vars: map[string]string{"Int128.IsNegative(res1(" + fsvTerm + "))": "d1Negative"},
		Classify: func(p *edt.Path, out string, e *edt.Env) string {
			if out != "ptr($out)" {
				return ""
			}
			f, ok := p.Final["$out"]
			if !ok {
				return ""
			}
			sb, c := "Scalar.Set($b)", cNeg
			class := "b,-C"
			if strings.Contains(f.String(), "Scalar.Neg($b)") {
				sb, c, class = "Scalar.Neg($b)", cSet, "-b,C"
			}
			want := "curve." + inner + "(Int128.IsNegative(res0(" + fsvTerm + ")), " + tableA + ", out1(Int128.ToScalar(Int128.Abs(res0(" + fsvTerm + ")), zero)), out1(Int128.ToScalar(Int128.Abs(res1(" + fsvTerm + ")), zero)), " + sb + ", curve." + tableCtor + "(" + c + "))"
			if f.String() != want {
				return ""
			}
			return class
		},
		Formula: map[string]func(e *edt.Env) edt.Tri{
			"-b,C": func(e *edt.Env) edt.Tri { return e.V("d1Negative") },
			"b,-C": func(e *edt.Env) edt.Tri { return edt.Not(e.V("d1Negative")) },
		},
	}
}

type porninRole struct {
	name, naf string
	table     func(string) bool
}

// porninInnerSpec: one symbolic iteration of the interleaved double-and-add loop.
func porninInnerSpec(c *Ctx, fn string, pointOps []string) *edt.Spec {
	const (
		db  = "Scalar.Mul($d_1, $s_b)"
		dbb = "out1(Scalar.ToBytes(" + db + ", zero))"
		e0  = "Scalar.SetBits(agg([0:16]=(sel(" + dbb + ", [0:16]))))"
		e1  = "Scalar.SetBits(agg([0:16]=(sel(" + dbb + ", [16:32]))))"
	)
	roles := []porninRole{
		{"A", "Scalar.NonAdjacentForm($d_0, 5)", func(t string) bool { return t == "$tableA" }},
		{"B", "Scalar.NonAdjacentForm(" + e0 + ", 8)", func(t string) bool { return strings.HasSuffix(t, "ODD_MULTIPLES_OF_BASEPOINT") }},
		{"[2^128]B", "Scalar.NonAdjacentForm(" + e1 + ", 8)", func(t string) bool { return strings.HasSuffix(t, "ODD_MULTIPLES_OF_B_SHL_128") }},
		{"-C", "Scalar.NonAdjacentForm($d_1, 5)", func(t string) bool { return t == "$tableNegC" }},
	}
	vars := map[string]string{
		"$d0IsNeg":     "d0Negative",
		"(φL1.0 == 0)": "last",
		"(φL0.1 < 0)":  "scanDone",
		"isnil(err(Scalar.ToBytes(" + db + ", zero)))": "dbOK",
		"isnil(err(" + e0 + "))":                       "e0OK",
		"isnil(err(" + e1 + "))":                       "e1OK",
	}
	for i, r := range roles {
		vars["(0 < sel("+r.naf+", [φL1.0]))"] = fmt.Sprintf("pos%d", i)
		vars["(sel("+r.naf+", [φL1.0]) < 0)"] = fmt.Sprintf("neg%d", i)
		vars["(sel("+r.naf+", [φL0.1]) == 0)"] = fmt.Sprintf("zero%d", i)
	}
	convOK := func(e *edt.Env) edt.Tri { return edt.And(e.V("dbOK"), e.V("e0OK"), e.V("e1OK")) }
	return &edt.Spec{
		Pkg: "curve", Func: fn, Opaque: append([]string{"Scalar.NonAdjacentForm"}, pointOps...), SymLoops: true, MinPaths: 600, Vars: vars,
		Classify: func(p *edt.Path, out string, e *edt.Env) string {
			switch {
			case p.Panic != nil:
				return "panic"
			case strings.HasPrefix(out, "next-iteration@L0("):
				return "scan"
			case strings.HasPrefix(out, "next-iteration@L1("):
				return "iterate"
			case out == "ptr($out)":
				return "return"
			}
			return ""
		},
		Formula: map[string]func(e *edt.Env) edt.Tri{
			"panic": func(e *edt.Env) edt.Tri { return edt.Not(convOK(e)) },
			// the scan for the first non-zero column continues exactly while ALL FOUR digit arrays are zero there
			"scan": func(e *edt.Env) edt.Tri {
				return edt.And(convOK(e), edt.Not(e.V("scanDone")), e.V("zero0"), e.V("zero1"), e.V("zero2"), e.V("zero3"))
			},
			"iterate": func(e *edt.Env) edt.Tri { return edt.And(convOK(e), edt.Not(e.V("last"))) },
			"return":  func(e *edt.Env) edt.Tri { return edt.And(convOK(e), e.V("last")) },
		},
		Extra: func(p *edt.Path, out, class string, e *edt.Env, ab func(string) string) string {
			if class == "scan" {
				if out != "next-iteration@L0(φL0.1, (φL0.1 - 1))" {
					return "the scan for the starting column must step down by one: " + clip(out, 120)
				}
				return ""
			}
			if class != "iterate" && class != "return" {
				return ""
			}
			for _, ev := range p.Events {
				if ev == "loop L0: φL0.1 starts as 255" {
					goto scanned
				}
			}
			return "the scan for the starting column must start at column 255"
		scanned:
			if class == "iterate" && out != "next-iteration@L1((φL1.0 - 1))" {
				return "the main loop must step down by one column: " + clip(out, 120)
			}
			// expected (table, digit, operation) sequence of this iteration from the digit signs
			type step struct{ role, digit, op string }
			var want []step
			for i, r := range roles {
				pos, neg := e.V(fmt.Sprintf("pos%d", i)), e.V(fmt.Sprintf("neg%d", i))
				d := "sel(" + r.naf + ", [φL1.0])"
				switch {
				case pos == edt.T:
					op := "Add"
					if i == 0 && e.V("d0Negative") == edt.T {
						op = "Sub"
					}
					want = append(want, step{r.name, d, op})
				case pos == edt.F && neg == edt.T:
					op := "Sub"
					if i == 0 && e.V("d0Negative") == edt.T {
						op = "Add"
					}
					want = append(want, step{r.name, "neg(" + d + ")", op})
				case pos == edt.F && neg == edt.F:
				default:
					return "the sign of the digit of " + r.name + " is not fully decided on this path"
				}
			}
			var got []step
			doubles := 0
			for k, ev := range p.Events {
				op, args := callParts(ev)
				if strings.HasSuffix(op, ".Double") {
					doubles++
				}
				if !strings.HasSuffix(op, ".Lookup") || len(args) != 2 {
					continue
				}
				role := ""
				for _, r := range roles {
					if r.table(args[0]) {
						role = r.name
					}
				}
				if role == "" {
					return "lookup in an unexpected table: " + clip(ev, 160)
				}
				// table size agrees with the NAF width of the digits that index it
				if m := nafWidthFits(c, op, args[1]); m != "" {
					return m
				}
				// the operation that consumes the looked-up point
				kind := ""
				for _, nx := range p.Events[k+1:] {
					nop, _ := callParts(nx)
					if strings.Contains(nop, ".Add") && !strings.HasPrefix(nop, "Element.") {
						kind = "Add"
						break
					}
					if strings.Contains(nop, ".Sub") && !strings.HasPrefix(nop, "Element.") {
						kind = "Sub"
						break
					}
					if strings.HasSuffix(nop, ".Lookup") {
						break
					}
				}
				got = append(got, step{role, args[1], kind})
			}
			if doubles != 1 {
				return fmt.Sprintf("each column must double the accumulator exactly once (found %d)", doubles)
			}
			if fmt.Sprint(got) != fmt.Sprint(want) {
				return fmt.Sprintf("digit/table/sign pairing differs: want %v, got %v (a positive digit adds and a negative digit subtracts the table entry |digit|, reversed for A exactly when d0 is negative; each digit array indexes its own table)", want, got)
			}
			return ""
		},
	}
}

// nafWidthFits: a table indexed by |digit|/2 of a width-w NAF needs 2^(w-2) entries.
func nafWidthFits(c *Ctx, lookupOp, digit string) string {
	i := strings.Index(digit, "Scalar.NonAdjacentForm(")
	if i < 0 {
		return "lookup index is not a NAF digit: " + clip(digit, 120)
	}
	// the width is the last argument of the NonAdjacentForm term
	depth, end := 0, -1
	for k := i + len("Scalar.NonAdjacentForm("); k < len(digit); k++ {
		switch digit[k] {
		case '(':
			depth++
		case ')':
			if depth == 0 {
				end = k
			}
			depth--
		}
		if end >= 0 {
			break
		}
	}
	if end < 0 {
		return "malformed NAF term"
	}
	_, args := callParts(digit[i : end+1])
	var w int
	if len(args) != 2 {
		return "malformed NAF term"
	}
	if _, err := fmt.Sscanf(args[1], "%d", &w); err != nil {
		return "the NAF width is not a constant: " + args[1]
	}
	tname := strings.TrimSuffix(lookupOp, ".Lookup")
	p := c.Prog("amd64")
	obj := p.Obj("curve", tname)
	if obj == nil {
		return "table type " + tname + " not found"
	}
	arr, ok := obj.Type().Underlying().(*types.Array)
	if !ok {
		return "table type " + tname + " is not an array"
	}
	if need := int64(1) << uint(w-2); arr.Len() < need {
		return fmt.Sprintf("a width-%d NAF digit indexes %s, which has %d entries (needs %d): lookups can go out of range", w, tname, arr.Len(), need)
	}
	return ""
}

// int128Specs: sign/byte-order plumbing between Int128 and Scalar.
func int128Specs() []*edt.Spec {
	bytesOf := func(x string) string {
		lo, hi := "sel("+x+", .lo)", "sel("+x+", .hi)"
		if strings.HasPrefix(x, "$") {
			lo, hi = x+".lo", x+".hi" // parts of a parameter are named directly
		}
		return "agg([0:8]=(out1(littleEndian.PutUint64(@binary.LittleEndian, zero, " + lo + "))), [8:16]=(out1(littleEndian.PutUint64(@binary.LittleEndian, zero, " + hi + "))))"
	}
	return []*edt.Spec{
		{
			Pkg: "internal/lattice", Func: "Int128.ToScalar", Opaque: []string{"Int128.neg", "Scalar.SetBits", "Scalar.Neg"}, MinPaths: 2,
			Vars:         map[string]string{"($x.hi < 0)": "negative"},
			AssumePrefix: map[string]edt.Assumption{"isnil(err(Scalar.SetBits(": {Val: true, Why: "SetBits of a 32-byte array with the top 16 bytes zero cannot fail"}},
			Classify: func(p *edt.Path, out string, e *edt.Env) string {
				f, ok := p.Final["$s"]
				if out != "ptr($s)" || !ok {
					return ""
				}
				switch f.String() {
				case "Scalar.Neg(Scalar.SetBits(" + bytesOf("Int128.neg($x)") + "))":
					return "-|x|"
				case "Scalar.SetBits(" + bytesOf("$x") + ")":
					return "x"
				}
				return ""
			},
			Formula: map[string]func(e *edt.Env) edt.Tri{
				"-|x|": func(e *edt.Env) edt.Tri { return e.V("negative") },
				"x":    func(e *edt.Env) edt.Tri { return edt.Not(e.V("negative")) },
			},
		},
		{
			Pkg: "internal/lattice", Func: "Int128.Abs", Opaque: []string{"Int128.neg"}, MinPaths: 2,
			Vars: map[string]string{"($x.hi < 0)": "negative"},
			Classify: func(p *edt.Path, out string, e *edt.Env) string {
				switch out {
				case "Int128.neg($x)":
					return "-x"
				case "$x":
					return "x"
				}
				return ""
			},
			Formula: map[string]func(e *edt.Env) edt.Tri{
				"-x": func(e *edt.Env) edt.Tri { return e.V("negative") },
				"x":  func(e *edt.Env) edt.Tri { return edt.Not(e.V("negative")) },
			},
		},
		termSpec("internal/lattice", "Int128.IsNegative", nil, "($x.hi < 0)"),
		{
			Pkg: "internal/lattice", Func: "newInt128FromScalar", MinPaths: 1, Vars: map[string]string{},
			AssumePrefix: map[string]edt.Assumption{"isnil(err(Scalar.ToBytes(": {Val: true, Why: "ToBytes into a 32-byte array cannot fail"}},
			Classify: func(p *edt.Path, out string, e *edt.Env) string {
				b := "out1(Scalar.ToBytes($s, zero))"
				if out == "agg(.hi=(littleEndian.Uint64(@binary.LittleEndian, sel("+b+", [8:16]))), .lo=(littleEndian.Uint64(@binary.LittleEndian, sel("+b+", [0:8]))))" {
					return "low 128 bits"
				}
				return ""
			},
			Formula: map[string]func(e *edt.Env) edt.Tri{"low 128 bits": always},
		},
	}
}

func init() {
	Registry["C16"] = func(c *Ctx) {
		run := c.Run
		run.Explanation = "E-DT (single symbolic iteration per pass) + E-SIB clones: FindShortVector is compared with Algorithm 4 of Pornin 2020: initial state (N_u, N_v, p, u, v) = (ℓ², k²+1, ℓk, (ℓ mod 2^128, 0), (k, 1)); each iteration swaps (u, N_u) with (v, N_v) together exactly when N_u < N_v, returns the post-swap (v_0, v_1) exactly when len(N_v) <= 254, shifts by s = max(len p − len N_v, 0), and moves u_0 and u_1 by the same ±(v << s) with the sign of p, N_u by +(N_v << 2s) ∓ (p << (s+1)) and p by ∓(N_v << s); pass 2 inherits exactly the post-swap state shrunk to 384 bits, entered exactly when N_u is safe to shrink. Engine E-LIN in wrap mode: Int128 add/sub/neg/shl(n) for every n, Abs, IsNegative, isZero and the int384/int512 Add, AddShifted, SubShifted, ShiftLimbs (every shift count), IsNegative, PositiveLt, SafeToShrink, FromInt512 are exact as affine congruences modulo 2^128 / 2^384 / 2^512 over the input words. (The syntactic clone comparison of the two passes / four prologues planned in the design was withdrawn: it fired on behaviour-preserving edits of one clone; each pass and each prologue is specified on its own instead.)"
		run.NotDecided = []string{"termination and the bit-length bounds that keep (d0, d1) within 128 bits", "that the torsion statement follows (algebra)"}
		run.Exhaustive = true
		latticeRules(c)
		// the plain and the precomputed (expanded) variants must agree: the precomputed tables of an
		// expanded point are the multiples of ITS point (fresh table on re-initialisation, no stale
		// copies, formulas, aliasing) — the group foundations
		groupFoundations(c, false)
	}
}

// latticeRules: the rules of C16 (short-vector reduction, wide-integer exactness, the
// ABGLSV-Pornin prologues and inner loops).  Also run by the properties whose verification
// equation goes through this code (C01, C02, C09): an honest signature only verifies when the
// reduction terminates with a correct short vector.
func latticeRules(c *Ctx) {
	run := c.Run
	{
		if !c.Preload("amd64") {
			return
		}
		p := c.Prog("amd64")
		run.SetConfig("amd64")
		cfg := &edt.Config{P: p, Mod: modFor(p)}
		dt := run.Rule("DT-lattice", "FindShortVector has exactly the step structure of Algorithm 4 in both passes", 30)
		r := edt.Check(dt, cfg, fsvSpec())
		run.Sample(map[string]any{"function": "FindShortVector", "paths": r.Paths, "feasible": r.Feasible, "classes": r.ClassCount})
		for _, s := range int128Specs() {
			r := edt.Check(dt, cfg, s)
			run.Sample(map[string]any{"function": s.Func, "paths": r.Paths, "feasible": r.Feasible, "classes": r.ClassCount})
		}
		// exactness of the wide-integer arithmetic the reduction relies on (engine E-LIN, wrap mode: congruences mod 2^N)
		lr := elin.CheckLattice(run, p, "LAT")
		run.Sample(map[string]any{"LAT functions": lr.Functions, "LAT obligations": lr.Obligations, "LAT discharged": lr.Discharged})
		run.NotDecided = append(run.NotDecided, elin.LatticeNotDecided...)
		pw := run.Rule("PORTABLE-width", "no 64-bit integer is converted to a platform-sized integer (32-bit targets would drop the upper half)", 450).RequireControl(1)
		checkPortableWidth(p, pw)
		pr := run.Rule("DT-pornin", "the ABGLSV-Pornin prologues move the sign of d1 into b and C together and hand the sign of d0 on; the inner loops pair each digit array with its table, sign and NAF width", 3000)
		genericOps := []string{"completedPoint.Double", "completedPoint.AddEdwardsProjectiveNiels", "completedPoint.SubEdwardsProjectiveNiels", "completedPoint.AddCompletedAffineNiels", "completedPoint.SubCompletedAffineNiels",
			"projectiveNielsPointNafLookupTable.Lookup", "affineNielsPointNafLookupTable.Lookup", "EdwardsPoint.setCompleted", "projectivePoint.setCompleted", "EdwardsPoint.setProjective", "projectivePoint.Identity"}
		vectorOps := []string{"extendedPoint.Double", "extendedPoint.AddExtendedCached", "extendedPoint.SubExtendedCached", "cachedPointNafLookupTable.Lookup", "cachedPointNafLookupTable8.Lookup", "extendedPoint.Identity", "EdwardsPoint.setExtended"}
		for _, s := range []*edt.Spec{
			porninPrologueSpec("edwardsMulAbglsvPorninVartimeGeneric", "edwardsMulAbglsvPorninVartimeGenericInner", "curve.newProjectiveNielsPointNafLookupTable($A)", "newProjectiveNielsPointNafLookupTable"),
			porninPrologueSpec("expandedEdwardsMulAbglsvPorninVartimeGeneric", "edwardsMulAbglsvPorninVartimeGenericInner", "$A.inner", "newProjectiveNielsPointNafLookupTable"),
			porninPrologueSpec("edwardsMulAbglsvPorninVartimeVector", "edwardsMulAbglsvPorninVartimeVectorInner", "curve.newCachedPointNafLookupTable($A)", "newCachedPointNafLookupTable"),
			porninPrologueSpec("expandedEdwardsMulAbglsvPorninVartimeVector", "edwardsMulAbglsvPorninVartimeVectorInner", "$A.innerVector", "newCachedPointNafLookupTable"),
			porninInnerSpec(c, "edwardsMulAbglsvPorninVartimeGenericInner", genericOps),
			porninInnerSpec(c, "edwardsMulAbglsvPorninVartimeVectorInner", vectorOps),
		} {
			r := edt.Check(pr, cfg, s)
			run.Sample(map[string]any{"function": s.Func, "paths": r.Paths, "feasible": r.Feasible, "classes": r.ClassCount})
		}
	}
}
