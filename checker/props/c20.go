package props

import "voicheck/econst"

func init() {
	Registry["C20"] = func(c *Ctx) {
		c.Preload(c.Configs()...)
		for _, id := range c.Configs() {
			p := c.Prog(id)
			if p == nil {
				continue
			}
			econst.CheckAll(c.Run, p, "CONST")
		}
	}
}
