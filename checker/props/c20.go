package props

// C20 — precomputed constants and tables equal their definitions in every
// back end.  All work is done by the E-CONST engine (voicheck/econst).

import (
	"fmt"
	"runtime/debug"
	"voicheck/elin"

	"voicheck/econst"
	"voicheck/load"
)

func init() {
	Registry["C20"] = func(c *Ctx) {
		run := c.Run
		run.Exhaustive = true
		run.Explanation = "E-CONST: every literal arithmetic constant of curve, curve/scalar, internal/field, internal/elligator, " +
			"internal/lattice, internal/strobe and primitives/x25519 (package-level composite literals and constructor calls, literals " +
			"inside function bodies such as (*Element).One/MinusOne, ellSquared, the Sub/Neg bias vectors, the (A+2)/4 multiplier, the " +
			"DATA/GLOBL blocks and Keccak immediates of the assembly files) is read from the typed syntax tree of each build " +
			"configuration (integers only through go/types constant folding), converted with the radix its Go type implies " +
			"(5x51, 10x25.5, 5x52, 9x29 bits) and compared with its definition evaluated by an independent math/big oracle " +
			"(GF(2^255-19), the Edwards group law, RFC 8032 compression, the Montgomery map, RFC 9496 encoding, Montgomery constants " +
			"mod L, the Keccak LFSR).  The oracle is itself checked at start-up against every value RFC 8032 / 7748 / 9496 / the Keccak " +
			"reference print.  The 256+64+64 packed table entries are compared entry by entry with (y+x, y-x, 2dxy) of [(j+1)256^i]B, " +
			"[2j+1]B and [2j+1][2^128]B; EIGHT_TORSION entry i with [i]T8.  The table of definitions is complete by construction: every " +
			"package-level variable or large integer constant of arithmetic type, every arithmetic literal inside a function body and " +
			"every assembly data symbol without a definition fails the run.  For variables filled at start-up by library code only the " +
			"provenance is decided (which routine builds them from which literal source, with which indexing)."
		run.Assumptions = []string{
			"go/types constant folding and go/packages build-constraint evaluation are correct (the literal a configuration compiles is the literal that is read)",
			"math/big is correct; the oracle's formulas are the definitions (they are cross-checked against the values printed in RFC 8032 §5.1, RFC 7748 §4.1, RFC 9496 §4.1/A.1 and the Keccak round-constant table on every run)",
			"field.(*Element).SetBytes, scalar.NewFromBits/ToBytes and the table constructors compute what their names say (start-up code is not executed; see not_decided)",
			"the Go assembler places DATA/GLOBL bytes little-endian as written (assembly data is scanned as text, the only source form it has)",
		}
		run.NotDecided = []string{
			"the VALUES of tables computed at start-up by library code (the unpacked fixed-base and NAF tables, the AVX2 vector tables built in init, field.One/MinusOne/Two, scalar.order, x25519.Basepoint): only their provenance is decided — the routine, the literal source constant and the indexing (8*i+j; [0:32],[32:64],[64:96] -> y_plus_x,y_minus_x,xy2d)",
			"immediates inside assembly instruction streams other than the Keccak round constants (e.g. $19 and shift counts in field_u64_amd64.s) and function-local mask/shift constants of reduce/SetBytes/ToBytes: these are range facts (E-RANGE / C04), not definitional constants",
			"whether the sign of V_FACTOR matters: the Elligator map normalises the sign of v, the rule nevertheless requires the documented (non-negative) root",
		}

		// The quick configurations are loaded concurrently and kept (the mutant
		// driver locates its edits in them); the three additional thorough
		// configurations are loaded, checked and released one at a time so that
		// at most four type-checked programs are alive (memory < 2 GB).
		cfgs := c.Configs()
		keep := map[string]bool{}
		for _, id := range load.QuickConfigs {
			keep[id] = true
		}
		if !c.Preload(load.QuickConfigs...) {
			return
		}
		// expected_min: ~90% of the instance counts measured on the unchanged tree
		// (quick = amd64, purego, f32; thorough = all six).
		type mins struct{ value, rng, prov, table, complete, bias, asm, control, xradix int }
		m := mins{value: 165, rng: 170, prov: 40, table: 1040, complete: 175, bias: 5, asm: 65, control: 110, xradix: 27}
		if c.Tier == "thorough" {
			m = mins{value: 365, rng: 340, prov: 80, table: 2080, complete: 330, bias: 10, asm: 65, control: 220, xradix: 27}
		}
		const id = "CONST"
		run.Rule(id+"-value", "a literal constant equals its definition evaluated by the big-integer oracle", m.value)
		run.Rule(id+"-range", "every limb of a literal limb vector is in reduced range for its radix", m.rng)
		run.Rule(id+"-prov", "a variable computed at start-up is built from the named source constant by the named routine", m.prov)
		run.Rule(id+"-table", "a packed table entry is the canonical (y+x, y-x, 2dxy) of its defining multiple of B", m.table)
		run.Rule(id+"-complete", "every literal arithmetic constant in scope has an entry in the definition table", m.complete)
		run.Rule(id+"-bias", "the bias limb vector of field Sub/Neg is a positive multiple of p", m.bias)
		run.Rule(id+"-asm", "arithmetic data embedded in the assembly text equals its definition", m.asm)
		run.Rule(id+"-control", "positive control: the literal with one integer perturbed in memory is rejected by its own check", m.control)
		run.Rule(id+"-xradix", "the 64-bit and the 32-bit encodings of the same constant denote the same value", m.xradix)

		for _, cfg := range cfgs {
			p := c.Prog(cfg)
			if p == nil {
				continue
			}
			econst.CheckAll(run, p, id)
			if !keep[cfg] {
				c.Drop(cfg)
				debug.FreeOSMemory()
			}
		}

		// samples: a few actual obligations, written out
		sample := func(cfg, name string) {
			p := c.Prog(cfg)
			if p == nil {
				return
			}
			v, err := econst.Value(p, name)
			if err != nil {
				return
			}
			doc, _ := econst.Definition(name)
			s := map[string]any{"config": cfg, "constant": name, "pos": v.Pos, "definition": doc}
			if v.Radix != "" {
				s["radix"] = v.Radix
				s["limbs"] = fmt.Sprint(v.Limbs)
			}
			if v.Int != nil {
				s["denotes"] = v.Int.String()
			}
			if v.Bytes != nil {
				s["bytes"] = fmt.Sprintf("%x", v.Bytes)
			}
			run.Sample(s)
		}
		for _, cfg := range []string{"amd64", "f32"} {
			sample(cfg, "curve.constEDWARDS_D2")
			sample(cfg, "curve/scalar.constRR")
			sample(cfg, "internal/elligator.constMONTGOMERY_SQRT_NEG_A_PLUS_TWO")
			sample(cfg, "curve/scalar.constLFACTOR")
		}
		sample("amd64", "curve.RISTRETTO_BASEPOINT_COMPRESSED")
		sample("amd64", "internal/lattice.constELL_LOWER_HALF")
		b := econst.Basepoint()
		run.Sample(map[string]any{"oracle": "B = (x even, y = 4/5)", "x": b.X.String(), "y": b.Y.String(),
			"table": "packedEdwardsBasepointTable[8*i+j] == niels([(j+1)*256^i]B) for all 256 (i,j); packedAffineOddMultiplesOfB*[j] == niels([2j+1]P) for all 64 j, P in {B, [2^128]B}"})
		run.Sample(map[string]any{"oracle_self_check": "p, L, d, B, SQRT_M1, SQRT_AD_MINUS_ONE, INVSQRT_A_MINUS_D, ONE_MINUS_D_SQ, D_MINUS_ONE_SQ, Ristretto(B), Ristretto(2B), u(B) = 9, v^2 = u^3+Au^2+u, sqrt(-486664)u/v = ±B.x, (A+2)/4, LFACTOR, 24 Keccak RC from the LFSR: all equal to the printed specification values"})

		if c.Tier == "thorough" {
			run.Rule(id+"-mutants", "seeded source edit (in-memory overlay): a value-changing edit is reported naming the constant, a behaviour-preserving edit stays silent", 14)
			econst.RunMutants(run, id, func(cfg string) *load.Program { return c.Prog(cfg) })
		}
		// constants that live inside the limb-level code (bias vectors, masks, 19, 121666, L, LFACTOR) are
		// decided through the value identities they take part in
		if c.Preload("purego", "f32") {
			for _, id := range []string{"purego", "f32"} {
				run.SetConfig(id)
				elin.CheckField(run, c.Prog(id), "LIN")
				elin.CheckScalarPack(run, c.Prog(id), "LIN")
				elin.CheckMul(run, c.Prog(id), "MUL")
			}
		}
		for _, id := range []string{"purego", "amd64"} {
			globalStoreRule(c, id) // the tables are not modified after initialisation (serial and vector users)
		}
	}
}
