package props

import (
	"strings"
	"sync"
	"voicheck/econst"
	"voicheck/edt"
	"voicheck/elin"
	"voicheck/erange"
	"voicheck/esib"

	"voicheck/easm"
	"voicheck/emod"
	"voicheck/load"
	"voicheck/report"
)

var (
	modMu    sync.Mutex
	modCache = map[*load.Program]*emod.Mod{}
)

// asmWritesOf scans the assembly of a configuration (facts only; the lint
// rules themselves are armed by C08) and returns, per assembly routine, the
// pointer parameters it stores through.
func asmWritesOf(p *load.Program) map[string][]int {
	w, _ := asmFactsOf(p)
	return w
}

func asmFactsOf(p *load.Program) (map[string][]int, map[string][]int) {
	out := map[string][]int{}
	reads := map[string][]int{}
	n := 0
	for _, pk := range p.Pkgs {
		n += len(pk.OtherFiles)
	}
	if n == 0 {
		return out, reads
	}
	scratch := report.New("ASM-FACTS", "quick", 0)
	scratch.SetConfig(p.Cfg.ID)
	res := easm.Lint(scratch, p, "ASM", nil)
	for _, sf := range res.Symbols {
		var w []int
		for _, pr := range sf.Writes {
			w = append(w, pr.Index)
		}
		out[sf.QualifiedName()] = w
		var r []int
		for _, pr := range sf.Reads {
			r = append(r, pr.Index)
		}
		reads[sf.QualifiedName()] = r
	}
	return out, reads
}

// modFor returns the (cached) may-write summaries of a program, with the
// assembly facts of its configuration.
func modFor(p *load.Program) *emod.Mod {
	modMu.Lock()
	defer modMu.Unlock()
	if m, ok := modCache[p]; ok {
		return m
	}
	aw, ar := asmFactsOf(p)
	m := emod.NewRW(p, aw, ar)
	modCache[p] = m
	return m
}

// cb renders a commutative binary operation in the walker's canonical operand
// order (constants second, otherwise by rendering).
func cb(op, a, b string) string {
	isConst := func(x string) bool {
		if x == "" {
			return false
		}
		for _, c := range x {
			if c < '0' || c > '9' {
				return false
			}
		}
		return true
	}
	if (isConst(a) && !isConst(b)) || (!isConst(a) && !isConst(b) && a > b) {
		a, b = b, a
	}
	return "(" + a + " " + op + " " + b + ")"
}

// arithmeticFoundations: the exactness rules of the arithmetic every primitive is built on, in the
// two portable back ends (which the baseline tests never compile): byte<->limb conversions of field
// elements and scalars as affine identities (E-LIN), Go multiplication / Montgomery reduction as
// identities in the products of input limbs (E-LIN MUL), no word wraps (E-RANGE stage A), masked
// constant-time table scans (E-SIB).  A primitive's decision table only means what it says when these
// building blocks compute what their names say; each property that depends on them runs them too.
func arithmeticFoundations(c *Ctx) {
	run := c.Run
	cfgs := []string{"purego", "f32"}
	if c.Tier == "thorough" {
		cfgs = []string{"purego", "f32", "f32pure", "386", "arm64"} // every configuration without the amd64 assembly
	}
	if !c.Preload(cfgs...) {
		return
	}
	erange.DeclareFieldRules(run, "RANGE-A", cfgs)
	run.Rule("SIB-scan", "constant-time lookups scan every entry exactly once", 5)
	exp := expRule(run, len(cfgs))
	for _, id := range cfgs {
		p := c.Prog(id)
		run.SetConfig(id)
		erange.CheckFieldStageA(run, p, "RANGE-A")
		elin.CheckField(run, p, "LIN")
		elin.CheckScalarPack(run, p, "LIN")
		elin.CheckMul(run, p, "MUL")
		esib.CheckMaskedScan(run, p, "SIB-scan")
		checkExpAll(run, p, exp)
	}
	portableWidthRule(c, cfgs[0])
	// the integer assembly of the default amd64 build (feMul, fePow2k), interpreted from its text
	if c.Preload("amd64") {
		run.SetConfig("amd64")
		elin.CheckMul(run, c.Prog("amd64"), "MUL")
	}
	run.NotDecided = append(run.NotDecided, "arithmetic foundations: full reduction below L, the AVX2 vector assembly (see C04/C05/C06)")
}

// groupFoundations: the exactness rules of the point arithmetic every primitive is built on — the
// serial formulas and representation changes against the reference formulas (FORMULA), Add/Sub
// duality, in-place (aliased) use of point and scalar operations (ALIAS), fresh tables on
// re-initialisation (SHARED-fresh) — in the first loaded configuration.
func groupFoundations(c *Ctx, withAlias bool) {
	run := c.Run
	id := c.Configs()[0]
	if !c.Preload(id) {
		return
	}
	p := c.Prog(id)
	run.SetConfig(id)
	cfg := &edt.Config{P: p, Mod: modFor(p)}
	form := run.Rule("FORMULA", "the serial point formulas, representation changes, neutral elements and their compositions equal the reference formulas as terms over uninterpreted field operations, modulo commutativity", 22)
	for _, s := range append(c03FormulaSpecs(), c03CompositionSpecs()...) {
		edt.Check(form, cfg, s)
	}
	run.Rule("SIB-duality", "Sub* formulas are the sign-dual of their Add* twins", 4)
	esib.CheckDuality(run, p, "SIB-duality")
	checkSumFolds(run.Rule("DT-sum", "point summation is a left fold of Add over all values that starts from the neutral element and returns the accumulator", 2), cfg)
	checkSharedFresh(p, run.Rule("SHARED-fresh", "re-initialising an expanded point installs a fresh table", 2))
	checkStaleCopies(p, run.Rule("STALE-copy", "a converted copy of an accumulator is never read after the accumulator it was converted from has been modified", 10), []string{"curve"})
	if withAlias {
		al := run.Rule("ALIAS", "point and scalar operations compute the same result when two same-typed pointer parameters denote one object", 100)
		run.Sample(checkAliasing(al, p, []string{"curve", "curve/scalar"}))
		checkAliasSlice(p, run.Rule("ALIAS-slice", "a function with an output *T and a slice of T / *T finishes reading the slice elements before it first writes the output (the output may be one of the elements)", 15), false)
	}
	skeletonFoundations(c)
	// the constants and tables every primitive multiplies with (base points, d, 2d, sqrt(-1), the
	// packed fixed-base table and its unpacking, the odd-multiple tables, L, R, RR, LFACTOR): by value
	// against the math/big oracle (E-CONST, the rules of C20 restricted to curve, curve/scalar, internal/field)
	var names []string
	for _, n := range econst.Names() {
		if strings.HasPrefix(n, "curve.") || strings.HasPrefix(n, "curve/scalar.") || strings.HasPrefix(n, "internal/field.") {
			if i := strings.LastIndexByte(n, '.'); i > 0 && p.Obj(n[:i], n[i+1:]) != nil {
				names = append(names, n)
			}
		}
	}
	run.SetConfig(id)
	econst.CheckNamed(run, p, "CONST", names...)
}

// skeletonFoundations: the serial (*Generic) scalar-multiplication routines, which the baseline
// tests never execute on an AVX2 machine, agree with their tested vector twins (dispatch guard,
// equal skeleton normal forms, Horner shape, add/sub polarity, recoding width vs table size) —
// the E-SIB rules of C03, in the amd64 and purego configurations.
func skeletonFoundations(c *Ctx) {
	run := c.Run
	cfgs := []string{"amd64", "purego"}
	if !c.Preload(cfgs...) {
		return
	}
	run.Rule("SIB-dispatch", "every call edge into the vector-only set is dominated by the true edge of supportsVectorizedEdwards; each switch pairs a vector routine with a generic sibling", 73)
	run.Rule("SIB-skel"+esib.SufPair, "the two members of every (vector, generic) pair have equal skeleton normal forms", 27)
	run.Rule("SIB-skel"+esib.SufHorner, "Horner shape per algorithm", 28)
	run.Rule("SIB-skel"+esib.SufPolarity, "add/sub polarity of every digit use", 187)
	run.Rule("SIB-skel"+esib.SufWidth, "recoding width <-> table size", 165)
	run.Rule("SIB-skel"+esib.SufCtor, "lookup-table constructors", 16)
	run.Rule("SIB-skel"+esib.SufEntry, "entry-point facts", 28)
	generic := c.Prog("purego")
	for _, id := range cfgs {
		p := c.Prog(id)
		if p == nil {
			continue
		}
		run.SetConfig(id)
		g := generic
		if p.Obj("curve", "errVectorNotSupported") != nil {
			g = p
		}
		d := esib.CheckDispatch(run, p, g, "SIB-dispatch")
		esib.CheckSkeletons(run, p, d.Pairs, "SIB-skel")
	}
}

// transcriptFoundations: Merlin framing, STROBE structure and the Keccak sibling (the rules of C13).
func transcriptFoundations(c *Ctx) {
	run := c.Run
	id := c.Configs()[0]
	if !c.Preload(id) {
		return
	}
	p := c.Prog(id)
	run.SetConfig(id)
	cfg := &edt.Config{P: p, Mod: modFor(p)}
	dt := run.Rule("SEQ-merlin", "Merlin operations and STROBE primitives have exactly the specified operation sequences and decision structure", 30)
	for _, s := range c13Specs() {
		edt.Check(dt, cfg, s)
	}
	if c.Preload("purego") {
		checkKeccakSibling(c, run)
	}
}

const expRuleDesc = "field inversion, the (p-5)/8 power, SqrtRatioI's candidate tests and scalar inversion raise/compare exactly the specified monomials (E-EXP: abstract interpretation in the exponent domain); SqrtRatioI selects, corrects and reports its root as specified"

func expRule(run *report.Run, ncfg int) *report.Rule {
	return run.Rule("EXP-chain", expRuleDesc, 6*ncfg)
}

func checkExpAll(run *report.Run, p *load.Program, exp *report.Rule) {
	s := checkExpChains(p, exp)
	if run.Config() == load.QuickConfigs[1] || len(s) == 0 {
		run.Sample(map[string]any{"EXP-chain": s})
	}
	edt.Check(exp, &edt.Config{P: p, Mod: modFor(p)}, sqrtRatioSpec())
}

// expFoundations: EXP-chain in every loaded configuration of the tier (the chains are plain Go in
// all of them; the multiplications they call are never entered).
func expFoundations(c *Ctx) {
	run := c.Run
	cfgs := c.Configs()
	if !c.Preload(cfgs...) {
		return
	}
	exp := expRule(run, len(cfgs))
	for _, id := range cfgs {
		run.SetConfig(id)
		checkExpAll(run, c.Prog(id), exp)
	}
}

// portableWidthRule: PORTABLE-width in one loaded configuration.
func portableWidthRule(c *Ctx, id string) {
	if !c.Preload(id) {
		return
	}
	c.Run.SetConfig(id)
	pw := c.Run.Rule("PORTABLE-width", "no 64-bit integer is converted to a platform-sized integer (the 32-bit targets would compute something else)", 450).RequireControl(1)
	checkPortableWidth(c.Prog(id), pw)
}

// ownershipRules: INPUT-readonly, RETURN-fresh, INPUT-retain and RESULT-disjoint in the first configuration of the tier.
func ownershipRules(c *Ctx) {
	id := c.Configs()[0]
	if !c.Preload(id) {
		return
	}
	c.Run.SetConfig(id)
	p := c.Prog(id)
	checkInputReadonly(p, c.Run.Rule("INPUT-readonly", "no exported function of a public package writes through an input parameter", 200), false)
	checkReturnFresh(p, c.Run.Rule("RETURN-fresh", "byte slices returned by exported functions never alias the storage of the receiver or of a parameter", 20), false)
	checkInputRetain(p, c.Run.Rule("INPUT-retain", "no exported function keeps a caller's byte slice in an object that outlives the call (directly or through a callee)", 80), false)
	checkResultDisjoint(p, c.Run.Rule("RESULT-disjoint", "two byte-slice results of one exported function never share storage", 1), false)
	checkReturnGlobal(p, c.Run.Rule("RETURN-global", "no exported function hands out a pointer or slice into a package-level variable (constants and tables stay out of the callers' reach)", 100), false)
	checkReturnInterior(p, c.Run.Rule("RETURN-interior", "no exported function returns a pointer into the object a pointer parameter designates (returning the receiver itself is fine)", 60), false)
}

// globalStoreRule: GLOBAL-store (the rule of C18) in one configuration: nothing writes memory
// rooted at a package-level variable after package initialisation — constants and precomputed
// tables keep the values E-CONST decided for them.
func globalStoreRule(c *Ctx, id string) {
	if !c.Preload(id) {
		return
	}
	run := c.Run
	run.SetConfig(id)
	p := c.Prog(id)
	gst := run.Rule("GLOBAL-store", "no store to memory rooted at a package-level variable outside package initialisation (directly or through a written call argument): constants and tables stay what they were decided to be", 400)
	// ... and no API result gives a caller write access to them
	checkReturnGlobal(p, run.Rule("RETURN-global", "no exported function hands out a pointer or slice into a package-level variable (constants and tables stay out of the callers' reach)", 100), false)
	m := modFor(p)
	byFn := map[string]bool{}
	for _, w := range m.DirectGlobalWrites() {
		if m.InitOnly[w.Fn] {
			continue
		}
		if load.IsControlPos(w.Pos) {
			continue
		}
		name := load.FuncName(w.Fn)
		byFn[name] = true
		gst.Fail(w.Pos, name, "writes package-level variable "+w.Global+" after initialisation ("+w.What+")", nil)
	}
	for _, fn := range p.ModuleFuncs() {
		if len(fn.Blocks) > 0 && !byFn[load.FuncName(fn)] {
			gst.OK(load.FuncName(fn))
		}
	}
}
