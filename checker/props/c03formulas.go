package props

import (
	"fmt"
	"sort"
	"strings"

	"voicheck/edt"
)

// FORMULA: the serial point formulas of curve/models.go and the compositions
// of curve/edwards.go equal the reference formulas (Hisil–Wong–Carter–Dawson
// extended twisted Edwards, a = −1, as used by curve25519-dalek) as TERMS over
// uninterpreted field operations, modulo commutativity of field addition and
// multiplication.  Whether the field operations compute the field is C04; that
// the reference formulas are the group law is mathematics, not decided here.

func sqr(x string) string     { return "Element.Square(" + x + ")" }
func fadd(a, b string) string { return "Element.Add(" + a + ", " + b + ")" }
func fsub(a, b string) string { return "Element.Sub(" + a + ", " + b + ")" }
func fmul(a, b string) string { return "Element.Mul(" + a + ", " + b + ")" }
func formulaSpec(fn string, wantOut string, finals map[string]string) *edt.Spec {
	return &edt.Spec{
		Pkg: "curve", Func: fn, MinPaths: 1, Vars: map[string]string{},
		Classify: func(p *edt.Path, out string, e *edt.Env) string {
			if out == wantOut {
				return "formula"
			}
			return ""
		},
		Formula: map[string]func(e *edt.Env) edt.Tri{"formula": always},
		Extra: func(p *edt.Path, out, class string, e *edt.Env, ab func(string) string) string {
			keys := make([]string, 0, len(finals))
			for k := range finals {
				keys = append(keys, k)
			}
			sort.Strings(keys)
			for _, k := range keys {
				f, ok := p.Final[k]
				if !ok {
					return k + " is not written"
				}
				if normComm(f.String()) != normComm(finals[k]) {
					return fmt.Sprintf("%s differs from the reference formula: got %s, want %s", k, clip(f.String(), 260), clip(finals[k], 260))
				}
			}
			// nothing but the receiver is written
			for k := range p.Final {
				if strings.HasPrefix(k, "$") && !strings.HasPrefix(k, "$p") {
					return "an operand is written: " + k
				}
			}
			return ""
		},
	}
}

func c03FormulaSpecs() []*edt.Spec {
	const (
		X1, Y1, Z1, T1 = "$a.inner.X", "$a.inner.Y", "$a.inner.Z", "$a.inner.T"
	)
	ypx, ymx := fadd(Y1, X1), fsub(Y1, X1)
	// projective Niels operand
	PP, MM := fmul(ypx, "$b.Y_plus_X"), fmul(ymx, "$b.Y_minus_X")
	PM, MP := fmul(ypx, "$b.Y_minus_X"), fmul(ymx, "$b.Y_plus_X")
	ZZ := fmul(Z1, "$b.Z")
	ZZ2 := fadd(ZZ, ZZ)
	TT2d := fmul(T1, "$b.T2d")
	// affine Niels operand
	aPP, aMM := fmul(ypx, "$b.y_plus_x"), fmul(ymx, "$b.y_minus_x")
	aPM, aMP := fmul(ypx, "$b.y_minus_x"), fmul(ymx, "$b.y_plus_x")
	Z2 := fadd(Z1, Z1)
	Txy2d := fmul(T1, "$b.xy2d")
	// doubling (projective -> completed)
	XX, YY := sqr("$pp.X"), sqr("$pp.Y")
	YYpXX, YYmXX := fadd(YY, XX), fsub(YY, XX)
	// affine x, y of an extended point
	zi := "Element.Invert($ep.inner.Z)"
	x, y := fmul("$ep.inner.X", zi), fmul("$ep.inner.Y", zi)
	return []*edt.Spec{
		formulaSpec("(*completedPoint).Double", "ptr($p)", map[string]string{
			"$p.X": fsub(sqr(fadd("$pp.X", "$pp.Y")), YYpXX), "$p.Y": YYpXX, "$p.Z": YYmXX, "$p.T": fsub("Element.Square2($pp.Z)", YYmXX)}),
		formulaSpec("(*completedPoint).AddEdwardsProjectiveNiels", "ptr($p)", map[string]string{
			"$p.X": fsub(PP, MM), "$p.Y": fadd(PP, MM), "$p.Z": fadd(ZZ2, TT2d), "$p.T": fsub(ZZ2, TT2d)}),
		formulaSpec("(*completedPoint).SubEdwardsProjectiveNiels", "ptr($p)", map[string]string{
			"$p.X": fsub(PM, MP), "$p.Y": fadd(PM, MP), "$p.Z": fsub(ZZ2, TT2d), "$p.T": fadd(ZZ2, TT2d)}),
		formulaSpec("(*completedPoint).AddEdwardsAffineNiels", "ptr($p)", map[string]string{
			"$p.X": fsub(aPP, aMM), "$p.Y": fadd(aPP, aMM), "$p.Z": fadd(Z2, Txy2d), "$p.T": fsub(Z2, Txy2d)}),
		formulaSpec("(*completedPoint).SubEdwardsAffineNiels", "ptr($p)", map[string]string{
			"$p.X": fsub(aPM, aMP), "$p.Y": fadd(aPM, aMP), "$p.Z": fsub(Z2, Txy2d), "$p.T": fadd(Z2, Txy2d)}),
		// representation changes
		formulaSpec("(*EdwardsPoint).setCompleted", "ptr($p)", map[string]string{
			"$p.inner.X": fmul("$cp.X", "$cp.T"), "$p.inner.Y": fmul("$cp.Y", "$cp.Z"), "$p.inner.Z": fmul("$cp.Z", "$cp.T"), "$p.inner.T": fmul("$cp.X", "$cp.Y")}),
		formulaSpec("(*projectivePoint).SetCompleted", "ptr($p)", map[string]string{
			"$p.X": fmul("$cp.X", "$cp.T"), "$p.Y": fmul("$cp.Y", "$cp.Z"), "$p.Z": fmul("$cp.Z", "$cp.T")}),
		formulaSpec("(*EdwardsPoint).setProjective", "ptr($p)", map[string]string{
			"$p.inner.X": fmul("$pp.X", "$pp.Z"), "$p.inner.Y": fmul("$pp.Y", "$pp.Z"), "$p.inner.Z": sqr("$pp.Z"), "$p.inner.T": fmul("$pp.X", "$pp.Y")}),
		formulaSpec("(*projectivePoint).SetEdwards", "ptr($p)", map[string]string{
			"$p.X": "Element.Set($ep.inner.X)", "$p.Y": "Element.Set($ep.inner.Y)", "$p.Z": "Element.Set($ep.inner.Z)"}),
		formulaSpec("(*projectiveNielsPoint).SetEdwards", "ptr($p)", map[string]string{
			"$p.Y_plus_X": fadd("$ep.inner.Y", "$ep.inner.X"), "$p.Y_minus_X": fsub("$ep.inner.Y", "$ep.inner.X"), "$p.Z": "Element.Set($ep.inner.Z)", "$p.T2d": fmul("$ep.inner.T", "@curve.constEDWARDS_D2")}),
		formulaSpec("(*affineNielsPoint).SetEdwards", "ptr($p)", map[string]string{
			"$p.y_plus_x": fadd(y, x), "$p.y_minus_x": fsub(y, x), "$p.xy2d": fmul(fmul(x, y), "@curve.constEDWARDS_D2")}),
		// negation of a cached operand: swap (Y+X, Y−X), negate the T·2d term, under ONE choice
		formulaSpec("(*projectiveNielsPoint).ConditionalNegate", "", map[string]string{
			"$p.Y_plus_X": "Element.ConditionalSwap($p.Y_plus_X, $p.Y_minus_X, $choice)", "$p.Y_minus_X": "out1(Element.ConditionalSwap($p.Y_plus_X, $p.Y_minus_X, $choice))", "$p.T2d": "Element.ConditionalNegate($p.T2d, $choice)"}),
		formulaSpec("(*affineNielsPoint).ConditionalNegate", "", map[string]string{
			"$p.y_plus_x": "Element.ConditionalSwap($p.y_plus_x, $p.y_minus_x, $choice)", "$p.y_minus_x": "out1(Element.ConditionalSwap($p.y_plus_x, $p.y_minus_x, $choice))", "$p.xy2d": "Element.ConditionalNegate($p.xy2d, $choice)"}),
		// neutral elements of every representation
		formulaSpec("(*EdwardsPoint).Identity", "ptr($p)", map[string]string{"$p.inner.X": "Element.Zero", "$p.inner.Y": "Element.One", "$p.inner.Z": "Element.One", "$p.inner.T": "Element.Zero"}),
		formulaSpec("(*projectivePoint).Identity", "ptr($p)", map[string]string{"$p.X": "Element.Zero", "$p.Y": "Element.One", "$p.Z": "Element.One"}),
		formulaSpec("(*affineNielsPoint).Identity", "ptr($p)", map[string]string{"$p.y_plus_x": "Element.One", "$p.y_minus_x": "Element.One", "$p.xy2d": "Element.Zero"}),
		formulaSpec("(*projectiveNielsPoint).Identity", "ptr($p)", map[string]string{"$p.Y_plus_X": "Element.One", "$p.Y_minus_X": "Element.One", "$p.Z": "Element.One", "$p.T2d": "Element.Zero"}),
		formulaSpec("(*EdwardsPoint).Neg", "ptr($p)", map[string]string{"$p.inner.X": "Element.Neg($t.inner.X)", "$p.inner.Y": "Element.Set($t.inner.Y)", "$p.inner.Z": "Element.Set($t.inner.Z)", "$p.inner.T": "Element.Neg($t.inner.T)"}),
	}
}

// c03CompositionSpecs: the serial EdwardsPoint operations compose the formulas as specified.
func c03CompositionSpecs() []*edt.Spec {
	op := []string{"completedPoint.Double", "completedPoint.AddEdwardsProjectiveNiels", "completedPoint.SubEdwardsProjectiveNiels", "EdwardsPoint.setCompleted",
		"projectivePoint.SetCompleted", "projectiveNielsPoint.SetEdwards", "projectivePoint.SetEdwards", "EdwardsPoint.mulByPow2", "EdwardsPoint.double"}
	comp := func(fn, want string) *edt.Spec {
		return &edt.Spec{
			Pkg: "curve", Func: fn, Opaque: op, MinPaths: 1, Vars: map[string]string{},
			Classify: func(p *edt.Path, out string, e *edt.Env) string { return "composition" },
			Formula:  map[string]func(e *edt.Env) edt.Tri{"composition": always},
			Extra: func(p *edt.Path, out, class string, e *edt.Env, ab func(string) string) string {
				return finalIs(p, ab, "$p", want)
			},
		}
	}
	const (
		cp0 = "havoc@L0(A<curve.completedPoint>#0)"
		pp0 = "havoc@L0(A<curve.projectivePoint>#0)"
		dbl = "completedPoint.Double(" + cp0 + ", " + pp0 + ")"
	)
	return []*edt.Spec{
		comp("(*EdwardsPoint).Add", "EdwardsPoint.setCompleted(completedPoint.AddEdwardsProjectiveNiels($a, projectiveNielsPoint.SetEdwards($b)))"),
		comp("(*EdwardsPoint).Sub", "EdwardsPoint.setCompleted(completedPoint.SubEdwardsProjectiveNiels($a, projectiveNielsPoint.SetEdwards($b)))"),
		comp("(*EdwardsPoint).double", "EdwardsPoint.setCompleted(completedPoint.Double(projectivePoint.SetEdwards($t)))"),
		termSpec2("curve", "(*EdwardsPoint).MulByCofactor", op, "ptr($p)", map[string]string{"$p": "EdwardsPoint.mulByPow2($t, 3)"}),
		{
			// [2^k]P: k doublings, the first k−1 stay projective, the last returns to extended coordinates
			Pkg: "curve", Func: "(*EdwardsPoint).mulByPow2", Opaque: op, SymLoops: true, MinPaths: 3,
			// k−1 inner doublings: counted 0..k−2 or 1..k−1 (the start is checked against the bound below)
			// ... or counted down k..2 / k-1..1
			Vars: map[string]string{"($k == 0)": "kZero", "(φL0.0 < ($k - 1))": "more", "(φL0.0 < $k)": "more", "(1 < φL0.0)": "more", "(0 < φL0.0)": "more"},
			Classify: func(p *edt.Path, out string, e *edt.Env) string {
				switch {
				case p.Panic != nil:
					return "panic"
				case out == "next-iteration@L0((φL0.0 + 1))" || out == "next-iteration@L0((φL0.0 - 1))":
					return "double"
				case out == "ptr($p)":
					return "last"
				}
				return ""
			},
			Formula: map[string]func(e *edt.Env) edt.Tri{
				"panic":  func(e *edt.Env) edt.Tri { return e.V("kZero") },
				"double": func(e *edt.Env) edt.Tri { return edt.And(edt.Not(e.V("kZero")), e.V("more")) },
				"last":   func(e *edt.Env) edt.Tri { return edt.And(edt.Not(e.V("kZero")), edt.Not(e.V("more"))) },
			},
			Extra: func(p *edt.Path, out, class string, e *edt.Env, ab func(string) string) string {
				if class == "panic" {
					return ""
				}
				has := func(s string) bool {
					for _, ev := range p.Events {
						if ev == s {
							return true
						}
					}
					return false
				}
				start0, start1 := has("loop L0: φL0.0 starts as 0"), has("loop L0: φL0.0 starts as 1")
				bound0, bound1 := false, false
				for _, l := range p.Lits {
					switch l.Atom {
					case "(φL0.0 < ($k - 1))":
						bound0 = true
					case "(φL0.0 < $k)":
						bound1 = true
					case "(1 < φL0.0)": // counted down from k while i > 1
						start0, bound0 = has("loop L0: φL0.0 starts as $k"), true
						if (class == "double") != (out == "next-iteration@L0((φL0.0 - 1))") {
							bound0 = false
						}
					case "(0 < φL0.0)": // counted down from k-1 while i > 0
						start0, bound0 = has("loop L0: φL0.0 starts as ($k - 1)"), true
						if (class == "double") != (out == "next-iteration@L0((φL0.0 - 1))") {
							bound0 = false
						}
					}
				}
				if !has("loop L0: A<curve.projectivePoint>#0 enters as projectivePoint.SetEdwards($t)") || !((start0 && bound0) || (start1 && bound1)) {
					return "the doubling chain must start from the projective form of the operand and run k-1 inner doublings"
				}
				if !has(dbl) {
					return "each step must double the running projective point"
				}
				if class == "double" && !has("projectivePoint.SetCompleted("+dbl+")") {
					return "an inner step must convert the doubled point back to projective coordinates"
				}
				if class == "last" {
					return finalIs(p, ab, "$p", "EdwardsPoint.setCompleted("+dbl+")")
				}
				return ""
			},
		},
	}
}
