package props

import (
	"fmt"
	"strings"

	"voicheck/edt"
)

// orUpdate checks the accumulation x' = x ∨ t on one path: if the path knows
// x to be true the final value must be true, if false it must be t.
func orUpdate(p *edt.Path, e *edt.Env, ab func(string) string, field, v, t string) string {
	got := "<unchanged>"
	if f, ok := p.Final[field]; ok {
		got = ab(f.String())
	}
	switch e.V(v) {
	case edt.T:
		if got != "true" && got != "<unchanged>" {
			return fmt.Sprintf("%s was true and becomes %s (must stay true)", field, got)
		}
	case edt.F:
		if got != t {
			return fmt.Sprintf("%s becomes %s, want %s (the flag of the entry just added)", field, got, t)
		}
	default:
		return fmt.Sprintf("%s is updated without reading its previous value", field)
	}
	return ""
}

// stripCopies removes the pure-copy wrappers Element.Set(x) from a rendered term: p.X.Set(&x) and
// p.X = x store the same value.
func stripCopies(s string) string {
	const w = "Element.Set("
	for {
		i := strings.Index(s, w)
		if i < 0 {
			return s
		}
		depth, j := 1, i+len(w)
		for ; j < len(s) && depth > 0; j++ {
			switch s[j] {
			case '(':
				depth++
			case ')':
				depth--
			}
		}
		if depth != 0 {
			return s
		}
		inner := s[i+len(w) : j-1]
		if strings.Contains(inner, ", ") && topLevelComma(inner) {
			// Set with an explicit destination operand rendered: leave it alone
			return s
		}
		s = s[:i] + inner + s[j:]
	}
}

func topLevelComma(s string) bool {
	depth := 0
	for i := 0; i < len(s); i++ {
		switch s[i] {
		case '(':
			depth++
		case ')':
			depth--
		case ',':
			if depth == 0 {
				return true
			}
		}
	}
	return false
}

func finalIs(p *edt.Path, ab func(string) string, field, want string) string {
	got := "<unchanged>"
	if f, ok := p.Final[field]; ok {
		got = ab(f.String())
	}
	if got != want && stripCopies(got) == stripCopies(want) {
		return ""
	}
	if got != want {
		return fmt.Sprintf("%s ends as %s, want %s", field, got, want)
	}
	return ""
}

// finalElemIs: element idx of the array at base ends as want — written element-wise (base[idx]), or
// as part of a whole-array assignment of a composite literal (elements a keyed literal leaves out
// are zero) or of the zero value.
func finalElemIs(p *edt.Path, ab func(string) string, base string, idx int, want string) string {
	key := fmt.Sprintf("%s[%d]", base, idx)
	if _, ok := p.Final[key]; ok {
		return finalIs(p, ab, key, want)
	}
	if f, ok := p.Final[base]; ok {
		got := ""
		switch {
		case f.Op == "zero":
			got = "0"
		case f.Op == "agg":
			got = "0"
			pre := fmt.Sprintf("[%d]=", idx)
			for _, a := range f.Args {
				if a.Op == pre && len(a.Args) == 1 {
					got = ab(a.Args[0].String())
				}
			}
		}
		if got != "" {
			if got != want {
				return fmt.Sprintf("%s ends as %s, want %s", key, got, want)
			}
			return ""
		}
	}
	return finalIs(p, ab, key, want)
}

func always(e *edt.Env) edt.Tri { return edt.T }

func c09MiscSpecs() []*edt.Spec {
	batchVars := map[string]string{
		"$v.anyInvalid":          "anyInvalid",
		"$v.anyCofactorless":     "anyCofactorless",
		"$v.anyNotExpanded":      "anyNotExpanded",
		"(len($v.entries) < 94)": "belowExpansionLimit",
		"(len($v.entries) == 0)": "empty",
		"isnil(ptr($rand))":      "randNil",
		"(LI < len($v.entries))": "more",
		"(LJ < len($v.entries))": "more0",
		"E.wantCofactorless":     "entryCofactorless",
		"isnil(E.expandedA)":     "entryNotExpanded",
		"VALID_I":                "validI",
		"φL1.0":                  "allValidSoFar",
		"BATCHONLY":              "batchOK",
	}
	return []*edt.Spec{
		// ---- key expansion caches exactly DT-1's predicates ---------------
		{
			Pkg: "primitives/ed25519", Func: "NewExpandedPublicKey", Abbrev: ed25519Abbrev, MinPaths: 3,
			Vars: map[string]string{"isnil(err(Aenc))": "pkLenOK", "isnil(err(A))": "decodeA"},
			Classify: func(p *edt.Path, out string, e *edt.Env) string {
				switch {
				case strings.HasPrefix(out, "nil ; err(fmt.Errorf("):
					return "error"
				case out == "&new(agg(.compressed=(Aenc), .isCanonical=(CompressedEdwardsY.IsCanonicalVartime(Aenc)), .isSmallOrder=(EdwardsPoint.IsSmallOrder(A)), .isValidY=(true), .negA=(ExpandedEdwardsPoint.SetEdwardsPoint(EdwardsPoint.Neg(A))))) ; nil":
					return "expanded"
				}
				return ""
			},
			Formula: map[string]func(e *edt.Env) edt.Tri{
				"error":    func(e *edt.Env) edt.Tri { return edt.Not(edt.And(e.V("pkLenOK"), e.V("decodeA"))) },
				"expanded": func(e *edt.Env) edt.Tri { return edt.And(e.V("pkLenOK"), e.V("decodeA")) },
			},
		},
		{
			Pkg: "primitives/ed25519", Func: "(*VerifyOptions).checkExpandedPublicKey", MinPaths: 8,
			Abbrev: [][2]string{{"$publicKey.", "XK."}},
			Vars: map[string]string{"XK.isValidY": "xk.validY", "XK.isSmallOrder": "xk.small", "XK.isCanonical": "xk.canon",
				"$vOpts.AllowSmallOrderA": "smallA", "$vOpts.AllowNonCanonicalA": "nonCanA"},
			Classify: func(p *edt.Path, out string, e *edt.Env) string {
				if out == "true" || out == "false" {
					return out
				}
				return ""
			},
			Formula: map[string]func(e *edt.Env) edt.Tri{
				"true":  func(e *edt.Env) edt.Tri { return pkAdmitExpanded(e, e.V) },
				"false": func(e *edt.Env) edt.Tri { return edt.Not(pkAdmitExpanded(e, e.V)) },
			},
		},
		// ---- pairing: every Add updates the three summary flags from the entry it appends ----
		{
			Pkg: "primitives/ed25519", Func: "(*BatchVerifier).AddWithOptions", Opaque: []string{"entry.doInit", "ed25519.NewExpandedPublicKey"}, MinPaths: 12,
			Abbrev: [][2]string{
				{"entry.doInit(nil, res0(ed25519.NewExpandedPublicKey($publicKey)), $message, $sig, $opts)", "ENTRY_X"},
				{"entry.doInit($publicKey, nil, $message, $sig, $opts)", "ENTRY_P"},
			},
			Vars: batchVars,
			Classify: func(p *edt.Path, out string, e *edt.Env) string {
				if out != "" {
					return ""
				}
				if f, ok := p.Final["$v.entries"]; ok {
					switch f.String() {
					case "cat($v.entries, entry.doInit(nil, res0(ed25519.NewExpandedPublicKey($publicKey)), $message, $sig, $opts))":
						return "append-expanded"
					case "cat($v.entries, entry.doInit($publicKey, nil, $message, $sig, $opts))":
						return "append-plain"
					}
				}
				return ""
			},
			Formula: map[string]func(e *edt.Env) edt.Tri{
				"append-expanded": func(e *edt.Env) edt.Tri { return edt.And(edt.Not(e.V("anyNotExpanded")), e.V("belowExpansionLimit")) },
				"append-plain": func(e *edt.Env) edt.Tri {
					return edt.Not(edt.And(edt.Not(e.V("anyNotExpanded")), e.V("belowExpansionLimit")))
				},
			},
			Extra: func(p *edt.Path, out, class string, e *edt.Env, ab func(string) string) string {
				ent := "ENTRY_P"
				if class == "append-expanded" {
					ent = "ENTRY_X"
				}
				if m := orUpdate(p, e, ab, "$v.anyInvalid", "anyInvalid", "not(sel("+ent+", .canBeValid))"); m != "" {
					return m
				}
				if m := orUpdate(p, e, ab, "$v.anyCofactorless", "anyCofactorless", "sel("+ent+", .wantCofactorless)"); m != "" {
					return m
				}
				if class == "append-plain" {
					return finalIs(p, ab, "$v.anyNotExpanded", "true")
				}
				return orUpdate(p, e, ab, "$v.anyNotExpanded", "anyNotExpanded", "isnil(sel("+ent+", .expandedA))")
			},
		},
		{
			Pkg: "primitives/ed25519", Func: "(*BatchVerifier).AddExpandedWithOptions", Opaque: []string{"entry.doInit"}, MinPaths: 8,
			Abbrev: [][2]string{{"entry.doInit(nil, $publicKey, $message, $sig, $opts)", "ENTRY_X"}},
			Vars:   batchVars,
			Classify: func(p *edt.Path, out string, e *edt.Env) string {
				if f, ok := p.Final["$v.entries"]; ok && out == "" && f.String() == "cat($v.entries, entry.doInit(nil, $publicKey, $message, $sig, $opts))" {
					return "append-expanded"
				}
				return ""
			},
			Formula: map[string]func(e *edt.Env) edt.Tri{"append-expanded": always},
			Extra: func(p *edt.Path, out, class string, e *edt.Env, ab func(string) string) string {
				if m := orUpdate(p, e, ab, "$v.anyInvalid", "anyInvalid", "not(sel(ENTRY_X, .canBeValid))"); m != "" {
					return m
				}
				if m := orUpdate(p, e, ab, "$v.anyCofactorless", "anyCofactorless", "sel(ENTRY_X, .wantCofactorless)"); m != "" {
					return m
				}
				return orUpdate(p, e, ab, "$v.anyNotExpanded", "anyNotExpanded", "isnil(sel(ENTRY_X, .expandedA))")
			},
		},
		{
			Pkg: "primitives/ed25519", Func: "(*BatchVerifier).Add", Opaque: []string{"BatchVerifier.AddWithOptions"}, MinPaths: 1,
			Vars: map[string]string{},
			Classify: func(p *edt.Path, out string, e *edt.Env) string {
				if len(p.Events) == 1 && p.Events[0] == "BatchVerifier.AddWithOptions($publicKey, $message, $sig, @primitives/ed25519.optionsDefault)" {
					return "delegates"
				}
				return ""
			},
			Formula: map[string]func(e *edt.Env) edt.Tri{"delegates": always},
		},
		{
			Pkg: "primitives/ed25519", Func: "(*BatchVerifier).AddExpanded", Opaque: []string{"BatchVerifier.AddExpandedWithOptions"}, MinPaths: 1,
			Vars: map[string]string{},
			Classify: func(p *edt.Path, out string, e *edt.Env) string {
				if len(p.Events) == 1 && p.Events[0] == "BatchVerifier.AddExpandedWithOptions($publicKey, $message, $sig, @primitives/ed25519.optionsDefault)" {
					return "delegates"
				}
				return ""
			},
			Formula: map[string]func(e *edt.Env) edt.Tri{"delegates": always},
		},
		{
			// (the loop over the entries clears a field of a per-iteration copy: it has no effect and may be absent)
			Pkg: "primitives/ed25519", Func: "(*BatchVerifier).Reset", SymLoops: true, MinPaths: 1,
			Abbrev: [][2]string{{"φL0.0", "LJ"}},
			Vars:   batchVars,
			Classify: func(p *edt.Path, out string, e *edt.Env) string {
				switch {
				case strings.HasPrefix(out, "next-iteration@L0("):
					return "iterate"
				case out == "ptr($v)":
					return "done"
				}
				return ""
			},
			Formula: map[string]func(e *edt.Env) edt.Tri{
				"iterate": func(e *edt.Env) edt.Tri { return e.V("more0") },
				"done": func(e *edt.Env) edt.Tri {
					if !e.Known("more0") {
						return edt.T // no loop at all
					}
					return edt.Not(e.V("more0"))
				},
			},
			Extra: func(p *edt.Path, out, class string, e *edt.Env, ab func(string) string) string {
				if class != "done" {
					return ""
				}
				for _, f := range []string{"$v.anyInvalid", "$v.anyCofactorless", "$v.anyNotExpanded"} {
					if m := finalIs(p, ab, f, "false"); m != "" {
						return "Reset: " + m
					}
				}
				return finalIs(p, ab, "$v.entries", "slice($v.entries, _, 0)")
			},
		},
		// ---- batch-only verification: early aborts and final test -------------
		{
			Pkg: "primitives/ed25519", Func: "(*BatchVerifier).VerifyBatchOnly", SymLoops: true, MinPaths: 5,
			Abbrev: [][2]string{}, Vars: batchVars,
			Ignore: []string{"((φL", "(φL", "isnil(err(scalar128.NewGenerator", "isnil(err(Generator.SetScalarVartime("},
			Classify: func(p *edt.Path, out string, e *edt.Env) string {
				switch {
				case out == "false":
					return "abort"
				case strings.HasPrefix(out, "next-iteration@"), strings.HasPrefix(out, "panic((\"ed25519: failed to"):
					return "proceed"
				case strings.HasPrefix(out, "EdwardsPoint.IsSmallOrder(EdwardsPoint.MultiscalarMulVartime(") || strings.HasPrefix(out, "EdwardsPoint.IsSmallOrder(EdwardsPoint.ExpandedMultiscalarMulVartime("):
					return "proceed"
				}
				return ""
			},
			Formula: map[string]func(e *edt.Env) edt.Tri{
				"abort": func(e *edt.Env) edt.Tri { return edt.Or(e.V("empty"), e.V("anyInvalid"), e.V("anyCofactorless")) },
				"proceed": func(e *edt.Env) edt.Tri {
					return edt.Not(edt.Or(e.V("empty"), e.V("anyInvalid"), e.V("anyCofactorless")))
				},
			},
		},
	}
}
