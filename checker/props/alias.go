package props

import (
	"sort"
	"strings"

	"voicheck/edt"
	"voicheck/load"
	"voicheck/report"
)

// checkAliasing applies the ALIAS rule (edt/alias.go) to every function of the given
// module-relative packages that has two same-typed fixed-size pointer parameters.
// Limb-level code (internal/field, unpackedScalar) is excluded: its aliasing
// configurations are enumerated by E-RANGE / E-LIN.
func checkAliasing(rule *report.Rule, p *load.Program, pkgs []string) map[string]any {
	cfg := &edt.Config{P: p, Mod: modFor(p)}
	in := map[string]bool{}
	for _, r := range pkgs {
		in[r] = true
	}
	compared, skipped, fns := 0, 0, 0
	var skippedNames []string
	for _, fn := range p.ModuleFuncs() {
		if fn.Pkg == nil || len(fn.Blocks) == 0 || fn.Parent() != nil || fn.Synthetic != "" {
			continue
		}
		if !in[load.Rel(fn.Pkg.Pkg)] {
			continue
		}
		name := load.FuncName(fn)
		if strings.Contains(name, "unpackedScalar") || strings.Contains(name, "$") || strings.HasSuffix(name, ".init") {
			continue
		}
		r := edt.CheckAlias(cfg, fn)
		if r.Pairs == 0 {
			continue
		}
		fns++
		compared += r.Compared
		skipped += r.Skipped
		switch {
		case r.Failure != "":
			rule.Fail(p.Pos(fn.Pos()), name, r.Failure, nil)
		case r.Compared > 0:
			rule.OKN(name, r.Compared)
		default:
			skippedNames = append(skippedNames, name)
		}
	}
	sort.Strings(skippedNames)
	return map[string]any{"functions with aliasable parameter pairs": fns, "pairs compared": compared, "pairs not comparable (both written / walker gave up)": skipped, "functions without a comparable pair": skippedNames}
}
