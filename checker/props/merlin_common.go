package props

// merlinWrites: the Merlin transcript operations absorb their label and data
// arguments without modifying them (STROBE AD / meta-AD leave the caller's
// buffer untouched; only PRF/KEY style operations write, into dest). The
// may-write summary cannot see this because strobe.duplex writes its buffer
// under mode flags these callers pass as constants.  C13 checks the framing of
// these operations themselves.
var merlinWrites = map[string][]int{
	"Transcript.AppendMessage":                   {0},
	"Transcript.ExtractBytes":                    {0, 1},
	"TranscriptRngBuilder.RekeyWithWitnessBytes": {0},
	"SigningTranscript.commitBytes":              {0},
	"SigningTranscript.commitPoint":              {0},
	"SigningTranscript.protoName":                {0},
	"SigningTranscript.challengeBytes":           {0, 1},
	"sr25519.deriveVerifyChallengeScalar":        {},
	"SigningTranscript.challengeScalar":          {0},
}
