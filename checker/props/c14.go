package props

import (
	"regexp"
	"strings"

	"voicheck/econst"
	"voicheck/edt"
)

// C14 — hash to curve (RFC 9380 §5.3 expand_message, §6.8 suites) structure.

// the strxor scratch buffer: a fresh []byte written by the inner loop (its creation ordinal is irrelevant)
var xorBufRE = regexp.MustCompile(`havoc@L1\(M<\[\]byte>#\d+\)`)

func c14Specs() []*edt.Spec {
	const (
		HN     = "Hash.New($hFunc)"
		LIB0   = "agg([0]=(byte((len($out) >> 8))), [1]=(byte(len($out))), [2]=(0))" // I2OSP(len_in_bytes, 2) ‖ I2OSP(0, 1)
		ZPAD   = "zeros(hash.Hash.BlockSize(" + HN + "))"                            // Z_pad = r_in_bytes zero bytes
		DSTBIG = "Sum(H(" + HN + ", @primitives/h2c.oversizeDST, $domainSeparator))" // H("H2C-OVERSIZE-DST-" ‖ DST)
	)
	dst := func(e *edt.Env) (string, string) {
		if e.V("dstOversize") == edt.T {
			return DSTBIG, "agg([0]=(byte(len(" + DSTBIG + "))))"
		}
		return "$domainSeparator", "agg([0]=(byte(len($domainSeparator))))"
	}
	b0 := func(e *edt.Env) string {
		d, dl := dst(e)
		return "Sum(H(" + HN + ", " + ZPAD + ", $message, " + LIB0 + ", " + d + ", " + dl + "))"
	}
	b1 := func(e *edt.Env) string {
		d, dl := dst(e)
		return "Sum(H(" + HN + ", " + b0(e) + ", agg([0]=(1)), " + d + ", " + dl + "))"
	}
	abort := func(e *edt.Env) edt.Tri {
		return edt.Or(e.V("digestTooSmall"), e.V("outZero"), e.V("outTooLong"), e.V("ellTooBig"))
	}
	xofAbort := func(e *edt.Env) edt.Tri { return edt.Or(e.V("outZero"), e.V("outTooLong")) }
	return []*edt.Spec{
		{
			Pkg: "primitives/h2c", Func: "ExpandMessageXMD", SymLoops: true, MinPaths: 12,
			Vars: map[string]string{
				"(Hash.Size($hFunc) < 32)":      "digestTooSmall", // b_in_bytes must be at least 2k/8 = 32
				"(len($out) == 0)":              "outZero",
				"(65535 < len($out))":           "outTooLong",
				"(255 < len($domainSeparator))": "dstOversize",
				"(255 < (((Hash.Size($hFunc) + len($out)) - 1) / Hash.Size($hFunc)))": "ellTooBig", // ell = ceil(len/b) > 255
				"(Hash.Size($hFunc) < len($out))":                                     "needMore",
				"(0 < φL0.2)":                                                         "wantMore",
				"(Hash.Size($hFunc) < φL0.2)":                                         "fullChunk",
			},
			Ignore: []string{"(φL1.0 < len("},
			Classify: func(p *edt.Path, out string, e *edt.Env) string {
				switch {
				case strings.HasPrefix(out, "err(fmt.Errorf("):
					return "abort"
				case out == "nil" && e.V("needMore") == edt.F:
					return "one-block"
				case out == "nil":
					return "done"
				case strings.HasPrefix(out, "next-iteration@L1("):
					return "iteration" // inner strxor loop
				case strings.HasPrefix(out, "next-iteration@L0("):
					return "iteration" // one block b_i
				}
				return ""
			},
			Formula: map[string]func(e *edt.Env) edt.Tri{
				"abort":     abort,
				"one-block": func(e *edt.Env) edt.Tri { return edt.And(edt.Not(abort(e)), edt.Not(e.V("needMore"))) },
				"done":      func(e *edt.Env) edt.Tri { return edt.And(edt.Not(abort(e)), e.V("needMore"), edt.Not(e.V("wantMore"))) },
				"iteration": func(e *edt.Env) edt.Tri { return edt.And(edt.Not(abort(e)), e.V("needMore"), e.V("wantMore")) },
			},
			Extra: func(p *edt.Path, out, class string, e *edt.Env, ab func(string) string) string {
				hasEvent := func(s string) bool {
					for _, ev := range p.Events {
						if ev == s {
							return true
						}
					}
					return false
				}
				switch class {
				case "one-block":
					// uniform_bytes = b_1[0:len_in_bytes], b_0 and b_1 exactly as RFC 9380 §5.3.1
					return finalIs(p, ab, "$out", "slice("+b1(e)+", _, len($out))")
				case "iteration", "done":
					if !hasEvent(b0(e)) || !hasEvent(b1(e)) {
						return "b_0 / b_1 are not hashed as RFC 9380 §5.3.1 (Z_pad ‖ msg ‖ I2OSP(len,2) ‖ 0 ‖ DST' ; b_0 ‖ 1 ‖ DST')"
					}
					if !hasEvent("loop L0: φL0.1 starts as 2") {
						return "the block counter must start at 2"
					}
					if strings.HasPrefix(out, "next-iteration@L0(") {
						d, dl := dst(e)
						want := "sel(sumIntoCap-1(Sum(H(" + HN + ", havoc@L1(xorbuf), agg([0]=(byte(φL0.1))), " + d + ", " + dl + "))), "
						got := ""
						for k, f := range p.Final {
							if strings.HasPrefix(k, "$out[φL0.0:") {
								got = f.String()
							}
						}
						got = xorBufRE.ReplaceAllString(got, "havoc@L1(xorbuf)")
						if !strings.HasPrefix(got, want) {
							return "block b_i must be H(strxor(b_0, b_(i-1)) ‖ I2OSP(i,1) ‖ DST') appended at the running offset: got " + clip(got, 260)
						}
						wantLen := "[0:Hash.Size($hFunc)])"
						if e.V("fullChunk") == edt.F {
							wantLen = "[0:φL0.2])"
						}
						if !strings.HasSuffix(got, wantLen) {
							return "the number of bytes taken from the last block is wrong: " + clip(got[len(got)-40:], 60)
						}
					}
				}
				return ""
			},
		},
		{
			Pkg: "primitives/h2c", Func: "ExpandMessageXOF", MinPaths: 4,
			Vars:         map[string]string{"(len($out) == 0)": "outZero", "(65535 < len($out))": "outTooLong", "(255 < len($domainSeparator))": "dstOversize"},
			AssumePrefix: map[string]edt.Assumption{"isnil(err(io.ReadFull(": {Val: true, Why: "reading from a SHAKE XOF cannot fail"}},
			Classify: func(p *edt.Path, out string, e *edt.Env) string {
				switch {
				case strings.HasPrefix(out, "err(fmt.Errorf(\"h2c: len_in_bytes"):
					return "abort"
				case out == "nil":
					return "expanded"
				}
				return ""
			},
			Formula: map[string]func(e *edt.Env) edt.Tri{
				"abort":    xofAbort,
				"expanded": func(e *edt.Env) edt.Tri { return edt.Not(xofAbort(e)) },
			},
			Extra: func(p *edt.Path, out, class string, e *edt.Env, ab func(string) string) string {
				if class != "expanded" {
					return ""
				}
				// msg ‖ I2OSP(len_in_bytes, 2) ‖ DST' ‖ I2OSP(len(DST'), 1) squeezed into out
				lib := "agg([0]=(byte((len($out) >> 8))), [1]=(byte(len($out))))"
				// the two XOF instances (main, DST shortening) are numbered in creation order: either order is fine
				c1, c2 := "fresh(sha3.ShakeHash.Clone)", "fresh(sha3.ShakeHash.Clone(sha3.ShakeHash.Clone))"
				for _, cl := range [][2]string{{c1, c2}, {c2, c1}} {
					mainX, dstX := cl[0], cl[1]
					tail := "$domainSeparator, agg([0]=(byte(len($domainSeparator))))), $out)"
					if e.V("dstOversize") == edt.T {
						tail = "out1(io.ReadFull(H(" + dstX + ", @primitives/h2c.oversizeDST, $domainSeparator), zero)), agg([0]=(32))), $out)"
					} else if mainX != c1 {
						continue // a single instance is the first one
					}
					for _, ev := range p.Events {
						if strings.HasPrefix(ev, "io.ReadFull(H("+mainX+", $message, "+lib+", ") && strings.HasSuffix(ev, tail) {
							return ""
						}
					}
				}
				return "a FRESH (cloned and reset) XOF must absorb msg ‖ I2OSP(len,2) ‖ DST' ‖ I2OSP(len(DST'),1) before len_in_bytes bytes are squeezed (and the over-long DST is shortened with a fresh XOF as well)"
			},
		},
		// suites: hash_to_curve = clear_cofactor(map(u0) + map(u1)); encode_to_curve = clear_cofactor(map(u)); cofactor clearing is the LAST operation
		termSpec("primitives/h2c", "hashToCurve", []string{"h2c.uniformToField25519"},
			"&new(EdwardsPoint.MulByCofactor(EdwardsPoint.Add(elligator.EdwardsFlavor(h2c.uniformToField25519($uniformBytes[0:48])), elligator.EdwardsFlavor(h2c.uniformToField25519($uniformBytes[48:])))))"),
		termSpec("primitives/h2c", "encodeToCurve", []string{"h2c.uniformToField25519"},
			"&new(EdwardsPoint.MulByCofactor(elligator.EdwardsFlavor(h2c.uniformToField25519($uniformBytes))))"),
		{
			// OS2IP over 48 big-endian bytes reduced mod p: reverse, zero-extend to 64, wide reduction
			Pkg: "primitives/h2c", Func: "uniformToField25519", Opaque: []string{"h2c.reversedByteSlice"}, MinPaths: 2,
			Vars:         map[string]string{"(len($b) == 48)": "len48"},
			AssumePrefix: map[string]edt.Assumption{"isnil(err(Element.SetBytesWide(": {Val: true, Why: "64-byte array argument"}},
			Classify: func(p *edt.Path, out string, e *edt.Env) string {
				switch {
				case strings.HasPrefix(out, "panic(\"h2c: invalid uniform bytes length\")"):
					return "panic-len"
				case out == "&new(Element.SetBytesWide(h2c.reversedByteSlice($b)))":
					return "reduced"
				}
				return ""
			},
			Formula: map[string]func(e *edt.Env) edt.Tri{
				"panic-len": func(e *edt.Env) edt.Tri { return edt.Not(e.V("len48")) },
				"reduced":   func(e *edt.Env) edt.Tri { return e.V("len48") },
			},
		},
	}
}

// h2cSuiteSpecs: every exported suite obtains its uniform bytes from expand_message_xmd / _xof
// applied to the caller's DST and message unchanged (so the RFC 9380 §5.3 handling — abort
// conditions, over-long DST replacement — is the one decided above, not a private copy) and maps
// them with the construction its name states: _NU = encode_to_curve (one 48-byte field element),
// _RO = hash_to_curve (two), R255MAP = ristretto255 one-way map of 64 bytes; or it delegates to
// another exported suite of the same kind with only the hash fixed.
func h2cSuiteSpecs() []*edt.Spec {
	type suite struct{ name, expand, mapper, hash string }
	suites := []suite{
		{"Edwards25519_XMD_SHA512_ELL2_RO", "", "h2c.Edwards25519_XMD_ELL2_RO", "7"},
		{"Edwards25519_XMD_SHA512_ELL2_NU", "", "h2c.Edwards25519_XMD_ELL2_NU", "7"},
		{"Edwards25519_XMD_ELL2_RO", "h2c.ExpandMessageXMD", "h2c.hashToCurve", "$hFunc"},
		{"Edwards25519_XMD_ELL2_NU", "h2c.ExpandMessageXMD", "h2c.encodeToCurve", "$hFunc"},
		{"Edwards25519_XOF_ELL2_RO", "h2c.ExpandMessageXOF", "h2c.hashToCurve", "$xofFunc"},
		{"Edwards25519_XOF_ELL2_NU", "h2c.ExpandMessageXOF", "h2c.encodeToCurve", "$xofFunc"},
		{"Ristretto255_XMD_R255MAP_RO", "h2c.ExpandMessageXMD", "RistrettoPoint.SetUniformBytes", "$hFunc"},
		{"Ristretto255_XOF_R255MAP_RO", "h2c.ExpandMessageXOF", "RistrettoPoint.SetUniformBytes", "$xofFunc"},
	}
	opaque := []string{"h2c.ExpandMessageXMD", "h2c.ExpandMessageXOF", "h2c.hashToCurve", "h2c.encodeToCurve", "RistrettoPoint.SetUniformBytes"}
	for _, su := range suites {
		opaque = append(opaque, "h2c."+su.name)
	}
	var out []*edt.Spec
	for _, su := range suites {
		su := su
		var op []string
		for _, o := range opaque {
			if o != "h2c."+su.name {
				op = append(op, o)
			}
		}
		sp := &edt.Spec{Pkg: "primitives/h2c", Func: su.name, Opaque: op, MinPaths: 1}
		if su.expand == "" {
			// delegation: the generic suite with SHA-512 (crypto.SHA512 = 7), arguments handed on unchanged
			call := su.mapper + "(" + su.hash + ", $domainSeparator, $message)"
			sp.Classify = func(p *edt.Path, out string, e *edt.Env) string {
				if out == "res0("+call+") ; err("+call+")" {
					return "delegates"
				}
				return ""
			}
			sp.Formula = map[string]func(e *edt.Env) edt.Tri{"delegates": func(e *edt.Env) edt.Tri { return edt.T }}
		} else {
			exp := su.expand + "(" + su.hash + ", $domainSeparator, $message)"
			sp.MinPaths = 2
			sp.Vars = map[string]string{"isnil(err(" + exp + "))": "expandOK"}
			okOut := su.mapper + "(" + exp + ") ; nil"
			if su.mapper == "RistrettoPoint.SetUniformBytes" {
				okOut = "&new(" + su.mapper + "(" + exp + ")) ; err(" + su.mapper + "(" + exp + "))"
			}
			sp.Classify = func(p *edt.Path, out string, e *edt.Env) string {
				switch {
				case out == okOut:
					return "mapped"
				case strings.HasPrefix(out, "nil ; err(fmt.Errorf(") && strings.Contains(out, "err("+exp+")"):
					return "expand-error"
				}
				return ""
			}
			sp.Formula = map[string]func(e *edt.Env) edt.Tri{
				"mapped":       func(e *edt.Env) edt.Tri { return e.V("expandOK") },
				"expand-error": func(e *edt.Env) edt.Tri { return edt.Not(e.V("expandOK")) },
			}
		}
		out = append(out, sp)
	}
	return out
}

func init() {
	Registry["C14"] = func(c *Ctx) {
		run := c.Run
		run.Explanation = "E-DT/E-SEQ + E-CONST: expand_message_xmd / expand_message_xof are extracted (loops as single symbolic iterations) and compared with RFC 9380 §5.3: the abort conditions (digest below 32 bytes, zero or over-long output, ell > 255; XOF: zero or over-long output; an over-long DST is hashed, never rejected), b_0 = H(Z_pad(r_in_bytes) ‖ msg ‖ I2OSP(len,2) ‖ 0 ‖ DST'), b_1 = H(b_0 ‖ 1 ‖ DST'), b_i = H(strxor ‖ I2OSP(i,1) ‖ DST') with the counter starting at 2 and the last block truncated; XOF message msg ‖ I2OSP(len,2) ‖ DST' ‖ I2OSP(len DST',1); suites: 48-byte chunks [0:48],[48:96], reversal and wide reduction, hash_to_curve = cofactor·(map(u0)+map(u1)), encode_to_curve = cofactor·map(u) with cofactor clearing last; Elligator constants by value in both radices."
		run.NotDecided = []string{"equality with RFC 9380 outputs", "numeric correctness of the Elligator map and of the strxor chain across iterations (one symbolic iteration is checked)"}
		run.Exhaustive = true
		if !c.Preload(c.Configs()...) {
			return
		}
		dt := run.Rule("DT-h2c", "message expansion and the suites have exactly the RFC 9380 decision and sequence structure", 20)
		for _, id := range c.Configs() {
			p := c.Prog(id)
			run.SetConfig(id)
			if id == c.Configs()[0] {
				cfg := &edt.Config{P: p, Mod: modFor(p)}
				for _, s := range append(c14Specs(), h2cSuiteSpecs()...) {
					r := edt.Check(dt, cfg, s)
					run.Sample(map[string]any{"function": s.Func, "paths": r.Paths, "feasible": r.Feasible, "classes": r.ClassCount})
				}
				errRulesFor(run, p, "primitives/h2c")
			}
			var names []string
			for _, n := range econst.Names() {
				if strings.HasPrefix(n, "internal/elligator.") {
					names = append(names, n)
				}
			}
			econst.CheckNamed(run, p, "CONST", names...)
		}
		arithmeticFoundations(c)
		groupFoundations(c, true)
		ownershipRules(c) // inputs (messages, tags) are not modified or kept
		readFullRule(c)
		{
			id := c.Configs()[0]
			run.SetConfig(id)
			run.Sample(checkLoopNarrow(c.Prog(id), run.Rule("LOOP-narrow", "no up-counted 8/16-bit loop counter is tested with an inclusive bound that can be the largest value of its type (expand_message counts blocks in one octet)", 1).RequireControl(1)))
		}
	}
}
