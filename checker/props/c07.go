package props

import (
	"fmt"
	"sort"
	"strings"

	"voicheck/econst"
	"voicheck/edt"
	"voicheck/elin"
	"voicheck/erange"
	"voicheck/esib"
)

// C07 — X25519 (RFC 7748): entry-point decision table, clamping, ladder
// structure and the differential addition formula, conversions.

// clampOf checks extensionally (all 256 byte values) that `t` is
// upd(base, [0]=b0&248, [31]=(b31&127)|64) and nothing else.
func clampOf(t *edt.Term, base, byte0, byte31 string) string {
	if t == nil || t.Op != "upd" || len(t.Args) != 3 || t.Args[0].String() != base {
		s := "<nil>"
		if t != nil {
			s = t.String()
		}
		return "the scalar is not the input with exactly bytes 0 and 31 modified: " + clip(s, 200)
	}
	b0, b31 := t.Sub("[0]"), t.Sub("[31]")
	if b0 == nil || b31 == nil {
		return "clamping does not modify exactly bytes 0 and 31: " + clip(t.String(), 200)
	}
	f0, ok0 := edt.ByteFunction(b0, byte0)
	f31, ok31 := edt.ByteFunction(b31, byte31)
	if !ok0 || !ok31 {
		return "clamping is not a bit-mask function of the input byte: " + clip(t.String(), 200)
	}
	for b := 0; b < 256; b++ {
		if f0[b] != byte(b)&248 {
			return fmt.Sprintf("clamp of byte 0 maps %#x to %#x, RFC 7748 requires %#x (clear the lowest three bits)", b, f0[b], byte(b)&248)
		}
		if f31[b] != (byte(b)&127)|64 {
			return fmt.Sprintf("clamp of byte 31 maps %#x to %#x, RFC 7748 requires %#x (clear bit 255, set bit 254)", b, f31[b], (byte(b)&127)|64)
		}
	}
	return ""
}

// firstArgOf finds the first sub-term with the given operator.
func findOp(t *edt.Term, op string) *edt.Term {
	if t == nil {
		return nil
	}
	if t.Op == op {
		return t
	}
	for _, a := range t.Args {
		if r := findOp(a, op); r != nil {
			return r
		}
	}
	return nil
}

func c07Specs() []*edt.Spec {
	const (
		x0 = "havoc@L0(A<curve.montgomeryProjectivePoint>#0)"
		x1 = "havoc@L0(A<curve.montgomeryProjectivePoint>#1)"
		// RFC 7748 §5 with A = x2+z2, B = x2-z2, C = x3+z3, D = x3-z3, E = AA-BB
		A  = "Element.Add($P.U, $P.W)"
		B  = "Element.Sub($P.U, $P.W)"
		C  = "Element.Add($Q.U, $Q.W)"
		D  = "Element.Sub($Q.U, $Q.W)"
		AA = "Element.Square(" + A + ")"
		BB = "Element.Square(" + B + ")"
		E  = "Element.Sub(" + AA + ", " + BB + ")"
		DA = "Element.Mul(" + A + ", " + D + ")"
		CB = "Element.Mul(" + B + ", " + C + ")"
	)
	scalarOK := func(fn string) func(p *edt.Path, out, class string, e *edt.Env, ab func(string) string) string {
		return func(p *edt.Path, out, class string, e *edt.Env, ab func(string) string) string {
			if class != "computed" {
				return ""
			}
			f := p.Final["$dst"]
			sb := findOp(f, "Scalar.SetBits")
			if sb == nil || len(sb.Args) == 0 {
				return fn + ": the scalar is not decoded with SetBits (all 255 bits, no reduction)"
			}
			if m := clampOf(sb.Args[len(sb.Args)-1], "$in", "$in[0]", "$in[31]"); m != "" {
				return m
			}
			if _, w := p.Final["$in"]; w {
				return "the caller's scalar is written (clamping must work on a copy)"
			}
			if _, w := p.Final["$base"]; w {
				return "the caller's point is written"
			}
			return ""
		}
	}
	return []*edt.Spec{
		func() *edt.Spec {
			// checkBasepoint panics exactly when the CURRENT bytes of the exported Basepoint slice differ from
			// {9, 0, ..., 0}: the fixed-base shortcut is only taken for the generator (no identity shortcut:
			// the slice aliases the package's array precisely when a caller has scribbled over it in place)
			var keys []string
			for i := 0; i < 32; i++ {
				keys = append(keys, fmt.Sprintf("[%d]", i))
			}
			sort.Strings(keys)
			var parts []string
			for _, k := range keys {
				v := "0"
				if k == "[0]" {
					v = "9"
				}
				parts = append(parts, k+"=("+v+")")
			}
			atom := "(subtle.ConstantTimeCompare(@primitives/x25519.Basepoint, agg(" + strings.Join(parts, ", ") + ")) == 1)"
			return &edt.Spec{
				Pkg: "primitives/x25519", Func: "checkBasepoint", MinPaths: 2,
				Vars: map[string]string{atom: "isNine"},
				Classify: func(p *edt.Path, out string, e *edt.Env) string {
					switch {
					case p.Panic != nil:
						return "panic"
					case out == "":
						return "ok"
					}
					return ""
				},
				Formula: map[string]func(e *edt.Env) edt.Tri{
					"ok":    func(e *edt.Env) edt.Tri { return e.V("isNine") },
					"panic": func(e *edt.Env) edt.Tri { return edt.Not(e.V("isNine")) },
				},
			}
		}(),
		{
			// the checked entry point: error exactly for a wrong length or an all-zero result of the variable-base path
			Pkg: "primitives/x25519", Func: "x25519", Opaque: []string{"x25519.ScalarMult", "x25519.ScalarBaseMult", "x25519.checkBasepoint"}, MinPaths: 5,
			Vars: map[string]string{
				"(len($scalar) == 32)": "scalarLen32", "(len($point) == 32)": "pointLen32",
				"(ptr($point[0]) == ptr(@primitives/x25519.Basepoint[0]))":                    "isBasepointSlice",
				"(subtle.ConstantTimeCompare(x25519.ScalarMult($scalar, $point), zero) == 1)": "resultAllZero",
			},
			Classify: func(p *edt.Path, out string, e *edt.Env) string {
				switch {
				case strings.HasPrefix(out, "nil ; err(fmt.Errorf("):
					return "error"
				case out == "ptr($dst) ; nil":
					return "result"
				}
				return ""
			},
			Formula: map[string]func(e *edt.Env) edt.Tri{
				"error": func(e *edt.Env) edt.Tri {
					return edt.Or(edt.Not(e.V("scalarLen32")), edt.Not(e.V("pointLen32")), edt.And(edt.Not(e.V("isBasepointSlice")), e.V("resultAllZero")))
				},
				"result": func(e *edt.Env) edt.Tri {
					return edt.And(e.V("scalarLen32"), e.V("pointLen32"), edt.Or(e.V("isBasepointSlice"), edt.Not(e.V("resultAllZero"))))
				},
			},
			Extra: func(p *edt.Path, out, class string, e *edt.Env, ab func(string) string) string {
				if class != "result" {
					return ""
				}
				want := "x25519.ScalarMult($scalar, $point)"
				if e.V("isBasepointSlice") == edt.T {
					want = "x25519.ScalarBaseMult($scalar)"
					if len(p.Events) == 0 || p.Events[0] != "x25519.checkBasepoint" {
						return "the fixed-base shortcut must first check that the exported Basepoint still holds 9"
					}
				}
				if m := finalIs(p, ab, "$dst", want); m != "" {
					return m
				}
				for _, k := range []string{"$scalar", "$point"} {
					if _, w := p.Final[k]; w {
						return "the caller's " + k[1:] + " is written"
					}
				}
				return ""
			},
		},
		termSpec("primitives/x25519", "X25519", []string{"x25519.x25519"}, "&new(x25519.x25519($scalar, $point)) ; err(x25519.x25519($scalar, $point))"),
		{
			// X25519(k, u) = ladder(decodeScalar25519(k), decodeUCoordinate(u))
			Pkg: "primitives/x25519", Func: "ScalarMult", Opaque: []string{"MontgomeryPoint.Mul", "MontgomeryPoint.SetBytes", "Scalar.SetBits"}, MinPaths: 1,
			Vars: map[string]string{},
			AssumePrefix: map[string]edt.Assumption{
				"isnil(err(Scalar.SetBits(":           {Val: true, Why: "32-byte array argument"},
				"isnil(err(MontgomeryPoint.SetBytes(": {Val: true, Why: "32-byte array argument"},
			},
			Classify: func(p *edt.Path, out string, e *edt.Env) string {
				f, ok := p.Final["$dst"]
				if out == "" && ok && strings.HasPrefix(f.String(), "MontgomeryPoint.Mul(MontgomeryPoint.SetBytes($base), Scalar.SetBits(") {
					return "computed"
				}
				return ""
			},
			Formula: map[string]func(e *edt.Env) edt.Tri{"computed": always},
			Extra:   scalarOK("ScalarMult"),
		},
		{
			// fixed base: the Edwards base-point table with the same clamped scalar, mapped to the u-coordinate
			Pkg: "primitives/x25519", Func: "ScalarBaseMult", Opaque: []string{"EdwardsPoint.MulBasepoint", "MontgomeryPoint.SetEdwards", "Scalar.SetBits"}, MinPaths: 1,
			Vars:         map[string]string{},
			AssumePrefix: map[string]edt.Assumption{"isnil(err(Scalar.SetBits(": {Val: true, Why: "32-byte array argument"}},
			Classify: func(p *edt.Path, out string, e *edt.Env) string {
				f, ok := p.Final["$dst"]
				if out == "" && ok && strings.HasPrefix(f.String(), "MontgomeryPoint.SetEdwards(EdwardsPoint.MulBasepoint(@curve.ED25519_BASEPOINT_TABLE, Scalar.SetBits(") {
					return "computed"
				}
				return ""
			},
			Formula: map[string]func(e *edt.Env) edt.Tri{"computed": always},
			Extra:   scalarOK("ScalarBaseMult"),
		},
		termSpec("primitives/x25519", "(*PrivateKey).Public", []string{"x25519.ScalarBaseMult"}, "&new(x25519.ScalarBaseMult($priv))"),
		termSpec("primitives/x25519", "(*PrivateKey).DiffieHellman", []string{"x25519.ScalarMult"}, "&new(x25519.ScalarMult($priv, $pub))"),
		termSpec("primitives/x25519", "(*SharedSecret).IsZero", nil, "(subtle.ConstantTimeCompare($ss, zero) == 1)"),
		{
			// Ed25519 -> X25519 private key: clamp(SHA-512(seed)[0:32])
			Pkg: "primitives/x25519", Func: "EdPrivateKeyToX25519", MinPaths: 1, Vars: map[string]string{},
			Classify: func(p *edt.Path, out string, e *edt.Env) string {
				if out == "&new(Sum(H(sha512.New, $privateKey[0:32])))" {
					return "converted"
				}
				return ""
			},
			Formula: map[string]func(e *edt.Env) edt.Tri{"converted": always},
			Extra: func(p *edt.Path, out, class string, e *edt.Env, ab func(string) string) string {
				const d = "Sum(H(sha512.New, $privateKey[0:32]))"
				b0, b31 := p.Final[d+"[0]"], p.Final[d+"[31]"]
				if b0 == nil || b31 == nil {
					return "the digest is not clamped at bytes 0 and 31"
				}
				f0, ok0 := edt.ByteFunction(b0, d+"[0]")
				f31, ok31 := edt.ByteFunction(b31, d+"[31]")
				if !ok0 || !ok31 {
					return "clamping is not a bit-mask function of the digest byte"
				}
				for b := 0; b < 256; b++ {
					if f0[b] != byte(b)&248 || f31[b] != (byte(b)&127)|64 {
						return fmt.Sprintf("clamp maps byte value %#x to (%#x, %#x); RFC 7748 requires (%#x, %#x)", b, f0[b], f31[b], byte(b)&248, (byte(b)&127)|64)
					}
				}
				for k := range p.Final {
					if strings.HasPrefix(k, d+"[") && k != d+"[0]" && k != d+"[31]" {
						return "another digest byte is modified: " + k
					}
				}
				if _, w := p.Final["$privateKey"]; w {
					return "the caller's key is written"
				}
				return ""
			},
		},
		{
			// Ed25519 -> X25519 public key: fails exactly when the key does not decode; u = (Z+Y)/(Z-Y) of the decoded point
			Pkg: "primitives/x25519", Func: "EdPublicKeyToX25519", Opaque: []string{"CompressedEdwardsY.SetBytes", "EdwardsPoint.SetCompressedY", "MontgomeryPoint.SetEdwards"}, MinPaths: 3,
			Vars: map[string]string{
				"isnil(err(CompressedEdwardsY.SetBytes($publicKey)))":                              "lenOK",
				"isnil(err(EdwardsPoint.SetCompressedY(CompressedEdwardsY.SetBytes($publicKey))))": "decodes",
			},
			Classify: func(p *edt.Path, out string, e *edt.Env) string {
				switch out {
				case "nil ; false":
					return "rejected"
				case "&new(MontgomeryPoint.SetEdwards(EdwardsPoint.SetCompressedY(CompressedEdwardsY.SetBytes($publicKey)))) ; true":
					return "converted"
				}
				return ""
			},
			Formula: map[string]func(e *edt.Env) edt.Tri{
				"rejected":  func(e *edt.Env) edt.Tri { return edt.Not(edt.And(e.V("lenOK"), e.V("decodes"))) },
				"converted": func(e *edt.Env) edt.Tri { return edt.And(e.V("lenOK"), e.V("decodes")) },
			},
		},
		// ---- the ladder (curve/montgomery.go) ----------------------------------------------------------
		{
			Pkg: "curve", Func: "(*MontgomeryPoint).Mul", SymLoops: true, MinPaths: 2,
			Opaque: []string{"curve.montgomeryDifferentialAddAndDouble", "montgomeryProjectivePoint.conditionalSwap", "MontgomeryPoint.fromProjective", "Scalar.Bits"},
			Vars:   map[string]string{"(φL0.0 < 0)": "done"},
			Classify: func(p *edt.Path, out string, e *edt.Env) string {
				switch {
				case out == "next-iteration@L0((φL0.0 - 1))":
					return "step"
				case out == "ptr($p)":
					return "finish"
				}
				return ""
			},
			Formula: map[string]func(e *edt.Env) edt.Tri{
				"step":   func(e *edt.Env) edt.Tri { return edt.Not(e.V("done")) },
				"finish": func(e *edt.Env) edt.Tri { return e.V("done") },
			},
			Extra: func(p *edt.Path, out, class string, e *edt.Env, ab func(string) string) string {
				// initialisation (order-free): x0 = (1 : 0), x1 = (u : 1), u decoded from the input point, from bit 254 down
				need := map[string]bool{
					"loop L0: A<curve.montgomeryProjectivePoint>#0 enters as agg(.U=(Element.One), .W=(Element.Zero))":                          false,
					"loop L0: A<curve.montgomeryProjectivePoint>#1 enters as agg(.U=(Element.Set(Element.SetBytes($point))), .W=(Element.One))": false,
					"loop L0: φL0.0 starts as 254": false,
				}
				var rest []string
				for _, ev := range p.Events {
					if _, ok := need[ev]; ok {
						need[ev] = true
					}
					if strings.HasPrefix(ev, "montgomeryProjectivePoint.conditionalSwap(") || strings.HasPrefix(ev, "curve.montgomeryDifferentialAddAndDouble(") || strings.HasPrefix(ev, "MontgomeryPoint.fromProjective(") {
						rest = append(rest, ev)
					}
				}
				for ev, ok := range need {
					if !ok {
						return "ladder initialisation differs (want x0 = identity, x1 = (u, 1), scalar bits from bit 254 down): missing «" + ev + "»"
					}
				}
				const bits = "Scalar.Bits($scalar)"
				if class == "step" {
					swap := "montgomeryProjectivePoint.conditionalSwap(" + x0 + ", " + x1 + ", (sel(" + bits + ", [(φL0.0 + 1)]) ^ sel(" + bits + ", [φL0.0])))"
					dad := "curve.montgomeryDifferentialAddAndDouble(" + swap + ", out1(" + swap + "), Element.SetBytes($point))"
					if len(rest) != 2 || rest[0] != swap || rest[1] != dad {
						return "a ladder step must be swap(x0, x1, bit[i+1] ^ bit[i]) followed by the differential add-and-double of (x0, x1) with the affine input u: got " + clip(strings.Join(rest, " ; "), 400)
					}
					return ""
				}
				swap := "montgomeryProjectivePoint.conditionalSwap(" + x0 + ", " + x1 + ", sel(" + bits + ", [0]))"
				fin := "MontgomeryPoint.fromProjective(" + swap + ")"
				if len(rest) != 2 || rest[0] != swap || rest[1] != fin {
					return "the ladder must finish with swap(x0, x1, bit[0]) and return x0 in affine form: got " + clip(strings.Join(rest, " ; "), 400)
				}
				return finalIs(p, ab, "$p", fin)
			},
		},
		{
			// RFC 7748 §5 ladder step: x3 = (DA+CB)², z3 = x1·(DA−CB)², x2 = AA·BB, z2 = E·(BB + 121666·E)  [= E·(AA + a24·E)]
			Pkg: "curve", Func: "montgomeryDifferentialAddAndDouble", MinPaths: 1, Vars: map[string]string{},
			Classify: func(p *edt.Path, out string, e *edt.Env) string { return "formula" },
			Formula:  map[string]func(e *edt.Env) edt.Tri{"formula": always},
			Extra: func(p *edt.Path, out, class string, e *edt.Env, ab func(string) string) string {
				sq := func(x string) string { return "Element.Square(" + x + ", " + x + ")" } // squared in place
				want := map[string]string{
					"$Q.U": sq("Element.Add(" + DA + ", " + CB + ")"),
					"$Q.W": "Element.Mul($affine_PmQ, " + sq("Element.Sub("+DA+", "+CB+")") + ")",
					"$P.U": "Element.Mul(" + AA + ", " + BB + ")",
					"$P.W": "Element.Mul(" + E + ", Element.Add(Element.Mul121666(" + E + "), " + BB + "))",
				}
				for k, w := range want {
					f, ok := p.Final[k]
					if !ok {
						return k + " is not written"
					}
					if normComm(f.String()) != normComm(w) {
						return fmt.Sprintf("%s differs from the RFC 7748 ladder step: got %s, want %s", k, clip(f.String(), 300), clip(w, 300))
					}
				}
				if _, w := p.Final["$affine_PmQ"]; w {
					return "the affine difference is written"
				}
				return ""
			},
		},
		termSpec2("curve", "(*MontgomeryPoint).fromProjective", nil, "ptr($p)", map[string]string{"$p": "out1(Element.ToBytes(Element.Mul($pp.U, Element.Invert($pp.W)), $p))"}),
		termSpec2("curve", "(*MontgomeryPoint).SetEdwards", nil, "ptr($p)", map[string]string{"$p": "out1(Element.ToBytes(Element.Mul(Element.Add($edwardsPoint.inner.Y, $edwardsPoint.inner.Z), Element.Invert(Element.Sub($edwardsPoint.inner.Z, $edwardsPoint.inner.Y))), $p))"}),
		optional(termSpec2("curve", "(*montgomeryProjectivePoint).identity", nil, "ptr($p)", map[string]string{"$p.U": "Element.One", "$p.W": "Element.Zero"})),
		termSpec2("curve", "(*montgomeryProjectivePoint).conditionalSwap", nil, "", map[string]string{
			"$p.U": "Element.ConditionalSwap($p.U, $other.U, $choice)", "$other.U": "out1(Element.ConditionalSwap($p.U, $other.U, $choice))",
			"$p.W": "Element.ConditionalSwap($p.W, $other.W, $choice)", "$other.W": "out1(Element.ConditionalSwap($p.W, $other.W, $choice))",
		}),
	}
}

// optional marks the specification of a small helper that may be inlined away (its effect is also
// part of the specification of its user).
func optional(s *edt.Spec) *edt.Spec { s.Optional = true; return s }

// termSpec2: one path with the given outcome and final contents.
func termSpec2(pkg, fn string, opaque []string, wantOut string, finals map[string]string) *edt.Spec {
	return &edt.Spec{
		Pkg: pkg, Func: fn, Opaque: opaque, MinPaths: 1, Vars: map[string]string{},
		Classify: func(p *edt.Path, out string, e *edt.Env) string {
			if out == wantOut {
				return "as-specified"
			}
			return ""
		},
		Formula: map[string]func(e *edt.Env) edt.Tri{"as-specified": always},
		Extra: func(p *edt.Path, out, class string, e *edt.Env, ab func(string) string) string {
			return finalsAre(p, ab, finals)
		},
	}
}

// normComm normalises the argument order of the commutative field operations
// Add and Mul in a rendered term (so that a*b and b*a compare equal).
func normComm(s string) string {
	op, args := callParts(s)
	if len(args) == 0 {
		return s
	}
	for i := range args {
		args[i] = normComm(args[i])
	}
	if (op == "Element.Add" || op == "Element.Mul") && len(args) == 2 && args[0] > args[1] {
		args[0], args[1] = args[1], args[0]
	}
	if op == "Element.Square" && len(args) == 2 && args[0] == args[1] {
		args = args[:1] // squared in place: the receiver is the operand
	}
	if op == "Element.Set" && len(args) == 1 {
		return args[0] // a copy denotes the value copied
	}
	return op + "(" + strings.Join(args, ", ") + ")"
}

func init() {
	Registry["C07"] = func(c *Ctx) {
		run := c.Run
		run.Explanation = "E-DT/E-SEQ + E-LEN + E-CONST: the checked entry point errs exactly for a wrong length or (variable base) an all-zero result; scalar decoding is SetBits(clamp(copy)) with the clamp compared on all 256 byte values (bytes 0 and 31 only), inputs never written; the fixed-base routine uses the Edwards base-point table with the same clamped scalar and maps (Z+Y)/(Z−Y); the Montgomery ladder starts from x0 = (1:0), x1 = (u:1), runs from bit 254 to 0, each step = swap(x0, x1, bit[i+1]^bit[i]) then the differential add-and-double of (x0, x1) with the affine u, finishes with swap by bit 0 and returns U/W of x0; the ladder step equals the RFC 7748 formulas as a term over uninterpreted field operations (modulo commutativity); conditional swap exchanges both coordinates under one choice; conversions from Ed25519 keys (clamp(SHA-512(seed)[0:32]); decode failure ⇔ rejection); constants by value; interval analysis (E-RANGE stage A, see C04) of every field primitive the ladder uses, incl. Mul121666, in the portable back ends; field SetBytes/ToBytes as affine identities over the input bits (E-LIN: bit 255 of the u-coordinate is ignored, all other bits enter at their weight, the encoding is the canonical representative)."
		run.NotDecided = []string{"numeric equality with RFC 7748 outputs (field arithmetic: ranges under C04, packing under LIN rules when wired)", "Diffie-Hellman symmetry as an algebraic fact"}
		run.Exhaustive = true
		if !c.Preload(c.Configs()...) {
			return
		}
		portableWidthRule(c, c.Configs()[0])
		expFoundations(c) // the final U/W division: Invert raises to p-2 (E-EXP)
		readFullRule(c)   // key generation reads its seed completely
		{
			id := c.Configs()[0]
			run.SetConfig(id)
			checkInputReadonly(c.Prog(id), run.Rule("INPUT-readonly", "no exported function writes through an input parameter (scalars and points are clamped/decoded on copies)", 200), false)
		}
		// the ladder's field primitives do not wrap a machine word (engine E-RANGE, stage A, portable back ends)
		var rangeCfgs []string
		for _, id := range c.Configs() {
			if id != "amd64" {
				rangeCfgs = append(rangeCfgs, id)
			}
		}
		erange.DeclareFieldRules(run, "RANGE-A", rangeCfgs)
		al := run.Rule("ALIAS", "X25519 and the curve operations compute the same result when two same-typed pointer parameters denote one object", 80)
		run.Rule("SIB-scan", "constant-time lookups scan every entry exactly once", 5)
		dt := run.Rule("DT-x25519", "X25519 entry points, ladder and conversions have exactly the RFC 7748 structure", 20)
		for _, id := range c.Configs() {
			p := c.Prog(id)
			run.SetConfig(id)
			cfg := &edt.Config{P: p, Mod: modFor(p)}
			for _, s := range c07Specs() {
				r := edt.Check(dt, cfg, s)
				if id == c.Configs()[0] {
					run.Sample(map[string]any{"function": s.Func, "paths": r.Paths, "feasible": r.Feasible, "classes": r.ClassCount})
				}
			}
			if id == c.Configs()[0] {
				errRulesFor(run, p, "primitives/x25519")
				// in-place use (ScalarMult(&k, &k, &u), the RFC 7748 iteration) computes the same function
				run.Sample(checkAliasing(al, p, []string{"primitives/x25519", "curve"}))
				checkAliasSlice(p, run.Rule("ALIAS-slice", "a function with an output *T and a slice of T / *T finishes reading the slice elements before it first writes the output (the output may be one of the elements)", 15), false)
				// the fixed-base routine reads the constant-time base-point tables
				esib.CheckMaskedScan(run, p, "SIB-scan")
			} else if id == "purego" {
				esib.CheckMaskedScan(run, p, "SIB-scan")
			}
			if id != "amd64" {
				erange.CheckFieldStageA(run, p, "RANGE-A")
			}
			// u-coordinate decoding ignores bit 255 and accepts non-canonical values (reduced mod p by the arithmetic); encoding is canonical
			elin.CheckField(run, p, "LIN")
			// the ladder step multiplies, squares and scales by (A+2)/4: functional exactness of the limb
			// code (Go in every configuration, the integer assembly in amd64) as identities in the limb products
			elin.CheckMul(run, p, "MUL")
			var names []string
			for _, n := range econst.Names() {
				// the fixed-base path multiplies the Edwards base point: its table (packed literal and the unpacking) and the base point itself
				if strings.HasPrefix(n, "primitives/x25519.") || strings.Contains(n, "MONTGOMERY") || strings.Contains(n, "APLUS2") || strings.Contains(n, "asepointTable") || strings.Contains(n, "ED25519_BASEPOINT") {
					if i := strings.LastIndexByte(n, '.'); i > 0 && p.Obj(n[:i], n[i+1:]) != nil {
						names = append(names, n)
					}
				}
			}
			econst.CheckNamed(run, p, "CONST", names...)
		}
	}
}
