package props

import (
	"os"
	"runtime"
	"strings"

	"voicheck/elin"
)

// XLIN is the DEBUG entry of the E-LIN engine (package voicheck/elin): it
// runs the three drivers on the configurations purego and f32 (or on the
// comma-separated list in VOI_ELIN_CONFIGS).  The real properties C04, C05,
// C06, C07 and C17 call the same functions with their own rule prefixes.
func init() {
	Registry["XLIN"] = func(c *Ctx) {
		run := c.Run
		cfgs := []string{"purego", "f32"}
		if s := os.Getenv("VOI_ELIN_CONFIGS"); s != "" {
			cfgs = strings.Split(s, ",")
		}
		run.Explanation = elin.Explanation
		run.Assumptions = append(run.Assumptions, elin.Assumptions...)
		run.NotDecided = append(run.NotDecided, elin.NotDecided...)
		stats := map[string]any{}
		for i := 0; i < len(cfgs); i += 2 {
			batch := cfgs[i:min(i+2, len(cfgs))]
			if !c.Preload(batch...) {
				return
			}
			for _, id := range batch {
				p := c.Prog(id)
				if p == nil {
					continue
				}
				rf := elin.CheckField(run, p, "LIN")
				rs := elin.CheckScalarPack(run, p, "LIN")
				rr := elin.CheckRecodings(run, p, "LIN")
				rm := elin.CheckMul(run, p, "MUL")
				stats["mul/"+id] = map[string]int{"functions": rm.Functions, "obligations": rm.Obligations, "discharged": rm.Discharged}
				if id == "purego" && os.Getenv("VOI_ELIN_NOLATTICE") == "" {
					// internal/lattice is configuration-independent: purego here, amd64 below
					rl := elin.CheckLattice(run, p, "LAT")
					stats["lattice/"+id] = map[string]int{"functions": rl.Functions, "obligations": rl.Obligations, "discharged": rl.Discharged}
				}
				stats[id] = map[string]any{
					"field":     map[string]int{"functions": rf.Functions, "obligations": rf.Obligations, "discharged": rf.Discharged},
					"scalar":    map[string]int{"functions": rs.Functions, "obligations": rs.Obligations, "discharged": rs.Discharged},
					"recodings": map[string]int{"functions": rr.Functions, "obligations": rr.Obligations, "discharged": rr.Discharged},
				}
				c.Drop(id)
			}
			runtime.GC()
		}
		run.NotDecided = append(run.NotDecided, elin.LatticeNotDecided...)
		run.NotDecided = append(run.NotDecided, elin.MulNotDecided...)
		if os.Getenv("VOI_ELIN_NOLATTICE") == "" && os.Getenv("VOI_ELIN_CONFIGS") == "" {
			if p := c.Prog("amd64"); p != nil {
				rl := elin.CheckLattice(run, p, "LAT")
				stats["lattice/amd64"] = map[string]int{"functions": rl.Functions, "obligations": rl.Obligations, "discharged": rl.Discharged}
				// the Go multiplication code of the amd64 configuration (feMul / fePow2k are assembly there)
				rm := elin.CheckMul(run, p, "MUL")
				stats["mul/amd64"] = map[string]int{"functions": rm.Functions, "obligations": rm.Obligations, "discharged": rm.Discharged}
				c.Drop("amd64")
			}
		}
		run.Extra["elin"] = stats
		run.Extra["bounds"] = map[string]any{"inlining_depth": elin.MaxDepth, "instructions_per_run": elin.MaxSteps}
	}
}
