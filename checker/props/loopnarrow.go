package props

import (
	"fmt"
	"go/constant"
	"go/token"
	"go/types"

	"golang.org/x/tools/go/ssa"

	"voicheck/load"
	"voicheck/report"
)

// LOOP-narrow: a loop counter of a narrow integer type (8 or 16 bits) that is counted up is
// never tested with an INCLUSIVE bound that can be the largest value of the type: `for i :=
// byte(2); i <= last; i++` never terminates when last == 255 (the counter wraps to 0).  Decided
// on SSA: for every loop-carried phi of type (u)int8/(u)int16 whose back-edge value is phi + c
// (c > 0), every comparison phi <= b / b >= phi (either operand order, also on the incremented
// value) must have a constant b below the type's maximum.  Exclusive bounds (phi < b) always
// terminate (the counter reaches b before it can wrap) and are accepted.
func checkLoopNarrow(p *load.Program, rule *report.Rule) map[string]any {
	nphi := 0
	for _, fn := range p.ModuleFuncs() {
		bad := ""
		found := false
		for _, b := range fn.Blocks {
			for _, ins := range b.Instrs {
				phi, ok := ins.(*ssa.Phi)
				if !ok {
					continue
				}
				bt, ok := phi.Type().Underlying().(*types.Basic)
				if !ok {
					continue
				}
				var max int64
				switch bt.Kind() {
				case types.Uint8:
					max = 255
				case types.Int8:
					max = 127
				case types.Uint16:
					max = 65535
				case types.Int16:
					max = 32767
				default:
					continue
				}
				// counted up?
				var incs []ssa.Value
				for _, e := range phi.Edges {
					if bo, ok := e.(*ssa.BinOp); ok && bo.Op == token.ADD && bo.X == ssa.Value(phi) {
						if c, ok := bo.Y.(*ssa.Const); ok && c.Value != nil && c.Value.Kind() == constant.Int && constant.Sign(c.Value) > 0 {
							incs = append(incs, bo)
						}
					}
				}
				if len(incs) == 0 {
					continue
				}
				nphi++
				found = true
				vals := append([]ssa.Value{phi}, incs...)
				for _, v := range vals {
					for _, r := range *v.Referrers() {
						cmp, ok := r.(*ssa.BinOp)
						if !ok {
							continue
						}
						var bound ssa.Value
						switch {
						case cmp.Op == token.LEQ && cmp.X == v:
							bound = cmp.Y
						case cmp.Op == token.GEQ && cmp.Y == v:
							bound = cmp.X
						default:
							continue
						}
						if c, ok := bound.(*ssa.Const); ok && c.Value != nil && c.Value.Kind() == constant.Int {
							if n, ok := constant.Int64Val(c.Value); ok && n < max {
								continue
							}
						}
						bad = fmt.Sprintf("%s: the %s loop counter is tested with an inclusive bound that can be %d, the largest value of its type: the counter wraps and the loop never ends", p.Pos(cmp.Pos()), bt.Name(), max)
					}
				}
			}
		}
		if bad != "" {
			rule.Fail(p.Pos(fn.Pos()), load.FuncName(fn), bad, nil)
		} else if found {
			rule.OK(load.FuncName(fn))
		}
	}
	return map[string]any{"narrow up-counted loop counters": nphi}
}

// LIST-type: every value taken out of a container/list with an unchecked type assertion has
// the one dynamic type that is put into lists by the same package (an assertion to any other
// type panics on well-formed input once the element is reached).  Decided on SSA: the set P of
// static types converted to interface at the value argument of list.PushFront / PushBack /
// InsertBefore / InsertAfter and at stores to Element.Value, and the set A of types asserted
// (without comma-ok) on loads of Element.Value, per package: A ⊆ P and |P| = 1.
func checkListTypes(p *load.Program, rule *report.Rule) map[string]any {
	type site struct {
		t   types.Type
		pos token.Pos
		fn  *ssa.Function
	}
	puts := map[*types.Package][]site{}
	asserts := map[*types.Package][]site{}
	isListElemValue := func(v ssa.Value) bool {
		// load of (*list.Element).Value
		if c, ok := v.(*ssa.Call); ok {
			// the value returned by (*list.List).Remove is the removed element's Value
			if f := c.Call.StaticCallee(); f != nil && f.Pkg != nil && f.Pkg.Pkg.Path() == "container/list" && f.Name() == "Remove" {
				return true
			}
			return false
		}
		u, ok := v.(*ssa.UnOp)
		if !ok || u.Op != token.MUL {
			return false
		}
		fa, ok := u.X.(*ssa.FieldAddr)
		if !ok {
			return false
		}
		pt, ok := fa.X.Type().Underlying().(*types.Pointer)
		if !ok {
			return false
		}
		n, ok := pt.Elem().(*types.Named)
		return ok && n.Obj().Pkg() != nil && n.Obj().Pkg().Path() == "container/list" && n.Obj().Name() == "Element"
	}
	for _, fn := range p.ModuleFuncs() {
		if fn.Pkg == nil {
			continue
		}
		for _, b := range fn.Blocks {
			for _, ins := range b.Instrs {
				switch x := ins.(type) {
				case *ssa.Call:
					c := x.Call.StaticCallee()
					if c == nil || c.Pkg == nil || c.Pkg.Pkg.Path() != "container/list" {
						continue
					}
					switch c.Name() {
					case "PushFront", "PushBack", "InsertBefore", "InsertAfter":
						if len(x.Call.Args) >= 2 {
							if mi, ok := x.Call.Args[1].(*ssa.MakeInterface); ok {
								puts[fn.Pkg.Pkg] = append(puts[fn.Pkg.Pkg], site{mi.X.Type(), x.Pos(), fn})
							} else {
								puts[fn.Pkg.Pkg] = append(puts[fn.Pkg.Pkg], site{nil, x.Pos(), fn})
							}
						}
					}
				case *ssa.TypeAssert:
					if !x.CommaOk && isListElemValue(x.X) {
						asserts[fn.Pkg.Pkg] = append(asserts[fn.Pkg.Pkg], site{x.AssertedType, x.Pos(), fn})
					}
				}
			}
		}
	}
	n := 0
	for pkg, as := range asserts {
		ps := puts[pkg]
		for _, a := range as {
			n++
			name := load.FuncName(a.fn)
			ok := len(ps) > 0
			msg := ""
			for _, q := range ps {
				if q.t == nil || !types.Identical(q.t, a.t) {
					ok = false
					what := "a value of unknown type"
					if q.t != nil {
						what = types.TypeString(q.t, nil)
					}
					msg = fmt.Sprintf("the list element is asserted to be %s but %s puts %s into a list of this package: the assertion panics when that element is reached", types.TypeString(a.t, nil), p.Pos(q.pos), what)
				}
			}
			if len(ps) == 0 {
				msg = "no insertion into a list found in the package: the asserted type cannot be confirmed"
			}
			if ok {
				rule.OK(name)
			} else {
				rule.Fail(p.Pos(a.pos), name, msg, nil)
			}
		}
	}
	return map[string]any{"unchecked assertions on list elements": n}
}
