package props

import (
	"fmt"
	"go/ast"
	"go/types"
	"strings"

	"voicheck/load"
	"voicheck/report"
)

// PAIR-order: when a function fills parallel buffers by ranging over slice-of-slice
// literals built from its own parameters (`[][]*Scalar{staticScalars, dynamicScalars}` and
// `[][]*EdwardsPoint{staticPoints, dynamicPoints}` in the Pippenger kernels), every such
// literal lists the parameter groups in the same order.  A parameter is identified by its
// rank among the parameters of identical type, so the k-th scalar slice belongs with the
// k-th point slice (the order of the signature, which is how every caller passes them).
// Two literals of one function with different rank sequences pair the scalars of one group
// with the points of the other (seeded change C03/15: wrong result for distinct static and
// dynamic operands above the Pippenger threshold).  Swapping both literals consistently, or
// writing the loops out, is not reported.
func checkPairOrder(p *load.Program, rule *report.Rule) map[string]any {
	nfun, nlit := 0, 0
	for _, pk := range p.Pkgs {
		if pk.TypesInfo == nil {
			continue
		}
		for _, f := range pk.Syntax {
			for _, d := range f.Decls {
				fd, ok := d.(*ast.FuncDecl)
				if !ok || fd.Body == nil || fd.Type.Params == nil {
					continue
				}
				rank := map[types.Object]int{}
				perType := map[string]int{}
				for _, fl := range fd.Type.Params.List {
					for _, nm := range fl.Names {
						o := pk.TypesInfo.Defs[nm]
						if o == nil {
							continue
						}
						ts := types.TypeString(o.Type(), nil)
						rank[o] = perType[ts]
						perType[ts]++
					}
				}
				var seqs []string
				var poss []string
				ast.Inspect(fd.Body, func(n ast.Node) bool {
					cl, ok := n.(*ast.CompositeLit)
					if !ok || len(cl.Elts) < 2 {
						return true
					}
					t := pk.TypesInfo.TypeOf(cl)
					if t == nil {
						return true
					}
					outer, ok := t.Underlying().(*types.Slice)
					if !ok {
						return true
					}
					if _, ok := outer.Elem().Underlying().(*types.Slice); !ok {
						return true
					}
					var seq []string
					for _, e := range cl.Elts {
						id, ok := e.(*ast.Ident)
						if !ok {
							return true
						}
						o := pk.TypesInfo.Uses[id]
						r, isParam := rank[o]
						if o == nil || !isParam {
							return true
						}
						seq = append(seq, fmt.Sprint(r))
					}
					seqs = append(seqs, strings.Join(seq, ","))
					poss = append(poss, p.Pos(cl.Pos()))
					return true
				})
				if len(seqs) < 2 {
					continue
				}
				nfun++
				nlit += len(seqs)
				name := pk.Types.Name() + "." + fd.Name.Name
				bad := ""
				for i := 1; i < len(seqs); i++ {
					if len(seqs[i]) == len(seqs[0]) && seqs[i] != seqs[0] {
						bad = fmt.Sprintf("%s lists its parameter groups in the order [%s] but %s lists them in the order [%s]: the parallel buffers filled from the two literals pair the elements of one group with those of another", poss[i], seqs[i], poss[0], seqs[0])
					}
				}
				if bad != "" {
					rule.Fail(p.Pos(fd.Pos()), name, bad, nil)
				} else {
					rule.OK(name)
				}
			}
		}
	}
	return map[string]any{"functions with parallel group literals": nfun, "literals": nlit}
}
