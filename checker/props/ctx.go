// Package props holds the per-property glue: which engines run with which
// rule tables for each of C01..C20.
package props

import (
	"fmt"
	"runtime/debug"
	"sort"
	"sync"

	"voicheck/load"
	"voicheck/report"
)

// Ctx is the context of one property run.
type Ctx struct {
	Run  *report.Run
	Tier string

	mu    sync.Mutex
	progs map[string]*load.Program
	Extra []string
}

// Configs returns the configuration ids of the tier.
func (c *Ctx) Configs() []string {
	if c.Tier == "thorough" {
		return load.ThoroughConfigs
	}
	return load.QuickConfigs
}

// Preload loads the given configurations concurrently.
func (c *Ctx) Preload(cfgs ...string) bool {
	var wg sync.WaitGroup
	ok := true
	for _, id := range cfgs {
		c.mu.Lock()
		_, have := c.progs[id]
		c.mu.Unlock()
		if have {
			continue
		}
		wg.Add(1)
		go func(id string) {
			defer wg.Done()
			p, err := load.Load(id, load.Opts{SSA: true, Extra: c.Extra})
			c.mu.Lock()
			defer c.mu.Unlock()
			if err != nil {
				c.Run.Fatal("%v", err)
				ok = false
				return
			}
			c.progs[id] = p
		}(id)
	}
	wg.Wait()
	return ok
}

// Prog returns a loaded configuration (loading it if necessary); nil on
// failure (already recorded as fatal).
func (c *Ctx) Prog(id string) *load.Program {
	c.mu.Lock()
	p := c.progs[id]
	c.mu.Unlock()
	if p != nil {
		return p
	}
	if !c.Preload(id) {
		return nil
	}
	c.mu.Lock()
	defer c.mu.Unlock()
	return c.progs[id]
}

// Drop releases a configuration (memory).
func (c *Ctx) Drop(id string) {
	c.mu.Lock()
	delete(c.progs, id)
	c.mu.Unlock()
}

// PropFn runs one property.
type PropFn func(c *Ctx)

// Registry maps property ids to their implementation.
var Registry = map[string]PropFn{}

// IDs returns the registered property ids, sorted.
func IDs() []string {
	var ids []string
	for id := range Registry {
		ids = append(ids, id)
	}
	sort.Strings(ids)
	return ids
}

// RunProperty runs one property and returns the exit code.
func RunProperty(id, tier string, seed int) (code int) {
	fn := Registry[id]
	if fn == nil {
		fmt.Printf("property %s is not implemented by this checker\n", id)
		return 2
	}
	run := report.New(id, tier, seed)
	c := &Ctx{Run: run, Tier: tier, progs: map[string]*load.Program{}}
	func() {
		defer func() {
			if e := recover(); e != nil {
				run.Fatal("analysis panicked: %v\n%s", e, debug.Stack())
			}
		}()
		fn(c)
	}()
	return run.Finish()
}
