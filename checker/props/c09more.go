package props

import (
	"fmt"
	"strings"

	"voicheck/edt"
)

// serial fallback of BatchVerifier.Verify and the caching verifier.
func c09MoreSpecs() []*edt.Spec {
	eq := func(notExpanded, cofactorless bool) string {
		switch {
		case !notExpanded && cofactorless:
			return "bytes.Equal(CompressedEdwardsY.SetEdwardsPoint(EdwardsPoint.ExpandedDoubleScalarMulBasepointVartime(E.hram, E.expandedA.negA, E.S)), slice(E.signature, _, 32))"
		case !notExpanded:
			return "EdwardsPoint.IsSmallOrder(EdwardsPoint.ExpandedTripleScalarMulBasepointVartime(E.hram, E.expandedA.negA, E.S, E.R))"
		case cofactorless:
			return "bytes.Equal(CompressedEdwardsY.SetEdwardsPoint(EdwardsPoint.DoubleScalarMulBasepointVartime(E.hram, E.negA, E.S)), slice(E.signature, _, 32))"
		}
		return "EdwardsPoint.IsSmallOrder(EdwardsPoint.TripleScalarMulBasepointVartime(E.hram, E.negA, E.S, E.R))"
	}
	slow := func(e *edt.Env) edt.Tri {
		return edt.And(edt.Not(e.V("empty")), edt.Or(e.V("anyInvalid"), e.V("anyCofactorless"), edt.Not(e.V("batchOK"))))
	}
	vars := map[string]string{
		"$v.anyInvalid": "anyInvalid", "$v.anyCofactorless": "anyCofactorless", "(len($v.entries) == 0)": "empty",
		"(IDX < len($v.entries))": "more", "(LJ < len($v.entries))": "more0", "E.wantCofactorless": "entryCofactorless",
		"isnil(E.expandedA)": "entryNotExpanded", "VALID_I": "validI", "φL1.0": "allValidSoFar", "BATCHONLY": "batchOK",
	}
	return []*edt.Spec{
		{
			Pkg: "primitives/ed25519", Func: "(*BatchVerifier).Verify", SymLoops: true, Opaque: []string{"BatchVerifier.VerifyBatchOnly"}, MinPaths: 25,
			Abbrev: [][2]string{
				{"φL1.1", "IDX"}, {"φL0.0", "LJ"}, {"$v.entries[IDX]", "E"},
				{"sel(havoc@L1(M<[]bool>#0), [IDX])", "VALID_I"},
				{"BatchVerifier.VerifyBatchOnly($v, $rand)", "BATCHONLY"}, {"BatchVerifier.VerifyBatchOnly($rand)", "BATCHONLY"},
			},
			Vars: vars,
			Classify: func(p *edt.Path, out string, e *edt.Env) string {
				switch {
				case out == "false ; nil":
					return "empty"
				case strings.HasPrefix(out, "next-iteration@L0("):
					return "init"
				case strings.HasPrefix(out, "true ; &new("):
					return "fast"
				case out == "next-iteration@L1(φL1.0, (IDX + 1))":
					return "skip"
				case strings.HasPrefix(out, "next-iteration@L1("):
					return "verify"
				case strings.HasPrefix(out, "φL1.0 ; &new("):
					return "return"
				}
				return ""
			},
			Formula: map[string]func(e *edt.Env) edt.Tri{
				"empty": func(e *edt.Env) edt.Tri { return e.V("empty") },
				"init":  func(e *edt.Env) edt.Tri { return edt.And(edt.Not(e.V("empty")), e.V("more0")) },
				"fast": func(e *edt.Env) edt.Tri {
					return edt.And(edt.Not(e.V("empty")), edt.Not(e.V("more0")), edt.Not(e.V("anyInvalid")), edt.Not(e.V("anyCofactorless")), e.V("batchOK"))
				},
				"skip": func(e *edt.Env) edt.Tri {
					return edt.And(edt.Not(e.V("more0")), slow(e), e.V("more"), edt.Not(e.V("validI")))
				},
				"verify": func(e *edt.Env) edt.Tri { return edt.And(edt.Not(e.V("more0")), slow(e), e.V("more"), e.V("validI")) },
				"return": func(e *edt.Env) edt.Tri { return edt.And(edt.Not(e.V("more0")), slow(e), edt.Not(e.V("more"))) },
			},
			Extra: func(p *edt.Path, out, class string, e *edt.Env, ab func(string) string) string {
				switch class {
				case "init":
					return finalIs(p, ab, "M<[]bool>#0[φL0.0]", "$v.entries[LJ].canBeValid")
				case "verify":
					if !e.Known("entryNotExpanded") || !e.Known("entryCofactorless") || !e.Known("allValidSoFar") {
						return "the serial fallback verifies an entry without selecting the equation by (expanded key?, cofactorless?) or without folding the result into the overall flag"
					}
					want := eq(e.V("entryNotExpanded") == edt.T, e.V("entryCofactorless") == edt.T)
					if m := finalIs(p, ab, "M<[]bool>#0[φL1.1]", want); m != "" {
						return "per-entry result: " + m
					}
					wantOut := "next-iteration@L1(" + want + ", (IDX + 1))"
					if e.V("allValidSoFar") == edt.F {
						wantOut = "next-iteration@L1(false, (IDX + 1))"
					}
					if out != wantOut {
						return fmt.Sprintf("overall flag must be the conjunction of the per-entry results: got %s, want %s", out, wantOut)
					}
				case "return", "skip", "verify-2":
				}
				if class == "return" || class == "skip" || class == "verify" {
					ok := false
					for _, ev := range p.Events {
						if ab(ev) == "loop L1: φL1.0 starts as not($v.anyInvalid)" {
							ok = true
						}
					}
					if !ok {
						return "the overall flag of the serial fallback does not start from ¬anyInvalid"
					}
				}
				return ""
			},
		},
		{
			Pkg: "primitives/ed25519/extra/cache", Func: "(*Verifier).upsertPublicKey", MinPaths: 4,
			Abbrev: [][2]string{
				{"CompressedEdwardsY.SetBytes($publicKey)", "Aenc"},
				{"cache.Cache.Get($v.cache, Aenc)", "GET"},
				{"ed25519.NewExpandedPublicKey(Aenc)", "NEW"},
			},
			Vars: map[string]string{"isnil(err(Aenc))": "pkLenOK", "isnil(GET)": "miss", "isnil(err(NEW))": "expandOK"},
			Classify: func(p *edt.Path, out string, e *edt.Env) string {
				switch out {
				case "nil ; false":
					return "fail"
				case "GET ; true":
					return "hit"
				case "res0(NEW) ; true":
					return "insert"
				}
				return ""
			},
			Formula: map[string]func(e *edt.Env) edt.Tri{
				"fail": func(e *edt.Env) edt.Tri {
					return edt.Or(edt.Not(e.V("pkLenOK")), edt.And(e.V("miss"), edt.Not(e.V("expandOK"))))
				},
				"hit":    func(e *edt.Env) edt.Tri { return edt.And(e.V("pkLenOK"), edt.Not(e.V("miss"))) },
				"insert": func(e *edt.Env) edt.Tri { return edt.And(e.V("pkLenOK"), e.V("miss"), e.V("expandOK")) },
			},
			Extra: func(p *edt.Path, out, class string, e *edt.Env, ab func(string) string) string {
				if class != "insert" {
					return ""
				}
				last := ab(p.Events[len(p.Events)-1])
				if last != "cache.Cache.Put(GET, Aenc, res0(NEW))" {
					return "a cache miss must store the key expanded from the same 32 bytes under those bytes: last operation is " + last
				}
				return ""
			},
		},
		{
			Pkg: "primitives/ed25519/extra/cache", Func: "(*Verifier).VerifyWithOptions", Opaque: []string{"Verifier.upsertPublicKey"}, MinPaths: 2,
			Abbrev: [][2]string{{"Verifier.upsertPublicKey($publicKey)", "UPSERT"}},
			Vars:   map[string]string{"res1(UPSERT)": "ok"},
			Classify: func(p *edt.Path, out string, e *edt.Env) string {
				switch out {
				case "false":
					return "reject"
				case "ed25519.VerifyExpandedWithOptions(res0(UPSERT), $message, $sig, $opts)":
					return "delegate"
				}
				return ""
			},
			Formula: map[string]func(e *edt.Env) edt.Tri{
				"reject":   func(e *edt.Env) edt.Tri { return edt.Not(e.V("ok")) },
				"delegate": func(e *edt.Env) edt.Tri { return e.V("ok") },
			},
		},
		{
			Pkg: "primitives/ed25519/extra/cache", Func: "(*Verifier).AddWithOptions", Opaque: []string{"Verifier.upsertPublicKey"}, MinPaths: 1,
			Abbrev: [][2]string{{"Verifier.upsertPublicKey($publicKey)", "UPSERT"}},
			Vars:   map[string]string{},
			Classify: func(p *edt.Path, out string, e *edt.Env) string {
				if len(p.Events) == 2 && p.Events[1] == "BatchVerifier.AddExpandedWithOptions(res0(Verifier.upsertPublicKey($publicKey)), $message, $sig, $opts)" {
					return "delegate"
				}
				return ""
			},
			Formula: map[string]func(e *edt.Env) edt.Tri{"delegate": always},
		},
	}
}

// c09LRUSpecs: the LRU cache stores, under the key it was asked to store, an
// entry holding exactly the expanded key it was given; eviction (exactly at
// capacity) removes the oldest element and the store entry of THAT element.
func c09LRUSpecs() []*edt.Spec {
	const (
		got   = "lruCache.getLocked(upd($cache, .Mutex=(Mutex.Lock)), $publicKey)"
		entry = "agg(.publicKey=(&P:expanded))"
		list  = "sel(" + got + ", .list)"
		back  = "List.Back(" + list + ")"
		rem   = "List.Remove(" + list + ", " + back + ")"
	)
	const (
		ent  = "lookup($cache.store, $publicKey)"
		elem = ent + ".element"
	)
	getSpec := &edt.Spec{
		// a hit promotes the entry to most-recently-used UNCONDITIONALLY and returns its key; a miss changes nothing
		Pkg: "primitives/ed25519/extra/cache", Func: "(*lruCache).getLocked", MinPaths: 2,
		Vars: map[string]string{"isnil(" + ent + ")": "miss"},
		Classify: func(p *edt.Path, out string, e *edt.Env) string {
			switch {
			case out == "nil" && len(p.Final) == 0:
				return "miss"
			case strings.HasSuffix(out, ".publicKey)") || strings.HasSuffix(out, ".publicKey"):
				return "hit"
			}
			return ""
		},
		Formula: map[string]func(e *edt.Env) edt.Tri{
			"miss": func(e *edt.Env) edt.Tri { return e.V("miss") },
			"hit":  func(e *edt.Env) edt.Tri { return edt.Not(e.V("miss")) },
		},
		Extra: func(p *edt.Path, out, class string, e *edt.Env, ab func(string) string) string {
			if class != "hit" {
				return ""
			}
			l, ok := p.Final["$cache.list"]
			if !ok {
				return "a hit does not touch the recency list: the entry is not promoted to most-recently-used"
			}
			ls := l.String()
			relinked := "List.PushFront(List.Remove(" + elem + "), " + ent + ")"
			switch {
			case ls == relinked:
				if f, ok := p.Final[elem]; !ok || f.String() != relinked {
					return "the entry does not record its new list element after being re-linked"
				}
			case strings.HasPrefix(ls, "List.MoveToFront(") && strings.Contains(ls, elem):
			default:
				return "a hit must move exactly the hit entry's element to the front of the recency list: got " + clip(ls, 240)
			}
			return ""
		},
	}
	return []*edt.Spec{getSpec, {
		Pkg: "primitives/ed25519/extra/cache", Func: "(*lruCache).Put", Opaque: []string{"lruCache.getLocked"}, MinPaths: 3,
		Vars: map[string]string{
			"isnil(ptr($cache))": "miss", // the entry returned by getLocked is nil (rendered through the receiver alias)
			"(List.Len(" + list + ") == sel(" + got + ", .capacity))": "atCapacity",
		},
		Classify: func(p *edt.Path, out string, e *edt.Env) string {
			store := ""
			for k := range p.Final {
				if strings.HasSuffix(k, ".store)") || strings.HasSuffix(k, ".store") {
					store = k
				}
			}
			evicts := false
			for _, ev := range p.Events {
				if strings.HasPrefix(ev, "List.Remove(") {
					evicts = true
				}
			}
			switch {
			case store == "":
				return "hit"
			case evicts:
				return "evict+insert"
			}
			return "insert"
		},
		Formula: map[string]func(e *edt.Env) edt.Tri{
			"hit":          func(e *edt.Env) edt.Tri { return edt.Not(e.V("miss")) },
			"insert":       func(e *edt.Env) edt.Tri { return edt.And(e.V("miss"), edt.Not(e.V("atCapacity"))) },
			"evict+insert": func(e *edt.Env) edt.Tri { return edt.And(e.V("miss"), e.V("atCapacity")) },
		},
		Extra: func(p *edt.Path, out, class string, e *edt.Env, ab func(string) string) string {
			// the lock is held from the first to the last operation
			if len(p.Events) < 2 || p.Events[0] != "Mutex.Lock" || !strings.HasPrefix(p.Events[len(p.Events)-1], "Mutex.Unlock(") {
				return "Put must run under the cache lock from start to end"
			}
			if class == "hit" {
				return ""
			}
			for k, f := range p.Final {
				if strings.HasSuffix(k, ".store)") || strings.HasSuffix(k, ".store") {
					_, args := callParts(f.String())
					if len(args) != 3 || args[1] != "$publicKey" || args[2] != entry {
						return "the store must map the given key to a NEW entry holding exactly the expanded key passed in: got " + clip(f.String(), 300)
					}
				}
			}
			wantList := "List.PushFront(" + list + ", " + entry + ")"
			if class == "evict+insert" {
				wantList = "List.PushFront(" + rem + ", " + entry + ")"
				found := false
				for _, ev := range p.Events {
					if ev == "ExpandedPublicKey.CompressedY("+rem+".publicKey)" {
						found = true
					}
				}
				if !found {
					return "eviction must delete the store entry keyed by the compressed form of the REMOVED (oldest) element's key"
				}
			}
			return finalIs(p, ab, "$cache.list", wantList)
		},
	}}
}
