package props

import (
	"fmt"
	"go/constant"
	"go/types"

	"golang.org/x/tools/go/ssa"
)

// ssaEqual compares two functions instruction by instruction under a
// bijection of their values (structural equality modulo naming).  Globals
// correspond when they have the same name; constants must have equal values.
// It returns "" when equal, else the first difference.
func ssaEqual(f, g *ssa.Function) string {
	if len(f.Blocks) != len(g.Blocks) {
		return fmt.Sprintf("different control-flow shape: %d vs %d basic blocks", len(f.Blocks), len(g.Blocks))
	}
	m := map[ssa.Value]ssa.Value{}
	for i := range f.Params {
		if i < len(g.Params) {
			m[f.Params[i]] = g.Params[i]
		}
	}
	var bad string
	var same func(a, b ssa.Value, where string) bool
	same = func(a, b ssa.Value, where string) bool {
		if a == nil || b == nil {
			return a == nil && b == nil
		}
		if x, ok := m[a]; ok {
			if x != b {
				bad = where + ": operand refers to a different value"
				return false
			}
			return true
		}
		switch ca := a.(type) {
		case *ssa.Const:
			cb, ok := b.(*ssa.Const)
			if !ok || (ca.Value == nil) != (cb.Value == nil) || (ca.Value != nil && !constant.Compare(ca.Value, 39 /* token.EQL */, cb.Value)) {
				bad = fmt.Sprintf("%s: constant %s vs %s", where, a, b)
				return false
			}
			return true
		case *ssa.Global:
			gb, ok := b.(*ssa.Global)
			if !ok || ca.Name() != gb.Name() {
				bad = fmt.Sprintf("%s: global %s vs %s", where, a.Name(), b.Name())
				return false
			}
			return true
		case *ssa.Function:
			fb, ok := b.(*ssa.Function)
			if !ok || ca.String() != fb.String() {
				// same-named helper in the sibling package
				if !ok || ca.Name() != fb.Name() {
					bad = fmt.Sprintf("%s: callee %s vs %s", where, a, b)
					return false
				}
			}
			return true
		case *ssa.Builtin:
			bb, ok := b.(*ssa.Builtin)
			return ok && ca.Name() == bb.Name()
		}
		// a forward reference (phi operand defined later): bind now, verified when reached
		m[a] = b
		return true
	}
	for bi, fb := range f.Blocks {
		gb := g.Blocks[bi]
		if len(fb.Instrs) != len(gb.Instrs) || len(fb.Succs) != len(gb.Succs) {
			return fmt.Sprintf("block %d: %d vs %d instructions", bi, len(fb.Instrs), len(gb.Instrs))
		}
		for k := range fb.Succs {
			if fb.Succs[k].Index != gb.Succs[k].Index {
				return fmt.Sprintf("block %d: successor %d differs", bi, k)
			}
		}
		for ii, fi := range fb.Instrs {
			gi := gb.Instrs[ii]
			where := fmt.Sprintf("block %d instruction %d (%s)", bi, ii, fi)
			if fmt.Sprintf("%T", fi) != fmt.Sprintf("%T", gi) {
				return fmt.Sprintf("%s: %T vs %T", where, fi, gi)
			}
			switch x := fi.(type) {
			case *ssa.BinOp:
				if x.Op != gi.(*ssa.BinOp).Op {
					return fmt.Sprintf("%s: operator %s vs %s", where, x.Op, gi.(*ssa.BinOp).Op)
				}
			case *ssa.UnOp:
				if x.Op != gi.(*ssa.UnOp).Op {
					return where + ": unary operator differs"
				}
			case *ssa.FieldAddr:
				if x.Field != gi.(*ssa.FieldAddr).Field {
					return where + ": field differs"
				}
			}
			var fo, gops []*ssa.Value
			fo = fi.Operands(fo)
			gops = gi.Operands(gops)
			if len(fo) != len(gops) {
				return where + ": operand count differs"
			}
			for k := range fo {
				if !same(*fo[k], *gops[k], where) {
					return bad
				}
			}
			if fv, ok := fi.(ssa.Value); ok {
				gv := gi.(ssa.Value)
				if !types.Identical(fv.Type(), gv.Type()) && fv.Type().String() != gv.Type().String() {
					// types from sibling packages: compare underlying
					if !types.Identical(fv.Type().Underlying(), gv.Type().Underlying()) {
						return where + ": result type differs"
					}
				}
				if old, ok := m[fv]; ok && old != gv {
					return where + ": value correspondence is not a bijection"
				}
				m[fv] = gv
			}
		}
	}
	return ""
}
