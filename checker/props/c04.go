package props

import (
	"voicheck/erange"
)

// C04 — field arithmetic exact mod 2^255-19: the clause decided here is "no
// intermediate quantity silently wraps a machine word" in the portable
// 64-bit and the 32-bit field back ends (E-RANGE, DESIGN.md).
func init() {
	Registry["C04"] = func(c *Ctx) {
		cfgs := []string{"purego", "f32"}
		if c.Tier == "thorough" {
			cfgs = []string{"purego", "f32", "f32pure", "386", "arm64", "amd64"}
		}
		if !c.Preload(cfgs...) {
			return
		}
		for _, id := range cfgs {
			p := c.Prog(id)
			if p == nil {
				continue
			}
			erange.CheckFieldStageA(c.Run, p, "RANGE-A")
		}
	}
}
