package props

import (
	"fmt"
	"runtime"
	"runtime/debug"
	"strings"

	"voicheck/edt"
	"voicheck/elin"
	"voicheck/erange"
	"voicheck/esib"
)

// C04 — field arithmetic exact mod 2^255-19.  The clause decided here is "no
// intermediate quantity silently wraps a machine word" in the portable
// 64-bit and the 32-bit field back ends (engine E-RANGE, DESIGN.md):
//
//	stage A  every limb-level primitive of internal/field under the
//	         documented input headroom, with derived post-conditions and
//	         their closure (rules RANGE-A/<class>);
//	stage B  (thorough) the pre-condition of every primitive at every call
//	         site in field.go, curve, internal/elligator, primitives/h2c
//	         (rules RANGE-B/<class>).
//
// quick:    configurations purego, f32, stage A.
// thorough: + f32pure, 386, arm64 and the Go part of amd64 (stage A);
//
//	stage B in purego, f32, 386, arm64.
func init() {
	Registry["C04"] = func(c *Ctx) {
		run := c.Run
		// soft heap limit: the collector works harder instead of letting the
		// footprint of six loaded configurations grow past 2 GB
		defer debug.SetMemoryLimit(debug.SetMemoryLimit(1500 << 20))
		stageA := []string{"purego", "f32"}
		var stageB []string
		if c.Tier == "thorough" {
			stageA = []string{"purego", "f32", "f32pure", "386", "arm64", "amd64"}
			stageB = []string{"purego", "f32", "386", "arm64"}
		}

		run.Explanation = "Forward abstract interpretation of go/ssa (package voicheck/erange) with big-integer intervals of the mathematical, non-wrapped value of every machine word. " +
			"Stage A analyses each limb-level function of internal/field (everything declared next to type Element, plus any function touching Element.inner) on its own, " +
			"every input limb ranging over the documented headroom (64-bit: < 2^54; 32-bit: even limbs <= floor((2^32-1)/19), odd limbs half of that), in every aliasing configuration of its pointer parameters; " +
			"helpers and closures (reduce, carry, m, load3/4, squareInner, feMulGeneric ...) are inlined up to depth " + fmt.Sprint(erange.DefaultMaxDepth) + ", counted loops are unrolled, the data-dependent Pow2k loop is closed by an inductive (covered-state) argument. " +
			"Cells of small arrays/structs are tracked individually with strong updates; bits.Mul64 / bits.Add64 pairs are tracked as one 128-bit quantity. " +
			"An obligation is one arithmetic instruction in one inlining context of one primitive: +,*,<< below 2^w, subtractions non-negative, discarded carries / high words zero, W>>k fits a word, narrowing conversions exact, outputs exact words within the documented reduced bound, closure of pre/post-conditions; a word that may wrap is tolerated only if every consumer is exact modulo 2^w (the modelled idioms, counted in the evidence). " +
			"Stage B interprets the element-level code in join mode (worklist, widening) from every exported function of the packages that import internal/field; each primitive call raises the pre-condition obligation and is replaced by a memoised stage A analysis on the actual argument bounds; non-local elements are abstracted by one bound per (struct type, field), iterated to a fixpoint. " +
			"Engine E-LIN (package voicheck/elin): the byte<->limb conversions SetBytes, SetBytesWide, ToBytes and the weak reduction are interpreted in the domain of affine forms with rational coefficients over the input bits (no path conditions, no solver): SetBytes gives Σ limb_i·2^off_i = Σ_{k<255} 2^k·bit_k exactly (bit 255 ignored), SetBytesWide is coefficient-wise congruent to Σ_{k<512} 2^k·bit_k mod p before and after the reduction, the weak reduction preserves the value mod p, ToBytes packs a bijection of 255 bits, its carry chain and its quotient Q = [h >= p] are affine facts. " +
			"E-LIN with monomial symbols (the product of two input limbs is a named symbol, so the code stays affine): feMulGeneric/Mul, fePow2kGeneric/Pow2k/Square/Square2, Mul121666, Add, Sub, Neg satisfy Σ r_k·2^off_k ≡ the specified polynomial of the inputs modulo p coefficient-wise, every carry/quotient symbol cancels mod p, bias constants vanish mod p, nothing wraps. " +
			"Nothing of the repository is executed."
		run.Assumptions = append(run.Assumptions,
			"go/types and go/ssa (golang.org/x/tools v0.29.0) represent the program faithfully; math/bits.Mul64/Add64 and encoding/binary.LittleEndian behave as documented",
			"internal/subtle.ConstantTimeSelectUint64/32/Byte return one of their two value operands and ConstantTimeSwapUint64/32 leave each cell holding one of the two original values (their bodies are summarised, not analysed, here)",
			"package-level variables are not written after package initialisation (their initial contents are obtained by abstractly interpreting the package initialiser; stores to globals are the subject of C18)",
			"no use of package unsafe or reflection reaches the limbs in the analysed configurations (UnsafeInner is only called by the amd64 vector code; a reachable call leaves stage B undecided)",
			"stage A pre-conditions are the documented ones: 64-bit limbs < 2^54 (field_u64.go: \"limbs < 2^(51+b) ... we require b < 3\"), 32-bit even/odd limbs <= 226050910/113025455 (field_u32.go: \"19*y fits in a u32 iff b < 1.752\"); k >= 1 for fePow2kGeneric (\"given k > 0\")",
			"stage B is closed-world: internal/field can only be imported inside the module and every importing package is analysed; exported functions are entered with any aliasing of up to three same-typed pointer parameters (more: none or all); elements reachable from their parameters satisfy the inferred per-(type,field) bounds, which every exported function is shown to re-establish",
		)
		run.NotDecided = append(run.NotDecided,
			"inversion and square roots: the exponentiation chains are decided in the exponent domain (EXP-chain: Invert = t^(p-2), pow_p58 = t^((p-5)/8), the candidate tests of SqrtRatioI), given the decided primitives; multiplication/squaring/Pow2k/Mul121666/Add/Sub/Neg written in Go ARE decided functionally by E-LIN (result ≡ product mod p coefficient-wise in the monomials a_i·b_j); the induction over k in Pow2k is argued from the one-iteration check",
			"in-place use where BOTH aliased operands are written (ConstantTimeSwapUint64/32 of a word with itself, ConditionalSwap(a, a)): ALIAS compares pairs of which one is written; no library code swaps an element with itself",
			"the AVX2 vector assembly (curve/edwards_vector_amd64.s): no model; stage B (element-level bounds at the call sites) is not run in the amd64 configuration. The integer assembly feMul / fePow2k IS decided: its text is interpreted instruction by instruction (MOVQ, MULQ, IMUL3Q, ADDQ/ADCQ with the carry flag, SHLQ/SHRQ incl. the double-word forms, ANDQ, DECQ/JNZ) in the E-LIN monomial domain, with the same obligations as feMulGeneric / fePow2kGeneric (value mod p coefficient-wise, no register wraps under limbs < 2^54, outputs weakly reduced, the k-loop inductively); an instruction outside that set leaves it undecided (= failure)",
			"the last step of ToBytes's canonicalisation argument (discarded carry = quotient) is a stated two-case argument from decided facts, not mechanised; that the bias constants of Sub/Neg are a multiple of p (E-CONST)",
			"curve/scalar: the 64-bit back end is analysed by erange.CheckScalar64 under property C05; the 32-bit scalar back end wraps on purpose (Karatsuba) and is out of reach of intervals",
		)

		erange.DeclareFieldRules(run, "RANGE-A", stageA)
		portableWidthRule(c, stageA[0]) // the shared select/swap helpers keep all 64 bits on 32-bit targets
		exp := expRule(run, len(stageA))
		bi := run.Rule("DT-batchinvert", "BatchInvert is Montgomery's trick with zero skipping, uniform over all indices", 3*len(stageA))
		run.Rule("SIB-uniform", "limb-wise operations compute limb i from limbs i by one template for all i", 8*len(stageA))
		if len(stageB) > 0 {
			erange.DeclareStageBRules(run, "RANGE-B", stageB)
		}
		inB := map[string]bool{}
		for _, id := range stageB {
			inB[id] = true
		}
		// two configurations are loaded at a time (in parallel) and dropped
		// when done: keeps the footprint below 2 GB
		for i := 0; i < len(stageA); i += 2 {
			batch := stageA[i:min(i+2, len(stageA))]
			if !c.Preload(batch...) {
				return
			}
			for _, id := range batch {
				p := c.Prog(id)
				if p == nil {
					continue
				}
				erange.CheckFieldStageA(run, p, "RANGE-A")
				// byte<->limb conversions and the weak reduction as affine identities (engine E-LIN)
				// limb multiplication, squaring, Mul121666, Add/Sub/Neg as identities in the products of input limbs (E-LIN, monomial symbols)
				mr := elin.CheckMul(run, p, "MUL")
				if id == stageA[0] {
					run.Sample(map[string]any{"config": id, "MUL functions": mr.Functions, "MUL obligations": mr.Obligations})
				}
				// Montgomery's trick and limb uniformity
				{
					// with or without the (dead) pre-initialisation loop of the scratch slice
					bcfg := &edt.Config{P: p, Mod: modFor(p)}
					sp := batchInvertSpecFor(true)
					hasInit := false
					if fn := p.Func("internal/field", "BatchInvert"); fn != nil {
						op := map[string]bool{}
						for _, o := range sp.Opaque {
							op[o] = true
						}
						for _, pa := range edt.Walk(&edt.Config{P: p, Mod: bcfg.Mod, Opaque: op, MaxPaths: 100, SymLoops: true}, fn) {
							if strings.HasPrefix(pa.OutcomeString(), "next-iteration@L2(") {
								hasInit = true
							}
						}
					}
					edt.Check(bi, bcfg, batchInvertSpecFor(hasInit))
				}
				checkExpAll(run, p, exp)
				esib.CheckUniform(run, p, "SIB-uniform")
				if id == stageA[0] {
					// in-place use: fe.Mul(fe, a), ConditionalSwap(a, a), Swap of one word with itself — the limb
					// helpers and the constant-time select/swap primitives give the same result when operands alias
					al := run.Rule("ALIAS", "field operations and the constant-time select/swap helpers compute the same result when two same-typed pointer parameters denote one object", 6)
					run.Sample(checkAliasing(al, p, []string{"internal/subtle", "internal/field"}))
				}
				lr := elin.CheckField(run, p, "LIN")
				if id == stageA[0] {
					run.Sample(map[string]any{"config": id, "LIN functions": lr.Functions, "LIN obligations": lr.Obligations})
				}
				if inB[id] {
					erange.CheckFieldStageB(run, p, "RANGE-B")
				}
				c.Drop(id)
			}
			runtime.GC()
		}
		// the Go side of the AVX2 back end (lane packing) is limb-wise code too: uniformity in the amd64 configuration
		if c.Tier != "thorough" && c.Preload("amd64") {
			run.SetConfig("amd64")
			esib.CheckUniform(run, c.Prog("amd64"), "SIB-uniform")
			// the amd64 assembly feMul / fePow2k, interpreted from the .s text with the transfer functions of the Go twins
			elin.CheckMul(run, c.Prog("amd64"), "MUL")
			c.Drop("amd64")
		}
		if len(stageB) == 0 {
			run.NotDecided = append(run.NotDecided, "stage B (pre-conditions at the call sites of field.go, curve, internal/elligator, primitives/h2c) runs in the thorough tier only")
		}
		run.Extra["bounds"] = map[string]any{
			"inlining_depth_stage_A": erange.DefaultMaxDepth,
			"inlining_depth_stage_B": erange.StageBDepth,
			"loop_unroll_limit":      erange.DefaultUnrollLimit,
			"path_limit_per_entry":   erange.DefaultMaxPaths,
		}
	}
}
