package props

import (
	"strings"

	"voicheck/edt"
)

// C15 — ECVRF-EDWARDS25519-SHA512-ELL2 (RFC 9381) structure.

func vrfChallenge(p1 string) string {
	y := ""
	if p1 != "" {
		y = p1 + ", "
	}
	return "Scalar.SetBits(agg([0:16]=(sel(Sum(H(sha512.New, agg([0]=(4), [1]=(2)), " + y + "$p2, $p3, CompressedEdwardsY.SetEdwardsPoint($p4), CompressedEdwardsY.SetEdwardsPoint($p5), agg([0]=(0)))), [0:16]))))"
}

func c15Specs() []*edt.Spec {
	cantFail := map[string]edt.Assumption{
		"isnil(err(Scalar.SetBits(":              {Val: true, Why: "SetBits on a 32-byte array cannot fail"},
		"isnil(err(Scalar.SetBytesModOrderWide(": {Val: true, Why: "64-byte digest"},
		"isnil(err(Scalar.SetBytesModOrder(":     {Val: true, Why: "32 bytes once the proof has 80"},
		"isnil(err(Scalar.ToBytes(":              {Val: true, Why: "32-byte destination"},
		"isnil(err(Genc))":                       {Val: true, Why: "32-byte argument"},
		"isnil(err(ecvrf.encodeToCurveH2cSuite(": {Val: true, Why: "hash-to-curve with the fixed DST cannot fail (documented internal invariant)"},
		"isnil(err(HCALL))":                      {Val: true, Why: "hash-to-curve with the fixed DST cannot fail (documented internal invariant)"},
	}
	verifyAb := [][2]string{
		{"CompressedEdwardsY.SetBytes($pk)", "Yenc"}, {"EdwardsPoint.SetCompressedY(Yenc)", "Y"},
		{"CompressedEdwardsY.SetBytes($piString[0:32])", "Genc"}, {"EdwardsPoint.SetCompressedY(Genc)", "G"},
	}
	proofOK := func(e *edt.Env) edt.Tri {
		return edt.And(e.V("len80"), e.V("canonG"), e.V("decodeG"), e.V("sMinimal"))
	}
	keyOK := func(e *edt.Env) edt.Tri {
		return edt.And(e.V("pkLen32"), e.V("canonY"), e.V("decodeY"), edt.Not(e.V("smallY")))
	}
	specs := c15CoreSpecs(verifyAb, cantFail, proofOK, keyOK)
	// --- the exported wrappers select the challenge format by their name and hand every argument on unchanged ---
	for _, w := range []struct {
		fn   string
		flag string
	}{{"", "false"}, {"_v10", "true"}} {
		flag := w.flag
		core := "ecvrf.doProve(nil, $sk, $alphaString, " + flag + ")"
		specs = append(specs, &edt.Spec{
			Pkg: "primitives/ed25519/extra/ecvrf", Func: "Prove" + w.fn, Opaque: []string{"ecvrf.doProve"}, MinPaths: 2,
			Vars: map[string]string{"isnil(err(" + core + "))": "ok"},
			Classify: func(p *edt.Path, out string, e *edt.Env) string {
				switch out {
				case "panic(err(" + core + "))":
					return "panic"
				case "res0(" + core + ")":
					return "proof"
				}
				return ""
			},
			Formula: map[string]func(e *edt.Env) edt.Tri{
				"proof": func(e *edt.Env) edt.Tri { return e.V("ok") },
				"panic": func(e *edt.Env) edt.Tri { return edt.Not(e.V("ok")) },
			},
		})
		def := "ecvrf.doProve(@rand.Reader, $sk, $alphaString, " + flag + ")"
		given := "ecvrf.doProve($sk, $alphaString, " + flag + ")"
		specs = append(specs, &edt.Spec{
			Pkg: "primitives/ed25519/extra/ecvrf", Func: "ProveWithAddedRandomness" + w.fn, Opaque: []string{"ecvrf.doProve"}, MinPaths: 2,
			Vars: map[string]string{"isnil(ptr($rand))": "randNil"},
			Classify: func(p *edt.Path, out string, e *edt.Env) string {
				switch out {
				case "res0(" + def + ") ; err(" + def + ")":
					return "default-entropy"
				case "res0(" + given + ") ; err(" + given + ")":
					return "given-entropy"
				}
				return ""
			},
			Formula: map[string]func(e *edt.Env) edt.Tri{
				"default-entropy": func(e *edt.Env) edt.Tri { return e.V("randNil") },
				"given-entropy":   func(e *edt.Env) edt.Tri { return edt.Not(e.V("randNil")) },
			},
		})
		ver := "ecvrf.doVerify($pk, $piString, $alphaString, " + flag + ")"
		specs = append(specs, &edt.Spec{
			Pkg: "primitives/ed25519/extra/ecvrf", Func: "Verify" + w.fn, Opaque: []string{"ecvrf.doVerify"}, MinPaths: 1, Vars: map[string]string{},
			Classify: func(p *edt.Path, out string, e *edt.Env) string {
				if out == "res0("+ver+") ; res1("+ver+")" {
					return "delegates"
				}
				return ""
			},
			Formula: map[string]func(e *edt.Env) edt.Tri{"delegates": always},
		})
	}
	return specs
}

func c15CoreSpecs(verifyAb [][2]string, cantFail map[string]edt.Assumption, proofOK, keyOK func(e *edt.Env) edt.Tri) []*edt.Spec {
	return []*edt.Spec{
		// --- challenge: suite ‖ 0x02 ‖ [Y] ‖ H ‖ Gamma ‖ U ‖ V ‖ 0x00, truncated to 16 bytes -------------
		{
			Pkg: "primitives/ed25519/extra/ecvrf", Func: "challengeGeneration", MinPaths: 2,
			Vars:         map[string]string{"(len($p1) == 0)": "!withY"},
			AssumePrefix: cantFail,
			Classify: func(p *edt.Path, out string, e *edt.Env) string {
				switch out {
				case "&new(" + vrfChallenge("$p1") + ")":
					return "with-Y"
				case "&new(" + vrfChallenge("") + ")":
					return "without-Y"
				}
				return ""
			},
			Formula: map[string]func(e *edt.Env) edt.Tri{
				"with-Y":    func(e *edt.Env) edt.Tri { return e.V("withY") },
				"without-Y": func(e *edt.Env) edt.Tri { return edt.Not(e.V("withY")) },
			},
		},
		// --- output: suite ‖ 0x03 ‖ compress(8·Gamma) ‖ 0x00 ----------------------------------------------
		// (absorbed piece by piece, or as one buffer built from the same pieces in the same order)
		termSpecAny("primitives/ed25519/extra/ecvrf", "gammaToHash", nil,
			"Sum(H(sha512.New, agg([0]=(4), [1]=(3)), CompressedEdwardsY.SetEdwardsPoint(EdwardsPoint.MulByCofactor($gamma)), agg([0]=(0))))",
			"Sum(H(sha512.New, cat(agg([0]=(4), [1]=(3)), CompressedEdwardsY.SetEdwardsPoint(EdwardsPoint.MulByCofactor($gamma)), 0)))",
			"Sum(H(sha512.New, cat(4, 3, CompressedEdwardsY.SetEdwardsPoint(EdwardsPoint.MulByCofactor($gamma)), 0)))"),
		termSpec("primitives/ed25519/extra/ecvrf", "encodeToCurveH2cSuite", nil,
			"res0(h2c.Edwards25519_XMD_SHA512_ELL2_NU(@primitives/ed25519/extra/ecvrf.h2cDST, cat($encodeToCurveSalt, $alphaString))) ; err(h2c.Edwards25519_XMD_SHA512_ELL2_NU(@primitives/ed25519/extra/ecvrf.h2cDST, cat($encodeToCurveSalt, $alphaString)))"),
		// --- verification -----------------------------------------------------------------------------------
		{
			Pkg: "primitives/ed25519/extra/ecvrf", Func: "doVerify", MinPaths: 10,
			Opaque: []string{"ecvrf.encodeToCurveH2cSuite", "ecvrf.challengeGeneration", "ecvrf.gammaToHash"},
			Abbrev: verifyAb,
			Vars: map[string]string{
				"isnil(err(Yenc))": "pkLen32", "CompressedEdwardsY.IsCanonicalVartime(Yenc)": "canonY", "isnil(err(Y))": "decodeY",
				"EdwardsPoint.IsSmallOrder(Y)": "smallY", "(len($piString) == 80)": "len80",
				"CompressedEdwardsY.IsCanonicalVartime(Genc)": "canonG", "isnil(err(G))": "decodeG",
				"scalar.ScMinimalVartime($piString[48:])": "sMinimal", "$draftPreV11": "draft",
			},
			VarPrefix: map[string]string{
				"(Scalar.Equal(Scalar.SetBits(agg([0:16]=($piString[32:]))), ecvrf.challengeGeneration(": "cDiffers",
			},
			AssumePrefix: cantFail,
			Classify: func(p *edt.Path, out string, e *edt.Env) string {
				switch out {
				case "false ; nil":
					return "reject"
				case "true ; ecvrf.gammaToHash(G)":
					return "accept"
				}
				return ""
			},
			Formula: map[string]func(e *edt.Env) edt.Tri{
				"accept": func(e *edt.Env) edt.Tri { return edt.And(keyOK(e), proofOK(e), edt.Not(e.V("cDiffers"))) },
				"reject": func(e *edt.Env) edt.Tri { return edt.Not(edt.And(keyOK(e), proofOK(e), edt.Not(e.V("cDiffers")))) },
			},
			Extra: func(p *edt.Path, out, class string, e *edt.Env, ab func(string) string) string {
				// the recomputed challenge: format selected by the draft flag; roles of H, Gamma, U = sB - cY, V = sH - cGamma
				for _, l := range p.Lits {
					a := ab(l.Atom)
					if !strings.HasPrefix(a, "(Scalar.Equal(Scalar.SetBits(agg([0:16]=($piString[32:]))), ecvrf.challengeGeneration(") {
						continue
					}
					if !e.Known("draft") {
						return "the challenge is recomputed without consulting the challenge-format flag"
					}
					wantY := "ecvrf.challengeGeneration($pk, "
					if e.V("draft") == edt.T {
						wantY = "ecvrf.challengeGeneration(nil, "
					}
					if !strings.Contains(a, wantY) {
						return "the challenge format does not match the draft flag: Y must be hashed exactly when draftPreV11 is false"
					}
					rest := a[strings.Index(a, wantY)+len(wantY):]
					want := "CompressedEdwardsY.SetEdwardsPoint(res0(ecvrf.encodeToCurveH2cSuite(Yenc, $alphaString))), Genc, EdwardsPoint.DoubleScalarMulBasepointVartime(Scalar.SetBits(agg([0:16]=($piString[32:]))), EdwardsPoint.Neg(Y), Scalar.SetBytesModOrder($piString[48:])), EdwardsPoint.MultiscalarMulVartime("
					if !strings.HasPrefix(rest, want) {
						return "challenge operands differ from RFC 9381 (H, Gamma, U = [s]B - [c]Y, V = [s]H - [c]Gamma): " + clip(rest, 300)
					}
				}
				return ""
			},
		},
		{
			Pkg: "primitives/ed25519/extra/ecvrf", Func: "ProofToHash", Opaque: []string{"ecvrf.gammaToHash"}, MinPaths: 4,
			Abbrev: verifyAb,
			Vars: map[string]string{"(len($piString) == 80)": "len80", "CompressedEdwardsY.IsCanonicalVartime(Genc)": "canonG", "isnil(err(G))": "decodeG",
				"scalar.ScMinimalVartime($piString[48:])": "sMinimal"},
			AssumePrefix: cantFail,
			Classify: func(p *edt.Path, out string, e *edt.Env) string {
				switch {
				case strings.HasPrefix(out, "nil ; err("):
					return "error"
				case out == "ecvrf.gammaToHash(G) ; nil":
					return "hash"
				}
				return ""
			},
			Formula: map[string]func(e *edt.Env) edt.Tri{
				"hash":  proofOK,
				"error": func(e *edt.Env) edt.Tri { return edt.Not(proofOK(e)) },
			},
		},
		// --- proving ------------------------------------------------------------------------------------------
		{
			Pkg: "primitives/ed25519/extra/ecvrf", Func: "doProve", MinPaths: 6,
			Opaque:       []string{"ecvrf.encodeToCurveH2cSuite", "ecvrf.challengeGeneration"},
			Abbrev:       [][2]string{{"Sum(H(sha512.New, $sk[0:32]))", "EXT"}, {"ecvrf.encodeToCurveH2cSuite($sk[32:], $alphaString)", "HCALL"}},
			Vars:         map[string]string{"(len($sk) == 64)": "skLen64", "isnil(ptr($rand))": "noRand", "isnil(err(io.ReadFull(zero)))": "readOK", "$draftPreV11": "draft"},
			AssumePrefix: cantFail,
			Classify: func(p *edt.Path, out string, e *edt.Env) string {
				switch {
				case strings.HasPrefix(out, "nil ; err("):
					return "error"
				case strings.HasPrefix(out, "&new(agg([0:32]=("):
					return "proof"
				}
				return ""
			},
			Formula: map[string]func(e *edt.Env) edt.Tri{
				"error": func(e *edt.Env) edt.Tri {
					return edt.Or(edt.Not(e.V("skLen64")), edt.And(edt.Not(e.V("noRand")), edt.Not(e.V("readOK"))))
				},
				"proof": func(e *edt.Env) edt.Tri { return edt.And(e.V("skLen64"), edt.Or(e.V("noRand"), e.V("readOK"))) },
			},
			Extra: func(p *edt.Path, out, class string, e *edt.Env, ab func(string) string) string {
				if class != "proof" {
					return ""
				}
				pi := p.Outcome[0].Args[0]
				gam, cpart, spart := pi.Sub("[0:32]"), pi.Sub("[32:48]"), pi.Sub("[48:80]")
				if gam == nil || cpart == nil || spart == nil || len(pi.Args) != 3 {
					return "the proof is not Gamma (32 bytes) ‖ c (16 bytes) ‖ s (32 bytes): c must be written before s because the writes overlap; layout is " + clip(layoutOf(pi), 120)
				}
				H := "res0(HCALL)"
				if gam.Op != "CompressedEdwardsY.SetEdwardsPoint" || gam.Args[0].Op != "EdwardsPoint.Mul" || ab(gam.Args[0].Args[0].String()) != H {
					return "Gamma is not compress([x]H): " + clip(ab(gam.String()), 160)
				}
				x := gam.Args[0].Args[1]
				if x.Op != "Scalar.SetBits" {
					return "the secret scalar x is not read with SetBits"
				}
				if m := clampOK(x.Args[0], "Sum(H(sha512.New, $sk[0:32]))"); m != "" {
					return m
				}
				// s = k + c·x ; c = challenge(Y?, H, Gamma, kB, kH)
				if spart.Op != "out1" || spart.Args[0].Op != "Scalar.ToBytes" {
					return "the last 32 bytes are not the encoding of s"
				}
				s := spart.Args[0].Args[0]
				// operands of the commutative scalar operations are matched by role, not by position
				if s.Op != "Scalar.Add" || len(s.Args) != 2 {
					return "s is not c·x + k: " + clip(ab(s.String()), 200)
				}
				prod, k := s.Args[0], s.Args[1]
				if prod.Op != "Scalar.Mul" {
					prod, k = k, prod
				}
				if prod.Op != "Scalar.Mul" || len(prod.Args) != 2 {
					return "s is not c·x + k: " + clip(ab(s.String()), 200)
				}
				c := prod.Args[0]
				switch x.String() {
				case prod.Args[1].String():
				case prod.Args[0].String():
					c = prod.Args[1]
				default:
					return "s is not c·x + k with the x that produced Gamma: " + clip(ab(s.String()), 200)
				}
				if cpart.Op != "sel" || cpart.Args[0].Op != "out1" || cpart.Args[0].Args[0].Op != "Scalar.ToBytes" || cpart.Args[0].Args[0].Args[0].String() != c.String() || cpart.Args[1].String() != "[0:16]" {
					return "bytes 32..48 of the proof are not the first 16 bytes of the encoding of the same challenge c used in s"
				}
				// nonce: SHA-512(prefix ‖ h_string) (RFC 9381 §5.4.2.2); with added randomness it must absorb the entropy
				if k.Op != "Scalar.SetBytesModOrderWide" || k.Args[0].Op != "Sum" || k.Args[0].Args[0].Op != "H" {
					return "the nonce k is not the wide reduction of a SHA-512 digest"
				}
				ka := k.Args[0].Args[0].Args[1:]
				hStr := "CompressedEdwardsY.SetEdwardsPoint(" + H + ")"
				prefix := "sel(EXT, [32:64])"
				if e.V("noRand") == edt.T {
					if len(ka) != 2 || ab(ka[0].String()) != prefix || ab(ka[1].String()) != hStr {
						return "deterministic nonce must be SHA-512(digest[32:64] ‖ point_to_string(H)): got " + clip(ab(k.String()), 300)
					}
				} else {
					ent, pre, hs := false, false, false
					for _, a := range ka {
						as := ab(a.String())
						ent = ent || strings.Contains(as, "io.ReadFull(")
						pre = pre || as == prefix
						hs = hs || as == hStr
					}
					if !ent || !pre || !hs {
						return "with added randomness the nonce hash must absorb the entropy read, the secret prefix and h_string"
					}
				}
				// challenge operands
				wantY := "$sk[32:]"
				if e.V("draft") == edt.T {
					wantY = "nil"
				}
				if !e.Known("draft") {
					return "the challenge format flag is not consulted"
				}
				wantC := "ecvrf.challengeGeneration(" + wantY + ", " + hStr + ", " + ab(gam.String()) + ", EdwardsPoint.MulBasepoint(@curve.ED25519_BASEPOINT_TABLE, " + ab(k.String()) + "), EdwardsPoint.Mul(" + H + ", " + ab(k.String()) + "))"
				if ab(c.String()) != wantC {
					return "the challenge operands differ from RFC 9381 (Y iff not draft-10, H, Gamma, kB, kH):\n      got  " + clip(ab(c.String()), 500) + "\n      want " + clip(wantC, 500)
				}
				return ""
			},
		},
	}
}

func layoutOf(t *edt.Term) string {
	var ks []string
	for _, a := range t.Args {
		ks = append(ks, strings.TrimSuffix(a.Op, "="))
	}
	return strings.Join(ks, " ")
}

func init() {
	Registry["C15"] = func(c *Ctx) {
		run := c.Run
		run.Explanation = "E-DT/E-SEQ: ECVRF proving, verification, challenge generation and output derivation are extracted as uninterpreted terms and compared with RFC 9381 (ECVRF-EDWARDS25519-SHA512-ELL2): doVerify accepts exactly when the key is 32 bytes, canonical, decodable and not small-order, the proof is 80 bytes with canonical decodable Gamma and s below L, and the recomputed challenge equals c, with U = [s]B - [c]Y, V = [s]H - [c]Gamma and Y hashed exactly when the draft-10 flag is off (on both sides); challenge = suite ‖ 0x02 ‖ [Y] ‖ H ‖ Gamma ‖ U ‖ V ‖ 0x00 truncated to 16 bytes; output = suite ‖ 0x03 ‖ compress(8·Gamma) ‖ 0x00 and Verify/ProofToHash derive it from the decoded Gamma by the same function; the proof layout Gamma ‖ c[0:16] ‖ s with c written before s; clamp compared extensionally; deterministic nonce = SHA-512(digest[32:64] ‖ h_string)."
		run.NotDecided = []string{"uniqueness and completeness as cryptographic statements", "numeric correctness of hash-to-curve and the group arithmetic"}
		run.Exhaustive = true
		id := "amd64"
		if !c.Preload(id) {
			return
		}
		p := c.Prog(id)
		run.SetConfig(id)
		cfg := &edt.Config{P: p, Mod: modFor(p)}
		dt := run.Rule("DT-ecvrf", "ECVRF prove/verify/challenge/output have exactly the RFC 9381 decision and term structure", 25)
		for _, s := range c15Specs() {
			r := edt.Check(dt, cfg, s)
			run.Sample(map[string]any{"function": s.Func, "paths": r.Paths, "feasible": r.Feasible, "classes": r.ClassCount})
		}
		errRulesFor(run, p, "primitives/ed25519/extra/ecvrf")
		arithmeticFoundations(c)
		groupFoundations(c, true)
		ownershipRules(c) // keys, proofs and alpha are not modified or kept
		readFullRule(c)
	}
}
