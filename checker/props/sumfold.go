package props

import (
	"strings"

	"voicheck/edt"
	"voicheck/report"
)

// DT-sum: the point summations are left folds of the group operation that START FROM THE NEUTRAL
// ELEMENT: Sum(values) walks every element once (one symbolic iteration: acc' = Add(acc, values[i])),
// the accumulator enters the loop as Identity (so the empty sum is the identity, not the all-zero
// struct, which is absorbing under the addition formulas and encodes like the identity), and the
// result handed back is the accumulator.  Either the receiver or a local may be the accumulator.
func checkSumFolds(rule *report.Rule, cfg *edt.Config) {
	p := cfg.P
	for _, typ := range []string{"EdwardsPoint", "RistrettoPoint"} {
		name := "(*" + typ + ").Sum"
		full := "curve." + name
		fn := p.Func("curve", name)
		if fn == nil {
			rule.Fail("-", full, "target function cannot be resolved (anchor lost)", nil)
			continue
		}
		pos := p.Pos(fn.Pos())
		opaque := map[string]bool{typ + ".Add": true, typ + ".Identity": true, typ + ".Set": true}
		paths := edt.Walk(&edt.Config{P: p, Mod: cfg.Mod, Opaque: opaque, MaxPaths: 50, SymLoops: true}, fn)
		bad, iters, exits := "", 0, 0
		for _, pa := range paths {
			if pa.Note != "" {
				bad = "cannot follow the function: " + pa.Note
				break
			}
			if pa.Panic != nil {
				continue
			}
			// the accumulator: the loop-carried object of the point type
			acc, init := "", ""
			for _, ev := range pa.Events {
				i := strings.Index(ev, " enters as ")
				if !strings.HasPrefix(ev, "loop L") || i < 0 {
					continue
				}
				who := ev[strings.Index(ev, ": ")+2 : i]
				if who == "$p" || strings.HasPrefix(who, "A<curve."+typ+">#") {
					if acc != "" && acc != who {
						bad = "more than one loop-carried " + typ + " (" + acc + ", " + who + "): not a plain fold"
					}
					acc, init = who, ev[i+len(" enters as "):]
				}
			}
			out := pa.OutcomeString()
			if acc == "" {
				if strings.HasPrefix(out, "next-iteration@") || len(pa.Events) > 0 {
					bad = "no loop-carried accumulator of type " + typ + " found on path [" + pa.LitString() + "]"
				} else {
					bad = "a path returns without folding the values: [" + pa.LitString() + "]"
				}
				break
			}
			if init != typ+".Identity" && init != typ+".Identity("+acc+")" {
				bad = "the accumulator enters the loop as " + clip(init, 80) + ", not as the neutral element " + typ + ".Identity: the empty sum (and every sum, if it is the zero struct) is wrong"
				break
			}
			hv := "havoc@L0(" + acc + ")"
			if strings.HasPrefix(out, "next-iteration@") {
				iters++
				f, ok := pa.Final[acc]
				want := typ + ".Add(" + hv + ", $values[φL0.0])"
				if !ok || f.String() != want {
					got := "unchanged"
					if ok {
						got = clip(f.String(), 120)
					}
					bad = "one iteration must be acc = Add(acc, values[i]); the accumulator becomes " + got
					break
				}
				continue
			}
			exits++
			if out != "ptr($p)" {
				bad = "Sum must return its receiver, returns " + clip(out, 80)
				break
			}
			if acc != "$p" {
				f, ok := pa.Final["$p"]
				if !ok || f.String() != typ+".Set("+hv+")" {
					got := "left untouched"
					if ok {
						got = clip(f.String(), 120)
					}
					bad = "the result stored in the receiver must be the accumulator; the receiver is " + got
					break
				}
			}
		}
		switch {
		case bad != "":
			rule.Fail(pos, full, bad, nil)
		case iters == 0 || exits == 0:
			rule.Fail(pos, full, "no loop iteration / exit path found", nil)
		default:
			rule.OK(full)
		}
	}
}
