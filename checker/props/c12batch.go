package props

import (
	"strings"

	"voicheck/edt"
)

func c12BatchSpecs() []*edt.Spec {
	admit := func(e *edt.Env) edt.Tri {
		return edt.And(edt.Not(e.V("noKey")), edt.Not(e.V("noSig")), e.V("decodeR"))
	}
	return []*edt.Spec{
		{
			// per-entry admission = single verification's admission; the entry starts invalid
			Pkg: "primitives/sr25519", Func: "(*entry).doInit", Opaque: []string{"sr25519.deriveVerifyChallengeScalar", "SigningTranscript.witnessBytes"}, WritesOverride: merlinWrites, MinPaths: 4,
			Abbrev:       [][2]string{{"RistrettoPoint.SetCompressed($signature.rCompressed)", "R"}},
			Vars:         map[string]string{"isnil($pk.point)": "noKey", "isnil($signature.s)": "noSig", "isnil(err(R))": "decodeR"},
			AssumePrefix: map[string]edt.Assumption{"isnil(err(SigningTranscript.witnessBytes(": {Val: true, Why: "the zero reader never fails (documented panic otherwise)"}},
			Classify: func(p *edt.Path, out string, e *edt.Env) string {
				v, ok := p.Final["$e.canBeValid"]
				if !ok {
					return "" // the flag must be written on every path (an entry slot may be reused)
				}
				switch v.String() {
				case "true":
					return "can-be-valid"
				case "false":
					return "invalid"
				}
				return ""
			},
			Formula: map[string]func(e *edt.Env) edt.Tri{
				"can-be-valid": admit,
				"invalid":      func(e *edt.Env) edt.Tri { return edt.Not(admit(e)) },
			},
			Extra: func(p *edt.Path, out, class string, e *edt.Env, ab func(string) string) string {
				if class != "can-be-valid" {
					return ""
				}
				return finalsAre(p, ab, map[string]string{
					"$e.R":        "R",
					"$e.S":        "Scalar.Set($signature.s)",
					"$e.A":        "RistrettoPoint.Set($pk.point)",
					"$e.hram":     "Scalar.Set(sr25519.deriveVerifyChallengeScalar($pk, $transcript, $signature))",
					"$e.witnessA": "$pk.compressed",
					"$e.witnessR": "$signature.rCompressed",
				})
			},
		},
		{
			Pkg: "primitives/sr25519", Func: "(*BatchVerifier).Add", Opaque: []string{"entry.doInit"}, MinPaths: 2,
			Abbrev: [][2]string{{"entry.doInit($pk, $transcript, $signature)", "ENTRY"}},
			Vars:   map[string]string{"$v.anyInvalid": "anyInvalid"},
			Classify: func(p *edt.Path, out string, e *edt.Env) string {
				if f, ok := p.Final["$v.entries"]; ok && f.String() == "cat($v.entries, entry.doInit($pk, $transcript, $signature))" {
					return "append"
				}
				return "" // the entry must be a fresh one initialised by doInit and appended
			},
			Formula: map[string]func(e *edt.Env) edt.Tri{"append": always},
			Extra: func(p *edt.Path, out, class string, e *edt.Env, ab func(string) string) string {
				return orUpdate(p, e, ab, "$v.anyInvalid", "anyInvalid", "not(sel(ENTRY, .canBeValid))")
			},
		},
		{
			Pkg: "primitives/sr25519", Func: "(*BatchVerifier).VerifyBatchOnly", SymLoops: true, MinPaths: 4,
			Vars:   map[string]string{"(len($v.entries) == 0)": "empty", "$v.anyInvalid": "anyInvalid", "isnil(ptr($rand))": "randNil"},
			Ignore: []string{"((φL", "(φL", "isnil(err("},
			Classify: func(p *edt.Path, out string, e *edt.Env) string {
				switch {
				case out == "false":
					return "abort"
				case strings.HasPrefix(out, "next-iteration@"), strings.HasPrefix(out, "panic((\"sr25519: failed to"), strings.HasPrefix(out, "RistrettoPoint.IsIdentity(RistrettoPoint.MultiscalarMulVartime("):
					return "proceed"
				}
				return ""
			},
			Formula: map[string]func(e *edt.Env) edt.Tri{
				"abort":   func(e *edt.Env) edt.Tri { return edt.Or(e.V("empty"), e.V("anyInvalid")) },
				"proceed": func(e *edt.Env) edt.Tri { return edt.Not(edt.Or(e.V("empty"), e.V("anyInvalid"))) },
			},
		},
		{
			// Verify: per-entry results are the admission flags refined by serial verification of the
			// admitted entries; the summary is true exactly when NO entry was refused at Add time and
			// every serial verification succeeds (or the batch equation holds)
			Pkg: "primitives/sr25519", Func: "(*BatchVerifier).Verify", SymLoops: true, MinPaths: 8,
			// VerifyBatchOnly only reads the verifier (its may-write summary is coarse: the entries' fields are passed by address to point routines that read them)
			WritesOverride: map[string][]int{"BatchVerifier.VerifyBatchOnly": {}},
			Opaque:         []string{"BatchVerifier.VerifyBatchOnly", "RistrettoPoint.TripleScalarMulBasepointVartime", "RistrettoPoint.IsIdentity", "RistrettoPoint.Neg"},
			Vars: map[string]string{
				"(len($v.entries) == 0)": "empty", "$v.anyInvalid": "anyInvalid", "BatchVerifier.VerifyBatchOnly($rand)": "batchOK", "BatchVerifier.VerifyBatchOnly($v, $rand)": "batchOK",
				"(φL0.0 < len($v.entries))": "initMore", "(φL1.1 < len($v.entries))": "serialMore",
				"sel(havoc@L1(M<[]bool>#0), [φL1.1])": "admitted", "φL1.0": "allSoFar",
			},
			Classify: func(p *edt.Path, out string, e *edt.Env) string {
				switch {
				case out == "false ; nil":
					return "empty"
				case strings.HasPrefix(out, "next-iteration@L0("):
					return "init"
				case strings.HasPrefix(out, "next-iteration@L1("):
					return "serial"
				case strings.HasPrefix(out, "true ; "):
					return "batch-accepted"
				case strings.HasPrefix(out, "φL1.0 ; "):
					return "serial-result"
				}
				return ""
			},
			Formula: map[string]func(e *edt.Env) edt.Tri{
				"empty": func(e *edt.Env) edt.Tri { return e.V("empty") },
				"init":  func(e *edt.Env) edt.Tri { return edt.And(edt.Not(e.V("empty")), e.V("initMore")) },
				"batch-accepted": func(e *edt.Env) edt.Tri {
					return edt.And(edt.Not(e.V("empty")), edt.Not(e.V("initMore")), edt.Not(e.V("anyInvalid")), e.V("batchOK"))
				},
				"serial": func(e *edt.Env) edt.Tri {
					return edt.And(edt.Not(e.V("empty")), edt.Not(e.V("initMore")), edt.Or(e.V("anyInvalid"), edt.Not(e.V("batchOK"))), e.V("serialMore"))
				},
				"serial-result": func(e *edt.Env) edt.Tri {
					return edt.And(edt.Not(e.V("empty")), edt.Not(e.V("initMore")), edt.Or(e.V("anyInvalid"), edt.Not(e.V("batchOK"))), edt.Not(e.V("serialMore")))
				},
			},
			Extra: func(p *edt.Path, out, class string, e *edt.Env, ab func(string) string) string {
				has := func(s string) bool {
					for _, ev := range p.Events {
						if ev == s {
							return true
						}
					}
					return false
				}
				const E = "$v.entries[φL1.1]"
				const eq = "RistrettoPoint.IsIdentity(RistrettoPoint.TripleScalarMulBasepointVartime(" + E + ".hram, RistrettoPoint.Neg(" + E + ".A), " + E + ".S, " + E + ".R))"
				switch class {
				case "init":
					return finalIs(p, ab, "M<[]bool>#0[φL0.0]", "$v.entries[φL0.0].canBeValid")
				case "serial", "serial-result":
					if !has("loop L1: φL1.0 starts as not($v.anyInvalid)") {
						return "the summary of the serial path must start from 'no entry was refused when it was added' (not from true): a batch with a refused entry is never all-valid"
					}
					if !has("loop L1: φL1.1 starts as 0") {
						return "serial verification must start at the first entry"
					}
					if class == "serial-result" {
						if !strings.HasPrefix(out, "φL1.0 ; ") {
							return "the serial path must return the accumulated summary"
						}
						return ""
					}
					_, args := callParts(out)
					if len(args) != 2 || args[1] != "(φL1.1 + 1)" {
						return "serial verification must visit every entry in order"
					}
					switch {
					case e.V("admitted") == edt.F:
						if args[0] != "φL1.0" {
							return "an entry refused at Add time must be skipped without changing the summary (it is already false)"
						}
					case e.V("allSoFar") == edt.T:
						if args[0] != eq {
							return "the summary must become the result of this entry's verification equation [hram](-A) + [S]B - R = 0: got " + clip(args[0], 200)
						}
						return finalIs(p, ab, "M<[]bool>#0[φL1.1]", eq)
					case e.V("allSoFar") == edt.F:
						if args[0] != "false" {
							return "a false summary must stay false"
						}
						return finalIs(p, ab, "M<[]bool>#0[φL1.1]", eq)
					}
				}
				return ""
			},
		},
	}
}
