package props

import (
	"strings"

	"voicheck/edt"
)

func c12BatchSpecs() []*edt.Spec {
	admit := func(e *edt.Env) edt.Tri {
		return edt.And(edt.Not(e.V("noKey")), edt.Not(e.V("noSig")), e.V("decodeR"))
	}
	return []*edt.Spec{
		{
			// per-entry admission = single verification's admission; the entry starts invalid
			Pkg: "primitives/sr25519", Func: "(*entry).doInit", Opaque: []string{"sr25519.deriveVerifyChallengeScalar", "SigningTranscript.witnessBytes"}, WritesOverride: merlinWrites, MinPaths: 4,
			Abbrev:       [][2]string{{"RistrettoPoint.SetCompressed($signature.rCompressed)", "R"}},
			Vars:         map[string]string{"isnil($pk.point)": "noKey", "isnil($signature.s)": "noSig", "isnil(err(R))": "decodeR"},
			AssumePrefix: map[string]edt.Assumption{"isnil(err(SigningTranscript.witnessBytes(": {Val: true, Why: "the zero reader never fails (documented panic otherwise)"}},
			Classify: func(p *edt.Path, out string, e *edt.Env) string {
				v, ok := p.Final["$e.canBeValid"]
				if !ok {
					return "" // the flag must be written on every path (an entry slot may be reused)
				}
				switch v.String() {
				case "true":
					return "can-be-valid"
				case "false":
					return "invalid"
				}
				return ""
			},
			Formula: map[string]func(e *edt.Env) edt.Tri{
				"can-be-valid": admit,
				"invalid":      func(e *edt.Env) edt.Tri { return edt.Not(admit(e)) },
			},
			Extra: func(p *edt.Path, out, class string, e *edt.Env, ab func(string) string) string {
				if class != "can-be-valid" {
					return ""
				}
				return finalsAre(p, ab, map[string]string{
					"$e.R":        "R",
					"$e.S":        "Scalar.Set($signature.s)",
					"$e.A":        "RistrettoPoint.Set($pk.point)",
					"$e.hram":     "Scalar.Set(sr25519.deriveVerifyChallengeScalar($pk, $transcript, $signature))",
					"$e.witnessA": "$pk.compressed",
					"$e.witnessR": "$signature.rCompressed",
				})
			},
		},
		{
			Pkg: "primitives/sr25519", Func: "(*BatchVerifier).Add", Opaque: []string{"entry.doInit"}, MinPaths: 2,
			Abbrev: [][2]string{{"entry.doInit($pk, $transcript, $signature)", "ENTRY"}},
			Vars:   map[string]string{"$v.anyInvalid": "anyInvalid"},
			Classify: func(p *edt.Path, out string, e *edt.Env) string {
				if f, ok := p.Final["$v.entries"]; ok && f.String() == "cat($v.entries, entry.doInit($pk, $transcript, $signature))" {
					return "append"
				}
				return "" // the entry must be a fresh one initialised by doInit and appended
			},
			Formula: map[string]func(e *edt.Env) edt.Tri{"append": always},
			Extra: func(p *edt.Path, out, class string, e *edt.Env, ab func(string) string) string {
				return orUpdate(p, e, ab, "$v.anyInvalid", "anyInvalid", "not(sel(ENTRY, .canBeValid))")
			},
		},
		{
			Pkg: "primitives/sr25519", Func: "(*BatchVerifier).VerifyBatchOnly", SymLoops: true, MinPaths: 4,
			Vars:   map[string]string{"(len($v.entries) == 0)": "empty", "$v.anyInvalid": "anyInvalid", "isnil(ptr($rand))": "randNil"},
			Ignore: []string{"((φL", "isnil(err("},
			Classify: func(p *edt.Path, out string, e *edt.Env) string {
				switch {
				case out == "false":
					return "abort"
				case strings.HasPrefix(out, "next-iteration@"), strings.HasPrefix(out, "panic((\"sr25519: failed to"), strings.HasPrefix(out, "RistrettoPoint.IsIdentity(RistrettoPoint.MultiscalarMulVartime("):
					return "proceed"
				}
				return ""
			},
			Formula: map[string]func(e *edt.Env) edt.Tri{
				"abort":   func(e *edt.Env) edt.Tri { return edt.Or(e.V("empty"), e.V("anyInvalid")) },
				"proceed": func(e *edt.Env) edt.Tri { return edt.Not(edt.Or(e.V("empty"), e.V("anyInvalid"))) },
			},
		},
	}
}
