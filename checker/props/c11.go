package props

import (
	"strings"

	"voicheck/econst"
	"voicheck/edt"
)

// C11 — Ristretto255 decoding / equality / uniform map structure (RFC 9496).

func c11Specs() []*edt.Spec {
	const S = "Element.SetBytes($compressed)"
	decode := func(e *edt.Env) edt.Tri {
		// RFC 9496 §4.3.1: canonical, non-negative s; was_square; non-negative t; y != 0
		return edt.And(e.V("canonical"), edt.Not(e.V("sNegative")), e.V("wasSquare"), edt.Not(e.V("tNegative")), edt.Not(e.V("yZero")))
	}
	return []*edt.Spec{
		{
			Pkg: "curve", Func: "(*RistrettoPoint).SetCompressed", MinPaths: 6,
			Vars: map[string]string{"(Element.IsNegative(" + S + ") == 1)": "sNegative"},
			VarPrefix: map[string]string{
				// canonicity is decided by re-encoding the SAME bytes
				"(subtle.ConstantTimeCompareBytes($compressed, out1(Element.ToBytes(" + S + ", ": "canonical",
				// the arithmetic inside these predicates is not decided here (numeric): they are recognised by shape
				"(res1(Element.InvSqrt(":           "wasSquare",
				"(Element.IsNegative(Element.Mul(": "tNegative",
				"(Element.IsZero(Element.Mul(":     "yZero",
			},
			Assume: map[string]edt.Assumption{"isnil(err(" + S + "))": {Val: true, Why: "field SetBytes fails only on a wrong length; the argument is a 32-byte array"}},
			Classify: func(p *edt.Path, out string, e *edt.Env) string {
				switch {
				case strings.HasPrefix(out, "nil ; err("):
					return "reject"
				case out == "ptr($p) ; nil":
					return "decoded"
				}
				return ""
			},
			Formula: map[string]func(e *edt.Env) edt.Tri{
				"decoded": decode,
				"reject":  func(e *edt.Env) edt.Tri { return edt.Not(decode(e)) },
			},
			Extra: func(p *edt.Path, out, class string, e *edt.Env, ab func(string) string) string {
				if class == "reject" {
					return noWritesBelow(p, "$p")
				}
				return ""
			},
		},
		{
			Pkg: "curve", Func: "(*CompressedRistretto).SetBytes", MinPaths: 2,
			Vars: map[string]string{"(len($in) == 32)": "len32"},
			Classify: func(p *edt.Path, out string, e *edt.Env) string {
				switch {
				case strings.HasPrefix(out, "nil ; err("):
					return "error"
				case out == "ptr($p) ; nil":
					return "ok"
				}
				return ""
			},
			Formula: map[string]func(e *edt.Env) edt.Tri{
				"ok":    func(e *edt.Env) edt.Tri { return e.V("len32") },
				"error": func(e *edt.Env) edt.Tri { return edt.Not(e.V("len32")) },
			},
			Extra: func(p *edt.Path, out, class string, e *edt.Env, ab func(string) string) string {
				if class == "ok" {
					return finalIs(p, ab, "$p", "$in")
				}
				return noWritesBelow(p, "$p")
			},
		},
		{
			Pkg: "curve", Func: "(*CompressedEdwardsY).SetBytes", MinPaths: 2,
			Vars: map[string]string{"(len($in) == 32)": "len32"},
			Classify: func(p *edt.Path, out string, e *edt.Env) string {
				switch {
				case strings.HasPrefix(out, "nil ; err("):
					return "error"
				case out == "ptr($p) ; nil":
					return "ok"
				}
				return ""
			},
			Formula: map[string]func(e *edt.Env) edt.Tri{
				"ok":    func(e *edt.Env) edt.Tri { return e.V("len32") },
				"error": func(e *edt.Env) edt.Tri { return edt.Not(e.V("len32")) },
			},
			Extra: func(p *edt.Path, out, class string, e *edt.Env, ab func(string) string) string {
				if class == "ok" {
					return finalIs(p, ab, "$p", "$in")
				}
				return noWritesBelow(p, "$p")
			},
		},
		// coset-aware equality: X1*Y2 == Y1*X2  OR  X1*X2 == Y1*Y2
		termSpec("curve", "(*RistrettoPoint).Equal", nil, "(Element.Equal(Element.Mul($other.inner.inner.X, $p.inner.inner.X), Element.Mul($other.inner.inner.Y, $p.inner.inner.Y)) | Element.Equal(Element.Mul($other.inner.inner.X, $p.inner.inner.Y), Element.Mul($other.inner.inner.Y, $p.inner.inner.X)))"),
		{
			// one-way map: exactly 64 bytes, halves [0:32] and [32:64], two Elligator calls, sum
			Pkg: "curve", Func: "(*RistrettoPoint).SetUniformBytes", Opaque: []string{"RistrettoPoint.elligatorRistrettoFlavor", "RistrettoPoint.Add"}, MinPaths: 2,
			Vars: map[string]string{"(len($in) == 64)": "len64"},
			Assume: map[string]edt.Assumption{
				"isnil(err(Element.SetBytes($in[0:32])))": {Val: true, Why: "32-byte argument"},
				"isnil(err(Element.SetBytes($in[32:])))":  {Val: true, Why: "32-byte argument once len(in) == 64"},
			},
			Classify: func(p *edt.Path, out string, e *edt.Env) string {
				switch {
				case strings.HasPrefix(out, "nil ; err("):
					return "error"
				case out == "ptr($p) ; nil":
					return "mapped"
				}
				return ""
			},
			Formula: map[string]func(e *edt.Env) edt.Tri{
				"mapped": func(e *edt.Env) edt.Tri { return e.V("len64") },
				"error":  func(e *edt.Env) edt.Tri { return edt.Not(e.V("len64")) },
			},
			Extra: func(p *edt.Path, out, class string, e *edt.Env, ab func(string) string) string {
				if class != "mapped" {
					return noWritesBelow(p, "$p")
				}
				want := "RistrettoPoint.Add(RistrettoPoint.elligatorRistrettoFlavor(Element.SetBytes($in[0:32])), RistrettoPoint.elligatorRistrettoFlavor(Element.SetBytes($in[32:])))"
				if m := finalIs(p, ab, "$p", want); m != "" {
					// the sum may be written through the inner Edwards point
					if m2 := finalIs(p, ab, "$p.inner", want); m2 != "" {
						return "the uniform map must be the sum of the Elligator images of the two 32-byte halves: " + m
					}
				}
				return ""
			},
		},
	}
}

func init() {
	Registry["C11"] = func(c *Ctx) {
		run := c.Run
		run.Explanation = "E-DT + E-CONST + ERR: Ristretto255 decoding is extracted path by path and compared with RFC 9496 §4.3.1 as a Boolean function of its five tests (canonical by re-encoding the same bytes, s non-negative, was_square, t non-negative, y non-zero), writing nothing on rejection; SetBytes accepts exactly 32 bytes; Equal is the OR of the two cross-product equalities; SetUniformBytes takes exactly 64 bytes, maps the two halves and adds; the RFC 9496 constants are checked by value in both radices; wrong-length unmarshalling is an error and leaves the identity (shared rule ERR-iii in C19 and the ERR rules here)."
		run.NotDecided = []string{"that InvSqrt and the field arithmetic compute the mathematical function", "coset invariance of the encoding (numeric)", "the Elligator map's numeric correctness"}
		run.Exhaustive = true
		if !c.Preload(c.Configs()...) {
			return
		}
		dt := run.Rule("DT-ristretto", "Ristretto decoding, SetBytes, equality and the uniform map have exactly the specified decision and term structure", 12)
		for _, id := range c.Configs() {
			p := c.Prog(id)
			run.SetConfig(id)
			cfg := &edt.Config{P: p, Mod: modFor(p)}
			for _, s := range c11Specs() {
				r := edt.Check(dt, cfg, s)
				if id == c.Configs()[0] {
					run.Sample(map[string]any{"function": s.Func, "paths": r.Paths, "feasible": r.Feasible, "classes": r.ClassCount})
				}
			}
			if id == c.Configs()[0] {
				errRulesFor(run, p, "curve")
				run.Sample(map[string]any{"decoders (ERR-iii)": checkDecoderNeutrality(p, run.Rule("ERR-iii", "every UnmarshalBinary leaves its receiver neutral on failure", 20))})
			}
			econst.CheckNamed(run, p, "CONST", "curve.constEDWARDS_D", "curve.constONE_MINUS_EDWARDS_D_SQUARED", "curve.constEDWARDS_D_MINUS_ONE_SQUARED",
				"curve.constSQRT_AD_MINUS_ONE", "curve.constINVSQRT_A_MINUS_D", "internal/field.SQRT_M1", "curve.RISTRETTO_BASEPOINT_COMPRESSED", "curve.RISTRETTO_BASEPOINT_POINT")
		}
		arithmeticFoundations(c)
		groupFoundations(c, true)
		ownershipRules(c) // encodings handed out are copies; inputs are not modified
		if p0 := c.Prog(c.Configs()[0]); p0 != nil {
			c.Run.SetConfig(c.Configs()[0])
			checkCompressedUnmarshal(c.Run.Rule("DT-compressed-unmarshal", "CompressedRistretto.UnmarshalBinary accepts only after a successful point decode of the input bytes themselves and then holds those bytes", 1), &edt.Config{P: p0, Mod: modFor(p0)}, []string{"CompressedRistretto"})
		}
	}
}
