package props

import (
	"voicheck/edt"
	"voicheck/elin"
	"voicheck/esib"
)

// C17 — scalar digit recodings preserve the value within their digit bounds.
func init() {
	Registry["C17"] = func(c *Ctx) {
		run := c.Run
		run.Explanation = elin.Explanation + " For C17: Bits (out[k] = bit k), ToRadix16 (Σ d_i·16^i = value, digits in [-8,8), last in [-8,8]), ToRadix2w for w = 6, 7, 8 (value identity including the terminal carry, centred digits, nothing beyond the size hint, size hints 43/37/33) are decided by the affine forms after concrete unrolling; NonAdjacentForm for w = 2..8 by tabulating the transfer function of ONE loop iteration over its finite abstract state (pos, carry, the ≤ w window bits): value invariant per step, odd digits below 2^(w-1), non-zero digits at least w apart, exit only at pos >= 256, final carry 0 for 255-bit scalars. Plus (E-SIB) the recoding width used at every call site agrees with the size of the table its digits index, and (E-DT) the recodings read the scalar's own bytes."
		run.Assumptions = append(run.Assumptions, elin.Assumptions...)
		run.NotDecided = append(run.NotDecided, elin.NotDecided...)
		run.Exhaustive = true
		cfgs := c.Configs()
		if !c.Preload(cfgs...) {
			return
		}
		k := len(cfgs)
		run.Rule("SIB-skel"+esib.SufWidth, "recoding width <-> table size at every use", 60*k/3)
		run.Rule("SIB-skel"+esib.SufPolarity, "add/sub polarity of every digit use", 70*k/3)
		run.Rule("SIB-skel"+esib.SufPair, "twin skeletons", 0)
		run.Rule("SIB-skel"+esib.SufHorner, "Horner shape per algorithm", 0)
		run.Rule("SIB-skel"+esib.SufCtor, "lookup-table constructors", 0)
		run.Rule("SIB-skel"+esib.SufEntry, "entry-point facts", 0)
		run.Rule("SIB-dispatch", "dispatch pairs (input of the skeleton rules)", 0)
		dt := run.Rule("DT-recode-source", "the recodings decompose the receiver's own bytes (no reduction or copy of another value)", 4*k)
		generic := c.Prog("purego")
		for _, id := range cfgs {
			p := c.Prog(id)
			run.SetConfig(id)
			r := elin.CheckRecodings(run, p, "LIN")
			run.Sample(map[string]any{"config": id, "functions": r.Functions, "obligations": r.Obligations, "discharged": r.Discharged})
			d := esib.CheckDispatch(run, p, generic, "SIB-dispatch")
			esib.CheckSkeletons(run, p, d.Pairs, "SIB-skel")
			cfg := &edt.Config{P: p, Mod: modFor(p)}
			for _, s := range c17Specs() {
				edt.Check(dt, cfg, s)
			}
		}
	}
}

// c17Specs: which bytes the recodings read (callee-free functions: no call may intervene between s.inner and the digits).
func c17Specs() []*edt.Spec {
	noCalls := func(fn string, minPaths int, symLoops bool) *edt.Spec {
		return &edt.Spec{
			Pkg: "curve/scalar", Func: fn, MinPaths: minPaths, SymLoops: symLoops, Vars: map[string]string{},
			VarPrefix: map[string]string{"(": "internal", "not(": "internal"},
			Classify:  func(p *edt.Path, out string, e *edt.Env) string { return "any" },
			Formula:   map[string]func(e *edt.Env) edt.Tri{"any": always},
			Extra: func(p *edt.Path, out, class string, e *edt.Env, ab func(string) string) string {
				for _, ev := range p.Events {
					op, _ := callParts(ev)
					switch {
					case len(ev) > 5 && ev[:5] == "loop ":
					case op == "littleEndian.Uint64", op == "scalar.ToRadix2wSizeHint":
					default:
						return "the recoding calls " + op + ": its digits must be a function of the receiver's own bytes (a reduction or conversion in between changes the value recoded for unreduced scalars)"
					}
				}
				if _, w := p.Final["$s.inner"]; w {
					return "the recoding writes its receiver"
				}
				return ""
			},
		}
	}
	return []*edt.Spec{
		noCalls("(*Scalar).Bits", 1, true),
		noCalls("(*Scalar).ToRadix16", 1, true),
		noCalls("(*Scalar).ToRadix2w", 2, true),
		noCalls("(*Scalar).NonAdjacentForm", 2, true),
	}
}
