package props

import (
	"fmt"
	"sort"

	"voicheck/easm"
	"voicheck/ect"
)

// Sources of C08 (DESIGN §4 C08), derived from the property statement:
// "private-key derivation and signing (Ed25519, sr25519, ECVRF proving),
// X25519, constant-time point multiplication, scalar and field arithmetic,
// conditional select/swap/negate, table lookups and equality tests".
// Lengths, option structs and k/w parameters are public.
var ctSources = []ect.Source{
	// --- Ed25519 -------------------------------------------------------
	{Pkg: "primitives/ed25519", Func: "NewKeyFromSeed", Content: []int{0}, Why: "seed"},
	{Pkg: "primitives/ed25519", Func: "GenerateKey", Why: "bytes read from rand"},
	{Pkg: "primitives/ed25519", Func: "PrivateKey.Sign", Content: []int{0}, Window: map[int][2]int64{0: {0, 32}}, Why: "seed half of the private key, entropy"},
	{Pkg: "primitives/ed25519", Func: "Sign", Content: []int{0}, Window: map[int][2]int64{0: {0, 32}}, Why: "seed half of the private key"},
	{Pkg: "primitives/ed25519", Func: "PrivateKey.Seed", Content: []int{0}, Window: map[int][2]int64{0: {0, 32}}, Why: "seed half of the private key"},
	// --- ECVRF proving -------------------------------------------------
	{Pkg: "primitives/ed25519/extra/ecvrf", Func: "Prove", Content: []int{0}, Window: map[int][2]int64{0: {0, 32}}, Why: "seed half of sk"},
	{Pkg: "primitives/ed25519/extra/ecvrf", Func: "Prove_v10", Content: []int{0}, Window: map[int][2]int64{0: {0, 32}}, Why: "seed half of sk"},
	{Pkg: "primitives/ed25519/extra/ecvrf", Func: "ProveWithAddedRandomness", Content: []int{1}, Window: map[int][2]int64{1: {0, 32}}, Why: "seed half of sk, entropy"},
	{Pkg: "primitives/ed25519/extra/ecvrf", Func: "ProveWithAddedRandomness_v10", Content: []int{1}, Window: map[int][2]int64{1: {0, 32}}, Why: "seed half of sk, entropy"},
	// --- X25519 --------------------------------------------------------
	{Pkg: "primitives/x25519", Func: "ScalarMult", Content: []int{1}, Why: "scalar"},
	{Pkg: "primitives/x25519", Func: "ScalarBaseMult", Content: []int{1}, Why: "scalar"},
	{Pkg: "primitives/x25519", Func: "X25519", Content: []int{0}, Why: "scalar"},
	{Pkg: "primitives/x25519", Func: "(*PrivateKey).Public", Content: []int{0}, Why: "private key"},
	{Pkg: "primitives/x25519", Func: "(*PrivateKey).DiffieHellman", Content: []int{0}, Why: "private key"},
	{Pkg: "primitives/x25519", Func: "GeneratePrivateKey", Why: "bytes read from rand"},
	{Pkg: "primitives/x25519", Func: "GenerateKey", Why: "bytes read from rand"},
	{Pkg: "primitives/x25519", Func: "EdPrivateKeyToX25519", Content: []int{0}, Window: map[int][2]int64{0: {0, 32}}, Why: "seed half of the Ed25519 private key"},
	// --- sr25519 -------------------------------------------------------
	{Pkg: "primitives/sr25519", Func: "(*MiniSecretKey).ExpandUniform", Content: []int{0}, Why: "mini secret key"},
	{Pkg: "primitives/sr25519", Func: "(*MiniSecretKey).ExpandEd25519", Content: []int{0}, Why: "mini secret key"},
	{Pkg: "primitives/sr25519", Func: "(*SecretKey).PublicKey", Paths: map[int][][]string{0: {{"key", "*"}, {"nonce"}}}, Why: "secret scalar and nonce"},
	{Pkg: "primitives/sr25519", Func: "(*SecretKey).KeyPair", Paths: map[int][][]string{0: {{"key", "*"}, {"nonce"}}}, Why: "secret scalar and nonce"},
	{Pkg: "primitives/sr25519", Func: "GenerateMiniSecretKey", Why: "bytes read from rng"},
	{Pkg: "primitives/sr25519", Func: "GenerateSecretKey", Why: "bytes read from rng"},
	{Pkg: "primitives/sr25519", Func: "GenerateKeyPair", Why: "bytes read from rng"},
	{Pkg: "primitives/sr25519", Func: "(*KeyPair).Sign", Paths: map[int][][]string{0: {{"sk", "*", "key", "*"}, {"sk", "*", "nonce"}}}, Why: "secret scalar, nonce seed, entropy"},
	// --- secret-key equality tests (documented constant-time) ---------------
	{Pkg: "primitives/sr25519", Func: "(*SecretKey).Equal", Paths: map[int][][]string{0: {{"key", "*"}, {"nonce"}}, 1: {{"key", "*"}, {"nonce"}}}, Why: "both secret keys"},
	{Pkg: "primitives/sr25519", Func: "(*MiniSecretKey).Equal", Content: []int{0, 1}, Why: "both mini secret keys"},
	{Pkg: "primitives/ed25519", Func: "PrivateKey.Equal", Content: []int{0, 1}, Why: "both private keys"},
	// --- constant-time point multiplication ------------------------------
	{Pkg: "curve", Func: "(*EdwardsPoint).Mul", Content: []int{1, 2}, Why: "point and scalar"},
	{Pkg: "curve", Func: "(*EdwardsPoint).MulBasepoint", Content: []int{2}, Why: "scalar"},
	{Pkg: "curve", Func: "(*EdwardsPoint).MultiscalarMul", Content: []int{1, 2}, Why: "scalars and points"},
	{Pkg: "curve", Func: "(*RistrettoPoint).Mul", Content: []int{1, 2}, Why: "point and scalar"},
	{Pkg: "curve", Func: "(*RistrettoPoint).MulBasepoint", Content: []int{2}, Why: "scalar"},
	{Pkg: "curve", Func: "(*RistrettoPoint).MultiscalarMul", Content: []int{1, 2}, Why: "scalars and points"},
	{Pkg: "curve", Func: "(*MontgomeryPoint).Mul", Content: []int{1, 2}, Why: "point and scalar"},
	{Pkg: "curve", Func: "(*EdwardsPoint).ConditionalSelect", AllPtr: true, AllInt: true, Why: "operands and selector"},
	{Pkg: "curve", Func: "(*EdwardsPoint).Equal", AllPtr: true, Why: "operands"},
	{Pkg: "curve", Func: "(*RistrettoPoint).ConditionalSelect", AllPtr: true, AllInt: true, Why: "operands and selector"},
	{Pkg: "curve", Func: "(*RistrettoPoint).Equal", AllPtr: true, Why: "operands"},
	{Pkg: "curve", Func: "(*MontgomeryPoint).Equal", AllPtr: true, Why: "operands"},
	{Pkg: "curve", Func: "(*CompressedEdwardsY).Equal", AllPtr: true, Why: "operands"},
	{Pkg: "curve", Func: "(*CompressedRistretto).Equal", AllPtr: true, Why: "operands"},
	{Pkg: "curve", Func: "(*CompressedEdwardsY).SetEdwardsPoint", Content: []int{1}, Why: "point (R = rB during signing)"},
	{Pkg: "curve", Func: "(*CompressedRistretto).SetRistrettoPoint", Content: []int{1}, Why: "point"},
	{Pkg: "curve", Func: "(*MontgomeryPoint).SetEdwards", Content: []int{1}, Why: "point"},
	// --- table lookups ---------------------------------------------------
	{Pkg: "curve", Func: "(*affineNielsPointLookupTable).Lookup", Content: []int{0}, Value: []int{1}, Why: "table and digit"},
	{Pkg: "curve", Func: "(*projectiveNielsPointLookupTable).Lookup", Content: []int{0}, Value: []int{1}, Why: "table and digit"},
	{Pkg: "curve", Func: "(*cachedPointLookupTable).Lookup", Content: []int{0}, Value: []int{1}, Optional: true, Why: "table and digit"},
	{Pkg: "curve", Func: "lookupAffineNiels", Content: []int{0}, Value: []int{2}, Why: "table and |digit|"},
	{Pkg: "curve", Func: "lookupCached", Content: []int{0}, Value: []int{2}, Optional: true, Why: "table and |digit|"},
	// --- mask primitives ---------------------------------------------------
	{Pkg: "internal/subtle", Func: "ConstantTimeCompareByte", AllVal: true, Why: "operands"},
	{Pkg: "internal/subtle", Func: "ConstantTimeCompareBytes", AllPtr: true, Why: "operands"},
	{Pkg: "internal/subtle", Func: "ConstantTimeSelectByte", AllVal: true, Why: "operands and selector"},
	{Pkg: "internal/subtle", Func: "ConstantTimeSelectUint64", AllVal: true, Why: "operands and selector"},
	{Pkg: "internal/subtle", Func: "ConstantTimeSwapUint64", AllVal: true, AllPtr: true, Why: "operands and selector"},
	{Pkg: "internal/subtle", Func: "ConstantTimeSelectUint32", AllVal: true, Why: "operands and selector"},
	{Pkg: "internal/subtle", Func: "ConstantTimeSwapUint32", AllVal: true, AllPtr: true, Why: "operands and selector"},
	{Pkg: "internal/field", Func: "BatchInvert", Content: []int{0}, Why: "operands"},
	// --- transcripts carrying secrets (sr25519 witness generation) ----------
	{Pkg: "primitives/merlin", Func: "(*transcriptRng).Read", Paths: map[int][][]string{0: {{"s", "*", "st"}}}, Why: "STROBE state keyed with the secret nonce"},
	{Pkg: "primitives/merlin", Func: "(*TranscriptRngBuilder).RekeyWithWitnessBytes", Content: []int{2}, Why: "witness bytes"},
	{Pkg: "primitives/merlin", Func: "(*TranscriptRngBuilder).Finalize", Paths: map[int][][]string{0: {{"s", "*", "st"}}}, Why: "STROBE state keyed with the witness, entropy"},
	{Pkg: "primitives/merlin", Func: "(*Transcript).AppendMessage", Content: []int{2}, Why: "message bytes"},
	{Pkg: "primitives/merlin", Func: "(*Transcript).ExtractBytes", Paths: map[int][][]string{0: {{"s", "st"}}}, Why: "STROBE state"},
}

// Positive controls (checker/controls/scalar_control.go.txt): each must be
// reported by CT-sink on every run; the last one must stay silent.
var ctControlSources = []ect.Source{
	{Pkg: "curve/scalar", Func: "voicheckControlCTBranch", Content: []int{0}, Why: "positive control"},
	{Pkg: "curve/scalar", Func: "voicheckControlCTIndex", Content: []int{0}, Why: "positive control"},
	{Pkg: "curve/scalar", Func: "voicheckControlCTDiv", Content: []int{0}, Why: "positive control"},
	{Pkg: "curve/scalar", Func: "voicheckControlCTShift", Content: []int{0}, Why: "positive control"},
	{Pkg: "curve/scalar", Func: "voicheckControlCTUnmodelled", Content: []int{0, 1}, Why: "positive control"},
	{Pkg: "curve/scalar", Func: "voicheckControlCTVartime", Content: []int{0}, Why: "positive control"},
	{Pkg: "curve/scalar", Func: "voicheckControlCTSlice", Content: []int{0}, Why: "positive control"},
	{Pkg: "curve/scalar", Func: "voicheckControlCTAlloc", Content: []int{0}, Why: "positive control"},
	{Pkg: "curve/scalar", Func: "voicheckControlCTOK", Content: []int{0, 1}, Why: "negative control"},
}

var ctTypeSources = []ect.TypeSource{
	{Pkg: "curve/scalar", Type: "Scalar",
		Exclude: map[string]string{
			"UnmarshalBinary":   "decoder (validates canonicity in variable time by design)",
			"SetCanonicalBytes": "decoder / validator",
			"IsCanonical":       "validator",
			"NonAdjacentForm":   "variable-time recoding; must only be reached from *Vartime routines (enforced as a sink)",
			"ToRadix2w":         "recoding used by the variable-time Pippenger routine only",
		},
		PublicPrm: map[string][]int{"SetUint64": {1}},
	},
	{Pkg: "internal/field", Type: "Element",
		Exclude:   map[string]string{"UnsafeInner": "accessor"},
		PublicPrm: map[string][]int{"Pow2k": {2}},
	},
}

// Declassifiers (closed table, DESIGN §4 C08).
var ctDeclassResult = map[string]string{
	"primitives/x25519.x25519→crypto/subtle.ConstantTimeCompare": "documented rejection of an all-zero shared secret (low-order point)",
}
var ctDeclassArgs = map[string]string{
	"(primitives/ed25519.PrivateKey).Sign→primitives/ed25519.VerifyWithOptions": "SelfVerify: the freshly produced signature is public",
}

func init() {
	Registry["C08"] = func(c *Ctx) {
		run := c.Run
		run.Explanation = "E-CT: interprocedural, context-sensitive may-taint analysis over go/ssa from the constant-time entry points; every use of secret-derived data as a branch condition, memory index, slice bound, allocation size, division operand, shift count, aggregate comparison, argument of an unmodelled or variable-time function is reported. The property is a statement about source, so this decides it for all inputs on all paths of the analysed configurations."
		run.Assumptions = append(run.Assumptions,
			"the Go compiler does not introduce secret-dependent control flow when compiling branch-free source",
			"crypto/subtle, math/bits (Add/Sub/Mul/Len/Rotate), encoding/binary, crypto/sha512, x/crypto/sha3 are constant-time with respect to data and behave as modelled (external.go)",
			"integer multiplication and shifts are constant-time on the supported CPUs",
			"parameters of one call do not alias each other in a way that lets a write through one be read through another within the same callee",
		)
		run.NotDecided = []string{"micro-architectural timing", "compiler-introduced branches", "memory access patterns inside the standard library hash code"}
		if !c.Preload(c.Configs()...) {
			return
		}
		sink := run.Rule("CT-sink", "no secret-derived value reaches a branch, index, slice bound, allocation size, division, shift count, aggregate comparison, unmodelled or variable-time callee", 300).RequireControl(8)
		src := run.Rule("CT-sources", "every constant-time entry point of the source table resolves in this configuration", 60)
		dec := run.Rule("CT-declass", "each declassifier of the closed table is used", 2)
		acyc := run.Rule("CT-acyclic", "the analysed call graph is acyclic (summaries are exact fixpoints)", 3)
		run.Rule("ASM-jump", "every conditional jump in assembly is controlled only by immediates, counters stepped by immediates, or public scalar arguments", 3)
		run.Rule("ASM-index", "no assembly memory operand has an index register; every base derives from a pointer argument, SB or SP", 30)
		run.Rule("ASM-instr", "no variable-latency or forbidden instruction (DIV, CALL, RDRAND, ...) and no unknown mnemonic in assembly", 17)
		run.Rule("ASM-decl", "TEXT symbols and body-less Go declarations correspond one to one, argument slots agree", 17)
		ctl := run.Rule("ASM-control", "the assembly lint reports every violation of its embedded positive control and stays silent on its admitted symbols", 1)
		if err := easm.PositiveControl(); err != nil {
			ctl.Fail("-", "easm control", err.Error(), nil)
		} else {
			ctl.OK("easm control")
		}
		for _, id := range c.Configs() {
			p := c.Prog(id)
			run.SetConfig(id)
			// E-ASM: lint of the assembly of this configuration (rules ASM-jump,
			// ASM-index, ASM-instr, ASM-decl); its facts feed the taint analysis.
			ares := easm.Lint(run, p, "ASM", nil)
			asmWrites := map[string][]int{}
			asmOK := map[string]bool{}
			for _, sf := range ares.Symbols {
				var w []int
				for _, pr := range sf.Writes {
					w = append(w, pr.Index)
				}
				asmWrites[sf.QualifiedName()] = w
				if sf.Violations == 0 {
					asmOK[sf.QualifiedName()] = true
				}
			}
			entries, errs := ect.Resolve(p, append(append([]ect.Source{}, ctSources...), ctControlSources...), ctTypeSources)
			for _, e := range errs {
				src.Fail("-", "source table", e, nil)
			}
			src.OKN("source table", len(entries))
			an := ect.NewAnalyzer(p, run, sink)
			an.DeclassResult = ctDeclassResult
			an.DeclassArgs = ctDeclassArgs
			an.AsmWrites = asmWrites
			an.AsmOK = asmOK
			an.RunEntries(entries)
			st := an.Stats
			n := st.Branches + st.Indexes + st.SliceBounds + st.Divs + st.Shifts + st.Calls
			sink.OKN("all sinks", n-len(an.Sinks))
			for k := range ctDeclassResult {
				dec.Check(an.DeclassUsed["result:"+k], "-", k, "declassifier is not used: the construct it names no longer exists")
			}
			for k := range ctDeclassArgs {
				dec.Check(an.DeclassUsed["args:"+k], "-", k, "declassifier is not used: the construct it names no longer exists")
			}
			acyc.Check(st.Recursions == 0, "-", "call graph", fmt.Sprintf("%d recursive summary requests", st.Recursions))
			var un []string
			for k, v := range st.Unmodelled {
				un = append(un, fmt.Sprintf("%s×%d", k, v))
			}
			sort.Strings(un)
			run.Sample(map[string]any{"config": id, "entries": len(entries), "functions": st.Functions, "contexts": st.Contexts,
				"branches checked": st.Branches, "index operands": st.Indexes, "slice bounds": st.SliceBounds, "div operands": st.Divs,
				"shift counts": st.Shifts, "calls": st.Calls, "external calls": st.ExternalCalls, "sinks": len(an.Sinks)})
		}
	}
}
