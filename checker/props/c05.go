package props

import (
	"fmt"
	"math/big"
	"strings"

	"voicheck/econst"
	"voicheck/edt"
	"voicheck/elin"
	"voicheck/load"
	"voicheck/report"
)

// C05 — canonicity predicates decided completely by finite abstraction
// (DT-S), structure of the canonical decoders, Montgomery constants.

// scAbstract is one abstract input of ScMinimalVartime: the value of byte 31
// and, per 64-bit little-endian word, its ordering against the word of L.
type scAbstract struct {
	b31 int
	ord [4]int // -1: word < L's word, 0: equal, +1: greater
	len int
}

// evalScAtom evaluates an atom of ScMinimalVartime on an abstract input.
func evalScAtom(t *edt.Term, a scAbstract) (val, ok bool) {
	switch t.Op {
	case "not":
		v, ok := evalScAtom(t.Args[0], a)
		return !v, ok
	case "==", "<":
		x, y := t.Args[0], t.Args[1]
		// length test
		if x.String() == "len($scalar)" && y.IsConst() {
			n := constInt(y)
			if t.Op == "==" {
				return int64(a.len) == n, true
			}
			return int64(a.len) < n, true
		}
		wx, okx := scWord(x)
		wy, oky := scWord(y)
		ox, okox := scOrder(x)
		oy, okoy := scOrder(y)
		switch {
		case okx && okoy && wx == oy: // word ⋈ order
			if t.Op == "==" {
				return a.ord[wx] == 0, true
			}
			return a.ord[wx] < 0, true
		case okox && oky && ox == wy: // order ⋈ word
			if t.Op == "==" {
				return a.ord[wy] == 0, true
			}
			return a.ord[wy] > 0, true
		}
		// byte-31 mask tests against a constant
		if y.IsConst() {
			if f, fok := edt.ByteFunction(x, "$scalar[31]"); fok {
				c := constInt(y)
				if t.Op == "==" {
					return int64(f[a.b31]) == c, true
				}
				return int64(f[a.b31]) < c, true
			}
		}
		if x.IsConst() {
			if f, fok := edt.ByteFunction(y, "$scalar[31]"); fok {
				c := constInt(x)
				if t.Op == "==" {
					return int64(f[a.b31]) == c, true
				}
				return c < int64(f[a.b31]), true
			}
		}
	}
	return false, false
}

func constInt(t *edt.Term) int64 {
	v, _ := new(big.Int).SetString(t.String(), 10)
	if v == nil {
		return -1 << 62
	}
	return v.Int64()
}

// scWord recognises "the i-th little-endian 64-bit word of the input".
func scWord(t *edt.Term) (int, bool) {
	if !strings.HasSuffix(t.Op, ".Uint64") || len(t.Args) == 0 {
		return 0, false
	}
	arg := t.Args[len(t.Args)-1].String()
	if arg == "$scalar" {
		return 0, true
	}
	var lo, hi int
	if n, _ := fmt.Sscanf(arg, "$scalar[%d:%d]", &lo, &hi); n == 2 && hi == lo+8 && lo%8 == 0 && lo < 32 {
		return lo / 8, true
	}
	if n, _ := fmt.Sscanf(arg, "$scalar[%d:]", &lo); n == 1 && strings.HasSuffix(arg, ":]") && lo%8 == 0 && lo < 32 {
		return lo / 8, true
	}
	return 0, false
}

func scOrder(t *edt.Term) (int, bool) {
	var i int
	if n, _ := fmt.Sscanf(t.Op, "@curve/scalar.order[%d]", &i); n == 1 && len(t.Args) == 0 && i >= 0 && i < 4 {
		return i, true
	}
	return 0, false
}

// checkScMinimal enumerates every consistent abstract input, follows the
// unique path whose literals it satisfies and compares the result with
// "little-endian value < L".
func checkScMinimal(rule *report.Rule, cfg *edt.Config) map[string]any {
	p := cfg.P
	name := "curve/scalar.ScMinimalVartime"
	fn := p.Func("curve/scalar", "ScMinimalVartime")
	if fn == nil {
		rule.Fail("-", name, "target function cannot be resolved (anchor lost)", nil)
		return nil
	}
	pos := p.Pos(fn.Pos())
	paths := edt.Walk(&edt.Config{P: p, Mod: cfg.Mod, MaxVisits: 12}, fn)
	for _, pa := range paths {
		if pa.Note != "" {
			rule.Fail(pos, name, "decision structure not recognised: "+pa.Note, nil)
			return nil
		}
	}
	L := econst.L()
	top := new(big.Int).Rsh(L, 192) // most significant 64-bit word of L
	nInputs, nWrong := 0, 0
	eval := func(a scAbstract) {
		nInputs++
		// expected: value < L  (lexicographic from the most significant word)
		want := false
		if a.len == 32 {
			for i := 3; i >= 0; i-- {
				if a.ord[i] != 0 {
					want = a.ord[i] < 0
					break
				}
			}
		}
		var match *edt.Path
		for _, pa := range paths {
			ok := true
			for _, l := range pa.Lits {
				v, known := evalScAtom(l.Term, a)
				if !known {
					rule.Fail(pos, name, "unrecognised condition in the canonicity test: "+clip(l.Atom, 160), nil)
					return
				}
				if v != l.Val {
					ok = false
					break
				}
			}
			if ok {
				if match != nil {
					rule.Fail(pos, name, "two paths match one abstract input (extractor inconsistency)", nil)
					return
				}
				match = pa
			}
		}
		if match == nil {
			rule.Fail(pos, name, fmt.Sprintf("no path for abstract input %+v", a), nil)
			return
		}
		got := match.OutcomeString()
		if got != fmt.Sprint(want) {
			nWrong++
			rule.Fail(pos, name, fmt.Sprintf("for an input with byte 31 = %#02x and words (most significant first) %s L's words the test returns %s, but value < L is %v", a.b31, ordString(a.ord), got, want), nil)
			return
		}
		rule.OK(name)
	}
	// wrong lengths (any abstract content)
	eval(scAbstract{b31: 0, len: 31})
	eval(scAbstract{b31: 0xff, ord: [4]int{1, 1, 1, 1}, len: 33})
	for b := 0; b < 256; b++ {
		// orderings of word 3 consistent with byte 31 = b: the word lies in [b·2^56, b·2^56 + 2^56 - 1]
		lo := new(big.Int).Lsh(big.NewInt(int64(b)), 56)
		hi := new(big.Int).Add(lo, new(big.Int).Sub(new(big.Int).Lsh(big.NewInt(1), 56), big.NewInt(1)))
		var ord3 []int
		if lo.Cmp(top) < 0 {
			ord3 = append(ord3, -1)
		}
		if lo.Cmp(top) <= 0 && top.Cmp(hi) <= 0 {
			ord3 = append(ord3, 0)
		}
		if hi.Cmp(top) > 0 {
			ord3 = append(ord3, 1)
		}
		for _, o3 := range ord3 {
			for o2 := -1; o2 <= 1; o2++ {
				for o1 := -1; o1 <= 1; o1++ {
					for o0 := -1; o0 <= 1; o0++ {
						eval(scAbstract{b31: b, ord: [4]int{o0, o1, o2, o3}, len: 32})
					}
				}
			}
		}
	}
	return map[string]any{"function": name, "paths": len(paths), "abstract inputs enumerated": nInputs, "wrong": nWrong,
		"abstraction": "byte 31 (256 values) × ordering of each 64-bit word against L's word (lt/eq/gt), consistent combinations only"}
}

func ordString(o [4]int) string {
	s := []string{}
	for i := 3; i >= 0; i-- {
		s = append(s, map[int]string{-1: "<", 0: "=", 1: ">"}[o[i]])
	}
	return strings.Join(s, " ")
}

func c05Specs() []*edt.Spec {
	return []*edt.Spec{
		{
			// IsCanonical: s is canonical iff its bytes EQUAL the bytes of its own reduction (so exactly s < L)
			Pkg: "curve/scalar", Func: "(*Scalar).IsCanonical", Opaque: []string{"Scalar.Reduce"}, MinPaths: 1, Vars: map[string]string{},
			Classify: func(p *edt.Path, out string, e *edt.Env) string {
				if len(p.Outcome) != 1 {
					return ""
				}
				o := p.Outcome[0]
				if o.Op == "==" && len(o.Args) == 2 && o.Args[1].String() == "1" {
					o = o.Args[0]
				}
				switch o.Op {
				case "bytes.Equal", "subtle.ConstantTimeCompare", "subtle.ConstantTimeCompareBytes", "Scalar.Equal":
				default:
					return ""
				}
				if len(o.Args) != 2 {
					return ""
				}
				a, b := o.Args[0].String(), o.Args[1].String()
				own := func(x string) bool { return x == "$s.inner" || x == "$s" }
				red := func(x string) bool { return strings.Contains(x, "Scalar.Reduce($s)") }
				if (own(a) && red(b)) || (own(b) && red(a)) {
					return "equals-own-reduction"
				}
				return ""
			},
			Formula: map[string]func(e *edt.Env) edt.Tri{"equals-own-reduction": always},
		},
		{
			// the binary unmarshaller accepts exactly what SetCanonicalBytes accepts (it IS that call)
			Pkg: "curve/scalar", Func: "(*Scalar).UnmarshalBinary", Opaque: []string{"Scalar.SetCanonicalBytes"}, MinPaths: 1, Vars: map[string]string{},
			Classify: func(p *edt.Path, out string, e *edt.Env) string {
				if out == "err(Scalar.SetCanonicalBytes($data))" && len(p.Lits) == 0 {
					return "delegates"
				}
				return ""
			},
			Formula: map[string]func(e *edt.Env) edt.Tri{"delegates": always},
		},
		{
			// SetCanonicalBytes: len = 32 ∧ bit 255 clear ∧ IsCanonical
			Pkg: "curve/scalar", Func: "(*Scalar).SetCanonicalBytes", Opaque: []string{"Scalar.IsCanonical"}, MinPaths: 3,
			Vars:      map[string]string{"(len($in) == 32)": "len32", "(($in[31] >> 7) == 0)": "highBitClear", "(($in[31] & 128) == 0)": "highBitClear"},
			VarPrefix: map[string]string{"Scalar.IsCanonical(": "isCanonical"},
			Classify: func(p *edt.Path, out string, e *edt.Env) string {
				switch {
				case strings.HasPrefix(out, "nil ; err("), strings.HasPrefix(out, "nil ; errvar("):
					return "error"
				case out == "ptr($s) ; nil":
					return "ok"
				}
				return ""
			},
			Formula: map[string]func(e *edt.Env) edt.Tri{
				"ok": func(e *edt.Env) edt.Tri { return edt.And(e.V("len32"), e.V("highBitClear"), e.V("isCanonical")) },
				"error": func(e *edt.Env) edt.Tri {
					return edt.Not(edt.And(e.V("len32"), e.V("highBitClear"), e.V("isCanonical")))
				},
			},
		},
	}
}

func init() {
	Registry["C05"] = func(c *Ctx) {
		run := c.Run
		run.Explanation = "DT-S: ScMinimalVartime is decided COMPLETELY by finite abstraction: its paths are extracted (loop unrolled) and every consistent abstract input — the 256 values of byte 31 × the three-way ordering of each little-endian 64-bit word against the corresponding word of L, with word 3 constrained by byte 31 through the numeric value of L — is evaluated on the atoms of the code and must give exactly 'value < L' (and false for any other length). Plus: structure of SetCanonicalBytes, the Montgomery and order constants in both radices against the math/big oracle, and the byte<->limb conversions of the scalar back ends as affine identities over the input bits (engine E-LIN: SetBytes uses all 256 bits at their weights, ToBytes is its inverse table, SetBytesWide hands lo + 2^(n·W)·hi = the 512-bit input to the Montgomery multiplications by R and RR; with monomial symbols: scalarMulInternal/squareInternal = the exact integer product (32-bit Karatsuba: per word modulo 2^64 with range argument), MontgomeryReduce: result·R ≡ input mod L with constL checked by value, Add/Sub ≡ a ± b modulo L up to exactly one 0/1 selector)."
		run.NotDecided = append([]string{"that results of Add/Sub/MontgomeryReduce are FULLY reduced (< L): needs value-level bounds, argued not mechanised; the congruences mod L are decided"}, elin.MulNotDecided...)
		run.Exhaustive = true
		if !c.Preload(c.Configs()...) {
			return
		}
		portableWidthRule(c, c.Configs()[0])
		expFoundations(c) // scalar inversion raises to L-2 in Montgomery form (E-EXP)
		dts := run.Rule("DT-S", "ScMinimalVartime returns exactly 'little-endian value < L' on every consistent abstract input, false on any other length", 5000)
		red := run.Rule("REDUCED", "every scalar operation documented to return a reduced value packs a value that is reduced by construction (Montgomery reduction, or sums/differences of reduced values and constants below L)", 12)
		al := run.Rule("ALIAS", "scalar operations compute the same result when receiver and operands denote one object", 12)
		dt := run.Rule("DT-canonical", "SetCanonicalBytes accepts exactly len = 32 ∧ bit 255 clear ∧ IsCanonical; IsCanonical compares the scalar with its own reduction; UnmarshalBinary is SetCanonicalBytes", 5)
		for _, id := range c.Configs() {
			p := c.Prog(id)
			run.SetConfig(id)
			cfg := &edt.Config{P: p, Mod: modFor(p)}
			checkScalarWhole(run.Rule("DT-scalar-whole", "BatchInvert returns only after both passes over its inputs; SetBytesModOrderWide reduces all 64 input bytes on every successful path", 2), cfg)
			if s := checkScMinimal(dts, cfg); s != nil && id == c.Configs()[0] {
				run.Sample(s)
			}
			checkReducedOutputs(red, cfg)
			if id == c.Configs()[0] {
				run.Sample(checkAliasing(al, p, []string{"curve/scalar"}))
				checkAliasSlice(p, run.Rule("ALIAS-slice", "a function with an output *T and a slice of T / *T finishes reading the slice elements before it first writes the output (the output may be one of the elements)", 15), false)
			}
			for _, s := range c05Specs() {
				r := edt.Check(dt, cfg, s)
				if id == c.Configs()[0] {
					run.Sample(map[string]any{"function": s.Func, "paths": r.Paths, "classes": r.ClassCount})
				}
			}
			// scalarMulInternal / squareInternal (exact integer product), MontgomeryReduce (r·R ≡ input mod L), Add/Sub (≡ a ± b mod L up to one selector) by E-LIN
			mr := elin.CheckMul(run, p, "MUL")
			if id == c.Configs()[0] {
				run.Sample(map[string]any{"config": id, "MUL functions": mr.Functions, "MUL obligations": mr.Obligations})
			}
			lr := elin.CheckScalarPack(run, p, "LIN")
			if id == c.Configs()[0] {
				run.Sample(map[string]any{"config": id, "LIN functions": lr.Functions, "LIN obligations": lr.Obligations})
			}
			econst.CheckNamed(run, p, "CONST", "curve/scalar.constL", "curve/scalar.constR", "curve/scalar.constRR", "curve/scalar.constLFACTOR",
				"curve/scalar.BASEPOINT_ORDER", "curve/scalar.order")
		}
		_ = load.Module
	}
}
