package props

import (
	"strings"

	"voicheck/edt"
	"voicheck/report"
)

// DT-compressed-unmarshal: CompressedEdwardsY / CompressedRistretto.UnmarshalBinary accept
// exactly what the point decoder accepts FOR THE INPUT BYTES: every accepting path has passed a
// successful decode (point UnmarshalBinary, or SetCompressed[Y] of SetBytes) of $data itself —
// not of the receiver, which was just reset — and leaves the receiver holding $data; every other
// path returns an error.  (The point decoders themselves are decided by DT-edwards / DT-ristretto.)
func checkCompressedUnmarshal(rule *report.Rule, cfg *edt.Config, which []string) {
	p := cfg.P
	for _, c := range [][3]string{{"CompressedEdwardsY", "EdwardsPoint", "SetCompressedY"}, {"CompressedRistretto", "RistrettoPoint", "SetCompressed"}} {
		use := false
		for _, w := range which {
			use = use || w == c[0]
		}
		if !use {
			continue
		}
		name := "(*" + c[0] + ").UnmarshalBinary"
		full := "curve." + name
		fn := p.Func("curve", name)
		if fn == nil {
			rule.Fail("-", full, "target function cannot be resolved (anchor lost)", nil)
			continue
		}
		pos := p.Pos(fn.Pos())
		opaque := map[string]bool{c[1] + ".UnmarshalBinary": true, c[1] + "." + c[2]: true, c[0] + ".SetBytes": true, c[0] + ".Identity": true}
		paths := edt.Walk(&edt.Config{P: p, Mod: cfg.Mod, Opaque: opaque, MaxPaths: 100}, fn)
		bad, accepts := "", 0
		for _, pa := range paths {
			if pa.Note != "" {
				bad = "cannot follow the function: " + pa.Note
				break
			}
			if pa.Panic != nil {
				bad = "a path panics on caller bytes"
				break
			}
			out := pa.OutcomeString()
			if out != "nil" {
				if !strings.HasPrefix(out, "err(") {
					bad = "unexpected outcome " + clip(out, 80)
					break
				}
				continue
			}
			accepts++
			validated := false
			for _, l := range pa.Lits {
				if l.Val && strings.HasPrefix(l.Atom, "isnil(err("+c[1]+".") && strings.Contains(l.Atom, "$data") && !strings.Contains(l.Atom, "$p") {
					validated = true
				}
			}
			if !validated {
				bad = "an accepting path [" + clip(pa.LitString(), 160) + "] has not passed a successful point decode of the input bytes: strings that are not valid encodings are accepted"
				break
			}
			if f, ok := pa.Final["$p"]; !ok || !strings.Contains(f.String(), "$data") {
				got := "untouched"
				if ok {
					got = clip(f.String(), 100)
				}
				bad = "on acceptance the receiver must hold the input bytes; it is " + got
				break
			}
		}
		switch {
		case bad != "":
			rule.Fail(pos, full, bad, nil)
		case accepts == 0:
			rule.Fail(pos, full, "no accepting path found", nil)
		default:
			rule.OK(full)
		}
	}
}
