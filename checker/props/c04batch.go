package props

import (
	"strings"

	"voicheck/edt"
)

// batchInvertSpec: Montgomery's trick with zero skipping, uniform over ALL indices (also index 0):
//
//	forward  i = 0..n-1 : scratch[i] = acc ; acc = (in[i] == 0) ? acc : acc·in[i]      (acc starts as 1)
//	acc = acc^-1
//	backward i = n-1..0 : in[i] = (in[i] == 0) ? in[i] : acc·scratch[i] ; acc = (in[i] == 0) ? acc : acc·in[i]
func batchInvertSpec() *edt.Spec { return batchInvertSpecFor(true) }

// batchInvertSpecFor: the scratch slice may be pre-initialised by a first loop (hasInit) — a dead
// store, every element is Set in the forward pass before it is read — or not.
func batchInvertSpecFor(hasInit bool) *edt.Spec {
	LF, LB := "L1", "L2"
	if !hasInit {
		LF, LB = "L0", "L1"
	}
	var (
		acc1 = "havoc@" + LF + "(A<field.Element>#0)"
		acc2 = "havoc@" + LB + "(A<field.Element>#0)"
		scr  = "havoc@" + LF + "(M<[]field.Element>#0)"
		in1  = "$inputs[φ" + LF + ".0]"
		in2  = "$inputs[φ" + LB + ".0]"
	)
	sel := func(a, b, c string) string { return "Element.ConditionalSelect(" + a + ", " + b + ", " + c + ")" }
	return &edt.Spec{
		Pkg: "internal/field", Func: "BatchInvert", SymLoops: true, MinPaths: map[bool]int{true: 4, false: 3}[hasInit],
		Opaque: []string{"Element.Mul", "Element.Invert", "Element.IsZero", "Element.ConditionalSelect", "Element.Set", "Element.One"},
		Vars: func() map[string]string {
			m := map[string]string{
				"(φ" + LF + ".0 < len($inputs))": "fwdMore",
				"(φ" + LB + ".0 < 0)":            "bwdDone",
			}
			if hasInit {
				m["(φL0.0 < len(zeros(len($inputs))))"] = "initMore"
			}
			return m
		}(),
		Classify: func(p *edt.Path, out string, e *edt.Env) string {
			switch {
			case hasInit && strings.HasPrefix(out, "next-iteration@L0("):
				return "init"
			case strings.HasPrefix(out, "next-iteration@"+LF+"("):
				return "forward"
			case strings.HasPrefix(out, "next-iteration@"+LB+"("):
				return "backward"
			case out == "":
				return "done"
			}
			return ""
		},
		Formula: func() map[string]func(e *edt.Env) edt.Tri {
			noInit := func(e *edt.Env) edt.Tri {
				if !hasInit {
					return edt.T
				}
				return edt.Not(e.V("initMore"))
			}
			return map[string]func(e *edt.Env) edt.Tri{
				"init":    func(e *edt.Env) edt.Tri { return e.V("initMore") },
				"forward": func(e *edt.Env) edt.Tri { return edt.And(noInit(e), e.V("fwdMore")) },
				"backward": func(e *edt.Env) edt.Tri {
					return edt.And(noInit(e), edt.Not(e.V("fwdMore")), edt.Not(e.V("bwdDone")))
				},
				"done": func(e *edt.Env) edt.Tri {
					return edt.And(noInit(e), edt.Not(e.V("fwdMore")), e.V("bwdDone"))
				},
			}
		}(),
		Extra: func(p *edt.Path, out, class string, e *edt.Env, ab func(string) string) string {
			has := func(s string) bool {
				for _, ev := range p.Events {
					if ev == s {
						return true
					}
				}
				return false
			}
			switch class {
			case "forward":
				if !has("loop "+LF+": A<field.Element>#0 enters as Element.One") || !has("loop "+LF+": φ"+LF+".0 starts as 0") {
					return "the forward pass must start with the accumulator 1 at index 0 (every input, also the first, goes through the zero-skipping step)"
				}
				if out != "next-iteration@"+LF+"((φ"+LF+".0 + 1))" {
					return "the forward pass must visit every index in order"
				}
				return finalsAre(p, ab, map[string]string{
					"M<[]field.Element>#0[φ" + LF + ".0]": "Element.Set(" + acc1 + ")",
					"A<field.Element>#0":                  sel("Element.Mul("+in1+", "+acc1+")", acc1, "Element.IsZero("+in1+")"),
				})
			case "backward":
				if !has("loop "+LB+": A<field.Element>#0 enters as Element.Invert("+acc1+")") || !has("loop "+LB+": φ"+LB+".0 starts as (len($inputs) - 1)") {
					return "the backward pass must start from the inverse of the accumulated product at the last index"
				}
				if out != "next-iteration@"+LB+"((φ"+LB+".0 - 1))" {
					return "the backward pass must visit every index down to 0"
				}
				return finalsAre(p, ab, map[string]string{
					"$inputs[φ" + LB + ".0]": sel("Element.Mul("+acc2+", sel("+scr+", [φ"+LB+".0]))", in2, "Element.IsZero("+in2+")"),
					"A<field.Element>#0":     sel("Element.Mul("+in2+", "+acc2+")", acc2, "Element.IsZero("+in2+")"),
				})
			}
			return ""
		},
	}
}
