package props

import (
	"strings"

	"voicheck/edt"
)

// batchInvertSpec: Montgomery's trick with zero skipping, uniform over ALL indices (also index 0):
//
//	forward  i = 0..n-1 : scratch[i] = acc ; acc = (in[i] == 0) ? acc : acc·in[i]      (acc starts as 1)
//	acc = acc^-1
//	backward i = n-1..0 : in[i] = (in[i] == 0) ? in[i] : acc·scratch[i] ; acc = (in[i] == 0) ? acc : acc·in[i]
func batchInvertSpec() *edt.Spec {
	const (
		acc1 = "havoc@L1(A<field.Element>#0)"
		acc2 = "havoc@L2(A<field.Element>#0)"
		scr  = "havoc@L1(M<[]field.Element>#0)"
		in1  = "$inputs[φL1.0]"
		in2  = "$inputs[φL2.0]"
	)
	sel := func(a, b, c string) string { return "Element.ConditionalSelect(" + a + ", " + b + ", " + c + ")" }
	return &edt.Spec{
		Pkg: "internal/field", Func: "BatchInvert", SymLoops: true, MinPaths: 4,
		Opaque: []string{"Element.Mul", "Element.Invert", "Element.IsZero", "Element.ConditionalSelect", "Element.Set", "Element.One"},
		Vars: map[string]string{
			"(φL0.0 < len(zeros(len($inputs))))": "initMore",
			"(φL1.0 < len($inputs))":             "fwdMore",
			"(φL2.0 < 0)":                        "bwdDone",
		},
		Classify: func(p *edt.Path, out string, e *edt.Env) string {
			switch {
			case strings.HasPrefix(out, "next-iteration@L0("):
				return "init"
			case strings.HasPrefix(out, "next-iteration@L1("):
				return "forward"
			case strings.HasPrefix(out, "next-iteration@L2("):
				return "backward"
			case out == "":
				return "done"
			}
			return ""
		},
		Formula: map[string]func(e *edt.Env) edt.Tri{
			"init":    func(e *edt.Env) edt.Tri { return e.V("initMore") },
			"forward": func(e *edt.Env) edt.Tri { return edt.And(edt.Not(e.V("initMore")), e.V("fwdMore")) },
			"backward": func(e *edt.Env) edt.Tri {
				return edt.And(edt.Not(e.V("initMore")), edt.Not(e.V("fwdMore")), edt.Not(e.V("bwdDone")))
			},
			"done": func(e *edt.Env) edt.Tri {
				return edt.And(edt.Not(e.V("initMore")), edt.Not(e.V("fwdMore")), e.V("bwdDone"))
			},
		},
		Extra: func(p *edt.Path, out, class string, e *edt.Env, ab func(string) string) string {
			has := func(s string) bool {
				for _, ev := range p.Events {
					if ev == s {
						return true
					}
				}
				return false
			}
			switch class {
			case "forward":
				if !has("loop L1: A<field.Element>#0 enters as Element.One") || !has("loop L1: φL1.0 starts as 0") {
					return "the forward pass must start with the accumulator 1 at index 0 (every input, also the first, goes through the zero-skipping step)"
				}
				if out != "next-iteration@L1((φL1.0 + 1))" {
					return "the forward pass must visit every index in order"
				}
				return finalsAre(p, ab, map[string]string{
					"M<[]field.Element>#0[φL1.0]": "Element.Set(" + acc1 + ")",
					"A<field.Element>#0":          sel("Element.Mul("+in1+", "+acc1+")", acc1, "Element.IsZero("+in1+")"),
				})
			case "backward":
				if !has("loop L2: A<field.Element>#0 enters as Element.Invert("+acc1+")") || !has("loop L2: φL2.0 starts as (len($inputs) - 1)") {
					return "the backward pass must start from the inverse of the accumulated product at the last index"
				}
				if out != "next-iteration@L2((φL2.0 - 1))" {
					return "the backward pass must visit every index down to 0"
				}
				return finalsAre(p, ab, map[string]string{
					"$inputs[φL2.0]":     sel("Element.Mul("+acc2+", sel("+scr+", [φL2.0]))", in2, "Element.IsZero("+in2+")"),
					"A<field.Element>#0": sel("Element.Mul("+in2+", "+acc2+")", acc2, "Element.IsZero("+in2+")"),
				})
			}
			return ""
		},
	}
}
