package props

import (
	"fmt"
	"go/types"
	"math/big"
	"sort"
	"strings"

	"voicheck/edt"
	"voicheck/eexp"
	"voicheck/load"
	"voicheck/report"
)

// EXP-chain: the exponentiation chains (field inversion, the (p-5)/8 power behind every square
// root, scalar inversion in Montgomery form) raise their input to exactly the specified power,
// and SqrtRatioI compares and combines exactly the specified monomials.  Decided by E-EXP
// (checker/eexp): abstract interpretation in the monomial domain; multiplication, squaring and
// k-fold squaring are the only interpreted operations (their own correctness is MUL/LIN).

var (
	fieldP  = new(big.Int).Sub(new(big.Int).Lsh(big.NewInt(1), 255), big.NewInt(19))
	scalarL = func() *big.Int {
		l, _ := new(big.Int).SetString("27742317777372353535851937790883648493", 10)
		return l.Add(l, new(big.Int).Lsh(big.NewInt(1), 252))
	}()
)

func namedIs(t types.Type, rel string, names ...string) bool {
	n, ok := t.(*types.Named)
	if !ok || n.Obj().Pkg() == nil || load.Rel(n.Obj().Pkg()) != rel {
		return false
	}
	for _, x := range names {
		if n.Obj().Name() == x {
			return true
		}
	}
	return false
}

func fieldExpConfig(p *load.Program) *eexp.Config {
	const E = "(*internal/field.Element)."
	return &eexp.Config{P: p,
		Prims: map[string]eexp.Kind{
			E + "Mul": eexp.KMul, E + "Square": eexp.KSquare, E + "Pow2k": eexp.KPow2k, E + "Set": eexp.KSet, E + "Neg": eexp.KNeg,
			E + "Equal": eexp.KObserve, E + "IsNegative": eexp.KObserve, E + "IsZero": eexp.KObserve,
			E + "ConditionalAssign": eexp.KObserveW, E + "ConditionalNegate": eexp.KObserveW, E + "ConditionalSelect": eexp.KObserveW,
		},
		Globals: map[string]*eexp.Mono{"internal/field.One": eexp.One(), "internal/field.SQRT_M1": eexp.Var("i"), "internal/field.MinusOne": eexp.Neg(eexp.One())},
		IsElem:  func(t types.Type) bool { return namedIs(t, "internal/field", "Element") },
	}
}

func scalarExpConfig(p *load.Program) *eexp.Config {
	const U = "(*curve/scalar.unpackedScalar)."
	const S = "(*curve/scalar.Scalar)."
	return &eexp.Config{P: p,
		Prims: map[string]eexp.Kind{
			U + "MontgomeryMul": eexp.KMontMul, U + "MontgomerySquare": eexp.KMontSq, U + "FromMontgomery": eexp.KFromMont,
			S + "unpack": eexp.KFresh, S + "pack": eexp.KSet,
		},
		// constRR = R^2 mod L is CONST (E-CONST)
		Globals: map[string]*eexp.Mono{"curve/scalar.constRR": eexp.Pow(eexp.Var("R"), big.NewInt(2))},
		IsElem:  func(t types.Type) bool { return namedIs(t, "curve/scalar", "unpackedScalar", "Scalar") },
	}
}

func pw(v string, e *big.Int) *eexp.Mono { return eexp.Pow(eexp.Var(v), e) }

func checkExpChains(p *load.Program, rule *report.Rule) map[string]any {
	stats := map[string]any{}
	p58 := new(big.Int).Sub(new(big.Int).Lsh(big.NewInt(1), 252), big.NewInt(3)) // (p-5)/8
	pm1 := new(big.Int).Sub(fieldP, big.NewInt(1))
	lm1 := new(big.Int).Sub(scalarL, big.NewInt(1))
	fmod := map[string]*big.Int{"*": pm1}
	smod := map[string]*big.Int{"a": lm1, "t": lm1}

	type target struct {
		rel, fn  string
		cfg      *eexp.Config
		args     func() []any
		optional bool
		// verdict inspects the result
		verdict func(args []any, r *eexp.Result) string
	}
	obj := eexp.NewObject
	wantObj := func(i int, want *eexp.Mono, mod map[string]*big.Int, what string) func([]any, *eexp.Result) string {
		return func(args []any, r *eexp.Result) string {
			got := args[i].(*eexp.Object).Mono()
			if !eexp.Equal(got, want, mod) {
				return fmt.Sprintf("%s is %s, want %s", what, got, want)
			}
			if len(r.Returns) > 0 {
				if o, ok := r.Returns[0].(*eexp.Object); ok && o != args[i] {
					return "the returned pointer is not the destination"
				}
			}
			return ""
		}
	}
	sqrtVerdict := func(u, v *eexp.Mono) func([]any, *eexp.Result) string {
		return func(args []any, r *eexp.Result) string {
			// r = u*(u*v)^((p-5)/8); check = v*r^2, compared with u, -u, -i*u; r' = i*r
			rr := eexp.Mul(u, eexp.Pow(eexp.Mul(u, v), p58))
			check := eexp.Mul(v, eexp.Pow(rr, big.NewInt(2)))
			i := eexp.Var("i")
			want := []string{
				obsKey("Equal", fmod, check, u),
				obsKey("Equal", fmod, check, eexp.Neg(u)),
				obsKey("Equal", fmod, check, eexp.Neg(eexp.Mul(i, u))),
				obsKey("ConditionalAssign", fmod, rr, eexp.Mul(i, rr)),
			}
			have := map[string]int{}
			nEq := 0
			for _, o := range r.Obs {
				short := o.Callee[strings.LastIndex(o.Callee, ".")+1:]
				if short == "Equal" {
					nEq++
					sortMonos(o.Args, fmod)
				}
				have[obsKey(short, fmod, o.Args...)]++
			}
			for _, w := range want {
				if have[w] == 0 {
					var got []string
					for _, o := range r.Obs {
						got = append(got, o.String())
					}
					return fmt.Sprintf("the square-root candidate test %s is missing; observed: %s", w, strings.Join(got, " ; "))
				}
			}
			if nEq != 3 {
				return fmt.Sprintf("%d equality tests, want 3", nEq)
			}
			return ""
		}
	}
	fc, sc := fieldExpConfig(p), scalarExpConfig(p)
	targets := []target{
		{rel: "internal/field", fn: "(*Element).Invert", cfg: fc,
			args:    func() []any { return []any{obj("fe", nil), obj("t", eexp.Var("t"))} },
			verdict: wantObj(0, pw("t", new(big.Int).Sub(fieldP, big.NewInt(2))), fmod, "Invert(t)")},
		{rel: "internal/field", fn: "(*Element).pow_p58", cfg: fc, optional: true,
			args:    func() []any { return []any{obj("fe", eexp.Var("t"))} },
			verdict: wantObj(0, pw("t", p58), fmod, "pow_p58 of t")},
		{rel: "internal/field", fn: "(*Element).SqrtRatioI", cfg: fc,
			args:    func() []any { return []any{obj("fe", nil), obj("u", eexp.Var("u")), obj("v", eexp.Var("v"))} },
			verdict: sqrtVerdict(eexp.Var("u"), eexp.Var("v"))},
		{rel: "internal/field", fn: "(*Element).InvSqrt", cfg: fc,
			args:    func() []any { return []any{obj("fe", eexp.Var("v"))} },
			verdict: sqrtVerdict(eexp.One(), eexp.Var("v"))},
		{rel: "curve/scalar", fn: "(*unpackedScalar).Invert", cfg: sc,
			args:    func() []any { return []any{obj("s", nil), obj("a", eexp.Var("a"))} },
			verdict: wantObj(0, pw("a", new(big.Int).Sub(scalarL, big.NewInt(2))), smod, "Invert(a)")},
		{rel: "curve/scalar", fn: "(*Scalar).Invert", cfg: sc,
			args:    func() []any { return []any{obj("s", nil), obj("t", eexp.Var("t"))} },
			verdict: wantObj(0, pw("t", new(big.Int).Sub(scalarL, big.NewInt(2))), smod, "Invert(t)")},
	}
	for _, t := range targets {
		fn := p.Func(t.rel, t.fn)
		name := t.rel + "." + t.fn
		if fn == nil {
			if !t.optional {
				rule.Fail("", name, "anchor function not found", nil)
			}
			continue
		}
		args := t.args()
		r, err := eexp.Run(t.cfg, fn, args)
		if err != nil {
			pos := p.Pos(fn.Pos())
			if u, ok := err.(*eexp.Undecided); ok && u.Pos.IsValid() {
				pos = p.Pos(u.Pos)
			}
			rule.Fail(pos, name, "the exponentiation chain could not be followed: "+err.Error(), nil)
			continue
		}
		if msg := t.verdict(args, r); msg != "" {
			rule.Fail(p.Pos(fn.Pos()), name, msg, nil)
			continue
		}
		rule.OK(name)
		stats[name] = map[string]any{"abstract steps": r.Steps, "observed calls": len(r.Obs)}
	}
	return stats
}

func sortMonos(ms []*eexp.Mono, mod map[string]*big.Int) {
	sort.Slice(ms, func(i, j int) bool { return monoKey(ms[i], mod) < monoKey(ms[j], mod) })
}

// monoKey renders a monomial with exponents reduced modulo the group order.
func monoKey(m *eexp.Mono, mod map[string]*big.Int) string {
	if m == nil {
		return "?"
	}
	var ks []string
	for k := range m.Exp {
		ks = append(ks, k)
	}
	sort.Strings(ks)
	s := ""
	if m.Neg {
		s = "-"
	}
	for _, k := range ks {
		e := new(big.Int).Set(m.Exp[k])
		if q := mod[k]; q != nil {
			e.Mod(e, q)
		} else if q := mod["*"]; q != nil {
			e.Mod(e, q)
		}
		if e.Sign() != 0 {
			s += fmt.Sprintf("%s^%x ", k, e)
		}
	}
	return s
}

func obsKey(callee string, mod map[string]*big.Int, ms ...*eexp.Mono) string {
	if callee == "Equal" {
		ms = append([]*eexp.Mono{}, ms...)
		sortMonos(ms, mod)
	}
	var parts []string
	for _, m := range ms {
		parts = append(parts, monoKey(m, mod))
	}
	return callee + "(" + strings.Join(parts, ", ") + ")"
}

// sqrtRatioSpec: SqrtRatioI as one straight-line term over uninterpreted field operations
// (decision part of the square root: which candidate tests select the sqrt(-1) correction,
// the sign normalisation, and the "was square" flag returned).
func sqrtRatioSpec() *edt.Spec {
	fcall := func(op string, a ...string) string { return "Element." + op + "(" + strings.Join(a, ", ") + ")" }
	comm := func(op, a, b string) string {
		if a > b {
			a, b = b, a
		}
		return fcall(op, a, b)
	}
	const I = "@internal/field.SQRT_M1"
	r := comm("Mul", "$u", fcall("pow_p58", comm("Mul", "$u", "$v")))
	chk := comm("Mul", "$v", fcall("Square", r))
	eqU := comm("Equal", "$u", chk)
	eqNU := comm("Equal", chk, fcall("Neg", "$u"))
	eqNUI := comm("Equal", chk, comm("Mul", I, fcall("Neg", "$u")))
	ca := fcall("ConditionalAssign", r, comm("Mul", I, r), cb("|", eqNU, eqNUI))
	res := fcall("ConditionalNegate", ca, fcall("IsNegative", ca))
	sp := &edt.Spec{
		Pkg: "internal/field", Func: "(*Element).SqrtRatioI", MinPaths: 1, Vars: map[string]string{},
		Opaque: []string{"Element.Mul", "Element.Square", "Element.Pow2k", "Element.pow_p58", "Element.Neg", "Element.Equal",
			"Element.ConditionalAssign", "Element.IsNegative", "Element.ConditionalNegate", "Element.Set", "Element.ConditionalSelect", "Element.Invert"},
		Classify: func(p *edt.Path, out string, e *edt.Env) string {
			if out == "ptr($fe) ; "+cb("|", eqU, eqNU) {
				return "as-specified"
			}
			return ""
		},
		Formula: map[string]func(e *edt.Env) edt.Tri{"as-specified": always},
		Extra: func(p *edt.Path, out, class string, e *edt.Env, ab func(string) string) string {
			f, ok := p.Final["$fe"]
			if !ok {
				return "the result is not written"
			}
			if normComm(f.String()) != normComm(res) {
				return fmt.Sprintf("the square root written differs from the specified one: got %s, want %s", clip(normComm(f.String()), 400), clip(normComm(res), 400))
			}
			for k := range p.Final {
				if strings.HasPrefix(k, "$u") || strings.HasPrefix(k, "$v") {
					return "an operand is written: " + k
				}
			}
			return ""
		},
	}
	return sp
}
