package props

import (
	"strings"

	"voicheck/econst"
	"voicheck/edt"
	"voicheck/load"
	"voicheck/report"
)

// REDUCED (typestate over terms): every exported Scalar operation documented
// to return a reduced scalar packs a value that is reduced BY CONSTRUCTION:
//
//	reduced(t) ::= MontgomeryReduce(_)                      (output < L for inputs below L·2^260)
//	             | Add(a, b) | Sub(a, b)  with reduced(a) ∧ reduced(b)
//	             | zero | a constant whose value is below L
//
// An operand that is merely unpacked input bytes (SetBytes(x)) or the constant L
// itself is not reduced.  (Seed C05/2: Neg computed as L − t gives L for t = 0.)
var reducedTargets = []string{"(*Scalar).Add", "(*Scalar).Sub", "(*Scalar).Neg", "(*Scalar).Mul", "(*Scalar).Reduce",
	"(*Scalar).SetBytesModOrder", "(*Scalar).SetBytesModOrderWide", "(*Scalar).Invert", "(*unpackedScalar).Invert", "(*unpackedScalar).Mul",
	"(*unpackedScalar).FromMontgomery", "(*unpackedScalar).ToMontgomery", "(*unpackedScalar).MontgomeryMul", "(*unpackedScalar).MontgomerySquare"}

func reducedTerm(p *load.Program, t *edt.Term) (bool, string) {
	op := t.Op
	switch {
	case op == "unpackedScalar.MontgomeryReduce":
		return true, ""
	case op == "unpackedScalar.Invert", op == "unpackedScalar.MontgomeryInvert":
		return true, "" // checked on their own bodies / Montgomery chain of multiplications
	case op == "unpackedScalar.Add" || op == "unpackedScalar.Sub":
		if len(t.Args) < 2 {
			return false, "malformed " + op
		}
		for _, a := range t.Args[len(t.Args)-2:] {
			if ok, why := reducedTerm(p, a); !ok {
				return false, why
			}
		}
		return true, ""
	case op == "zero" || op == "scalar.newUnpackedScalar":
		return true, ""
	case strings.HasPrefix(op, "@curve/scalar."):
		name := "curve/scalar." + strings.TrimPrefix(op, "@curve/scalar.")
		v, err := econst.Value(p, name)
		if err != nil || v == nil || v.Int == nil {
			return false, "operand " + op + " is a package variable of unknown value"
		}
		if v.Int.Cmp(econst.L()) >= 0 {
			return false, "operand " + op + " is not below the group order L (a difference or sum with it is not reduced for every input)"
		}
		return true, ""
	case op == "out1" || op == "sel":
		if len(t.Args) > 0 {
			return reducedTerm(p, t.Args[0])
		}
	}
	return false, "operand " + clip(t.String(), 120) + " is not reduced by construction (raw unpacked bytes?)"
}

func checkReducedOutputs(rule *report.Rule, cfg *edt.Config) int {
	p := cfg.P
	n := 0
	opaque := map[string]bool{}
	for _, o := range []string{"unpackedScalar.MontgomeryReduce", "scalar.scalarMulInternal", "unpackedScalar.squareInternal", "unpackedScalar.Add", "unpackedScalar.Sub",
		"unpackedScalar.SetBytes", "unpackedScalar.ToBytes", "unpackedScalar.Invert", "unpackedScalar.MontgomeryInvert"} {
		opaque[o] = true
	}
	for _, name := range reducedTargets {
		fn := p.Func("curve/scalar", name)
		full := "curve/scalar." + name
		if fn == nil {
			rule.Fail("-", full, "target function cannot be resolved (anchor lost)", nil)
			continue
		}
		pos := p.Pos(fn.Pos())
		op := map[string]bool{}
		for k := range opaque {
			op[k] = true
		}
		delete(op, strings.TrimPrefix(strings.ReplaceAll(strings.ReplaceAll(name, "(*", ""), ")", ""), "")) // the target itself is walked
		paths := edt.Walk(&edt.Config{P: p, Mod: cfg.Mod, Opaque: op, MaxPaths: 200}, fn)
		bad := ""
		checked := 0
		for _, pa := range paths {
			if pa.Note != "" {
				bad = "cannot follow the function: " + pa.Note
				break
			}
			if pa.Panic != nil {
				continue
			}
			out := pa.OutcomeString()
			if strings.Contains(out, "err(") || strings.Contains(out, "errvar(") {
				continue // failing path: nothing is produced
			}
			// the value produced: what is packed into the receiver's bytes, or the receiver limbs themselves
			var val *edt.Term
			if f, ok := pa.Final["$s.inner"]; ok {
				tb := findOp(f, "unpackedScalar.ToBytes")
				if tb == nil || len(tb.Args) == 0 {
					bad = "the result bytes are not produced by packing an unpacked scalar: " + clip(f.String(), 160)
					break
				}
				val = tb.Args[0]
			} else if f, ok := pa.Final["$s"]; ok {
				val = f
			} else {
				bad = "no result is written on a succeeding path"
				break
			}
			if ok, why := reducedTerm(p, val); !ok {
				bad = "the scalar produced is not reduced by construction: " + why
				break
			}
			checked++
		}
		switch {
		case bad != "":
			rule.Fail(pos, full, bad, nil)
		case checked == 0:
			rule.Fail(pos, full, "no succeeding path found", nil)
		default:
			rule.OK(full)
			n++
		}
	}
	return n
}
