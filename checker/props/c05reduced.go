package props

import (
	"strings"

	"voicheck/econst"
	"voicheck/edt"
	"voicheck/load"
	"voicheck/report"
)

// REDUCED (typestate over terms): every exported Scalar operation documented
// to return a reduced scalar packs a value that is reduced BY CONSTRUCTION:
//
//	reduced(t) ::= MontgomeryReduce(scalarMulInternal(x, y)) with bits(x) + bits(y) <= 520 (both operands of fixed limb width)
//	                                                        (Montgomery reduction needs an input below L·R; an
//	                                                         accumulator carried around a loop is unbounded)
//	             | Add(a, b) | Sub(a, b)  with reduced(a) ∧ reduced(b)
//	             | zero | a constant whose value is below L
//
// An operand that is merely unpacked input bytes (SetBytes(x)) or the constant L
// itself is not reduced.  (Seed C05/2: Neg computed as L − t gives L for t = 0.)
var reducedTargets = []string{"(*Scalar).Add", "(*Scalar).Sub", "(*Scalar).Neg", "(*Scalar).Mul", "(*Scalar).Reduce",
	"(*Scalar).SetBytesModOrder", "(*Scalar).SetBytesModOrderWide", "(*Scalar).Invert", "(*unpackedScalar).Invert", "(*unpackedScalar).Mul",
	"(*unpackedScalar).FromMontgomery", "(*unpackedScalar).ToMontgomery", "(*unpackedScalar).MontgomeryMul", "(*unpackedScalar).MontgomerySquare"}

// scalarBits: an upper bound of the bit length of an unpacked scalar term (-1: unbounded).
func scalarBits(p *load.Program, t *edt.Term) int {
	switch {
	case t.Op == "unpackedScalar.SetBytes":
		return 256 // 32 bytes, whatever they hold
	case t.Op == "zero" || t.Op == "scalar.newUnpackedScalar":
		return 0
	case t.Op == "unpackedScalar.Add" && len(t.Args) >= 2:
		a, b := scalarBits(p, t.Args[len(t.Args)-2]), scalarBits(p, t.Args[len(t.Args)-1])
		if a < 0 || b < 0 {
			return -1
		}
		if b > a {
			a = b
		}
		return a + 1
	case strings.HasPrefix(t.Op, "@curve/scalar."):
		v, err := econst.Value(p, "curve/scalar."+strings.TrimPrefix(t.Op, "@curve/scalar."))
		if err != nil || v == nil || v.Int == nil {
			return -1
		}
		return v.Int.BitLen()
	case (t.Op == "out1" || t.Op == "sel") && len(t.Args) > 0:
		return scalarBits(p, t.Args[0])
	case t.Op == "agg":
		return 260 // limbs assembled in place from fixed-width pieces (n limbs of W bits)
	case strings.HasPrefix(t.Op, "$") && len(t.Args) == 0 && !strings.Contains(t.Op, "φ"):
		return 260 // an unpacked operand handed in by a caller: n limbs of W bits
	}
	if ok, _ := reducedTerm(p, t); ok {
		return 253
	}
	return -1
}

func reducedTerm(p *load.Program, t *edt.Term) (bool, string) {
	op := t.Op
	switch {
	case op == "unpackedScalar.MontgomeryReduce":
		if len(t.Args) == 0 {
			return false, "malformed MontgomeryReduce"
		}
		in := t.Args[len(t.Args)-1]
		switch in.Op {
		case "scalar.scalarMulInternal":
			if len(in.Args) != 2 {
				return false, "malformed scalarMulInternal"
			}
			a, b := scalarBits(p, in.Args[0]), scalarBits(p, in.Args[1])
			if a < 0 || b < 0 {
				return false, "the Montgomery reduction is applied to a product with an UNBOUNDED operand (" + clip(in.Args[0].String(), 100) + "): an accumulator that is not reduced on every step wraps at 2^260"
			}
			if a+b > 520 {
				return false, "the Montgomery reduction is applied to a product that exceeds the 2·n-limb input it is written for"
			}
		case "unpackedScalar.squareInternal":
			if len(in.Args) == 0 || scalarBits(p, in.Args[len(in.Args)-1]) < 0 || scalarBits(p, in.Args[len(in.Args)-1]) > 260 {
				return false, "the Montgomery reduction is applied to the square of an unbounded operand"
			}
		}
		return true, ""
	case op == "unpackedScalar.Invert", op == "unpackedScalar.MontgomeryInvert":
		return true, "" // checked on their own bodies / Montgomery chain of multiplications
	case op == "unpackedScalar.Add" || op == "unpackedScalar.Sub":
		if len(t.Args) < 2 {
			return false, "malformed " + op
		}
		for _, a := range t.Args[len(t.Args)-2:] {
			if ok, why := reducedTerm(p, a); !ok {
				return false, why
			}
		}
		return true, ""
	case op == "zero" || op == "scalar.newUnpackedScalar":
		return true, ""
	case strings.HasPrefix(op, "@curve/scalar."):
		name := "curve/scalar." + strings.TrimPrefix(op, "@curve/scalar.")
		v, err := econst.Value(p, name)
		if err != nil || v == nil || v.Int == nil {
			return false, "operand " + op + " is a package variable of unknown value"
		}
		if v.Int.Cmp(econst.L()) >= 0 {
			return false, "operand " + op + " is not below the group order L (a difference or sum with it is not reduced for every input)"
		}
		return true, ""
	case op == "out1" || op == "sel":
		if len(t.Args) > 0 {
			return reducedTerm(p, t.Args[0])
		}
	}
	return false, "operand " + clip(t.String(), 120) + " is not reduced by construction (raw unpacked bytes?)"
}

// loop targets: the accumulator local must hold a reduced value after every iteration
var reducedLoopTargets = []string{"(*Scalar).Sum", "(*Scalar).Product"}

func checkReducedLoops(rule *report.Rule, cfg *edt.Config, opaque map[string]bool) {
	p := cfg.P
	for _, name := range reducedLoopTargets {
		fn := p.Func("curve/scalar", name)
		full := "curve/scalar." + name
		if fn == nil {
			rule.Fail("-", full, "target function cannot be resolved (anchor lost)", nil)
			continue
		}
		pos := p.Pos(fn.Pos())
		paths := edt.Walk(&edt.Config{P: p, Mod: cfg.Mod, Opaque: opaque, MaxPaths: 200, SymLoops: true}, fn)
		bad, iters := "", 0
		for _, pa := range paths {
			if pa.Note != "" {
				bad = "cannot follow the function: " + pa.Note
				break
			}
			// the accumulator ENTERS the loop reduced: zero, a small constant, or a packed reduced value —
			// never a caller's scalar as it came in (a one-element Product / Sum would hand it back unreduced)
			for _, ev := range pa.Events {
				i := strings.Index(ev, " enters as ")
				if !strings.HasPrefix(ev, "loop L") || i < 0 || !strings.Contains(ev[:i], "A<scalar.Scalar>#") {
					continue
				}
				init := ev[i+len(" enters as "):]
				if (strings.Contains(init, "$") || strings.Contains(init, "havoc")) && !strings.HasPrefix(init, "out1(unpackedScalar.ToBytes(unpackedScalar.MontgomeryReduce(") {
					bad = "the accumulator enters the loop as " + clip(init, 100) + ", an operand that is not reduced by construction: with a single element the result is that operand, unreduced"
				}
			}
			if bad != "" {
				break
			}
			out := pa.OutcomeString()
			if !strings.HasPrefix(out, "next-iteration@") {
				// exit: the result is a copy of the accumulator (loop state or its reduced initial value)
				f, ok := pa.Final["$s.inner"]
				if !ok {
					if f2, ok2 := pa.Final["$s"]; ok2 {
						f, ok = f2, true
					}
				}
				if ok && !strings.Contains(f.String(), "havoc@L") && !strings.Contains(f.String(), "PutUint64") && f.String() != "zero" && !strings.HasPrefix(f.String(), "agg(") {
					if tb := findOp(f, "unpackedScalar.ToBytes"); tb != nil && len(tb.Args) > 0 {
						if okr, why := reducedTerm(p, tb.Args[0]); !okr {
							bad = "the result packed after the loop is not reduced by construction: " + why
						}
					} else {
						bad = "the result after the loop is neither the accumulator nor a packed reduced value: " + clip(f.String(), 160)
					}
				}
				continue
			}
			iters++
			found := false
			for k, f := range pa.Final {
				if !strings.HasSuffix(k, ".inner") || !strings.HasPrefix(k, "A<scalar.Scalar>#") {
					continue
				}
				found = true
				tb := findOp(f, "unpackedScalar.ToBytes")
				if tb == nil || len(tb.Args) == 0 {
					bad = "the accumulator is not produced by packing an unpacked scalar: " + clip(f.String(), 160)
				} else if okr, why := reducedTerm(p, tb.Args[0]); !okr {
					bad = "the accumulator is not reduced after an iteration: " + why
				}
			}
			if !found {
				bad = "an iteration does not update a packed (32-byte, reduced) accumulator: a running total kept in unpacked limbs is not reduced per step"
			}
			if bad != "" {
				break
			}
		}
		switch {
		case bad != "":
			rule.Fail(pos, full, bad, nil)
		case iters == 0:
			rule.Fail(pos, full, "no loop iteration found", nil)
		default:
			rule.OK(full)
		}
	}
}

func checkReducedOutputs(rule *report.Rule, cfg *edt.Config) int {
	p := cfg.P
	n := 0
	opaque := map[string]bool{}
	for _, o := range []string{"unpackedScalar.MontgomeryReduce", "scalar.scalarMulInternal", "unpackedScalar.squareInternal", "unpackedScalar.Add", "unpackedScalar.Sub",
		"unpackedScalar.SetBytes", "unpackedScalar.ToBytes", "unpackedScalar.Invert", "unpackedScalar.MontgomeryInvert"} {
		opaque[o] = true
	}
	checkReducedLoops(rule, cfg, opaque)
	for _, name := range reducedTargets {
		fn := p.Func("curve/scalar", name)
		full := "curve/scalar." + name
		if fn == nil {
			rule.Fail("-", full, "target function cannot be resolved (anchor lost)", nil)
			continue
		}
		pos := p.Pos(fn.Pos())
		op := map[string]bool{}
		for k := range opaque {
			op[k] = true
		}
		delete(op, strings.TrimPrefix(strings.ReplaceAll(strings.ReplaceAll(name, "(*", ""), ")", ""), "")) // the target itself is walked
		paths := edt.Walk(&edt.Config{P: p, Mod: cfg.Mod, Opaque: op, MaxPaths: 200}, fn)
		bad := ""
		checked := 0
		for _, pa := range paths {
			if pa.Note != "" {
				bad = "cannot follow the function: " + pa.Note
				break
			}
			if pa.Panic != nil {
				continue
			}
			out := pa.OutcomeString()
			if strings.Contains(out, "err(") || strings.Contains(out, "errvar(") {
				continue // failing path: nothing is produced
			}
			// the value produced: what is packed into the receiver's bytes, or the receiver limbs themselves
			var val *edt.Term
			if f, ok := pa.Final["$s.inner"]; ok {
				tb := findOp(f, "unpackedScalar.ToBytes")
				if tb == nil || len(tb.Args) == 0 {
					bad = "the result bytes are not produced by packing an unpacked scalar: " + clip(f.String(), 160)
					break
				}
				val = tb.Args[0]
			} else if f, ok := pa.Final["$s"]; ok {
				val = f
			} else {
				bad = "no result is written on a succeeding path"
				break
			}
			if ok, why := reducedTerm(p, val); !ok {
				bad = "the scalar produced is not reduced by construction: " + why
				break
			}
			checked++
		}
		switch {
		case bad != "":
			rule.Fail(pos, full, bad, nil)
		case checked == 0:
			rule.Fail(pos, full, "no succeeding path found", nil)
		default:
			rule.OK(full)
			n++
		}
	}
	return n
}

// checkScalarWhole (rule DT-scalar-whole): two "consumes everything" facts about scalar routines
// whose fast paths are tempting:
//   - Scalar.BatchInvert returns only after BOTH passes (the forward product pass and the backward
//     pass that overwrites every element): no path returns before the second loop was entered — a
//     special case for short batches leaves inputs un-inverted;
//   - Scalar.SetBytesModOrderWide packs, on every successful path, a reduction of ALL 64 input bytes
//     (unpackedScalar.SetBytesWide of the input): a "high half is zero" shortcut decided on part of
//     the bytes silently drops the rest (and branches on the value).
func checkScalarWhole(rule *report.Rule, cfg *edt.Config) {
	p := cfg.P
	// BatchInvert
	{
		name, full := "(*Scalar).BatchInvert", "curve/scalar.(*Scalar).BatchInvert"
		fn := p.Func("curve/scalar", name)
		if fn == nil {
			rule.Fail("-", full, "target function cannot be resolved (anchor lost)", nil)
		} else {
			opaque := map[string]bool{}
			for _, o := range []string{"unpackedScalar.MontgomeryMul", "unpackedScalar.ToMontgomery", "unpackedScalar.FromMontgomery", "unpackedScalar.MontgomeryInvert", "Scalar.unpack", "Scalar.pack", "scalar.One", "scalar.New", "Scalar.Invert", "Scalar.Set"} {
				opaque[o] = true
			}
			paths := edt.Walk(&edt.Config{P: p, Mod: cfg.Mod, Opaque: opaque, MaxPaths: 200, SymLoops: true}, fn)
			bad, exits := "", 0
			for _, pa := range paths {
				if pa.Note != "" {
					bad = "cannot follow the function: " + pa.Note
					break
				}
				if pa.Panic != nil || strings.HasPrefix(pa.OutcomeString(), "next-iteration@") {
					continue
				}
				exits++
				loops := map[string]bool{}
				for _, ev := range pa.Events {
					if strings.HasPrefix(ev, "loop L") {
						if i := strings.Index(ev, ":"); i > 0 {
							loops[ev[:i]] = true
						}
					}
				}
				if len(loops) < 2 {
					bad = "a path [" + clip(pa.LitString(), 120) + "] returns without having entered both passes over the inputs: the elements are not all replaced by their inverses"
					break
				}
			}
			switch {
			case bad != "":
				rule.Fail(p.Pos(fn.Pos()), full, bad, nil)
			case exits == 0:
				rule.Fail(p.Pos(fn.Pos()), full, "no returning path found", nil)
			default:
				rule.OK(full)
			}
		}
	}
	// SetBytesModOrderWide
	{
		name, full := "(*Scalar).SetBytesModOrderWide", "curve/scalar.(*Scalar).SetBytesModOrderWide"
		fn := p.Func("curve/scalar", name)
		if fn == nil {
			rule.Fail("-", full, "target function cannot be resolved (anchor lost)", nil)
			return
		}
		opaque := map[string]bool{}
		for _, o := range []string{"unpackedScalar.MontgomeryReduce", "scalar.scalarMulInternal", "unpackedScalar.squareInternal", "unpackedScalar.Add", "unpackedScalar.Sub",
			"unpackedScalar.SetBytes", "unpackedScalar.SetBytesWide", "unpackedScalar.ToBytes", "Scalar.SetBytesModOrder"} {
			opaque[o] = true
		}
		paths := edt.Walk(&edt.Config{P: p, Mod: cfg.Mod, Opaque: opaque, MaxPaths: 200}, fn)
		bad, oks := "", 0
		for _, pa := range paths {
			if pa.Note != "" {
				bad = "cannot follow the function: " + pa.Note
				break
			}
			out := pa.OutcomeString()
			if pa.Panic != nil || strings.HasPrefix(out, "nil ;") || strings.HasPrefix(out, "nil;") {
				continue // failing path: no scalar is produced
			}
			oks++
			whole := false
			for _, f := range pa.Final {
				if strings.Contains(f.String(), "unpackedScalar.SetBytesWide(") {
					whole = true
				}
			}
			for _, ev := range pa.Events {
				if strings.HasPrefix(ev, "unpackedScalar.SetBytesWide($") {
					whole = true
				}
			}
			if !whole {
				bad = "a successful path [" + clip(pa.LitString(), 140) + "] does not reduce all 64 input bytes (no unpackedScalar.SetBytesWide of the input): part of the input is ignored"
				break
			}
		}
		switch {
		case bad != "":
			rule.Fail(p.Pos(fn.Pos()), full, bad, nil)
		case oks == 0:
			rule.Fail(p.Pos(fn.Pos()), full, "no successful path found", nil)
		default:
			rule.OK(full)
		}
	}
}
