package props

import (
	"fmt"
	"go/types"
	"os"
	"path/filepath"
	"sort"
	"strings"

	"golang.org/x/tools/go/ssa"

	"voicheck/econst"
	"voicheck/edt"
	"voicheck/elin"
	"voicheck/erange"
	"voicheck/esib"
	"voicheck/load"
	"voicheck/report"
)

// C06 — the arithmetic back ends are observationally identical.  Decided
// statically as agreement of sibling implementations: identical exported API
// in every configuration, identical decision signatures (argument checks,
// error/panic/accept classes, written parameters) of every function whose
// defining file differs between configurations, vector/generic twins, limb
// uniformity, constants denoting the same value in both radices, interval
// analysis of both radices, the Go Keccak against its sibling.

// declFile: relative file that declares fn.
func declFile(p *load.Program, fn *ssa.Function) string {
	pos := p.Pos(fn.Pos())
	if i := strings.LastIndexByte(pos, ':'); i > 0 {
		return pos[:i]
	}
	return pos
}

// outcomeClass abstracts a returned term to what a caller can distinguish
// without knowing the arithmetic: nil / error / which parameter / constant.
func outcomeClass(t *edt.Term) string {
	s := t.String()
	switch {
	case t.Nil || s == "nil":
		return "nil"
	case strings.HasPrefix(s, "err(") || strings.HasPrefix(s, "errvar("):
		return "error"
	case strings.HasPrefix(s, "ptr($"):
		return s
	case s == "true" || s == "false":
		return s
	}
	return "value"
}

type dtSig struct {
	paths []string
	note  string
}

// decisionSignature walks fn with every callee uninterpreted and renders, per
// path, the conditions on the PARAMETERS (lengths, nil-ness, flags) with the
// outcome class and the set of parameters written.
func decisionSignature(p *load.Program, fn *ssa.Function) dtSig {
	// straight-line code (no branch, no panic — the limb arithmetic): nothing to decide;
	// its signature is the may-write summary of its parameters
	branches := false
	var scan func(f *ssa.Function)
	scan = func(f *ssa.Function) {
		for _, b := range f.Blocks {
			for _, in := range b.Instrs {
				switch in.(type) {
				case *ssa.If, *ssa.Panic:
					branches = true
				}
			}
		}
		for _, a := range f.AnonFuncs {
			scan(a)
		}
	}
	scan(fn)
	if !branches {
		ws := "?"
		if !usesUnsafe(fn) {
			var l []string
			if sum := modFor(p).Sum[fn]; sum != nil {
				for i := range sum.Writes {
					if i < len(fn.Params) {
						l = append(l, "$"+fn.Params[i].Name())
					}
				}
			}
			sort.Strings(l)
			ws = strings.Join(l, ",")
		}
		return dtSig{paths: []string{" ⇒ return writes{" + ws + "}"}}
	}
	cfg := &edt.Config{P: p, Mod: modFor(p), Inline: func(*ssa.Function) bool { return false }, MaxPaths: 64, MaxVisits: 4, MaxForks: 2000, MaxSteps: 60000, SymLoops: true}
	paths := edt.Walk(cfg, fn)
	var out []string
	for _, pa := range paths {
		if pa.Note != "" {
			return dtSig{note: pa.Note}
		}
		var lits []string
		for _, l := range pa.Lits {
			a := l.Atom
			// only conditions on the inputs are comparable across radices; conditions on
			// intermediate results of uninterpreted callees are back-end internal
			if strings.Contains(a, "φ") {
				a = "<internal>" // loop counter of a back-end specific loop
			} else if strings.Contains(a, "(") && !strings.HasPrefix(a, "(len($") && !strings.HasPrefix(a, "isnil(ptr($") && !strings.HasPrefix(a, "isnil($") {
				if !paramOnly(a) {
					a = "<internal>"
				}
			}
			if a == "<internal>" {
				continue
			}
			if !l.Val {
				a = "¬" + a
			}
			lits = append(lits, a)
		}
		sort.Strings(lits)
		res := "panic"
		if pa.Panic == nil && strings.HasPrefix(pa.OutcomeString(), "next-iteration@") {
			continue // one iteration of a back-end specific loop: no outcome
		} else if pa.Panic == nil {
			var rs []string
			for _, o := range pa.Outcome {
				rs = append(rs, outcomeClass(o))
			}
			res = "return"
			for _, r := range rs {
				if r == "error" || r == "nil" || r == "true" || r == "false" {
					res = "return(" + strings.Join(rs, ", ") + ")" // accept/reject is visible in the result
					break
				}
			}
		}
		wr := map[string]bool{}
		for k := range pa.Final {
			if strings.HasPrefix(k, "$") {
				r := k
				if i := strings.IndexAny(r, ".["); i > 0 {
					r = r[:i]
				}
				wr[r] = true
			}
		}
		var ws []string
		for k := range wr {
			ws = append(ws, k)
		}
		sort.Strings(ws)
		wset := strings.Join(ws, ",")
		if usesUnsafe(fn) {
			wset = "?"
		}
		out = append(out, strings.Join(lits, " ∧ ")+" ⇒ "+res+" writes{"+wset+"}")
	}
	sort.Strings(out)
	// identical lines (paths that differ only in back-end internal conditions) collapse
	var uniq []string
	for i, s := range out {
		if i == 0 || s != out[i-1] {
			uniq = append(uniq, s)
		}
	}
	return dtSig{paths: uniq}
}

// usesUnsafe: the function converts through unsafe.Pointer (the may-write facts behind the cast are unknown).
func usesUnsafe(fn *ssa.Function) bool {
	for _, b := range fn.Blocks {
		for _, in := range b.Instrs {
			if c, ok := in.(*ssa.Convert); ok {
				if bt, ok := c.Type().Underlying().(*types.Basic); ok && bt.Kind() == types.UnsafePointer {
					return true
				}
				if bt, ok := c.X.Type().Underlying().(*types.Basic); ok && bt.Kind() == types.UnsafePointer {
					return true
				}
			}
		}
	}
	return false
}

// sameUpToUnknownWrites compares two signatures, ignoring the write sets where either side is unknown.
func sameUpToUnknownWrites(a, b []string) bool {
	if len(a) != len(b) {
		return false
	}
	for i := range a {
		if a[i] == b[i] {
			continue
		}
		x, y := a[i], b[i]
		if strings.Contains(x, "writes{?}") || strings.Contains(y, "writes{?}") {
			if x[:strings.Index(x, " writes{")] == y[:strings.Index(y, " writes{")] {
				continue
			}
		}
		return false
	}
	return true
}

// paramOnly: the atom mentions parameters and constants only (no call terms).
func paramOnly(a string) bool {
	for i := 0; i < len(a); i++ {
		if a[i] == '(' && i > 0 {
			c := a[i-1]
			if c >= 'a' && c <= 'z' || c >= 'A' && c <= 'Z' || c >= '0' && c <= '9' {
				// an operator name directly before '(' : len(...) and sel(...) of parameters are fine
				j := i - 1
				for j >= 0 && (a[j] >= 'a' && a[j] <= 'z' || a[j] >= 'A' && a[j] <= 'Z' || a[j] >= '0' && a[j] <= '9' || a[j] == '.' || a[j] == '_') {
					j--
				}
				switch a[j+1 : i] {
				case "len", "sel", "ptr", "isnil", "not", "byte", "int", "uint8", "uint64", "uint32", "cap":
				default:
					return false
				}
			}
		}
	}
	return true
}

func checkDecisionSignatures(c *Ctx, rule *report.Rule, cfgs []string, stubs map[string]bool) map[string]any {
	type entry struct {
		file string
		fn   *ssa.Function
	}
	byName := map[string]map[string]entry{} // function name -> config -> entry
	for _, id := range cfgs {
		p := c.Prog(id)
		for _, fn := range p.ModuleFuncs() {
			if len(fn.Blocks) == 0 || fn.Parent() != nil || fn.Synthetic != "" {
				continue
			}
			name := load.FuncName(fn)
			if strings.HasSuffix(name, ".init") || strings.Contains(name, "$") {
				continue
			}
			if len(fn.Blocks) == 1 {
				if _, isPanic := fn.Blocks[0].Instrs[len(fn.Blocks[0].Instrs)-1].(*ssa.Panic); isPanic {
					continue // unconditionally panicking stub of a vector-only routine (its unreachability is decided by SIB-dispatch and C19)
				}
			}
			if byName[name] == nil {
				byName[name] = map[string]entry{}
			}
			byName[name][id] = entry{declFile(p, fn), fn}
		}
	}
	// files present in every configuration
	common := map[string]bool{}
	for i, id := range cfgs {
		fs := map[string]bool{}
		for _, e := range c.Prog(id).ModuleFuncs() {
			fs[declFile(c.Prog(id), e)] = true
		}
		if i == 0 {
			common = fs
			continue
		}
		for f := range common {
			if !fs[f] {
				delete(common, f)
			}
		}
	}
	// boundary functions: exported, or called from a file shared by all configurations
	boundary := func(id string, fn *ssa.Function) bool {
		if o, ok := fn.Object().(*types.Func); ok && o.Exported() {
			return true
		}
		p := c.Prog(id)
		if node := p.CallGraph().Nodes[fn]; node != nil {
			for _, in := range node.In {
				if in.Caller.Func != nil && common[declFile(p, in.Caller.Func)] {
					return true
				}
			}
		}
		return false
	}
	var names []string
	for n, m := range byName {
		if len(m) < 2 {
			continue
		}
		isB := false
		for id, e := range m {
			if boundary(id, e.fn) {
				isB = true
			}
		}
		if !isB {
			continue // internal helper of one back end: its contract is not shared
		}
		files := map[string]bool{}
		for _, e := range m {
			files[e.file] = true
		}
		if len(files) > 1 {
			names = append(names, n)
		}
	}
	sort.Strings(names)
	compared, skipped := 0, 0
	var skippedNames []string
	for _, n := range names {
		m := byName[n]
		var ids []string
		for id := range m {
			ids = append(ids, id)
		}
		sort.Strings(ids)
		ref := ids[0]
		if os.Getenv("VOI_DEBUG") != "" {
			fmt.Fprintln(os.Stderr, "sig", n)
		}
		c.Run.SetConfig(ref)
		rs := decisionSignature(c.Prog(ref), m[ref].fn)
		ok := true
		for _, id := range ids[1:] {
			osig := decisionSignature(c.Prog(id), m[id].fn)
			if rs.note != "" || osig.note != "" {
				ok = false
				continue
			}
			if !sameUpToUnknownWrites(rs.paths, osig.paths) {
				rule.Fail(c.Prog(id).Pos(m[id].fn.Pos()), n, fmt.Sprintf("decision signature differs between back ends: %s (%s) has\n      %s\n    but %s (%s) has\n      %s", ref, filepath.Base(m[ref].file), strings.Join(rs.paths, "\n      "), id, filepath.Base(m[id].file), strings.Join(osig.paths, "\n      ")), nil)
				ok = false
				break
			}
		}
		switch {
		case rs.note != "":
			skipped++
			skippedNames = append(skippedNames, n)
		case ok:
			compared++
			rule.OK(n)
		}
	}
	return map[string]any{"functions defined in different files per configuration": len(names), "compared": compared, "not comparable (walker gave up; listed)": skippedNames}
}

func init() {
	Registry["C06"] = func(c *Ctx) {
		run := c.Run
		run.Explanation = "Sibling agreement (E-SIB, E-DT, E-CONST, E-RANGE, E-GVN): (1) the exported objects, method sets and signatures of every public package are identical in all analysed build configurations; (2) every function whose defining file differs between configurations (64-bit vs 32-bit limbs, assembly-backed vs portable, vector vs serial) has the same decision signature — the same conditions on its parameters leading to the same outcome class (nil / error / panic / which parameter is returned / boolean) and the same set of written parameters; (3) vector routines are reached only under the CPU-feature guard and each is paired with a generic twin of equal skeleton; Add/Sub duality; masked constant-time scans; (4) limb-wise operations are uniform over limbs in each radix; (5) every constant denotes the same mathematical value in both radices (math/big oracle); (6) no limb-level primitive wraps a machine word in either portable radix (interval analysis); (7) the Go Keccak-f[1600] computes the same canonical expressions as its sibling in x/crypto; (8) in each radix the byte<->limb conversions of field elements and scalars are the SAME affine maps of the input bits (E-LIN: value identities, canonical ToBytes quotient)."
		run.NotDecided = []string{"byte-identical results on every input: the Go multiplication/reduction of BOTH radices is decided against the same specification polynomial (E-LIN MUL rules), but full reduction (< L, canonical form after inversion chains) and the equivalence of the assembly with the Go code are not", "run-time CPU dispatch (GODEBUG=cpu.avx2=off) beyond the dispatch/twin rules", "the amd64 Keccak assembly"}
		run.Exhaustive = false
		cfgs := c.Configs()
		if !c.Preload(cfgs...) {
			return
		}
		expFoundations(c) // the exponentiation chains are the same powers in every configuration (E-EXP)
		progs := map[string]*load.Program{}
		for _, id := range cfgs {
			progs[id] = c.Prog(id)
		}
		k := len(cfgs)
		run.Rule("SIB-api", "exported API identical in all configurations", k-1)
		esib.CheckAPI(run, progs, "SIB-api")
		// counts measured on the unchanged tree (amd64): 42/15/16/104/92/9/17; thresholds ~90 %
		run.Rule("SIB-dispatch", "every call edge into the vector-only set is dominated by the true edge of supportsVectorizedEdwards; each switch pairs a vector routine with a generic sibling", 38)
		run.Rule("SIB-skel"+esib.SufPair, "the two members of every (vector, generic) pair have equal skeleton normal forms", 13)
		run.Rule("SIB-skel"+esib.SufHorner, "Horner shape per algorithm", 14)
		run.Rule("SIB-skel"+esib.SufPolarity, "add/sub polarity of every digit use", 93)
		run.Rule("SIB-skel"+esib.SufWidth, "recoding width <-> table size", 82)
		run.Rule("SIB-skel"+esib.SufCtor, "lookup-table constructors", 8)
		run.Rule("SIB-skel"+esib.SufEntry, "entry-point facts", 15)
		run.Rule("SIB-uniform", "limb-wise operations are uniform over limbs", 8*k)
		var rangeCfgs []string
		for _, id := range cfgs {
			if id != "amd64" {
				rangeCfgs = append(rangeCfgs, id)
			}
		}
		erange.DeclareFieldRules(run, "RANGE-A", rangeCfgs)
		generic := c.Prog("purego")
		stubs := map[string]bool{}
		for _, id := range cfgs {
			p := c.Prog(id)
			run.SetConfig(id)
			if id == "amd64" {
				d := esib.CheckDispatch(run, p, generic, "SIB-dispatch")
				esib.CheckSkeletons(run, p, d.Pairs, "SIB-skel")
				for _, s := range d.Stubs {
					stubs[s] = true
				}
				run.Sample(map[string]any{"panicking stubs of vector-only routines (excluded from the signature comparison)": len(d.Stubs)})
			} else {
				erange.CheckFieldStageA(run, p, "RANGE-A")
			}
			u := esib.CheckUniform(run, p, "SIB-uniform")
			if id == cfgs[0] {
				run.Sample(map[string]any{"config": id, "limb-wise groups": len(u)})
			}
			econst.CheckAll(run, p, "CONST")
			// both radices implement the same byte<->limb maps (affine identities over the input bits)
			elin.CheckField(run, p, "LIN")
			elin.CheckScalarPack(run, p, "LIN")
			elin.CheckMul(run, p, "MUL") // both radices compute the same polynomial of their inputs (mod p resp. mod L)
		}
		pw := run.Rule("PORTABLE-width", "no 64-bit integer is converted to a platform-sized integer (the 32-bit targets would compute something else)", 450).RequireControl(1)
		checkPortableWidth(c.Prog(cfgs[0]), pw)
		// a back end may not scribble on the constant tables every caller shares (a serial routine that
		// negates a table entry in place and restores it is only sequentially equivalent to its twin)
		globalStoreRule(c, cfgs[0])
		globalStoreRule(c, "purego")
		sig := run.Rule("SIB-decision", "functions defined in different files per configuration agree on argument checks, outcome classes and written parameters", 20)
		run.Sample(checkDecisionSignatures(c, sig, cfgs, stubs))
		checkKeccakSibling(c, run)
	}
}
