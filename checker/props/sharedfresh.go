package props

import (
	"go/token"
	"go/types"

	"golang.org/x/tools/go/ssa"

	"voicheck/load"
	"voicheck/report"
)

// SHARED-fresh: the initialisers of shared precomputed types (sharedWriters)
// may be called again on an object whose previous tables are still in use —
// by a by-value copy of the object, or by a concurrent reader.  They must
// therefore INSTALL freshly allocated tables (store a new pointer into the
// object's field) and never write THROUGH a table pointer they loaded from the
// object.  Decided on SSA: in each initialiser, no store (and no written call
// argument) has an address derived from a load of a pointer-typed field of the
// receiver.
func checkSharedFresh(p *load.Program, rule *report.Rule) {
	for name := range sharedWriters {
		var fn *ssa.Function
		for _, f := range p.ModuleFuncs() {
			if load.FuncName(f) == name {
				fn = f
			}
		}
		if fn == nil || len(fn.Blocks) == 0 {
			rule.Fail("-", name, "initialiser cannot be resolved (anchor lost)", nil)
			continue
		}
		recv := fn.Params[0]
		// derivedFromLoadedField: v is (an address inside) an object reached by loading a pointer field of the receiver
		var derived func(v ssa.Value, depth int) bool
		fromRecv := func(v ssa.Value) bool {
			for i := 0; i < 8; i++ {
				switch x := v.(type) {
				case *ssa.FieldAddr:
					v = x.X
				case *ssa.IndexAddr:
					v = x.X
				default:
					return v == recv
				}
			}
			return false
		}
		derived = func(v ssa.Value, depth int) bool {
			if depth > 10 {
				return false
			}
			switch x := v.(type) {
			case *ssa.FieldAddr:
				return derived(x.X, depth+1)
			case *ssa.IndexAddr:
				return derived(x.X, depth+1)
			case *ssa.Slice:
				return derived(x.X, depth+1)
			case *ssa.ChangeType:
				return derived(x.X, depth+1)
			case *ssa.Convert:
				return derived(x.X, depth+1)
			case *ssa.Phi:
				for _, e := range x.Edges {
					if derived(e, depth+1) {
						return true
					}
				}
			case *ssa.UnOp:
				if x.Op == token.MUL {
					if _, isPtr := x.Type().Underlying().(*types.Pointer); isPtr && fromRecv(x.X) {
						return true // a pointer loaded from a field of the receiver
					}
				}
			}
			return false
		}
		bad := ""
		for _, b := range fn.Blocks {
			for _, in := range b.Instrs {
				switch x := in.(type) {
				case *ssa.Store:
					if derived(x.Addr, 0) {
						bad = p.Pos(x.Pos()) + ": stores through a table pointer loaded from the object (the previous table may be shared with copies or readers): a fresh table must be installed instead"
					}
				case ssa.CallInstruction:
					c := x.Common()
					args := c.Args
					if c.IsInvoke() {
						continue
					}
					for _, a := range args {
						if _, isPtr := a.Type().Underlying().(*types.Pointer); isPtr && derived(a, 0) {
							bad = p.Pos(in.Pos()) + ": passes a table pointer loaded from the object to a callee that may write it"
						}
					}
				}
			}
		}
		if bad != "" {
			rule.Fail(p.Pos(fn.Pos()), name, bad, nil)
		} else {
			rule.OK(name)
		}
	}
}
