package props

import (
	"fmt"
	"strings"

	"voicheck/edt"
)

// C09 — batch, expanded-key and cached verification agree with single
// verification.  The siblings of verifyWithOptionsNoPanic are compared with
// the SAME specification formulas as C01 (optsError, pkAdmit, sigAdmit,
// dom2Term), instantiated for the expanded-key vocabulary.

func pkAdmitExpanded(e *edt.Env, flag func(string) edt.Tri) edt.Tri {
	return edt.And(e.V("xk.validY"), edt.Or(flag("smallA"), edt.Not(e.V("xk.small"))), edt.Or(flag("nonCanA"), e.V("xk.canon")))
}

func expandedVars(vars map[string]string) {
	vars["XK.isValidY"] = "xk.validY"
	vars["XK.isSmallOrder"] = "xk.small"
	vars["XK.isCanonical"] = "xk.canon"
}

// addHram maps the family of "wide reduction succeeded" atoms of a target.
func addHram(cfg *edt.Config, sp *edt.Spec) {
	for _, a := range hramAtoms(cfg, sp) {
		sp.Vars[a] = "hramOK"
	}
}

func verifyExpandedSpec() *edt.Spec {
	vars := verifyVars()
	expandedVars(vars)
	flag := func(e *edt.Env) func(string) edt.Tri { return func(x string) edt.Tri { return optsFlag(e, x) } }
	ab := append([][2]string{{"$publicKey.", "XK."}}, ed25519Abbrev...)
	return &edt.Spec{
		Pkg: "primitives/ed25519", Func: "verifyExpandedWithOptionsNoPanic",
		Abbrev: ab, Vars: vars, Assume: verifyAssume, MinPaths: 300,
		Classify: func(p *edt.Path, out string, e *edt.Env) string {
			switch {
			case out == "false ; nil":
				return "reject"
			case strings.HasPrefix(out, "false ; err(fmt.Errorf(\"ed25519: failed to deserialize H(R,A,m)"):
				return "infeasible-hram"
			case strings.HasPrefix(out, "false ; err(fmt.Errorf("):
				return "error"
			case strings.HasPrefix(out, "EdwardsPoint.IsSmallOrder(EdwardsPoint.ExpandedTripleScalarMulBasepointVartime(") && strings.HasSuffix(out, " ; nil"):
				return "eq-cofactored"
			case strings.HasPrefix(out, "bytes.Equal(") && strings.HasSuffix(out, " ; nil"):
				return "eq-cofactorless"
			}
			return ""
		},
		Formula: map[string]func(e *edt.Env) edt.Tri{
			"error": optsError,
			"reject": func(e *edt.Env) edt.Tri {
				return edt.And(edt.Not(optsError(e)), edt.Not(edt.And(pkAdmitExpanded(e, flag(e)), sigAdmit(e, flag(e)))))
			},
			"eq-cofactored": func(e *edt.Env) edt.Tri {
				return edt.And(edt.Not(optsError(e)), pkAdmitExpanded(e, flag(e)), sigAdmit(e, flag(e)), edt.Not(flag(e)("cofactorless")), e.V("hramOK"))
			},
			"eq-cofactorless": func(e *edt.Env) edt.Tri {
				return edt.And(edt.Not(optsError(e)), pkAdmitExpanded(e, flag(e)), sigAdmit(e, flag(e)), flag(e)("cofactorless"), e.V("hramOK"))
			},
			"infeasible-hram": func(e *edt.Env) edt.Tri {
				return edt.And(edt.Not(optsError(e)), pkAdmitExpanded(e, flag(e)), sigAdmit(e, flag(e)), edt.Not(e.V("hramOK")))
			},
		},
		Extra: func(p *edt.Path, out, class string, e *edt.Env, ab func(string) string) string {
			if class != "eq-cofactored" && class != "eq-cofactorless" {
				return ""
			}
			dom2, ok := dom2Term(e, "$opts.Context")
			if !ok {
				return "the path reaches the verification equation without having fixed the Ed25519 variant"
			}
			k := "Scalar.SetBytesModOrderWide(Sum(H(sha512.New, " + dom2 + "$sig[0:32], XK.compressed, $message)))"
			want := "EdwardsPoint.IsSmallOrder(EdwardsPoint.ExpandedTripleScalarMulBasepointVartime(" + k + ", XK.negA, S, R)) ; nil"
			if class == "eq-cofactorless" {
				want = "bytes.Equal($sig[0:32], CompressedEdwardsY.SetEdwardsPoint(EdwardsPoint.ExpandedDoubleScalarMulBasepointVartime(" + k + ", XK.negA, S))) ; nil"
			}
			if out != want {
				return fmt.Sprintf("the expanded-key verification equation or its challenge hash differs from single verification:\n      got  %s\n      want %s", out, want)
			}
			return ""
		},
	}
}

// doInit: per-entry admission of the batch verifier.
func doInitSpec() *edt.Spec {
	vars := verifyVars()
	expandedVars(vars)
	vars["isnil(ptr($expandedPublicKey))"] = "noExpanded"
	flag := func(e *edt.Env) func(string) edt.Tri { return func(x string) edt.Tri { return optsFlag(e, x) } }
	ab := append([][2]string{{"$expandedPublicKey.", "XK."}}, ed25519Abbrev...)
	pk := func(e *edt.Env) edt.Tri {
		return edt.Ite(e.V("noExpanded"), pkAdmit(e, flag(e)), pkAdmitExpanded(e, flag(e)))
	}
	return &edt.Spec{
		Pkg: "primitives/ed25519", Func: "(*entry).doInit",
		Abbrev: ab, Vars: vars, Assume: verifyAssume, MinPaths: 800,
		Classify: func(p *edt.Path, out string, e *edt.Env) string {
			v, ok := p.Final["$e.canBeValid"]
			if !ok {
				return ""
			}
			switch v.String() {
			case "true":
				return "can-be-valid"
			case "false":
				return "invalid"
			}
			return ""
		},
		Formula: map[string]func(e *edt.Env) edt.Tri{
			"can-be-valid": func(e *edt.Env) edt.Tri {
				return edt.And(edt.Not(optsError(e)), pk(e), sigAdmit(e, flag(e)), e.V("hramOK"))
			},
			"invalid": func(e *edt.Env) edt.Tri {
				return edt.Not(edt.And(edt.Not(optsError(e)), pk(e), sigAdmit(e, flag(e)), e.V("hramOK")))
			},
		},
		Extra: func(p *edt.Path, out, class string, e *edt.Env, ab func(string) string) string {
			if class != "can-be-valid" {
				return ""
			}
			fin := func(k string) string {
				if t, ok := p.Final[k]; ok {
					return ab(t.String())
				}
				return "<unset>"
			}
			dom2, ok := dom2Term(e, "$opts.Context")
			if !ok {
				return "the entry is marked valid without having fixed the Ed25519 variant"
			}
			expanded := e.V("noExpanded") == edt.F
			abytes, negA, xa := "$publicKey", "EdwardsPoint.Neg(A)", "nil"
			if expanded {
				abytes, negA, xa = "XK.compressed", "EdwardsPoint.SetExpanded(XK.negA)", "ptr($expandedPublicKey)"
			}
			want := map[string]string{
				"$e.hram":      "Scalar.SetBytesModOrderWide(Sum(H(sha512.New, " + dom2 + "$sig[0:32], " + abytes + ", $message)))",
				"$e.negA":      negA,
				"$e.S":         "S",
				"$e.expandedA": xa,
			}
			cofactorless := optsFlag(e, "cofactorless")
			needR := edt.Not(edt.And(cofactorless, optsFlag(e, "smallR")))
			if needR == edt.T {
				want["$e.R"] = "R"
			} else {
				want["$e.R"] = "EdwardsPoint.Identity"
			}
			if cofactorless == edt.T {
				want["$e.signature"] = "ptr($sig)"
			}
			for k, w := range want {
				got := fin(k)
				if strings.HasPrefix(w, "ptr(") {
					w = strings.TrimSuffix(strings.TrimPrefix(w, "ptr("), ")")
				}
				if got != w {
					return fmt.Sprintf("a valid batch entry stores %s = %s, single verification uses %s", k, got, w)
				}
			}
			// wantCofactorless mirrors the flag the options select
			wc := fin("$e.wantCofactorless")
			if wc != "opt.CofactorlessVerify" && wc != "def.CofactorlessVerify" {
				return "entry.wantCofactorless is " + wc + ", want the CofactorlessVerify flag of the selected options"
			}
			return ""
		},
	}
}

func init() {
	Registry["C09"] = func(c *Ctx) {
		run := c.Run
		run.Explanation = "E-DT: the siblings of single verification (expanded-key verification, the batch verifier's per-entry admission, key expansion, the batch early aborts and serial fallback, the caching verifier) are extracted path by path as uninterpreted-term decision tables and compared with the SAME specification formulas as single verification (C01), instantiated for the expanded-key vocabulary; equations, operand roles, stored entry fields and challenge-hash sequences must be the specified terms."
		run.NotDecided = []string{"the multiscalar batch equation itself (numeric)", "cache eviction policy (sequential LRU correctness)", "histories longer than one operation beyond the per-operation pairing invariants"}
		run.Exhaustive = true
		verifierSiblingRules(c)
		arithmeticFoundations(c)
		groupFoundations(c, true)
		ownershipRules(c) // expanded keys and batch entries own what they cache
		readFullRule(c)
		latticeRules(c)
	}
}

// verifierSiblingRules: the rules of C09 proper (expanded-key verification, batch admission and
// summary, key expansion, caching verifier).  Also run by C02: a signature is "always
// verifiable" only if every verifier sibling accepts it.
func verifierSiblingRules(c *Ctx) {
	run := c.Run
	{
		id := "amd64"
		if !c.Preload(id) {
			return
		}
		p := c.Prog(id)
		run.SetConfig(id)
		cfg := &edt.Config{P: p, Mod: modFor(p)}

		ve := run.Rule("DT-verify-expanded", "verifyExpandedWithOptionsNoPanic is the same Boolean function of the same conditions as single verification, over the cached key predicates; same equation roles and hash sequence", 300)
		sp := verifyExpandedSpec()
		addHram(cfg, sp)
		r := edt.Check(ve, cfg, sp)
		run.Sample(map[string]any{"function": sp.Func, "paths": r.Paths, "feasible": r.Feasible, "classes": r.ClassCount})

		di := run.Rule("DT-batch-entry", "entry.doInit marks an entry valid exactly under single verification's admission predicate (either key form) and stores hram, -A, R, S, expandedA, wantCofactorless, signature as single verification uses them", 800)
		sp = doInitSpec()
		addHram(cfg, sp)
		r = edt.Check(di, cfg, sp)
		run.Sample(map[string]any{"function": sp.Func, "paths": r.Paths, "feasible": r.Feasible, "classes": r.ClassCount})
		for _, s := range r.Samples {
			run.Sample(s)
		}

		misc := run.Rule("DT-batch-misc", "key expansion caches exactly the DT-1 predicates of the same bytes; checkExpandedPublicKey is DT-1 over the cached fields; batch early aborts, serial fallback, Add/Reset pairing and the caching verifier's delegation", 30)
		for _, s := range append(append(c09MiscSpecs(), c09MoreSpecs()...), c09LRUSpecs()...) {
			r := edt.Check(misc, cfg, s)
			run.Sample(map[string]any{"function": s.Func, "paths": r.Paths, "feasible": r.Feasible, "classes": r.ClassCount})
		}
	}
}
