package edt

import (
	"fmt"
	"go/types"
	"regexp"
	"sort"
	"strings"

	"golang.org/x/tools/go/ssa"

	"voicheck/load"
)

// ALIAS — argument-aliasing insensitivity.  The library's operations are
// called in place (p.Add(p, q), ScalarMult(&k, &k, &u)): for every pair of
// same-typed fixed-size pointer parameters (receiver included) the function is
// walked twice with its callees uninterpreted — once with distinct objects,
// once with the two parameters denoting ONE object — and the two results must
// agree after renaming: a function that writes an output before it has read
// an input it may alias computes something else when they alias.  Callees are
// covered by their own check (compositional argument).

// Config.Alias support lives in Walk (see ParamAlias).

type aliasSig struct {
	paths []string
	note  string
	both  bool // the un-aliased run writes both parameters (aliasing them is not meaningful)
	any   bool // the un-aliased run writes at least one of the two parameters
}

func aliasSignature(cfg *Config, fn *ssa.Function, ai, aj int, aliased bool) aliasSig {
	c := *cfg
	// callees stay uninterpreted, except small loop-free helpers of the same package (constructors,
	// pack/unpack wrappers): objects they allocate must be distinct objects, not equal terms
	c.Inline = func(callee *ssa.Function) bool {
		if callee.Pkg == nil || fn.Pkg == nil || callee.Pkg != fn.Pkg || len(callee.Blocks) != 1 {
			return false
		}
		return len(callee.Blocks[0].Instrs) <= 24
	}
	c.MaxPaths, c.MaxVisits, c.MaxForks, c.MaxSteps, c.SymLoops = 400, 6, 4000, 200000, true
	if aliased {
		c.ParamAlias = map[int]int{aj: ai}
	}
	paths := Walk(&c, fn)
	ni, nj := paramName(fn, ai), paramName(fn, aj)
	re := regexp.MustCompile(`\$` + regexp.QuoteMeta(nj) + `\b`)
	ren := func(s string) string {
		if !aliased {
			s = re.ReplaceAllString(s, "$$"+ni)
		}
		return Canon(s)
	}
	var out []string
	sig := aliasSig{}
	for _, p := range paths {
		if p.Note != "" {
			return aliasSig{note: p.Note}
		}
		var lits []string
		for _, l := range p.Lits {
			a := ren(l.Atom)
			if !l.Val {
				a = "¬" + a
			}
			lits = append(lits, a)
		}
		sort.Strings(lits)
		res := "panic"
		if p.Panic == nil {
			res = ren(p.OutcomeString())
		}
		wi, wj := false, false
		var fin []string
		for k, f := range p.Final {
			if !strings.HasPrefix(k, "$") {
				continue
			}
			if k == "$"+ni || strings.HasPrefix(k, "$"+ni+".") || strings.HasPrefix(k, "$"+ni+"[") {
				wi = true
			}
			if k == "$"+nj || strings.HasPrefix(k, "$"+nj+".") || strings.HasPrefix(k, "$"+nj+"[") {
				wj = true
			}
			fin = append(fin, ren(k)+" = "+ren(f.String()))
		}
		if wi && wj {
			sig.both = true
		}
		if wi || wj {
			sig.any = true
		}
		sort.Strings(fin)
		out = append(out, strings.Join(lits, " ∧ ")+" ⇒ "+res+" {"+strings.Join(fin, "; ")+"}")
	}
	sort.Strings(out)
	sig.paths = out
	return sig
}

func paramName(fn *ssa.Function, i int) string {
	name := fn.Params[i].Name()
	if ParamNames != nil {
		if rec := ParamNames(load.FuncName(fn)); len(rec) == len(fn.Params) {
			name = rec[i]
		}
	}
	return name
}

// aliasable: pointer to a struct or array (fixed-size object).
func aliasable(t types.Type) bool {
	pt, ok := t.Underlying().(*types.Pointer)
	if !ok {
		return false
	}
	switch pt.Elem().Underlying().(type) {
	case *types.Struct, *types.Array:
		return true
	}
	return false
}

// AliasResult of one function.
type AliasResult struct {
	Pairs, Compared, Skipped int
	Failure                  string
}

// CheckAlias compares fn under every aliasing of two same-typed pointer parameters.
func CheckAlias(cfg *Config, fn *ssa.Function) AliasResult {
	var r AliasResult
	for i := 0; i < len(fn.Params); i++ {
		for j := i + 1; j < len(fn.Params); j++ {
			ti, tj := fn.Params[i].Type(), fn.Params[j].Type()
			if !aliasable(ti) || !types.Identical(ti, tj) {
				continue
			}
			r.Pairs++
			base := aliasSignature(cfg, fn, i, j, false)
			if base.note != "" || base.both {
				r.Skipped++
				continue
			}
			if !base.any {
				r.Compared++ // neither is written: reading one object through two names cannot change anything
				continue
			}
			al := aliasSignature(cfg, fn, i, j, true)
			if al.note != "" || strings.Contains(strings.Join(al.paths, "\n"), "(havoc@L") || strings.Contains(strings.Join(al.paths, "\n"), " havoc@L") {
				// a loop writes the aliased object: element-wise read-before-write is beyond this abstraction
				r.Skipped++
				continue
			}
			r.Compared++
			if strings.Join(base.paths, "\n") != strings.Join(al.paths, "\n") {
				d := firstDiff(base.paths, al.paths)
				r.Failure = fmt.Sprintf("when %s and %s denote the same object the function computes something else than with distinct objects (an input is read after an output it may alias has been written?): distinct (renamed) «%s» vs aliased «%s»",
					paramName(fn, i), paramName(fn, j), clipS(d[0], 500), clipS(d[1], 500))
				return r
			}
		}
	}
	return r
}

func firstDiff(a, b []string) [2]string {
	for i := 0; i < len(a) || i < len(b); i++ {
		x, y := "", ""
		if i < len(a) {
			x = a[i]
		}
		if i < len(b) {
			y = b[i]
		}
		if x != y {
			return [2]string{x, y}
		}
	}
	return [2]string{"", ""}
}

func clipS(s string, n int) string {
	if len(s) > n {
		return s[:n] + "…"
	}
	return s
}
