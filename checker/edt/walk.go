package edt

import (
	"fmt"
	"go/constant"
	"go/token"
	"go/types"
	"sort"
	"strings"

	"golang.org/x/tools/go/ssa"

	"voicheck/emod"
	"voicheck/load"
)

// Config controls a walk.
type Config struct {
	P   *load.Program
	Mod *emod.Mod
	// Inline decides whether a module callee with a body is walked into
	// (nil: callees in the same package as the target).
	Inline func(callee *ssa.Function) bool
	// Opaque callees (printable short names) are never inlined.
	Opaque    map[string]bool
	MaxPaths  int
	MaxVisits int
	MaxDepth  int
	// WritesOverride: for the named uninterpreted callees (short names), the
	// argument positions (receiver = 0) they write, replacing the may-write
	// summary where it is too coarse (a callee that writes its data argument
	// only in modes this caller never selects).  Each entry carries its reason
	// in the property file that sets it.
	WritesOverride map[string][]int
	MaxForks       int // total forks before the walk gives up (default 60000)
	MaxSteps       int // total instructions executed over all paths (default 20 million)
	// GlobalLen: known lengths of package-level slices (from their literal initialisers).
	GlobalLen map[string]int64
	// ParamAlias: parameter index -> index of the parameter it denotes the same object as (ALIAS rule).
	ParamAlias map[int]int
	// SymLoops: loops of the target function itself are not unrolled; each is
	// cut at its header: entering it from outside replaces the loop-carried
	// values by symbols φ<block>.<k> (recorded as events with their initial
	// values), and reaching the header again over a back edge ends the path
	// with the outcome next-iteration(<new loop-carried values>).  One path
	// therefore describes one iteration for an arbitrary iteration count.
	SymLoops bool
}

type deferred struct {
	instr *ssa.Defer
	args  []*Term
	recv  *Term
}

type frame struct {
	id     int
	fn     *ssa.Function
	env    map[ssa.Value]*Term
	block  *ssa.BasicBlock
	prev   *ssa.BasicBlock
	pc     int
	call   ssa.Instruction // call site in the parent frame
	defers []deferred
	visits map[*ssa.BasicBlock]int
}

type hent struct {
	loc *Loc
	t   *Term
}

type state struct {
	frames   []*frame
	heap     map[string]hent
	lits     []Lit
	val      map[string]bool
	events   []string
	nextID   int
	seenCall map[string]ssa.Instruction
	closures map[*Term]*ssa.MakeClosure
	cloEnv   map[*Term][]*Term

	pendingBack *Term
	typeCount   map[string]int
	rootLens    map[string]int64
}

func (s *state) clone() *state {
	n := &state{heap: make(map[string]hent, len(s.heap)), val: make(map[string]bool, len(s.val)), nextID: s.nextID,
		seenCall: make(map[string]ssa.Instruction, len(s.seenCall)), closures: s.closures, cloEnv: s.cloEnv, pendingBack: s.pendingBack,
		typeCount: make(map[string]int, len(s.typeCount)), rootLens: make(map[string]int64, len(s.rootLens))}
	for k, v := range s.typeCount {
		n.typeCount[k] = v
	}
	for k, v := range s.rootLens {
		n.rootLens[k] = v
	}
	for k, v := range s.heap {
		n.heap[k] = v
	}
	for k, v := range s.val {
		n.val[k] = v
	}
	for k, v := range s.seenCall {
		n.seenCall[k] = v
	}
	n.lits = append([]Lit{}, s.lits...)
	n.events = append([]string{}, s.events...)
	for _, f := range s.frames {
		nf := &frame{id: f.id, fn: f.fn, env: make(map[ssa.Value]*Term, len(f.env)), block: f.block, prev: f.prev, pc: f.pc, call: f.call,
			visits: make(map[*ssa.BasicBlock]int, len(f.visits))}
		for k, v := range f.env {
			nf.env[k] = v
		}
		for k, v := range f.visits {
			nf.visits[k] = v
		}
		nf.defers = append([]deferred{}, f.defers...)
		n.frames = append(n.frames, nf)
	}
	return n
}

// ---------------------------------------------------------------------------
// heap

func pathHasPrefix(p, pre []string) bool {
	if len(pre) > len(p) {
		return false
	}
	for i := range pre {
		if p[i] != pre[i] {
			return false
		}
	}
	return true
}

// localRoot names a fresh local object by its static type and the number of
// objects of that type created so far on this path (stable under renaming
// of locals and under unrelated edits).
func (s *state) localRoot(kind string, t types.Type) string {
	ts := typeShort(t)
	n := s.typeCount[ts]
	s.typeCount[ts] = n + 1
	return fmt.Sprintf("%s<%s>#%d", kind, ts, n)
}

func (s *state) hset(l *Loc, t *Term) {
	for k, e := range s.heap {
		if e.loc.Root == l.Root && pathHasPrefix(e.loc.Path, l.Path) {
			delete(s.heap, k)
		}
	}
	// a write to a byte window overwrites the overlapping part of sibling
	// windows written earlier: those keep only their non-overlapping pieces
	if n := len(l.Path); n > 0 {
		if lo, hi, ok := window(l.Path[n-1]); ok && hi < 1<<39 {
			for k, e := range s.heap {
				if e.loc.Root != l.Root || len(e.loc.Path) != n || !pathHasPrefix(e.loc.Path, l.Path[:n-1]) {
					continue
				}
				elo, ehi, ok := window(e.loc.Path[n-1])
				if !ok || ehi >= 1<<39 || !(elo < hi && lo < ehi) {
					continue
				}
				delete(s.heap, k)
				piece := func(a, b int64) {
					if a >= b {
						return
					}
					nl := &Loc{Root: l.Root, Path: append(append([]string{}, l.Path[:n-1]...), relWindow(a, b)), Len: -1, NonNil: e.loc.NonNil}
					pt := e.t
					if !(a == elo && b == ehi) {
						pt = mk("sel", e.t, mk(relWindow(a-elo, b-elo)))
					}
					s.heap[nl.key()] = hent{nl, pt}
				}
				piece(elo, lo)
				piece(hi, ehi)
			}
		}
	}
	s.heap[l.key()] = hent{l, t}
}

func defaultContent(l *Loc) *Term {
	var base string
	switch {
	case strings.HasPrefix(l.Root, "P:"):
		base = "$" + l.Root[2:]
	case strings.HasPrefix(l.Root, "G:"):
		base = "@" + l.Root[2:]
	case strings.HasPrefix(l.Root, "T:"):
		base = l.Root[2:]
	default:
		return mk("zero")
	}
	return mk(base + strings.Join(l.Path, ""))
}

// window parses "[a:b]" / "[i]" / "[a:]" path elements.
func window(e string) (lo, hi int64, ok bool) {
	var a, b int64
	if n, _ := fmt.Sscanf(e, "[%d:%d]", &a, &b); n == 2 {
		return a, b, true
	}
	if strings.HasSuffix(e, ":]") {
		if n, _ := fmt.Sscanf(e, "[%d:]", &a); n == 1 {
			return a, 1 << 40, true
		}
	}
	if n, _ := fmt.Sscanf(e, "[%d]", &a); n == 1 && e == fmt.Sprintf("[%d]", a) {
		return a, a + 1, true
	}
	return 0, 0, false
}

func (s *state) hget(l *Loc) *Term {
	var base *Term
	var overlay []hent
	if e, ok := s.heap[l.key()]; ok {
		base = e.t
	} else {
		// longest prefix with a state
		var best *hent
		for _, e := range s.heap {
			e := e
			if e.loc.Root == l.Root && len(e.loc.Path) < len(l.Path) && pathHasPrefix(l.Path, e.loc.Path) {
				if best == nil || len(e.loc.Path) > len(best.loc.Path) {
					best = &e
				}
			}
		}
		if best != nil {
			if best.t.Op == "zero" {
				base = best.t
			} else {
				rest := strings.Join(l.Path[len(best.loc.Path):], "")
				if len(best.t.Args) == 0 && (strings.HasPrefix(best.t.Op, "$") || strings.HasPrefix(best.t.Op, "@")) && best.t.Op != "$" {
					// a copy of (part of) a parameter or global: its parts are the parts of the original
					base = mk(best.t.Op + rest)
				} else {
					base = mk("sel", best.t, mk(rest))
				}
			}
		}
		// newer writes to overlapping windows next to l (same parent)
		if n := len(l.Path); n > 0 {
			if lo, hi, ok := window(l.Path[n-1]); ok {
				for _, e := range s.heap {
					if e.loc.Root != l.Root || len(e.loc.Path) != n || !pathHasPrefix(e.loc.Path, l.Path[:n-1]) || e.loc.Path[n-1] == l.Path[n-1] {
						continue
					}
					if elo, ehi, ok := window(e.loc.Path[n-1]); ok && elo < hi && lo < ehi {
						// rebase relative to l
						rel := &Loc{Root: l.Root, Path: append(append([]string{}, l.Path...), relWindow(elo-lo, ehi-lo)), Len: -1}
						overlay = append(overlay, hent{rel, e.t})
					}
				}
			}
		}
	}
	// newer writes below l
	for _, e := range s.heap {
		if e.loc.Root == l.Root && len(e.loc.Path) > len(l.Path) && pathHasPrefix(e.loc.Path, l.Path) {
			overlay = append(overlay, e)
		}
	}
	if len(overlay) == 0 {
		if base != nil {
			return base
		}
		return defaultContent(l)
	}
	sort.Slice(overlay, func(i, j int) bool { return overlay[i].loc.key() < overlay[j].loc.key() })
	args := []*Term{}
	op := "agg"
	if base == nil {
		if def := defaultContent(l); def.Op != "zero" {
			args = append(args, def)
			op = "upd"
		}
	} else if base.Op != "zero" {
		args = append(args, base)
		op = "upd"
	}
	for _, e := range overlay {
		args = append(args, mk(strings.Join(e.loc.Path[len(l.Path):], "")+"=", e.t))
	}
	return mk(op, args...)
}

func relWindow(lo, hi int64) string {
	if hi == lo+1 {
		return fmt.Sprintf("[%d]", lo)
	}
	return fmt.Sprintf("[%d:%d]", lo, hi)
}

// content renders the data a value stands for when it is consumed by an
// uninterpreted operation: referenced memory for references.
func (s *state) content(t *Term) *Term {
	if t.Op != "ref" && !t.IsConst() && !t.Nil {
		// an object held as a data term (e.g. a hash returned by a constructor)
		// whose state was updated by later calls
		if e, ok := s.heap["T:"+t.String()]; ok {
			return e.t
		}
	}
	if t.Op == "ref" {
		c := s.hget(t.Loc)
		if c.Op == "ref" && c.Loc.key() != t.Loc.key() {
			return s.content(c)
		}
		return c
	}
	return t
}

// ---------------------------------------------------------------------------

func shortName(fn *ssa.Function) string {
	if fn.Signature.Recv() != nil {
		t := fn.Signature.Recv().Type()
		if pt, ok := t.(*types.Pointer); ok {
			t = pt.Elem()
		}
		if n, ok := t.(*types.Named); ok {
			return load.TypeRecordedName(n.Obj()) + "." + load.SimpleName(fn)
		}
	}
	if fn.Pkg != nil {
		return fn.Pkg.Pkg.Name() + "." + load.SimpleName(fn)
	}
	return load.SimpleName(fn)
}

func typeShort(t types.Type) string {
	var pkgs []*types.Package
	s := types.TypeString(t, func(p *types.Package) string { pkgs = append(pkgs, p); return p.Name() })
	return load.AliasTypeString(s, pkgs...) // renamed unexported types render under their recorded names
}

type walker struct {
	cfg   *Config
	fn    *ssa.Function
	paths []*Path
	work  []*state
	over  bool
	forks int
	steps int
}

// loopBlocks returns the natural loop of a header.
func loopBlocks(h *ssa.BasicBlock) map[*ssa.BasicBlock]bool {
	in := map[*ssa.BasicBlock]bool{h: true}
	var stack []*ssa.BasicBlock
	for _, p := range h.Preds {
		if h.Dominates(p) && !in[p] {
			in[p] = true
			stack = append(stack, p)
		}
	}
	for len(stack) > 0 {
		b := stack[len(stack)-1]
		stack = stack[:len(stack)-1]
		for _, p := range b.Preds {
			if !in[p] {
				in[p] = true
				stack = append(stack, p)
			}
		}
	}
	return in
}

// havocLoop forgets, on entry to a symbolic loop, the contents of every
// object defined outside the loop that the loop body may write: after an
// unknown number of iterations nothing is known about them.
func (w *walker) havocLoop(s *state, fr *frame, h *ssa.BasicBlock) {
	blocks := loopBlocks(h)
	rootOf := func(v ssa.Value) ssa.Value {
		for i := 0; i < 30; i++ {
			switch x := v.(type) {
			case *ssa.FieldAddr:
				v = x.X
			case *ssa.IndexAddr:
				v = x.X
			case *ssa.Slice:
				v = x.X
			case *ssa.ChangeType:
				v = x.X
			case *ssa.Convert:
				v = x.X
			case *ssa.MakeInterface:
				v = x.X
			default:
				return v
			}
		}
		return v
	}
	seen := map[string]bool{}
	hav := func(v ssa.Value) {
		r := rootOf(v)
		if in, ok := r.(ssa.Instruction); ok && blocks[in.Block()] {
			if _, isPhi := r.(*ssa.Phi); !isPhi {
				return // created inside the loop body
			}
		}
		t, ok := fr.env[r]
		if _, isG := r.(*ssa.Global); isG {
			t, ok = w.val(s, fr, r), true
		}
		if !ok || t.Op != "ref" {
			return
		}
		hl := &Loc{Root: t.Loc.Root, Path: t.Loc.Path, Len: -1}
		name := defaultOrLocal(t.Loc).String()
		if !seen[name] {
			seen[name] = true
			// the state the loop starts from (order-free: specifications look these up by name)
			s.events = append(s.events, fmt.Sprintf("loop L%d: %s enters as %s", loopOrdinal(h), name, s.content(refTerm(hl)).String()))
		}
		s.hset(hl, mk(fmt.Sprintf("havoc@L%d", loopOrdinal(h)), defaultOrLocal(t.Loc)))
	}
	for b := range blocks {
		for _, in := range b.Instrs {
			switch x := in.(type) {
			case *ssa.Store:
				hav(x.Addr)
			case *ssa.MapUpdate:
				hav(x.Map)
			case ssa.CallInstruction:
				c := x.Common()
				if bi, ok := c.Value.(*ssa.Builtin); ok {
					if bi.Name() == "copy" {
						hav(c.Args[0])
					}
					continue
				}
				// only the arguments the callee may write
				all := c.Args
				var writes []int
				if c.IsInvoke() {
					all = append([]ssa.Value{c.Value}, c.Args...)
					writes = w.invokeWrites(fr.fn, x, c, len(all))
				} else if callee := c.StaticCallee(); callee != nil {
					if sum := w.cfg.Mod.Sum[callee]; sum != nil {
						for i := range sum.Writes {
							writes = append(writes, i)
						}
					} else {
						writes = emod.ExternalWrites(callee.String(), all, callee.Signature.Recv() != nil)
					}
					if ov, ok := w.cfg.WritesOverride[shortName(callee)]; ok {
						writes = ov
					}
				} else {
					for i := range all {
						writes = append(writes, i)
					}
				}
				for _, i := range writes {
					if i < len(all) {
						switch all[i].Type().Underlying().(type) {
						case *types.Pointer, *types.Slice, *types.Map, *types.Interface:
							hav(all[i])
						}
					}
				}
			}
		}
	}
}

func defaultOrLocal(l *Loc) *Term {
	d := defaultContent(l)
	if d.Op == "zero" {
		// a local object: named by its root (type and creation ordinal), so that two
		// havoc'd locals of one loop stay distinguishable
		return mk(l.Root + strings.Join(l.Path, ""))
	}
	return d
}

// loopOrdinal numbers the loop headers of a function in block order.
func loopOrdinal(h *ssa.BasicBlock) int {
	n := 0
	for _, b := range h.Parent().Blocks {
		if b == h {
			return n
		}
		if isLoopHeader(b) {
			n++
		}
	}
	return n
}

func isLoopHeader(b *ssa.BasicBlock) bool {
	for _, p := range b.Preds {
		if b.Dominates(p) {
			return true
		}
	}
	return false
}

// Walk enumerates the paths of fn.
func Walk(cfg *Config, fn *ssa.Function) []*Path {
	if cfg.MaxPaths == 0 {
		cfg.MaxPaths = 40000
	}
	if cfg.MaxVisits == 0 {
		cfg.MaxVisits = 70
	}
	if cfg.MaxDepth == 0 {
		cfg.MaxDepth = 8
	}
	if cfg.MaxForks == 0 {
		cfg.MaxForks = 60000
	}
	if cfg.MaxSteps == 0 {
		cfg.MaxSteps = 20000000
	}
	if cfg.GlobalLen == nil {
		cfg.GlobalLen = ScanGlobalLens(cfg.P)
	}
	overflows0 := TermOverflows()
	w := &walker{cfg: cfg, fn: fn}
	st := &state{heap: map[string]hent{}, val: map[string]bool{}, seenCall: map[string]ssa.Instruction{},
		closures: map[*Term]*ssa.MakeClosure{}, cloEnv: map[*Term][]*Term{}, typeCount: map[string]int{}, rootLens: map[string]int64{}}
	fr := &frame{id: 0, fn: fn, env: map[ssa.Value]*Term{}, visits: map[*ssa.BasicBlock]int{}}
	// parameters are named as they were when the specifications were written (a
	// renamed parameter is the same parameter): position-wise alias from the
	// recorded table, when the arity still agrees
	var alias []string
	if ParamNames != nil {
		if rec := ParamNames(load.FuncName(fn)); len(rec) == len(fn.Params) {
			alias = rec
		}
	}
	for i, prm := range fn.Params {
		src := i
		if j, ok := cfg.ParamAlias[i]; ok {
			src = j // the two parameters denote one object
		}
		name := fn.Params[src].Name()
		if alias != nil {
			name = alias[src]
		}
		fr.env[prm] = paramTerm(prm, name)
	}
	st.frames = []*frame{fr}
	st.nextID = 1
	w.enter(st, fr, fn.Blocks[0])
	w.work = append(w.work, st)
	for len(w.work) > 0 {
		s := w.work[len(w.work)-1]
		w.work = w.work[:len(w.work)-1]
		w.run(s)
		if len(w.paths) > cfg.MaxPaths {
			w.paths = append(w.paths, &Path{Note: fmt.Sprintf("more than %d paths", cfg.MaxPaths)})
			break
		}
		if TermOverflows()-overflows0 > 64 {
			break // arithmetic is being followed: give up early
		}
	}
	if TermOverflows() != overflows0 {
		// undecided: the function (or a callee that is walked into) performs arithmetic
		// whose terms exceed the size limit — reported by the caller as a failure
		return []*Path{{Note: fmt.Sprintf("a term exceeded %d characters: the code walks into arithmetic that this analysis treats as uninterpreted calls (new call into limb-level code?)", MaxTermString)}}
	}
	return w.paths
}

// ParamNames, when set, returns the recorded parameter names (receiver
// first) of a module function by its load.FuncName.
var ParamNames func(funcName string) []string

// isRangeCounter: an integer phi of a loop header that enters as −1 and whose every use is phi + 1
// (go/ssa's rotated form of `for i := range x`).
func isRangeCounter(phi *ssa.Phi) bool {
	init := false
	for _, e := range phi.Edges {
		if c, ok := e.(*ssa.Const); ok && c.Value != nil && c.Value.Kind() == constant.Int {
			if n, ok := constant.Int64Val(c.Value); ok && n == -1 {
				init = true
				continue
			}
			return false
		}
	}
	if !init || phi.Referrers() == nil {
		return false
	}
	for _, r := range *phi.Referrers() {
		bo, ok := r.(*ssa.BinOp)
		if !ok || bo.Op != token.ADD || bo.X != ssa.Value(phi) {
			return false
		}
		c, ok := bo.Y.(*ssa.Const)
		if !ok || c.Value == nil {
			return false
		}
		if n, ok := constant.Int64Val(c.Value); !ok || n != 1 {
			return false
		}
	}
	return true
}

func paramTerm(prm *ssa.Parameter, name string) *Term {
	switch prm.Type().Underlying().(type) {
	case *types.Pointer, *types.Slice, *types.Interface, *types.Map:
		return refTerm(&Loc{Root: "P:" + name, Len: -1})
	}
	return mk("$" + name)
}

// render resolves, for presentation, pointers stored inside a term to the
// contents they point to (so that a returned struct shows the final state of
// the objects its fields reference).
func (s *state) render(t *Term, depth int) *Term { return s.render2(t, depth, map[string]bool{}) }

func (s *state) render2(t *Term, depth int, busy map[string]bool) *Term {
	if t == nil || depth > 6 {
		return t
	}
	key := t.String()
	if !busy[key] {
		c := s.content(t)
		if c != t && c.String() != key {
			busy[key] = true
			r := s.render2(c, depth+1, busy)
			delete(busy, key)
			return r
		}
	}
	if len(t.Args) == 0 {
		return t
	}
	changed := false
	args := make([]*Term, len(t.Args))
	for i, a := range t.Args {
		args[i] = s.render2(a, depth+1, busy)
		if args[i] != a {
			changed = true
		}
	}
	if !changed {
		return t
	}
	return &Term{Op: t.Op, Args: args, C: t.C, Nil: t.Nil, Loc: t.Loc}
}

func (w *walker) finish(s *state, p *Path) {
	p.Lits = s.lits
	for i, o := range p.Outcome {
		if o.Op == "&new" {
			p.Outcome[i] = s.render(o, 0)
		}
	}
	p.Events = s.events
	p.Final = map[string]*Term{}
	for _, e := range s.heap {
		if strings.HasPrefix(e.loc.Root, "P:") || strings.HasPrefix(e.loc.Root, "G:") || strings.HasPrefix(e.loc.Root, "T:") {
			k := defaultContent(e.loc).String()
			p.Final[k] = s.content(e.t)
		} else if w.cfg.SymLoops {
			p.Final[e.loc.key()] = s.content(e.t)
		}
	}
	w.paths = append(w.paths, p)
}

func (w *walker) giveUp(s *state, why string) {
	w.finish(s, &Path{Note: why})
}

// enter moves a frame to a block, evaluating phis against the edge taken.
func (w *walker) enter(s *state, fr *frame, b *ssa.BasicBlock) bool {
	fr.prev = fr.block
	fr.block = b
	fr.pc = 0
	fr.visits[b]++
	if fr.visits[b] > w.cfg.MaxVisits {
		return false
	}
	if w.cfg.SymLoops && len(s.frames) == 1 && fr.prev != nil && isLoopHeader(b) {
		back := b.Dominates(fr.prev)
		var vals []*Term
		k := 0
		for _, in := range b.Instrs {
			phi, ok := in.(*ssa.Phi)
			if !ok {
				break
			}
			idx := -1
			for i, p := range b.Preds {
				if p == fr.prev {
					idx = i
				}
			}
			if idx < 0 {
				return false
			}
			v := w.val(s, fr, phi.Edges[idx])
			// the rotated `range` loop keeps index−1 in its phi (starts at −1, every use is phi+1): it is
			// rendered like the counted loop `for i := 0; i < n; i++` — the symbol denotes the INDEX
			rangeCtr := isRangeCounter(phi)
			if rangeCtr {
				one := constTerm(constant.MakeInt64(1))
				vals = append(vals, w.renderForCompare(s, w.binop(s, token.ADD, v, one, phi.Type())))
			} else {
				vals = append(vals, w.renderForCompare(s, v))
			}
			if !back && k == 0 {
				w.havocLoop(s, fr, b)
			}
			if !back && rangeCtr {
				sym := mk(fmt.Sprintf("φL%d.%d", loopOrdinal(b), k))
				s.events = append(s.events, fmt.Sprintf("loop L%d: %s starts as 0", loopOrdinal(b), sym))
				fr.env[phi] = mk("-", sym, constTerm(constant.MakeInt64(1)))
			} else if !back {
				sym := mk(fmt.Sprintf("φL%d.%d", loopOrdinal(b), k))
				invariant := true
				for _, e := range phi.Edges {
					if e != phi.Edges[idx] && e != ssa.Value(phi) {
						invariant = false
					}
				}
				if v.Op == "ref" && invariant {
					sym = v // loop-invariant pointer
				} else {
					s.events = append(s.events, fmt.Sprintf("loop L%d: %s starts as %s", loopOrdinal(b), sym, s.content(v)))
				}
				fr.env[phi] = sym
			}
			k++
			fr.pc++
		}
		if back {
			s.pendingBack = mk(fmt.Sprintf("next-iteration@L%d", loopOrdinal(b)), vals...)
			return true
		}
		return true
	}
	// phis: simultaneous assignment
	var vals []*Term
	var phis []*ssa.Phi
	for _, in := range b.Instrs {
		phi, ok := in.(*ssa.Phi)
		if !ok {
			break
		}
		idx := -1
		for i, p := range b.Preds {
			if p == fr.prev {
				idx = i
			}
		}
		if idx < 0 {
			return false
		}
		phis = append(phis, phi)
		vals = append(vals, w.val(s, fr, phi.Edges[idx]))
		fr.pc++
	}
	for i, phi := range phis {
		fr.env[phi] = vals[i]
	}
	return true
}

func (w *walker) val(s *state, fr *frame, v ssa.Value) *Term {
	switch x := v.(type) {
	case *ssa.Const:
		if x.Value == nil {
			// nil or zero value of an aggregate
			switch x.Type().Underlying().(type) {
			case *types.Pointer, *types.Slice, *types.Interface, *types.Map, *types.Signature, *types.Chan:
				return nilTerm
			case *types.Basic:
				return nilTerm
			}
			return mk("zero")
		}
		return constTerm(x.Value)
	case *ssa.Global:
		gname := x.Name()
		if o := x.Object(); o != nil {
			gname = load.ObjSimpleName(o)
		}
		l := &Loc{Root: "G:" + load.Rel(x.Pkg.Pkg) + "." + gname, Len: -1, NonNil: true}
		if !load.IsModule(x.Pkg.Pkg) {
			l.Root = "G:" + x.Pkg.Pkg.Name() + "." + gname
		}
		return refTerm(l)
	case *ssa.Function:
		return mk("func:" + shortName(x))
	case *ssa.Builtin:
		return mk("builtin:" + x.Name())
	}
	if t, ok := fr.env[v]; ok {
		return t
	}
	return mk("?" + v.Name())
}

// ---------------------------------------------------------------------------
// term construction with normalisation

func not(t *Term) *Term {
	if t.Op == "not" {
		return t.Args[0]
	}
	if t.Op == "const" && t.C != nil && t.C.Kind() == constant.Bool {
		return constTerm(constant.MakeBool(!constant.BoolVal(t.C)))
	}
	return mk("not", t)
}

func (w *walker) renderForCompare(s *state, t *Term) *Term {
	if t.Op == "ref" {
		d := defaultContent(t.Loc)
		if d.Op == "zero" {
			return mk("&local")
		}
		return mk("ptr", d)
	}
	return t
}

func (w *walker) binop(s *state, op token.Token, x, y *Term, typ types.Type) *Term {
	// constant folding
	if x.IsConst() && y.IsConst() {
		if r, ok := foldBin(op, x.C, y.C); ok {
			return constTerm(r)
		}
	}
	switch op {
	case token.EQL, token.NEQ:
		var r *Term
		// nil comparisons of references
		xr, yr := x.Op == "ref", y.Op == "ref"
		switch {
		case xr && y.Nil && x.Loc.NonNil, yr && x.Nil && y.Loc.NonNil:
			r = constTerm(constant.MakeBool(false))
		case x.Nil && y.Nil:
			r = constTerm(constant.MakeBool(true))
		case y.Nil && nonNilByConstruction(x), x.Nil && nonNilByConstruction(y):
			r = constTerm(constant.MakeBool(false))
		case xr && yr:
			if x.Loc.key() == y.Loc.key() {
				r = constTerm(constant.MakeBool(true))
			} else if x.Loc.NonNil && y.Loc.NonNil && isLocalRoot(x.Loc.Root) != isLocalRoot(y.Loc.Root) {
				r = constTerm(constant.MakeBool(false))
			}
		}
		if r == nil {
			// b == true is b, b == false is ¬b (switch over a bool and if are the same decision)
			for _, pr := range [][2]*Term{{x, y}, {y, x}} {
				if c := pr[1]; c.IsConst() && c.C.Kind() == constant.Bool {
					r = pr[0]
					if !constant.BoolVal(c.C) {
						r = not(pr[0])
					}
				}
			}
		}
		if r == nil {
			a, b := w.renderForCompare(s, x), w.renderForCompare(s, y)
			if a.Nil || (a.IsConst() && !b.IsConst()) || (!b.Nil && !b.IsConst() && a.String() > b.String()) {
				a, b = b, a
			}
			if b.Nil {
				r = mk("isnil", a)
			} else {
				r = mk("==", a, b)
			}
		}
		if op == token.NEQ {
			return not(r)
		}
		return r
	case token.LSS:
		if r := lenPositive(x, y); r != nil {
			return r
		}
		return mk("<", x, y)
	case token.GTR:
		if r := lenPositive(y, x); r != nil {
			return r
		}
		return mk("<", y, x)
	case token.GEQ:
		return not(mk("<", x, y))
	case token.LEQ:
		return not(mk("<", y, x))
	}
	// x + x is x << 1
	if op == token.ADD && !x.IsConst() && x.String() == y.String() {
		if b, ok := typ.Underlying().(*types.Basic); ok && b.Info()&types.IsInteger != 0 {
			return mk("<<", x, constTerm(constant.MakeInt64(1)))
		}
	}
	// x * 2^k is x << k (one normal form for scaling by a power of two)
	if op == token.MUL {
		for _, pr := range [][2]*Term{{x, y}, {y, x}} {
			if c := pr[1]; c.IsConst() && c.C.Kind() == constant.Int && !pr[0].IsConst() {
				if n, ok := constant.Uint64Val(c.C); ok && n >= 2 && n&(n-1) == 0 {
					k := 0
					for n > 1 {
						n >>= 1
						k++
					}
					return mk("<<", pr[0], constTerm(constant.MakeInt64(int64(k))))
				}
			}
		}
	}
	// (x − c) + c = x (the index of a rotated range loop)
	if op == token.ADD && x.Op == "-" && len(x.Args) == 2 && x.Args[1].IsConst() && y.IsConst() && constant.Compare(x.Args[1].C, token.EQL, y.C) {
		return x.Args[0]
	}
	// commutative operators: canonical operand order (constants second, otherwise
	// by rendering), so that a ^ b and b ^ a are the same term
	switch op {
	case token.ADD, token.MUL, token.AND, token.OR, token.XOR:
		if b, ok := typ.Underlying().(*types.Basic); ok && b.Info()&types.IsString != 0 {
			break // string concatenation is not commutative
		}
		if (x.IsConst() && !y.IsConst()) || (!x.IsConst() && !y.IsConst() && x.String() > y.String()) {
			x, y = y, x
		}
	}
	return mk(op.String(), x, y)
}

// Commutative lists uninterpreted operations that are symmetric in their two
// operands bit for bit (limb-wise field addition, the multiplication
// routines, equality tests, constant-time comparisons): the last two
// arguments of their terms are kept in canonical order.
var Commutative = map[string]bool{
	"Element.Add": true, "Element.Mul": true, "Element.Equal": true,
	"Scalar.Add": true, "Scalar.Mul": true, "Scalar.Equal": true,
	"unpackedScalar.Add": true, "unpackedScalar.Mul": true,
	"subtle.ConstantTimeCompare": true, "subtle.ConstantTimeCompareBytes": true, "subtle.ConstantTimeCompareByte": true, "subtle.ConstantTimeByteEq": true,
	"bytes.Equal": true, "EdwardsPoint.Equal": true, "RistrettoPoint.Equal": true, "MontgomeryPoint.Equal": true,
	"CompressedEdwardsY.Equal": true, "CompressedRistretto.Equal": true,
}

// lenPositive: 0 < len(x) is ¬(len(x) == 0) (lengths are never negative).
func lenPositive(lo, hi *Term) *Term {
	if lo.IsConst() && lo.C.Kind() == constant.Int && constant.Sign(lo.C) == 0 && (hi.Op == "len" || hi.Op == "cap") {
		return not(mk("==", hi, lo))
	}
	return nil
}

// nonNilByConstruction: errors made by fmt.Errorf / errors.New.
func nonNilByConstruction(t *Term) bool {
	if t.Op == "errvar" {
		return true
	}
	if t.Op == "err" && len(t.Args) == 1 {
		switch t.Args[0].Op {
		case "fmt.Errorf", "errors.New":
			return true
		}
	}
	return false
}

func isLocalRoot(r string) bool { return strings.HasPrefix(r, "A") || strings.HasPrefix(r, "M") }

func foldBin(op token.Token, x, y constant.Value) (r constant.Value, ok bool) {
	defer func() {
		if recover() != nil {
			ok = false
		}
	}()
	switch op {
	case token.EQL, token.NEQ, token.LSS, token.LEQ, token.GTR, token.GEQ:
		if x.Kind() == constant.Bool {
			eq := constant.BoolVal(x) == constant.BoolVal(y)
			if op == token.EQL {
				return constant.MakeBool(eq), true
			}
			if op == token.NEQ {
				return constant.MakeBool(!eq), true
			}
			return nil, false
		}
		return constant.MakeBool(constant.Compare(x, op, y)), true
	case token.SHL, token.SHR:
		n, exact := constant.Uint64Val(y)
		if !exact {
			return nil, false
		}
		return constant.Shift(x, op, uint(n)), true
	case token.QUO:
		if x.Kind() == constant.Int && y.Kind() == constant.Int {
			if constant.Sign(y) == 0 {
				return nil, false
			}
			return constant.BinaryOp(x, token.QUO_ASSIGN, y), true
		}
	}
	return constant.BinaryOp(x, op, y), true
}

func (w *walker) lenOf(s *state, t *Term) *Term {
	if t.Op == "ref" {
		l := t.Loc
		if strings.HasPrefix(l.Root, "G:") && len(l.Path) == 0 {
			if _, written := s.heap[l.key()]; !written {
				if n, ok := w.cfg.GlobalLen[l.Root]; ok {
					return constTerm(constant.MakeInt64(n))
				}
			}
		}
		if len(l.Path) == 0 && l.Len >= 0 {
			return constTerm(constant.MakeInt64(l.Len))
		}
		if len(l.Path) > 0 {
			last := l.Path[len(l.Path)-1]
			var lo, hi int64
			if n, _ := fmt.Sscanf(last, "[%d:%d]", &lo, &hi); n == 2 {
				return constTerm(constant.MakeInt64(hi - lo))
			}
		}
		c := s.content(t)
		if c.Op == "cat" || c.Op == "zero" {
			// length of a locally built buffer is the sum of its parts: not needed by any rule
			return mk("len", c)
		}
		return mk("len", c)
	}
	if t.IsConst() && t.C.Kind() == constant.String {
		return constTerm(constant.MakeInt64(int64(len(constant.StringVal(t.C)))))
	}
	if t.Op == "bytes" || t.Op == "string" {
		return w.lenOf(s, t.Args[0])
	}
	if t.Nil {
		return constTerm(constant.MakeInt64(0))
	}
	if strings.HasPrefix(t.Op, "@") && len(t.Args) == 0 {
		if n, ok := w.cfg.GlobalLen["G:"+t.Op[1:]]; ok {
			return constTerm(constant.MakeInt64(n))
		}
	}
	return mk("len", t)
}

func (w *walker) sliceRef(s *state, fr *frame, x *ssa.Slice, base *Term) *Term {
	var lo, hi *Term
	if x.Low != nil {
		lo = w.val(s, fr, x.Low)
	}
	if x.High != nil {
		hi = w.val(s, fr, x.High)
	}
	if base.Op != "ref" {
		if base.Nil {
			return nilTerm
		}
		args := []*Term{base}
		for _, b := range []*Term{lo, hi} {
			if b == nil {
				args = append(args, mk("_"))
			} else {
				args = append(args, b)
			}
		}
		return mk("slice", args...)
	}
	l := base.Loc
	// length of the thing being sliced, if known
	var n int64 = -1
	if lt := w.lenOf(s, base); lt.IsConst() {
		n, _ = constant.Int64Val(lt.C)
	}
	loC, hiC := int64(0), n
	loK, hiK := true, n >= 0
	if lo != nil {
		if lo.IsConst() {
			loC, _ = constant.Int64Val(lo.C)
		} else {
			loK = false
		}
	}
	if hi != nil {
		if hi.IsConst() {
			hiC, _ = constant.Int64Val(hi.C)
			hiK = true
		} else {
			hiK = false
		}
	}
	if loK && hiK && loC == 0 && hiC == n && n >= 0 {
		return refTerm(&Loc{Root: l.Root, Path: l.Path, Len: l.Len, NonNil: l.NonNil}) // the whole object
	}
	if loK && loC == 0 && hi == nil {
		return base
	}
	// compose with an existing constant window
	if len(l.Path) > 0 && loK {
		last := l.Path[len(l.Path)-1]
		var plo, phi int64
		if k, _ := fmt.Sscanf(last, "[%d:%d]", &plo, &phi); k == 2 {
			nl := &Loc{Root: l.Root, Path: append([]string{}, l.Path[:len(l.Path)-1]...), Len: -1, NonNil: l.NonNil}
			if hiK {
				return refTerm(nl.sub(fmt.Sprintf("[%d:%d]", plo+loC, plo+hiC)))
			}
		}
	}
	var e string
	switch {
	case loK && hiK:
		e = fmt.Sprintf("[%d:%d]", loC, hiC)
	case loK && hi == nil:
		e = fmt.Sprintf("[%d:]", loC)
	case loK:
		e = fmt.Sprintf("[%d:%s]", loC, hi)
	case hiK:
		e = fmt.Sprintf("[%s:%d]", lo, hiC)
	case hi == nil:
		e = fmt.Sprintf("[%s:]", lo)
	default:
		e = fmt.Sprintf("[%s:%s]", lo, hi)
	}
	return refTerm(l.sub(e))
}

func (w *walker) deref(t *Term) *Loc {
	if t.Op == "ref" {
		return t.Loc
	}
	return &Loc{Root: "T:" + t.String(), Len: -1}
}

// FieldNames, when set, returns the recorded field names of a named module
// struct type ("rel.Type"): a renamed unexported field is the same field
// (fields keep their identity by name, renamed ones by position among the
// renamed; the alias applies while the number of fields is unchanged).
var FieldNames func(typeKey string) []string

func fieldName(t types.Type, idx int) string {
	if pt, ok := t.Underlying().(*types.Pointer); ok {
		t = pt.Elem()
	}
	if st, ok := t.Underlying().(*types.Struct); ok && idx < st.NumFields() {
		if n, ok := t.(*types.Named); ok && FieldNames != nil && n.Obj().Pkg() != nil {
			if rec := FieldNames(load.Rel(n.Obj().Pkg()) + "." + load.TypeRecordedName(n.Obj())); len(rec) == st.NumFields() {
				return load.AliasFieldNames(rec, st)[idx]
			}
		}
		return st.Field(idx).Name()
	}
	return fmt.Sprintf("f%d", idx)
}

func narrowing(from, to types.Type) string {
	fb, ok1 := from.Underlying().(*types.Basic)
	tb, ok2 := to.Underlying().(*types.Basic)
	if !ok1 || !ok2 {
		return ""
	}
	size := func(b *types.Basic) int {
		switch b.Kind() {
		case types.Int8, types.Uint8:
			return 1
		case types.Int16, types.Uint16:
			return 2
		case types.Int32, types.Uint32:
			return 4
		case types.Int, types.Uint, types.Int64, types.Uint64, types.Uintptr, types.UntypedInt:
			return 8
		}
		return 0
	}
	if size(fb) > 0 && size(tb) > 0 && size(tb) < size(fb) {
		return tb.Name()
	}
	return ""
}

// ---------------------------------------------------------------------------

func (w *walker) run(s *state) {
	for steps := 0; ; steps++ {
		w.steps++
		if steps > 200000 || w.steps > w.cfg.MaxSteps {
			w.giveUp(s, "step budget exceeded")
			w.work = nil
			return
		}
		fr := s.frames[len(s.frames)-1]
		if s.pendingBack != nil {
			t := s.pendingBack
			s.pendingBack = nil
			w.finish(s, &Path{Outcome: []*Term{t}})
			return
		}
		if fr.pc >= len(fr.block.Instrs) {
			w.giveUp(s, "fell off a block")
			return
		}
		in := fr.block.Instrs[fr.pc]
		fr.pc++
		switch x := in.(type) {
		case *ssa.DebugRef:
		case *ssa.Phi:
			// evaluated on entry
		case *ssa.Alloc:
			n := int64(-1)
			if arr, ok := x.Type().Underlying().(*types.Pointer).Elem().Underlying().(*types.Array); ok {
				n = arr.Len()
			}
			aroot := s.localRoot("A", x.Type().Underlying().(*types.Pointer).Elem())
			if n >= 0 {
				s.rootLens[aroot] = n
			}
			fr.env[x] = refTerm(&Loc{Root: aroot, Len: n, NonNil: true})
		case *ssa.MakeSlice:
			n := int64(-1)
			if c := w.val(s, fr, x.Len); c.IsConst() {
				n, _ = constant.Int64Val(c.C)
			}
			l := &Loc{Root: s.localRoot("M", x.Type()), Len: n, NonNil: true}
			fr.env[x] = refTerm(l)
			if n != 0 {
				// a zero-filled buffer of a given length (Z_pad and the like): the length is part of the value
				s.hset(l, mk("zeros", w.val(s, fr, x.Len)))
			} else {
				s.hset(l, mk("cat"))
			}
		case *ssa.MakeMap, *ssa.MakeChan:
			s.nextID++
			fr.env[x.(ssa.Value)] = refTerm(&Loc{Root: fmt.Sprintf("M%d", s.nextID), Len: -1, NonNil: true})
		case *ssa.MakeClosure:
			t := mk(fmt.Sprintf("closure#%d", s.nextID))
			s.nextID++
			s.closures[t] = x
			var env []*Term
			for _, b := range x.Bindings {
				env = append(env, w.val(s, fr, b))
			}
			s.cloEnv[t] = env
			fr.env[x] = t
		case *ssa.FieldAddr:
			base := w.val(s, fr, x.X)
			fr.env[x] = refTerm(w.deref(base).sub("." + fieldName(x.X.Type(), x.Field)))
		case *ssa.IndexAddr:
			base := w.val(s, fr, x.X)
			idx := w.val(s, fr, x.Index)
			l := w.deref(base)
			// compose with a constant window
			if idx.IsConst() && len(l.Path) > 0 {
				var plo, phi int64
				last := l.Path[len(l.Path)-1]
				if k, _ := fmt.Sscanf(last, "[%d:%d]", &plo, &phi); k == 2 {
					i, _ := constant.Int64Val(idx.C)
					nl := &Loc{Root: l.Root, Path: append([]string{}, l.Path[:len(l.Path)-1]...), Len: -1, NonNil: l.NonNil}
					fr.env[x] = refTerm(nl.sub(fmt.Sprintf("[%d]", plo+i)))
					break
				}
				var plo2 int64
				if k, _ := fmt.Sscanf(last, "[%d:]", &plo2); k == 1 && strings.HasSuffix(last, ":]") {
					i, _ := constant.Int64Val(idx.C)
					nl := &Loc{Root: l.Root, Path: append([]string{}, l.Path[:len(l.Path)-1]...), Len: -1, NonNil: l.NonNil}
					fr.env[x] = refTerm(nl.sub(fmt.Sprintf("[%d]", plo2+i)))
					break
				}
			}
			fr.env[x] = refTerm(l.sub("[" + idx.String() + "]"))
		case *ssa.Slice:
			fr.env[x] = w.sliceRef(s, fr, x, w.val(s, fr, x.X))
		case *ssa.SliceToArrayPointer:
			fr.env[x] = w.val(s, fr, x.X)
		case *ssa.UnOp:
			v := w.val(s, fr, x.X)
			switch x.Op {
			case token.MUL:
				l := w.deref(v)
				c := s.hget(l)
				if g, ok := x.X.(*ssa.Global); ok && load.IsModule(g.Pkg.Pkg) && c.Op != "ref" && len(c.Args) == 0 {
					if types.Identical(g.Type().(*types.Pointer).Elem(), types.Universe.Lookup("error").Type()) {
						// package-level error values are assigned once, in the package
						// initialiser, from fmt.Errorf/errors.New (C18: never written later)
						c = mk("errvar", c)
					}
				}
				fr.env[x] = c
			case token.NOT:
				fr.env[x] = not(v)
			case token.SUB:
				if v.IsConst() {
					fr.env[x] = constTerm(constant.UnaryOp(token.SUB, v.C, 0))
				} else {
					fr.env[x] = mk("neg", v)
				}
			case token.XOR:
				fr.env[x] = mk("compl", v)
			default:
				fr.env[x] = mk("un:"+x.Op.String(), v)
			}
		case *ssa.BinOp:
			fr.env[x] = w.binop(s, x.Op, w.val(s, fr, x.X), w.val(s, fr, x.Y), x.Type())
		case *ssa.ChangeType:
			fr.env[x] = w.val(s, fr, x.X)
		case *ssa.ChangeInterface:
			fr.env[x] = w.val(s, fr, x.X)
		case *ssa.MakeInterface:
			fr.env[x] = w.val(s, fr, x.X)
		case *ssa.MultiConvert:
			fr.env[x] = w.val(s, fr, x.X)
		case *ssa.Convert:
			v := w.val(s, fr, x.X)
			ft, tt := x.X.Type().Underlying(), x.Type().Underlying()
			_, fromSlice := ft.(*types.Slice)
			_, toSlice := tt.(*types.Slice)
			fb, _ := ft.(*types.Basic)
			tb, _ := tt.(*types.Basic)
			switch {
			case fb != nil && fb.Info()&types.IsString != 0 && toSlice:
				c := s.content(v)
				if c.Op == "string" {
					fr.env[x] = c.Args[0]
				} else {
					fr.env[x] = mk("bytes", c)
				}
			case fromSlice && tb != nil && tb.Info()&types.IsString != 0:
				c := s.content(v)
				if c.Op == "bytes" {
					fr.env[x] = c.Args[0]
				} else {
					fr.env[x] = mk("string", c)
				}
			default:
				if n := narrowing(x.X.Type(), x.Type()); n != "" && !v.IsConst() {
					fr.env[x] = mk(n, v)
				} else {
					fr.env[x] = v
				}
			}
		case *ssa.Field:
			v := w.val(s, fr, x.X)
			fr.env[x] = mk("sel", s.content(v), mk("."+fieldName(x.X.Type(), x.Field)))
		case *ssa.Index:
			v := w.val(s, fr, x.X)
			fr.env[x] = mk("sel", s.content(v), mk("["+w.val(s, fr, x.Index).String()+"]"))
		case *ssa.Lookup:
			v := w.val(s, fr, x.X)
			k := w.val(s, fr, x.Index)
			t := mk("lookup", s.content(v), s.content(k))
			if x.CommaOk {
				fr.env[x] = mk("tuple", t, mk("has", s.content(v), s.content(k)))
			} else {
				fr.env[x] = t
			}
		case *ssa.TypeAssert:
			v := w.val(s, fr, x.X)
			if x.CommaOk {
				fr.env[x] = mk("tuple", v, mk("typeis", w.renderForCompare(s, v), mk(typeShort(x.AssertedType))))
			} else {
				fr.env[x] = v
			}
		case *ssa.Extract:
			t := w.val(s, fr, x.Tuple)
			if t.Op == "tuple" && x.Index < len(t.Args) {
				fr.env[x] = t.Args[x.Index]
			} else {
				fr.env[x] = mk(fmt.Sprintf("res%d", x.Index), t)
			}
		case *ssa.Store:
			addr := w.val(s, fr, x.Addr)
			v := w.val(s, fr, x.Val)
			s.hset(w.deref(addr), v)
		case *ssa.MapUpdate:
			m := w.val(s, fr, x.Map)
			l := w.deref(m)
			s.hset(l, mk("mapupdate", s.hget(l), s.content(w.val(s, fr, x.Key)), s.content(w.val(s, fr, x.Value))))
		case *ssa.Defer:
			d := deferred{instr: x}
			for _, a := range x.Call.Args {
				d.args = append(d.args, w.val(s, fr, a))
			}
			if x.Call.IsInvoke() {
				d.recv = w.val(s, fr, x.Call.Value)
			}
			fr.defers = append(fr.defers, d)
		case *ssa.RunDefers:
			for i := len(fr.defers) - 1; i >= 0; i-- {
				d := fr.defers[i]
				w.uninterpreted(s, fr, d.instr, d.args, d.recv, true)
			}
			fr.defers = nil
		case *ssa.Call:
			if !w.call(s, fr, x) {
				return
			}
		case *ssa.Jump:
			if !w.enter(s, fr, fr.block.Succs[0]) {
				w.giveUp(s, "loop bound exceeded in "+load.FuncName(fr.fn))
				return
			}
		case *ssa.If:
			c := w.val(s, fr, x.Cond)
			pol := true
			for c.Op == "not" {
				c = c.Args[0]
				pol = !pol
			}
			if c.Op == "const" && c.C != nil && c.C.Kind() == constant.Bool {
				take := constant.BoolVal(c.C) == pol
				succ := fr.block.Succs[1]
				if take {
					succ = fr.block.Succs[0]
				}
				if !w.enter(s, fr, succ) {
					w.giveUp(s, "loop bound exceeded in "+load.FuncName(fr.fn))
					return
				}
				break
			}
			atom := c.String()
			if v, ok := s.val[atom]; ok {
				succ := fr.block.Succs[1]
				if v == pol {
					succ = fr.block.Succs[0]
				}
				if !w.enter(s, fr, succ) {
					w.giveUp(s, "loop bound exceeded in "+load.FuncName(fr.fn))
					return
				}
				break
			}
			// fork
			w.forks++
			if w.forks > w.cfg.MaxForks || len(w.work) > 4000 {
				w.giveUp(s, "fork budget exceeded (a loop with a symbolic bound is being unrolled: make the callee opaque or use SymLoops)")
				w.work = nil
				return
			}
			other := s.clone()
			ofr := other.frames[len(other.frames)-1]
			other.lits = append(other.lits, Lit{Atom: atom, Val: !pol, Term: c})
			other.val[atom] = !pol
			// `other` takes the false successor: cond false  <=> atom == !pol
			if w.enter(other, ofr, ofr.block.Succs[1]) {
				w.work = append(w.work, other)
			} else {
				w.giveUp(other, "loop bound exceeded in "+load.FuncName(fr.fn))
			}
			s.lits = append(s.lits, Lit{Atom: atom, Val: pol, Term: c})
			s.val[atom] = pol
			if !w.enter(s, fr, fr.block.Succs[0]) {
				w.giveUp(s, "loop bound exceeded in "+load.FuncName(fr.fn))
				return
			}
		case *ssa.Return:
			var res []*Term
			for _, r := range x.Results {
				res = append(res, w.val(s, fr, r))
			}
			if len(s.frames) == 1 {
				p := &Path{}
				for _, r := range res {
					if r.Op == "ref" && isLocalRoot(r.Loc.Root) {
						p.Outcome = append(p.Outcome, mk("&new", s.content(r)))
					} else if r.Op == "ref" {
						p.Outcome = append(p.Outcome, w.renderForCompare(s, r))
					} else {
						p.Outcome = append(p.Outcome, r)
					}
				}
				w.finish(s, p)
				return
			}
			s.frames = s.frames[:len(s.frames)-1]
			parent := s.frames[len(s.frames)-1]
			if v, ok := fr.call.(ssa.Value); ok {
				switch len(res) {
				case 0:
				case 1:
					parent.env[v] = res[0]
				default:
					parent.env[v] = mk("tuple", res...)
				}
			}
		case *ssa.Panic:
			w.finish(s, &Path{Panic: s.content(w.val(s, fr, x.X))})
			return
		case *ssa.Go, *ssa.Select, *ssa.Send, *ssa.Range, *ssa.Next:
			w.giveUp(s, fmt.Sprintf("unsupported instruction %T in %s", in, load.FuncName(fr.fn)))
			return
		default:
			w.giveUp(s, fmt.Sprintf("unsupported instruction %T in %s", in, load.FuncName(fr.fn)))
			return
		}
	}
}

// call handles a call instruction; false = the path ended.
func (w *walker) call(s *state, fr *frame, x *ssa.Call) bool {
	common := x.Common()
	var args []*Term
	for _, a := range common.Args {
		args = append(args, w.val(s, fr, a))
	}
	if bi, ok := common.Value.(*ssa.Builtin); ok {
		fr.env[x] = w.builtin(s, fr, bi.Name(), args, x)
		return true
	}
	var callee *ssa.Function
	var free []*Term
	if !common.IsInvoke() {
		callee = common.StaticCallee()
		if callee == nil {
			// call of a closure value held in a variable
			fv := w.val(s, fr, common.Value)
			if mc, ok := s.closures[fv]; ok {
				callee = mc.Fn.(*ssa.Function)
				free = s.cloEnv[fv]
			}
		} else if mc, ok := common.Value.(*ssa.MakeClosure); ok {
			for _, b := range mc.Bindings {
				free = append(free, w.val(s, fr, b))
			}
		}
	}
	if callee != nil && len(callee.Blocks) > 0 && w.shouldInline(callee) && len(s.frames) < w.cfg.MaxDepth {
		nf := &frame{id: s.nextID, fn: callee, env: map[ssa.Value]*Term{}, visits: map[*ssa.BasicBlock]int{}, call: x}
		s.nextID++
		for i, prm := range callee.Params {
			if i < len(args) {
				nf.env[prm] = args[i]
			}
		}
		for i, fv := range callee.FreeVars {
			if i < len(free) {
				nf.env[fv] = free[i]
			}
		}
		s.frames = append(s.frames, nf)
		if !w.enter(s, nf, callee.Blocks[0]) {
			w.giveUp(s, "cannot enter "+load.FuncName(callee))
			return false
		}
		return true
	}
	var recv *Term
	if common.IsInvoke() {
		recv = w.val(s, fr, common.Value)
	}
	fr.env[x] = w.uninterpreted(s, fr, x, args, recv, false)
	return true
}

func (w *walker) shouldInline(callee *ssa.Function) bool {
	name := shortName(callee)
	if w.cfg.Opaque[name] {
		return false
	}
	if w.cfg.Inline != nil {
		return w.cfg.Inline(callee)
	}
	if callee.Parent() != nil {
		return true // anonymous function of an inlined function
	}
	return callee.Pkg != nil && w.fn.Pkg != nil && callee.Pkg == w.fn.Pkg
}

func (w *walker) builtin(s *state, fr *frame, name string, args []*Term, x *ssa.Call) *Term {
	switch name {
	case "len", "cap":
		if name == "cap" {
			return mk("cap", s.content(args[0]))
		}
		return w.lenOf(s, args[0])
	case "copy":
		if args[0].Op == "ref" {
			src := s.content(args[1])
			s.hset(args[0].Loc, src)
		}
		return mk("copy-n")
	case "append":
		var parts []*Term
		base := s.content(args[0])
		switch {
		case base.Op == "cat":
			parts = append(parts, base.Args...)
		case base.Nil || base.Op == "zero" || (base.Op == "zeros" && len(base.Args) == 1 && base.Args[0].String() == "0"):
		default:
			parts = append(parts, base)
		}
		if len(args) > 1 {
			e := s.content(args[1])
			// append(b, x) with a single element is compiled to a slice of a new [1]T array
			if e.Op == "agg" && len(e.Args) == 1 && strings.HasPrefix(e.Args[0].Op, "[0]=") {
				e = e.Args[0].Args[0]
			}
			if e.Op == "cat" {
				parts = append(parts, e.Args...)
			} else if !e.Nil {
				parts = append(parts, e)
			}
		}
		l := &Loc{Root: s.localRoot("M", x.Type()), Len: -1, NonNil: args[0].Op == "ref" && args[0].Loc.NonNil || len(parts) > 0}
		s.hset(l, mk("cat", parts...))
		return refTerm(l)
	case "ssa:wrapnilchk":
		return args[0]
	case "delete":
		if args[0].Op == "ref" {
			s.hset(args[0].Loc, mk("mapdelete", s.hget(args[0].Loc), s.content(args[1])))
		}
		return mk("unit")
	case "min", "max":
		var cs []*Term
		for _, a := range args {
			cs = append(cs, s.content(a))
		}
		return mk(name, cs...)
	}
	return mk("builtin:" + name)
}

// uninterpreted applies an opaque call: result term, state updates of the
// written pointer arguments, event.
func (w *walker) uninterpreted(s *state, fr *frame, instr ssa.CallInstruction, args []*Term, recv *Term, deferredCall bool) *Term {
	common := instr.Common()
	name := "?"
	var writes []int
	readsRecv := true
	returnsAlias := -1
	all := args
	var callee *ssa.Function
	if common.IsInvoke() {
		name = typeShort(common.Value.Type()) + "." + common.Method.Name()
		all = append([]*Term{recv}, args...)
		writes = w.invokeWrites(fr.fn, instr, common, len(all))
	} else if callee = common.StaticCallee(); callee != nil {
		name = shortName(callee)
		if sum := w.cfg.Mod.Sum[callee]; sum != nil {
			for i := range sum.Writes {
				writes = append(writes, i)
			}
			sort.Ints(writes)
			readsRecv = sum.Reads[0]
			for i := range sum.Returns {
				if returnsAlias < 0 || i < returnsAlias {
					returnsAlias = i
				}
			}
		} else {
			vals := make([]ssa.Value, len(common.Args))
			copy(vals, common.Args)
			writes = emod.ExternalWrites(callee.String(), vals, callee.Signature.Recv() != nil)
		}
	} else {
		fv := w.val(s, fr, common.Value)
		name = "dyn:" + fv.String()
		for i, a := range all {
			if a.Op == "ref" {
				writes = append(writes, i)
			}
		}
	}
	if ov, ok := w.cfg.WritesOverride[name]; ok {
		writes = ov
	}
	// argument contents at call time
	var cargs []*Term
	for i, a := range all {
		c := s.content(a)
		written := false
		for _, wi := range writes {
			if wi == i {
				written = true
			}
		}
		if written && i == 0 && (c.Op == "zero" || c.Op == "zeros" || !readsRecv || PureDest[name] || (strings.HasPrefix(name, "Element.") && !RecvInput[name] && len(all) >= 2)) {
			continue // pure destination: fresh object, or a callee that never reads its receiver
		}
		if written && i == 0 && a.Op == "ref" && len(c.Args) == 0 && c.String() == defaultContent(a.Loc).String() && !RecvInput[name] {
			continue // destination whose previous content is just the initial, never-written memory of a parameter
		}
		cargs = append(cargs, c)
	}
	if name == "errors.New" && len(cargs) == 1 {
		// errors.New(msg) and a verb-less fmt.Errorf(msg) build the same error
		name, cargs = "fmt.Errorf", append(cargs, nilTerm)
	}
	if n := len(cargs); n >= 2 && Commutative[name] && cargs[n-2].String() > cargs[n-1].String() {
		cargs[n-2], cargs[n-1] = cargs[n-1], cargs[n-2]
	}
	// hash.Hash.Sum(b) appends to b: with b = x[:0] the digest lands in x
	ct := mk(name, cargs...)

	if strings.HasSuffix(name, ".Sum") && len(all) == 2 {
		ct = mk("Sum", s.content(all[0]))
		if all[1].Op == "ref" {
			l := all[1].Loc
			if n := len(l.Path); n > 0 && (strings.HasPrefix(l.Path[n-1], "[0:0]") || l.Path[n-1] == "[:0]") {
				parent := &Loc{Root: l.Root, Path: l.Path[:n-1], Len: -1, NonNil: l.NonNil}
				// Sum appends to x[:0]: the digest lands in x only if x has room for
				// it; otherwise Sum allocates and x keeps its old contents
				capN := int64(-1)
				if n == 1 {
					capN = w.rootLen(s, l.Root)
				}
				dig := digestSize(s.content(all[0]))
				if capN >= 0 && dig > 0 && capN >= dig {
					s.hset(parent, ct)
				} else {
					s.hset(parent, mk(fmt.Sprintf("sumIntoCap%d", capN), ct))
				}
			}
		}
		s.events = append(s.events, ct.String())
		return ct
	}
	// absorb sequences: Write(Write(ctor, a), b) is rendered H(ctor, a, b); Reset restarts
	if strings.HasSuffix(name, ".Write") && len(cargs) == 2 && common.Signature().Results().Len() == 2 {
		if cargs[0].Op == "H" {
			ct = mk("H", append(append([]*Term{}, cargs[0].Args...), cargs[1])...)
		} else {
			ct = mk("H", cargs[0], cargs[1])
		}
	}
	if strings.HasSuffix(name, ".Reset") && len(cargs) == 1 {
		base := cargs[0]
		if base.Op == "H" {
			base = base.Args[0]
		}
		// a constructor result is already in its initial state; anything else
		// (a clone of a caller-supplied object, say) is fresh only after Reset
		if base.Op != "fresh" && !isFreshCtor(base.Op) {
			base = mk("fresh", base)
		}
		ct = base
	}
	// distinguish repeated constructor calls (objects with identity, such as
	// hash states); value setters like One()/Zero() denote the same value each time
	if len(cargs) == 0 && len(all) == 0 {
		key := ct.String()
		if prev, ok := s.seenCall[key]; ok && prev != instr.(ssa.Instruction) {
			ct = mk(fmt.Sprintf("%s#%d", name, len(s.seenCall)))
		}
		s.seenCall[ct.String()] = instr.(ssa.Instruction)
	}
	for _, wi := range writes {
		if wi >= len(all) || all[wi].Op != "ref" {
			if wi < len(all) && all[wi].Op != "ref" && !all[wi].Nil {
				// written through a pointer held as a data term (e.g. a hash object returned by a constructor)
				l := w.deref(all[wi])
				if wi == 0 {
					s.hset(l, ct)
				} else {
					s.hset(l, mk(fmt.Sprintf("out%d", wi), ct))
				}
			}
			continue
		}
		if wi == 0 {
			s.hset(all[wi].Loc, ct)
		} else {
			s.hset(all[wi].Loc, mk(fmt.Sprintf("out%d", wi), ct))
		}
	}
	s.events = append(s.events, ct.String())
	// result
	res := common.Signature().Results()
	mkRes := func(i int) *Term {
		t := res.At(i).Type()
		if types.Identical(t, types.Universe.Lookup("error").Type()) {
			return mk("err", ct)
		}
		if returnsAlias >= 0 && returnsAlias < len(all) && all[returnsAlias].Op == "ref" {
			switch t.Underlying().(type) {
			case *types.Pointer, *types.Slice:
				return all[returnsAlias]
			}
		}
		if res.Len() == 1 {
			return ct
		}
		return mk(fmt.Sprintf("res%d", i), ct)
	}
	switch res.Len() {
	case 0:
		return mk("unit")
	case 1:
		return mkRes(0)
	}
	var rs []*Term
	for i := 0; i < res.Len(); i++ {
		rs = append(rs, mkRes(i))
	}
	return mk("tuple", rs...)
}

// isFreshCtor: the operator is a constructor call (New, New512, NewShake256, Hash.New …).
func isFreshCtor(op string) bool {
	if i := strings.LastIndexByte(op, '.'); i >= 0 {
		op = op[i+1:]
	}
	if i := strings.IndexByte(op, '#'); i >= 0 {
		op = op[:i]
	}
	return strings.HasPrefix(op, "New")
}

// digestSize: the digest length of a hash state term, if its constructor is known.
func digestSize(t *Term) int64 {
	for t != nil && (t.Op == "H") && len(t.Args) > 0 {
		t = t.Args[0]
	}
	if t == nil {
		return -1
	}
	switch {
	case strings.HasPrefix(t.Op, "sha512.New512_256"), strings.HasPrefix(t.Op, "sha256.New"):
		return 32
	case strings.HasPrefix(t.Op, "sha512.New384"):
		return 48
	case strings.HasPrefix(t.Op, "sha512.New"):
		return 64
	}
	return -1
}

// rootLen: the fixed length of a local array object, recorded when it was allocated.
func (w *walker) rootLen(s *state, root string) int64 {
	if n, ok := s.rootLens[root]; ok {
		return n
	}
	return -1
}

// PureDest lists methods that overwrite their receiver completely,
// whatever it held before, although the may-read summary says they read it
// (they read back what they have just written, e.g. to fix up a sign bit or to
// reduce in place).  Confirmed by reading; the previous receiver state is not
// an input of these operations and is left out of their terms.
var PureDest = map[string]bool{
	"CompressedEdwardsY.SetEdwardsPoint":    true, // y.ToBytes(p[:]) then p[31] ^= sign
	"CompressedRistretto.SetRistrettoPoint": true, // s.ToBytes(p[:])
	"Scalar.SetBytesModOrder":               true, // SetBits(in) then Reduce in place
	"Scalar.SetBytesModOrderWide":           true,
	"Scalar.SetCanonicalBytes":              true,
	"Scalar.SetBits":                        true,
	"MontgomeryPoint.SetEdwards":            true,
	"EdwardsPoint.SetCompressedY":           true,
	"RistrettoPoint.SetCompressed":          true,
}

// RecvInput lists methods whose receiver's PREVIOUS value is an operand (a
// conditional update keeps it when the choice is 0): it is always rendered.
var RecvInput = map[string]bool{
	"Element.ConditionalSwap":                   true,
	"Element.ConditionalNegate":                 true,
	"Element.ConditionalAssign":                 true,
	"montgomeryProjectivePoint.conditionalSwap": true,
	"EdwardsPoint.ConditionalAssign":            true,
	"projectiveNielsPoint.ConditionalNegate":    true,
	"projectiveNielsPoint.ConditionalAssign":    true,
	"affineNielsPoint.ConditionalNegate":        true,
	"affineNielsPoint.ConditionalAssign":        true,
	"cachedPoint.ConditionalNegate":             true,
	"cachedPoint.ConditionalAssign":             true,
	"Scalar.ConditionalAssign":                  true,
}

// invokeWrites: which arguments (receiver = 0) an interface call may write.
func (w *walker) invokeWrites(fn *ssa.Function, instr ssa.CallInstruction, common *ssa.CallCommon, n int) []int {
	set := map[int]bool{}
	found := false
	if node := w.cfg.P.CallGraph().Nodes[fn]; node != nil {
		for _, e := range node.Out {
			if e.Site == instr && e.Callee.Func != nil {
				if sum := w.cfg.Mod.Sum[e.Callee.Func]; sum != nil {
					found = true
					for i := range sum.Writes {
						set[i] = true
					}
				}
			}
		}
	}
	if !found {
		// class-hierarchy fallback: module types implementing the interface
		if iface, ok := common.Value.Type().Underlying().(*types.Interface); ok {
			for _, fnc := range w.cfg.P.ModuleFuncs() {
				if fnc.Name() != common.Method.Name() || fnc.Signature.Recv() == nil {
					continue
				}
				if types.Implements(fnc.Signature.Recv().Type(), iface) {
					if sum := w.cfg.Mod.Sum[fnc]; sum != nil {
						found = true
						for i := range sum.Writes {
							set[i] = true
						}
					}
				}
			}
		}
	}
	if !found {
		vals := append([]ssa.Value{common.Value}, common.Args...)
		for _, i := range emod.ExternalWrites(common.Method.FullName(), vals, true) {
			set[i] = true
		}
	}
	var out []int
	for i := range set {
		if i < n {
			out = append(out, i)
		}
	}
	sort.Ints(out)
	return out
}

// ScanGlobalLens finds package-level slice variables of the module that are
// initialised from a literal (a slice of a fixed-size array built in the
// package initialiser) and returns their lengths.  C18 (GLOBAL-store)
// guarantees nothing writes them afterwards.
func ScanGlobalLens(p *load.Program) map[string]int64 {
	out := map[string]int64{}
	for _, fn := range p.ModuleFuncs() {
		if fn.Name() != "init" || fn.Parent() != nil {
			continue
		}
		for _, b := range fn.Blocks {
			for _, in := range b.Instrs {
				st, ok := in.(*ssa.Store)
				if !ok {
					continue
				}
				g, ok := st.Addr.(*ssa.Global)
				if !ok {
					continue
				}
				sl, ok := st.Val.(*ssa.Slice)
				if !ok || sl.Low != nil || sl.High != nil {
					continue
				}
				if pt, ok := sl.X.Type().Underlying().(*types.Pointer); ok {
					if arr, ok := pt.Elem().Underlying().(*types.Array); ok {
						out["G:"+load.Rel(g.Pkg.Pkg)+"."+g.Name()] = arr.Len()
					}
				}
			}
		}
	}
	return out
}
