// Package edt implements E-DT and E-SEQ of DESIGN.md: the control skeleton
// of a function is enumerated path by path over the constant-pruned CFG,
// with every value abstracted to an uninterpreted term over the function's
// parameters (finite predicate abstraction: library predicates such as
// IsSmallOrder are atoms, never evaluated).  Each path yields the ordered
// literals it tested, the terms it returns and the final contents of the
// memory it wrote; these are compared with specification formulas in
// three-valued logic.  No arithmetic is interpreted and nothing is executed.
package edt

import (
	"fmt"
	"go/constant"
	"hash/fnv"
	"sort"
	"strings"
	"sync/atomic"
)

// Term is an uninterpreted term.
type Term struct {
	Op   string
	Args []*Term
	C    constant.Value // Op == "const"
	Nil  bool           // Op == "const": the nil constant
	Loc  *Loc           // Op == "ref": reference to an abstract object
	s    string
}

// Loc is an abstract memory location: root object + access path.
type Loc struct {
	Root   string
	Path   []string
	Len    int64 // known length of the root object if it is an array / fixed-size make (-1 unknown)
	NonNil bool  // the reference is non-nil by construction (address of a local, make, append)
}

func (l *Loc) key() string { return l.Root + strings.Join(l.Path, "") }

func (l *Loc) sub(e string) *Loc {
	p := make([]string, len(l.Path)+1)
	copy(p, l.Path)
	p[len(l.Path)] = e
	return &Loc{Root: l.Root, Path: p, Len: -1, NonNil: l.NonNil}
}

func mk(op string, args ...*Term) *Term { return &Term{Op: op, Args: args} }

func constTerm(c constant.Value) *Term { return &Term{Op: "const", C: c} }

var nilTerm = &Term{Op: "const", Nil: true}

func refTerm(l *Loc) *Term { return &Term{Op: "ref", Loc: l} }

// String renders the canonical form.
func (t *Term) String() string {
	if t == nil {
		return "<nil-term>"
	}
	if t.s != "" {
		return t.s
	}
	var s string
	switch t.Op {
	case "const":
		if t.Nil || t.C == nil {
			s = "nil"
		} else if t.C.Kind() == constant.String {
			s = t.C.ExactString()
		} else {
			s = t.C.ExactString()
		}
	case "ref":
		s = "&" + t.Loc.key()
	default:
		if len(t.Args) == 0 {
			s = t.Op
		} else if isInfix(t.Op) && len(t.Args) == 2 {
			s = "(" + t.Args[0].String() + " " + t.Op + " " + t.Args[1].String() + ")"
		} else {
			parts := make([]string, len(t.Args))
			for i, a := range t.Args {
				parts[i] = a.String()
			}
			if t.Op == "agg" {
				if nf, ok := endianNormalForm(parts); ok {
					s = nf
				} else {
					s = t.Op + "(" + strings.Join(parts, ", ") + ")"
				}
			} else {
				s = t.Op + "(" + strings.Join(parts, ", ") + ")"
			}
		}
	}
	if len(s) > MaxTermString {
		// a term that large is arithmetic the walker was not meant to follow (rendered
		// as a tree, shared sub-terms multiply): keep a digest so that memory stays
		// bounded, and let the walk report that it gave up
		h := fnv.New64a()
		h.Write([]byte(s))
		s = fmt.Sprintf("⟪%s…#%x len=%d⟫", t.Op, h.Sum64(), len(s))
		atomic.AddInt64(&termOverflows, 1)
	}
	t.s = s
	return s
}

// MaxTermString bounds the rendered size of one term.
const MaxTermString = 1 << 18

var termOverflows int64

// TermOverflows counts the terms cut at MaxTermString so far.
func TermOverflows() int64 { return atomic.LoadInt64(&termOverflows) }

func isInfix(op string) bool {
	switch op {
	case "==", "<", "+", "-", "*", "/", "%", "&", "|", "^", "<<", ">>", "&^", "&&", "||":
		return true
	}
	return false
}

// IsConst reports a non-nil constant.
func (t *Term) IsConst() bool { return t.Op == "const" && !t.Nil && t.C != nil }

// Contains reports whether sub occurs in t (by canonical string).
func (t *Term) Contains(sub string) bool { return strings.Contains(t.String(), sub) }

// Lit is an atom with a polarity.
type Lit struct {
	Atom string
	Val  bool
	Term *Term
}

// Path is one enumerated path.
type Path struct {
	Lits    []Lit
	Outcome []*Term // returned values; nil for a panic
	Panic   *Term
	Events  []string         // ordered uninterpreted calls with their argument terms
	Final   map[string]*Term // final contents of written memory reachable from parameters / results
	Note    string           // non-empty: the walker gave up (unrecognised construct)
}

// Valuation of a path as a map.
func (p *Path) Valuation() map[string]bool {
	m := map[string]bool{}
	for _, l := range p.Lits {
		m[l.Atom] = l.Val
	}
	return m
}

// Atoms returns the sorted set of atoms over a list of paths.
func Atoms(paths []*Path) []string {
	set := map[string]bool{}
	for _, p := range paths {
		for _, l := range p.Lits {
			set[l.Atom] = true
		}
	}
	out := make([]string, 0, len(set))
	for a := range set {
		out = append(out, a)
	}
	sort.Strings(out)
	return out
}

// OutcomeString renders a path's outcome.
func (p *Path) OutcomeString() string {
	if p.Note != "" {
		return "UNRECOGNISED: " + p.Note
	}
	if p.Panic != nil {
		return "panic(" + p.Panic.String() + ")"
	}
	parts := make([]string, len(p.Outcome))
	for i, o := range p.Outcome {
		parts[i] = o.String()
	}
	return strings.Join(parts, " ; ")
}

// LitString renders the literals of a path.
func (p *Path) LitString() string {
	parts := make([]string, len(p.Lits))
	for i, l := range p.Lits {
		if l.Val {
			parts[i] = l.Atom
		} else {
			parts[i] = "¬" + l.Atom
		}
	}
	return strings.Join(parts, " ∧ ")
}

// endianNormalForm gives the two spellings of a fixed-width integer encoding one rendering:
//   - four bytes byte(x), byte(x>>8), byte(x>>16), byte(x>>24) are binary.LittleEndian.PutUint32
//     (the form the Merlin length prefixes are written in);
//   - binary.BigEndian.PutUint16 into a two-byte window is byte(x>>8), byte(x) (the form the
//     I2OSP(len, 2) prefixes of RFC 9380 are written in).
func endianNormalForm(parts []string) (string, bool) {
	if len(parts) == 4 && strings.HasPrefix(parts[0], "[0]=(byte(") && strings.HasSuffix(parts[0], "))") {
		x := parts[0][len("[0]=(byte(") : len(parts[0])-2]
		if parts[1] == "[1]=(byte(("+x+" >> 8)))" && parts[2] == "[2]=(byte(("+x+" >> 16)))" && parts[3] == "[3]=(byte(("+x+" >> 24)))" {
			if strings.HasPrefix(x, "uint32(") && strings.HasSuffix(x, ")") {
				return "out1(littleEndian.PutUint32(@binary.LittleEndian, zero, " + x + "))", true
			}
			return "out1(littleEndian.PutUint32(@binary.LittleEndian, zero, uint32(" + x + ")))", true
		}
	}
	changed := false
	var out []string
	for _, p := range parts {
		const pre, mid = "[", "]=(out1(bigEndian.PutUint16(@binary.BigEndian, zero, uint16("
		i := strings.Index(p, mid)
		if strings.HasPrefix(p, pre) && i > 0 && strings.HasSuffix(p, "))))") {
			var a, b int
			if n, _ := fmt.Sscanf(p[1:i], "%d:%d", &a, &b); n == 2 && b == a+2 {
				x := p[i+len(mid) : len(p)-4]
				out = append(out, fmt.Sprintf("[%d]=(byte((%s >> 8)))", a, x), fmt.Sprintf("[%d]=(byte(%s))", a+1, x))
				changed = true
				continue
			}
		}
		out = append(out, p)
	}
	if !changed {
		return "", false
	}
	sort.Strings(out)
	return "agg(" + strings.Join(out, ", ") + ")", true
}
