package edt

import (
	"go/constant"
)

// ByteFunction evaluates a term built from the bitwise operators &, |, ^,
// constants and ONE variable (the sub-term whose canonical string is
// variable) as a function on all 256 byte values.  It is used to compare
// clamping code with its specification extensionally, so that `&=127;|=64`
// and `&=63;|=64` are the same function and a wrong mask is not.  ok=false if
// the term contains anything else.
func ByteFunction(t *Term, variable string) (tbl [256]byte, ok bool) {
	for b := 0; b < 256; b++ {
		v, good := evalByte(t, variable, byte(b))
		if !good {
			return tbl, false
		}
		tbl[b] = v
	}
	return tbl, true
}

func evalByte(t *Term, variable string, b byte) (byte, bool) {
	if t.String() == variable {
		return b, true
	}
	if t.IsConst() && t.C.Kind() == constant.Int {
		v, exact := constant.Uint64Val(t.C)
		if !exact {
			return 0, false
		}
		return byte(v), true
	}
	if len(t.Args) == 2 {
		x, ok1 := evalByte(t.Args[0], variable, b)
		y, ok2 := evalByte(t.Args[1], variable, b)
		if !ok1 || !ok2 {
			return 0, false
		}
		switch t.Op {
		case "&":
			return x & y, true
		case "|":
			return x | y, true
		case "^":
			return x ^ y, true
		case "&^":
			return x &^ y, true
		}
	}
	if len(t.Args) == 1 && (t.Op == "byte" || t.Op == "uint8") {
		return evalByte(t.Args[0], variable, b)
	}
	return 0, false
}

// Find returns the first sub-term (pre-order) satisfying pred.
func (t *Term) Find(pred func(*Term) bool) *Term {
	if pred(t) {
		return t
	}
	for _, a := range t.Args {
		if r := a.Find(pred); r != nil {
			return r
		}
	}
	return nil
}

// Sub returns the argument of the element `key=` inside an upd/agg term.
func (t *Term) Sub(key string) *Term {
	for _, a := range t.Args {
		if a.Op == key+"=" && len(a.Args) == 1 {
			return a.Args[0]
		}
	}
	return nil
}
