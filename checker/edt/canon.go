package edt

import (
	"sort"
	"strings"
)

// Canon re-establishes the canonical operand order of commutative operators
// and symmetric callees in a RENDERED term (needed after a renaming has been
// applied to the string, which can change the order).  It parses the
// rendering grammar of Term.String: atoms, "op(a, b, …)", "(a op b)".
func Canon(s string) string {
	s = strings.TrimSpace(s)
	if s == "" {
		return s
	}
	// several results: "a ; b"
	if parts := splitTop(s, " ; "); len(parts) > 1 {
		for i := range parts {
			parts[i] = Canon(parts[i])
		}
		return strings.Join(parts, " ; ")
	}
	// infix
	if s[0] == '(' && matching(s, 0) == len(s)-1 {
		body := s[1 : len(s)-1]
		for _, op := range []string{"==", "<", "+", "-", "*", "/", "%", "&^", "&&", "||", "<<", ">>", "&", "|", "^"} {
			if parts := splitTop(body, " "+op+" "); len(parts) == 2 {
				a, b := Canon(parts[0]), Canon(parts[1])
				switch op {
				case "+", "*", "&", "|", "^", "==":
					if (isNum(a) && !isNum(b)) || (!isNum(a) && !isNum(b) && a > b) {
						a, b = b, a
					}
				}
				return "(" + a + " " + op + " " + b + ")"
			}
		}
		return "(" + Canon(body) + ")"
	}
	// call
	if i := strings.IndexByte(s, '('); i > 0 && matching(s, i) == len(s)-1 && !strings.ContainsAny(s[:i], " ") {
		op := s[:i]
		args := splitTop(s[i+1:len(s)-1], ", ")
		for k := range args {
			args[k] = Canon(args[k])
		}
		if n := len(args); n >= 2 && Commutative[op] && args[n-2] > args[n-1] {
			args[n-2], args[n-1] = args[n-1], args[n-2]
		}
		return op + "(" + strings.Join(args, ", ") + ")"
	}
	return s
}

func isNum(s string) bool {
	if s == "" {
		return false
	}
	for i, c := range s {
		if (c < '0' || c > '9') && !(i == 0 && c == '-') {
			return false
		}
	}
	return true
}

// matching returns the index of the bracket closing the one at i (-1 if none).
func matching(s string, i int) int {
	depth := 0
	inStr := false
	for k := i; k < len(s); k++ {
		c := s[k]
		switch {
		case c == '"' && (k == 0 || s[k-1] != '\\'):
			inStr = !inStr
		case inStr:
		case c == '(' || c == '[':
			depth++
		case c == ')' || c == ']':
			depth--
			if depth == 0 {
				return k
			}
		}
	}
	return -1
}

// splitTop splits s at the top-level occurrences of sep.
func splitTop(s, sep string) []string {
	var out []string
	depth, start := 0, 0
	inStr := false
	for k := 0; k < len(s); k++ {
		c := s[k]
		switch {
		case c == '"' && (k == 0 || s[k-1] != '\\'):
			inStr = !inStr
		case inStr:
		case c == '(' || c == '[':
			depth++
		case c == ')' || c == ']':
			depth--
		}
		if !inStr && depth == 0 && strings.HasPrefix(s[k:], sep) {
			out = append(out, s[start:k])
			start = k + len(sep)
			k += len(sep) - 1
		}
	}
	out = append(out, s[start:])
	return out
}

var _ = sort.Strings
