package edt

import (
	"fmt"
	"go/constant"
	"go/types"
	"regexp"
	"sort"
	"strings"

	"golang.org/x/tools/go/ssa"

	"voicheck/load"
	"voicheck/report"
)

// Tri is a Kleene truth value.
type Tri int8

const (
	F Tri = iota
	T
	U
)

func (t Tri) String() string { return [...]string{"false", "true", "unknown"}[t] }

func And(xs ...Tri) Tri {
	r := T
	for _, x := range xs {
		if x == F {
			return F
		}
		if x == U {
			r = U
		}
	}
	return r
}

func Or(xs ...Tri) Tri {
	r := F
	for _, x := range xs {
		if x == T {
			return T
		}
		if x == U {
			r = U
		}
	}
	return r
}

func Not(x Tri) Tri {
	switch x {
	case T:
		return F
	case F:
		return T
	}
	return U
}

// Ite is if-then-else in Kleene logic.
func Ite(c, a, b Tri) Tri { return Or(And(c, a), And(Not(c), b)) }

// Implies is material implication.
func Implies(a, b Tri) Tri { return Or(Not(a), b) }

var eqConstRE = regexp.MustCompile(`^\((.+) == (-?[0-9]+)\)$`)

// Env is the partial valuation of specification variables on one path.
type Env struct {
	vals map[string]bool
	Path *Path
}

// V returns the value of a variable (U if the path did not test it).
func (e *Env) V(name string) Tri {
	if v, ok := e.vals[name]; ok {
		if v {
			return T
		}
		return F
	}
	return U
}

// Known reports whether the path fixed the variable.
func (e *Env) Known(name string) bool { _, ok := e.vals[name]; return ok }

// Assumption fixes the value of an atom that cannot vary (an operation that
// cannot fail on the argument it gets), with the reason.
type Assumption struct {
	Val bool
	Why string
}

// Spec is the specification of one target function.
type Spec struct {
	Pkg, Func string
	Opaque    []string // callees never inlined
	// InlinePkgs: module-relative packages whose functions are walked into
	// (default: the target's own package).
	InlinePkgs []string
	// Abbrev: (long, short) replacements applied, in order, to every atom and
	// outcome string: a vocabulary of role names, confirmed by reading.
	Abbrev [][2]string
	// Vars maps atoms (after abbreviation) to specification variables.
	Vars map[string]string
	// VarPrefix maps atom prefixes to variables (for families of atoms).
	Assume map[string]Assumption
	// AssumePrefix: like Assume, for families of atoms sharing a prefix.
	AssumePrefix map[string]Assumption
	// VarPrefix maps atom prefixes to variables (families of atoms).
	VarPrefix map[string]string
	// Classify names the outcome class of a path ("" = unrecognised).
	Classify func(p *Path, out string, e *Env) string
	// Formula gives, per class, the condition under which the specification
	// yields that class.
	Formula map[string]func(e *Env) Tri
	// Extra is called for every feasible path after the class check (role /
	// event / final-state rules); it returns a diagnosis or "".
	Extra func(p *Path, out string, class string, e *Env, ab func(string) string) string
	// MinPaths guards against vacuity.
	// WritesOverride: see Config.WritesOverride.
	WritesOverride map[string][]int
	// Ignore: atoms with one of these prefixes are bookkeeping conditions
	// (loop counters of symbolic loops, infallible entropy reads) that the
	// specification does not constrain.
	Ignore   []string
	MinPaths int
	// Optional: the target is a small helper whose effect is also checked where it is used; if it has
	// been inlined away (the function no longer exists) the specification is skipped, not failed.
	Optional  bool
	MaxVisits int
	SymLoops  bool
}

// Result of checking a spec.
type Result struct {
	Paths, Feasible, Atoms int
	ClassCount             map[string]int
	Vars                   []string
	Samples                []string
}

func (sp *Spec) abbrev(s string) string {
	for _, ab := range sp.Abbrev {
		s = strings.ReplaceAll(s, ab[0], ab[1])
	}
	return s
}

// Check extracts the decision table of the target and compares it path by
// path with the specification.  One obligation per feasible path.
func Check(rule *report.Rule, cfg *Config, sp *Spec) *Result {
	p := cfg.P
	fn := p.Func(sp.Pkg, sp.Func)
	name := sp.Pkg + "." + sp.Func
	res := &Result{ClassCount: map[string]int{}}
	if fn == nil || len(fn.Blocks) == 0 {
		if sp.Optional {
			return &Result{ClassCount: map[string]int{}}
		}
		rule.Fail("-", name, "target function cannot be resolved (anchor lost)", nil)
		return res
	}
	c := *cfg
	c.Opaque = map[string]bool{}
	for _, o := range sp.Opaque {
		c.Opaque[o] = true
	}
	if sp.MaxVisits > 0 {
		c.MaxVisits = sp.MaxVisits
	}
	c.SymLoops = sp.SymLoops
	if sp.WritesOverride != nil {
		c.WritesOverride = sp.WritesOverride
	}
	if len(sp.InlinePkgs) > 0 {
		pk := map[string]bool{}
		for _, r := range sp.InlinePkgs {
			pk[r] = true
		}
		c.Inline = func(callee *ssa.Function) bool {
			f := callee
			for f.Parent() != nil {
				f = f.Parent()
			}
			return f.Pkg != nil && pk[load.Rel(f.Pkg.Pkg)]
		}
	}
	paths := Walk(&c, fn)
	paths = splitReturnedAtoms(sp, fn, paths)
	res.Paths = len(paths)
	pos := p.Pos(fn.Pos())
	varset := map[string]bool{}
	atomset := map[string]bool{}
	for _, pa := range paths {
		if pa.Note != "" {
			rule.Fail(pos, name, "decision structure not recognised: "+pa.Note, nil)
			continue
		}
		env := &Env{vals: map[string]bool{}, Path: pa}
		feasible := true
		var unknown []string
		for _, l := range pa.Lits {
			a := sp.abbrev(l.Atom)
			atomset[a] = true
			if as, ok := sp.Assume[a]; ok {
				if as.Val != l.Val {
					feasible = false
				}
				continue
			}
			assumed := false
			for pfx, as := range sp.AssumePrefix {
				if strings.HasPrefix(a, pfx) {
					assumed = true
					if as.Val != l.Val {
						feasible = false
					}
				}
			}
			if assumed {
				continue
			}
			v, ok := sp.Vars[a]
			if !ok {
				for pfx, pv := range sp.VarPrefix {
					if strings.HasPrefix(a, pfx) {
						v, ok = pv, true
					}
				}
			}
			if !ok {
				ign := false
				for _, pfx := range sp.Ignore {
					if strings.HasPrefix(a, pfx) {
						ign = true
					}
				}
				if !ign {
					unknown = append(unknown, a)
				}
				continue
			}
			neg := strings.HasPrefix(v, "!")
			v = strings.TrimPrefix(v, "!")
			val := l.Val != neg
			if old, had := env.vals[v]; had && old != val {
				feasible = false // two atoms mapped to one variable with contradictory values
			}
			env.vals[v] = val
			varset[v] = true
		}
		// equalities with distinct constants exclude each other: a path that established (X == c)
		// has decided every specification atom (X == c') with c' != c, whether or not the code
		// spelled that comparison out (switch vs. if-chain over the same value)
		for _, l := range pa.Lits {
			if !l.Val {
				continue
			}
			m := eqConstRE.FindStringSubmatch(sp.abbrev(l.Atom))
			if m == nil {
				continue
			}
			for a, v := range sp.Vars {
				m2 := eqConstRE.FindStringSubmatch(a)
				if m2 == nil || m2[1] != m[1] || m2[2] == m[2] {
					continue
				}
				neg := strings.HasPrefix(v, "!")
				v = strings.TrimPrefix(v, "!")
				if _, had := env.vals[v]; !had {
					env.vals[v] = neg // the atom is false
					varset[v] = true
				}
			}
		}
		if !feasible {
			continue
		}
		res.Feasible++
		if len(unknown) > 0 {
			sort.Strings(unknown)
			rule.Fail(pos, name, fmt.Sprintf("unrecognised condition in the decision logic: %s (the specification vocabulary of this function does not contain it)", strings.Join(unknown, "; ")), nil)
			continue
		}
		out := sp.abbrev(pa.OutcomeString())
		class := sp.Classify(pa, out, env)
		if class == "" {
			rule.Fail(pos, name, fmt.Sprintf("unrecognised outcome %q on path [%s]", clip(out, 300), clip(sp.abbrev(pa.LitString()), 400)), nil)
			continue
		}
		res.ClassCount[class]++
		f, ok := sp.Formula[class]
		if !ok {
			rule.Fail(pos, name, "specification has no formula for class "+class, nil)
			continue
		}
		got := f(env)
		if got != T {
			why := "the specification gives a different result for these conditions"
			if got == U {
				why = "the code decides without testing a condition the specification requires"
			}
			rule.Fail(pos, name, fmt.Sprintf("path [%s] yields %s, but the specification formula for %s evaluates to %s: %s", clip(sp.abbrev(pa.LitString()), 600), class, class, got, why), nil)
			continue
		}
		bad := false
		for oc, of := range sp.Formula {
			if oc != class && of(env) == T {
				rule.Fail(pos, name, fmt.Sprintf("path [%s] yields %s but the specification also yields %s", clip(sp.abbrev(pa.LitString()), 600), class, oc), nil)
				bad = true
			}
		}
		if bad {
			continue
		}
		if sp.Extra != nil {
			if msg := sp.Extra(pa, out, class, env, sp.abbrev); msg != "" {
				rule.Fail(pos, name, fmt.Sprintf("%s (class %s, path [%s])", msg, class, clip(sp.abbrev(pa.LitString()), 400)), nil)
				continue
			}
		}
		rule.OK(name)
		if len(res.Samples) < 3 && (class != "reject" || len(res.Samples) == 0) {
			res.Samples = append(res.Samples, fmt.Sprintf("%s: [%s] ⇒ %s", name, clip(sp.abbrev(pa.LitString()), 300), class))
		}
	}
	if res.Feasible < sp.MinPaths {
		rule.Fail(pos, name, fmt.Sprintf("only %d feasible paths extracted, %d were confirmed by hand: the extractor no longer sees the decision logic", res.Feasible, sp.MinPaths), nil)
	}
	for v := range varset {
		res.Vars = append(res.Vars, v)
	}
	sort.Strings(res.Vars)
	res.Atoms = len(atomset)
	return res
}

func clip(s string, n int) string {
	if len(s) > n {
		return s[:n] + "…"
	}
	return s
}

// splitReturnedAtoms: a function with one boolean result that RETURNS a condition of the
// specification's vocabulary (return a && (b || !c): the last operand is returned as a value, not
// branched on) decides exactly like the same function with "if cond { return true }; return false".
// Such a path is replaced by its two cases, so that both spellings are compared with the formula.
func splitReturnedAtoms(sp *Spec, fn *ssa.Function, paths []*Path) []*Path {
	res := fn.Signature.Results()
	if res.Len() != 1 {
		return paths
	}
	if b, ok := res.At(0).Type().Underlying().(*types.Basic); !ok || b.Kind() != types.Bool {
		return paths
	}
	var out []*Path
	for _, pa := range paths {
		if pa.Note != "" || pa.Panic != nil || len(pa.Outcome) != 1 || pa.Outcome[0].Op == "const" {
			out = append(out, pa)
			continue
		}
		t, neg := pa.Outcome[0], false
		if t.Op == "not" && len(t.Args) == 1 {
			t, neg = t.Args[0], true
		}
		atom := t.String()
		if _, known := sp.Vars[sp.abbrev(atom)]; !known {
			out = append(out, pa)
			continue
		}
		for _, val := range []bool{true, false} {
			cp := *pa
			cp.Lits = append(append([]Lit(nil), pa.Lits...), Lit{Atom: atom, Val: val, Term: t})
			cp.Outcome = []*Term{constTerm(constant.MakeBool(val != neg))}
			out = append(out, &cp)
		}
	}
	return out
}
