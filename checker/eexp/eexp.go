// Package eexp implements E-EXP: abstract interpretation of exponentiation chains in the
// monomial domain.  A field element or scalar is abstracted to a signed monomial
// ±x1^e1·x2^e2·… over the routine's inputs (and named constants such as sqrt(-1) or the
// Montgomery radix R); multiplication adds exponent vectors, squaring doubles them, k-fold
// squaring shifts them, negation flips the sign, every other operation gives "unknown".
// Integers (loop counters, squaring counts) are tracked as constants so that the counted loops
// of the square-and-multiply helpers are followed with their literal trip counts; a branch on
// anything that is not a compile-time-derivable integer comparison leaves the routine
// undecided.  Nothing is executed: the field/scalar multiplication routines are never entered,
// only their exponent transfer functions are applied.
package eexp

import (
	"fmt"
	"go/constant"
	"go/token"
	"go/types"
	"math/big"
	"sort"
	"strings"

	"golang.org/x/tools/go/ssa"

	"voicheck/load"
)

// Mono is a signed monomial; nil means unknown.
type Mono struct {
	Neg bool
	Exp map[string]*big.Int
}

func Var(name string) *Mono { return &Mono{Exp: map[string]*big.Int{name: big.NewInt(1)}} }
func One() *Mono            { return &Mono{Exp: map[string]*big.Int{}} }

func (m *Mono) clone() *Mono {
	if m == nil {
		return nil
	}
	n := &Mono{Neg: m.Neg, Exp: map[string]*big.Int{}}
	for k, v := range m.Exp {
		n.Exp[k] = new(big.Int).Set(v)
	}
	return n
}

func Mul(a, b *Mono) *Mono {
	if a == nil || b == nil {
		return nil
	}
	n := a.clone()
	n.Neg = a.Neg != b.Neg
	for k, v := range b.Exp {
		if n.Exp[k] == nil {
			n.Exp[k] = new(big.Int)
		}
		n.Exp[k].Add(n.Exp[k], v)
	}
	return n.norm()
}

// Shl raises a to the power 2^k.
func Shl(a *Mono, k uint) *Mono {
	if a == nil {
		return nil
	}
	n := a.clone()
	if k > 0 {
		n.Neg = false
	}
	for _, v := range n.Exp {
		v.Lsh(v, k)
	}
	return n.norm()
}

func Neg(a *Mono) *Mono {
	if a == nil {
		return nil
	}
	n := a.clone()
	n.Neg = !n.Neg
	return n
}

// Pow returns a^e for a variable-free exponent.
func Pow(a *Mono, e *big.Int) *Mono {
	if a == nil {
		return nil
	}
	n := a.clone()
	if e.Bit(0) == 0 {
		n.Neg = false
	}
	for _, v := range n.Exp {
		v.Mul(v, e)
	}
	return n.norm()
}

func (m *Mono) norm() *Mono {
	for k, v := range m.Exp {
		if v.Sign() == 0 {
			delete(m.Exp, k)
		}
	}
	return m
}

func (m *Mono) String() string {
	if m == nil {
		return "?"
	}
	var ks []string
	for k := range m.Exp {
		ks = append(ks, k)
	}
	sort.Strings(ks)
	var parts []string
	for _, k := range ks {
		e := m.Exp[k]
		if e.IsInt64() && e.Int64() == 1 {
			parts = append(parts, k)
		} else if e.BitLen() <= 16 {
			parts = append(parts, fmt.Sprintf("%s^%s", k, e))
		} else {
			parts = append(parts, fmt.Sprintf("%s^0x%x", k, e))
		}
	}
	s := strings.Join(parts, "*")
	if s == "" {
		s = "1"
	}
	if m.Neg {
		s = "-" + s
	}
	return s
}

// Equal compares two monomials, exponents of the variables in mod taken modulo the given
// group orders (x^(q-1) = 1 for x != 0).
func Equal(a, b *Mono, mod map[string]*big.Int) bool {
	if a == nil || b == nil {
		return false
	}
	if a.Neg != b.Neg {
		return false
	}
	keys := map[string]bool{}
	for k := range a.Exp {
		keys[k] = true
	}
	for k := range b.Exp {
		keys[k] = true
	}
	for k := range keys {
		x, y := a.Exp[k], b.Exp[k]
		if x == nil {
			x = new(big.Int)
		}
		if y == nil {
			y = new(big.Int)
		}
		d := new(big.Int).Sub(x, y)
		if q := mod[k]; q != nil {
			d.Mod(d, q)
		} else if q := mod["*"]; q != nil {
			d.Mod(d, q)
		}
		if d.Sign() != 0 {
			return false
		}
	}
	return true
}

// ---- interpreter ------------------------------------------------------------------------------

// Kind of a primitive's exponent transfer function (receiver = argument 0 is the destination).
type Kind int

const (
	KMul      Kind = iota + 1 // dst = a*b
	KSquare                   // dst = a^2
	KPow2k                    // dst = a^(2^k), k = last argument (must be a known integer)
	KSet                      // dst = a
	KNeg                      // dst = -a
	KMontMul                  // dst = a*b/R
	KMontSq                   // dst = a^2/R
	KFromMont                 // dst = a/R
	KFresh                    // result = a fresh object holding the receiver's value (unpack)
	KObserve                  // pure observation (Equal, IsNegative …): operands recorded, nothing written
	KObserveW                 // observation that overwrites the destination with an unknown value (ConditionalAssign …)
)

type Config struct {
	P *load.Program
	// Prims: load.FuncName of a callee -> transfer function.
	Prims map[string]Kind
	// Globals: "rel.Name" of a package-level element -> its monomial.
	Globals map[string]*Mono
	// IsElem: the abstracted value types.
	IsElem   func(types.Type) bool
	MaxSteps int
	MaxDepth int
}

// Obs is one observed call: callee and the monomials of its element operands (receiver first).
type Obs struct {
	Callee string
	Args   []*Mono
	Pos    token.Pos
}

func (o Obs) String() string {
	var a []string
	for _, m := range o.Args {
		a = append(a, m.String())
	}
	return o.Callee + "(" + strings.Join(a, ", ") + ")"
}

type object struct {
	m    *Mono
	name string
}

type tuple []any

// Result of interpreting one routine.
type Result struct {
	Returns []any // *Mono for element values, *object for pointers, *big.Int, nil = unknown
	Obs     []Obs
	Steps   int
}

type Undecided struct {
	Pos token.Pos
	Msg string
}

func (u *Undecided) Error() string { return u.Msg }

type interp struct {
	cfg   *Config
	steps int
	obs   []Obs
}

// Run interprets fn with the given arguments (*Object pointers created with NewObject, *Mono
// values, *big.Int integers, nil unknown).
func Run(cfg *Config, fn *ssa.Function, args []any) (res *Result, err error) {
	if cfg.MaxSteps == 0 {
		cfg.MaxSteps = 200000
	}
	if cfg.MaxDepth == 0 {
		cfg.MaxDepth = 6
	}
	it := &interp{cfg: cfg}
	defer func() {
		if r := recover(); r != nil {
			if u, ok := r.(*Undecided); ok {
				err = u
				return
			}
			panic(r)
		}
	}()
	out := it.call(fn, args, 0)
	return &Result{Returns: out, Obs: it.obs, Steps: it.steps}, nil
}

// Object is an abstract element object handed in by pointer.
type Object = object

func NewObject(name string, m *Mono) *Object { return &object{m: m, name: name} }
func (o *Object) Mono() *Mono                { return o.m }

func (it *interp) undecided(pos token.Pos, format string, a ...any) {
	panic(&Undecided{Pos: pos, Msg: fmt.Sprintf(format, a...)})
}

func isElemPtr(cfg *Config, t types.Type) bool {
	p, ok := t.Underlying().(*types.Pointer)
	return ok && cfg.IsElem(p.Elem())
}

func (it *interp) call(fn *ssa.Function, args []any, depth int) []any {
	if depth > it.cfg.MaxDepth {
		it.undecided(fn.Pos(), "call depth exceeded at %s", load.FuncName(fn))
	}
	if len(fn.Blocks) == 0 {
		it.undecided(fn.Pos(), "%s has no Go body", load.FuncName(fn))
	}
	env := map[ssa.Value]any{}
	for i, p := range fn.Params {
		if i < len(args) {
			env[p] = args[i]
		}
	}
	get := func(v ssa.Value) any {
		switch c := v.(type) {
		case *ssa.Const:
			if c.Value != nil && c.Value.Kind() == constant.Int {
				if n, ok := new(big.Int).SetString(c.Value.ExactString(), 10); ok {
					return n
				}
			}
			if c.Value != nil && c.Value.Kind() == constant.Bool {
				return constant.BoolVal(c.Value)
			}
			return nil
		case *ssa.Global:
			key := load.Rel(c.Pkg.Pkg) + "." + load.ObjSimpleName(c.Object())
			if m, ok := it.cfg.Globals[key]; ok {
				return &object{m: m.clone(), name: key}
			}
			if isElemPtr(it.cfg, c.Type()) {
				return &object{m: nil, name: key}
			}
			return nil
		}
		return env[v]
	}
	var prev *ssa.BasicBlock
	b := fn.Blocks[0]
	for {
		var next *ssa.BasicBlock
		for _, ins := range b.Instrs {
			it.steps++
			if it.steps > it.cfg.MaxSteps {
				it.undecided(ins.Pos(), "step budget exceeded in %s", load.FuncName(fn))
			}
			switch x := ins.(type) {
			case *ssa.DebugRef:
			case *ssa.Alloc:
				if it.cfg.IsElem(x.Type().Underlying().(*types.Pointer).Elem()) {
					// zero value of an element: not a monomial in the inputs
					env[x] = &object{name: x.Comment}
				} else {
					env[x] = &cell{}
				}
			case *ssa.Phi:
				for i, p := range b.Preds {
					if p == prev {
						env[x] = get(x.Edges[i])
					}
				}
			case *ssa.UnOp:
				switch x.Op {
				case token.MUL:
					switch p := get(x.X).(type) {
					case *object:
						env[x] = p.m.clone()
					case *cell:
						env[x] = p.v
					default:
						env[x] = nil
					}
				case token.SUB:
					if n, ok := get(x.X).(*big.Int); ok {
						env[x] = new(big.Int).Neg(n)
					}
				case token.NOT:
					if v, ok := get(x.X).(bool); ok {
						env[x] = !v
					}
				}
			case *ssa.Store:
				switch p := get(x.Addr).(type) {
				case *object:
					if m, ok := get(x.Val).(*Mono); ok {
						p.m = m.clone()
					} else {
						p.m = nil
					}
				case *cell:
					p.v = get(x.Val)
				}
			case *ssa.BinOp:
				env[x] = binop(x.Op, get(x.X), get(x.Y), x.Type())
			case *ssa.Convert:
				env[x] = convert(get(x.X), x.Type())
			case *ssa.ChangeType:
				env[x] = get(x.X)
			case *ssa.Extract:
				if t, ok := get(x.Tuple).(tuple); ok && x.Index < len(t) {
					env[x] = t[x.Index]
				}
			case *ssa.Call:
				var cargs []any
				for _, a := range x.Call.Args {
					cargs = append(cargs, get(a))
				}
				r := it.doCall(x, cargs, depth)
				switch len(r) {
				case 0:
				case 1:
					env[x] = r[0]
				default:
					env[x] = tuple(r)
				}
			case *ssa.If:
				c, ok := get(x.Cond).(bool)
				if !ok {
					it.undecided(x.Cond.Pos(), "%s branches on a value that is not a known integer comparison (%s)", load.FuncName(fn), x.Cond)
				}
				if c {
					next = b.Succs[0]
				} else {
					next = b.Succs[1]
				}
			case *ssa.Jump:
				next = b.Succs[0]
			case *ssa.Return:
				var out []any
				for _, r := range x.Results {
					out = append(out, get(r))
				}
				return out
			case *ssa.Panic:
				it.undecided(x.Pos(), "%s reaches a panic", load.FuncName(fn))
			case *ssa.Defer, *ssa.Go, *ssa.RunDefers, *ssa.Select, *ssa.Send:
				it.undecided(ins.Pos(), "%s uses %T", load.FuncName(fn), ins)
			default:
				// any other value-producing instruction: unknown; address computations inside an
				// element (limb access) mean the routine works below the abstraction
				if v, ok := ins.(ssa.Value); ok {
					env[v] = nil
					switch y := ins.(type) {
					case *ssa.IndexAddr:
						if o, ok := get(y.X).(*object); ok {
							o.m = nil
						}
					case *ssa.FieldAddr:
						if o, ok := get(y.X).(*object); ok {
							o.m = nil
						}
					}
				}
			}
		}
		if next == nil {
			it.undecided(fn.Pos(), "%s: block %d has no terminator the analysis follows", load.FuncName(fn), b.Index)
		}
		prev, b = b, next
	}
}

type cell struct{ v any }

func (it *interp) doCall(x *ssa.Call, args []any, depth int) []any {
	callee := x.Call.StaticCallee()
	if callee == nil {
		// dynamic call: every element object handed over becomes unknown
		for _, a := range args {
			if o, ok := a.(*object); ok {
				o.m = nil
			}
		}
		return unknownResults(x)
	}
	name := load.FuncName(callee)
	mono := func(i int) *Mono {
		if i >= len(args) {
			return nil
		}
		switch a := args[i].(type) {
		case *object:
			return a.m
		case *Mono:
			return a
		}
		return nil
	}
	dst := func() *object {
		if len(args) > 0 {
			if o, ok := args[0].(*object); ok {
				return o
			}
		}
		return nil
	}
	rInv := &Mono{Exp: map[string]*big.Int{"R": big.NewInt(-1)}}
	set := func(m *Mono) []any {
		d := dst()
		if d == nil {
			it.undecided(x.Pos(), "%s: destination of %s is not a tracked object", load.FuncName(x.Parent()), name)
		}
		d.m = m
		return []any{d}
	}
	if k, ok := it.cfg.Prims[name]; ok {
		switch k {
		case KMul:
			return set(Mul(mono(1), mono(2)))
		case KSquare:
			return set(Shl(mono(1), 1))
		case KPow2k:
			n, ok := args[len(args)-1].(*big.Int)
			if !ok || !n.IsUint64() || n.Uint64() > 4096 {
				it.undecided(x.Pos(), "%s: the squaring count of %s is not a known constant", load.FuncName(x.Parent()), name)
			}
			return set(Shl(mono(1), uint(n.Uint64())))
		case KSet:
			return set(mono(1).clone())
		case KNeg:
			return set(Neg(mono(1)))
		case KMontMul:
			return set(Mul(Mul(mono(1), mono(2)), rInv))
		case KMontSq:
			return set(Mul(Shl(mono(1), 1), rInv))
		case KFromMont:
			return set(Mul(mono(1), rInv))
		case KFresh:
			return []any{&object{m: mono(0).clone(), name: name}}
		case KObserve, KObserveW:
			o := Obs{Callee: name, Pos: x.Pos()}
			for i, a := range args {
				switch a.(type) {
				case *object, *Mono:
					o.Args = append(o.Args, mono(i).clone())
				}
			}
			it.obs = append(it.obs, o)
			if k == KObserveW {
				if d := dst(); d != nil {
					d.m = nil
				}
			}
			return unknownResultsKeepRecv(x, args)
		}
	}
	if load.IsModule(callee.Pkg.Pkg) && len(callee.Blocks) > 0 && touchesElems(it.cfg, callee) {
		return it.call(callee, args, depth+1)
	}
	// anything else: objects handed over by pointer become unknown
	for _, a := range args {
		if o, ok := a.(*object); ok {
			o.m = nil
		}
	}
	return unknownResultsKeepRecv(x, args)
}

// touchesElems: the callee has a parameter or result of element (pointer) type.
func touchesElems(cfg *Config, fn *ssa.Function) bool {
	sig := fn.Signature
	chk := func(t types.Type) bool { return cfg.IsElem(t) || isElemPtr(cfg, t) }
	if sig.Recv() != nil && chk(sig.Recv().Type()) {
		return true
	}
	for i := 0; i < sig.Params().Len(); i++ {
		if chk(sig.Params().At(i).Type()) {
			return true
		}
	}
	for i := 0; i < sig.Results().Len(); i++ {
		if chk(sig.Results().At(i).Type()) {
			return true
		}
	}
	return false
}

func unknownResults(x *ssa.Call) []any {
	n := 1
	if t, ok := x.Type().(*types.Tuple); ok {
		n = t.Len()
	}
	return make([]any, n)
}

// unknownResultsKeepRecv: methods returning their receiver keep returning it (fluent style).
func unknownResultsKeepRecv(x *ssa.Call, args []any) []any {
	out := unknownResults(x)
	if len(args) > 0 && len(out) > 0 {
		if o, ok := args[0].(*object); ok {
			rt := x.Type()
			if t, ok := rt.(*types.Tuple); ok && t.Len() > 0 {
				rt = t.At(0).Type()
			}
			if len(x.Call.Args) > 0 && types.Identical(rt, x.Call.Args[0].Type()) {
				out[0] = o
			}
		}
	}
	return out
}

func convert(v any, t types.Type) any {
	n, ok := v.(*big.Int)
	if !ok {
		return nil
	}
	b, ok := t.Underlying().(*types.Basic)
	if !ok || b.Info()&types.IsInteger == 0 {
		return nil
	}
	return wrap(n, b)
}

func wrap(n *big.Int, b *types.Basic) *big.Int {
	bits := uint(64)
	switch b.Kind() {
	case types.Int8, types.Uint8:
		bits = 8
	case types.Int16, types.Uint16:
		bits = 16
	case types.Int32, types.Uint32:
		bits = 32
	case types.Int, types.Uint, types.Uintptr:
		bits = 32 // the narrowest width the library is built for: a count that fits here fits everywhere
	}
	lim := new(big.Int).Lsh(big.NewInt(1), bits-1)
	if n.CmpAbs(lim) >= 0 {
		return nil // would depend on the width: unknown
	}
	if b.Info()&types.IsUnsigned != 0 && n.Sign() < 0 {
		return nil
	}
	return n
}

func binop(op token.Token, a, b any, t types.Type) any {
	x, ok1 := a.(*big.Int)
	y, ok2 := b.(*big.Int)
	if !ok1 || !ok2 {
		if p, ok := a.(bool); ok {
			if q, ok := b.(bool); ok {
				switch op {
				case token.EQL:
					return p == q
				case token.NEQ:
					return p != q
				}
			}
		}
		return nil
	}
	r := new(big.Int)
	switch op {
	case token.ADD:
		r.Add(x, y)
	case token.SUB:
		r.Sub(x, y)
	case token.MUL:
		r.Mul(x, y)
	case token.SHL:
		if !y.IsUint64() || y.Uint64() > 64 {
			return nil
		}
		r.Lsh(x, uint(y.Uint64()))
	case token.SHR:
		if !y.IsUint64() || y.Uint64() > 64 {
			return nil
		}
		r.Rsh(x, uint(y.Uint64()))
	case token.QUO:
		if y.Sign() == 0 {
			return nil
		}
		r.Quo(x, y)
	case token.REM:
		if y.Sign() == 0 {
			return nil
		}
		r.Rem(x, y)
	case token.LSS:
		return x.Cmp(y) < 0
	case token.LEQ:
		return x.Cmp(y) <= 0
	case token.GTR:
		return x.Cmp(y) > 0
	case token.GEQ:
		return x.Cmp(y) >= 0
	case token.EQL:
		return x.Cmp(y) == 0
	case token.NEQ:
		return x.Cmp(y) != 0
	default:
		return nil
	}
	if bt, ok := t.Underlying().(*types.Basic); ok && bt.Info()&types.IsInteger != 0 {
		if w := wrap(r, bt); w != nil {
			return w
		}
		return nil
	}
	return nil
}
